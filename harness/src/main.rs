//! Correspondence harness: runs the real crate on case files and prints one
//! canonical line per case, in exactly the format of the model's Canon.v.
//! Built with `--cfg kiki_verif` so that `kiki::verif_hooks` exists.

mod canon;
mod oset;

use canon::*;
use std::io::{BufRead, Write};
use std::panic::{catch_unwind, AssertUnwindSafe};

fn hex_decode(h: &str) -> Vec<u8> {
    (0..h.len() / 2)
        .map(|i| u8::from_str_radix(&h[2 * i..2 * i + 2], 16).unwrap())
        .collect()
}

fn src_of(h: &str) -> String {
    String::from_utf8(hex_decode(h)).expect("case is not UTF-8")
}

fn guarded<F: FnOnce() -> String>(f: F) -> String {
    match catch_unwind(AssertUnwindSafe(f)) {
        Ok(s) => s,
        Err(_) => "Panic".to_string(),
    }
}

fn main() {
    let args: Vec<String> = std::env::args().collect();
    let cmd = args[1].as_str();
    let path = &args[2];
    std::panic::set_hook(Box::new(|_| {}));
    let file = std::fs::File::open(path).unwrap();
    let out = std::io::stdout();
    let mut out = std::io::BufWriter::new(out.lock());
    for line in std::io::BufReader::new(file).lines() {
        let line = line.unwrap();
        let res = match cmd {
            // <hex of the source>
            "gen" => {
                let src = src_of(line.trim());
                guarded(|| match kiki::generate(&src) {
                    Ok(s) => format!("Ok({})", cs(&s.0)),
                    Err(e) => format!("Err({})", c_err(&e)),
                })
            }
            // generate called three times in this process: all results must be identical
            "gen3" => {
                let src = src_of(line.trim());
                guarded(|| {
                    let one = || match kiki::generate(&src) {
                        Ok(s) => format!("Ok({})", cs(&s.0)),
                        Err(e) => format!("Err({})", c_err(&e)),
                    };
                    let a = one();
                    let b = one();
                    let c = std::thread::spawn({
                        let src = src.clone();
                        move || match kiki::generate(&src) {
                            Ok(s) => format!("Ok({})", cs(&s.0)),
                            Err(e) => format!("Err({})", c_err(&e)),
                        }
                    })
                    .join()
                    .unwrap_or_else(|_| "Panic".to_string());
                    if a == b && b == c {
                        a
                    } else {
                        format!("NONDETERMINISTIC {} {} {}", a, b, c)
                    }
                })
            }
            "tok" => {
                let src = src_of(line.trim());
                guarded(|| match kiki::verif_hooks::tokenize_src(&src) {
                    Ok(ts) => format!("Ok({})", cl(ts.iter().map(c_token))),
                    Err(e) => format!("Err({})", c_err(&e)),
                })
            }
            "hash" => {
                let src = src_of(line.trim());
                guarded(|| match kiki::get_grammar_hash(kiki::RustSrcRef(&src)) {
                    Some(h) => format!("Some({})", cs(h)),
                    None => "None".to_string(),
                })
            }
            "mt" => {
                let src = src_of(line.trim());
                guarded(|| match kiki::verif_hooks::machine_and_table(&src) {
                    Ok((f, m, t)) => format!(
                        "Ok(MT({},{},{}))",
                        c_vfile(&f),
                        c_machine(&m),
                        match t {
                            Ok(t) => format!("Ok({})", c_table(&t)),
                            Err(e) => format!("Err({})", c_err(&e)),
                        }
                    ),
                    Err(e) => format!("Err({})", c_err(&e)),
                })
            }
            "fm" => {
                let src = src_of(line.trim());
                guarded(|| match kiki::verif_hooks::first_sets(&src) {
                    Ok(fm) => format!(
                        "Ok({})",
                        cl(fm.iter().map(|(n, ts, e)| format!(
                            "F({},{},{})",
                            cs(n),
                            cl(ts.iter().map(|t| cs(t))),
                            if *e { 1 } else { 0 }
                        )))
                    ),
                    Err(e) => format!("Err({})", c_err(&e)),
                })
            }
            "oset" => guarded(|| oset::run_line(&line)),
            _ => panic!("unknown command"),
        };
        writeln!(out, "{}", res).unwrap();
    }
}
