//! Canonical rendering of the crate's values; must agree character for
//! character with coq/Canon.v.

use kiki::data::ast::{Fieldset, IdentOrTerminalIdent, IdentOrUnderscore, TupleField};
use kiki::data::machine::{Lookahead, Machine, RuleIndex, StateItem};
use kiki::data::table::{Action, Goto, Table};
use kiki::data::token::{Attribute, Ident, TerminalIdent, Token};
use kiki::data::validated_file::{File, Nonterminal};
use kiki::{KikiErr, Symbol};

pub fn cs(s: &str) -> String {
    let mut out = String::with_capacity(1 + 2 * s.len());
    out.push('x');
    for b in s.bytes() {
        out.push_str(&format!("{:02x}", b));
    }
    out
}

pub fn cl<I: Iterator<Item = String>>(it: I) -> String {
    format!("[{}]", it.collect::<Vec<_>>().join(","))
}

fn c_ident(i: &Ident) -> String {
    format!("Ident({},{})", cs(&i.name), i.position.0)
}

fn c_tident(t: &TerminalIdent) -> String {
    format!("Terminal({},{})", cs(t.name.raw()), t.dollarless_position.0)
}

fn c_attr(a: &Attribute) -> String {
    format!("Attr({},{})", cs(&a.src), a.position.0)
}

pub fn c_token(t: &Token) -> String {
    match t {
        Token::Underscore(p) => format!("Underscore({})", p.0),
        Token::Ident(i) => format!("Ident({},{})", cs(&i.name), i.position.0),
        Token::TerminalIdent(i) => {
            format!("TerminalIdent({},{})", cs(i.name.raw()), i.dollarless_position.0)
        }
        Token::OuterAttribute(a) => format!("OuterAttribute({},{})", cs(&a.src), a.position.0),
        Token::StartKw(p) => format!("StartKw({})", p.0),
        Token::StructKw(p) => format!("StructKw({})", p.0),
        Token::EnumKw(p) => format!("EnumKw({})", p.0),
        Token::TerminalKw(p) => format!("TerminalKw({})", p.0),
        Token::Colon(p) => format!("Colon({})", p.0),
        Token::DoubleColon(p) => format!("DoubleColon({})", p.0),
        Token::Comma(p) => format!("Comma({})", p.0),
        Token::LParen(p) => format!("LParen({})", p.0),
        Token::RParen(p) => format!("RParen({})", p.0),
        Token::LCurly(p) => format!("LCurly({})", p.0),
        Token::RCurly(p) => format!("RCurly({})", p.0),
        Token::LAngle(p) => format!("LAngle({})", p.0),
        Token::RAngle(p) => format!("RAngle({})", p.0),
    }
}

fn c_symbol(s: &Symbol) -> String {
    match s {
        Symbol::Terminal(t) => format!("T({})", cs(t.raw())),
        Symbol::Nonterminal(n) => format!("N({})", cs(n)),
    }
}

fn c_iot(s: &IdentOrTerminalIdent) -> String {
    match s {
        IdentOrTerminalIdent::Ident(i) => c_ident(i),
        IdentOrTerminalIdent::Terminal(t) => c_tident(t),
    }
}

fn c_fieldset(fs: &Fieldset) -> String {
    match fs {
        Fieldset::Empty => "Empty".to_string(),
        Fieldset::Named(n) => format!(
            "Named({})",
            cl(n.fields.iter().map(|f| format!(
                "F({},{})",
                match &f.name {
                    IdentOrUnderscore::Ident(i) => c_ident(i),
                    IdentOrUnderscore::Underscore(p) => format!("Underscore({})", p.0),
                },
                c_iot(&f.symbol)
            )))
        ),
        Fieldset::Tuple(t) => format!(
            "Tuple({})",
            cl(t.fields.iter().map(|f| match f {
                TupleField::Used(s) => format!("Used({})", c_iot(s)),
                TupleField::Skipped(s) => format!("Skipped({})", c_iot(s)),
            }))
        ),
    }
}

fn c_nonterminal(n: &Nonterminal) -> String {
    match n {
        Nonterminal::Struct(s) => format!(
            "Struct({},{},{})",
            cl(s.attributes.iter().map(c_attr)),
            c_ident(&s.name),
            c_fieldset(&s.fieldset)
        ),
        Nonterminal::Enum(e) => format!(
            "Enum({},{},{})",
            cl(e.attributes.iter().map(c_attr)),
            c_ident(&e.name),
            cl(e.variants.iter().map(|v| format!(
                "Variant({},{})",
                c_ident(&v.name),
                c_fieldset(&v.fieldset)
            )))
        ),
    }
}

pub fn c_vfile(f: &File) -> String {
    format!(
        "File({},TEnum({},{},{}),{})",
        cs(&f.start),
        cl(f.terminal_enum.attributes.iter().map(c_attr)),
        cs(&f.terminal_enum.name),
        cl(f.terminal_enum.variants.iter().map(|v| format!(
            "V({},{})",
            cs(v.dollarless_name.raw()),
            cs(&v.type_)
        ))),
        cl(f.nonterminals.iter().map(c_nonterminal))
    )
}

fn c_item(i: &StateItem) -> String {
    format!(
        "I({},{},{})",
        match i.rule_index {
            RuleIndex::Original(n) => format!("R({})", n),
            RuleIndex::Augmented => "Aug".to_string(),
        },
        match &i.lookahead {
            Lookahead::Terminal(t) => format!("T({})", cs(t.raw())),
            Lookahead::Eof => "Eof".to_string(),
        },
        i.dot
    )
}

pub fn c_machine(m: &Machine) -> String {
    format!(
        "Machine({},{},{})",
        m.start.0,
        cl(m.states.iter().map(|s| cl(s.items.iter().map(c_item)))),
        cl(m.transitions.iter().map(|t| format!(
            "Tr({},{},{})",
            t.from.0,
            t.to.0,
            c_symbol(&t.symbol)
        )))
    )
}

pub fn c_table(t: &Table) -> String {
    format!(
        "Table({},{},{},{},{})",
        t.start.0,
        cl(t.terminals.iter().map(|x| cs(x.raw()))),
        cl(t.nonterminals.iter().map(|x| cs(x))),
        cl(t.actions.iter().map(|a| match a {
            Action::Shift(s) => format!("S({})", s.0),
            Action::Reduce(r) => format!("R({})", r),
            Action::Accept => "Acc".to_string(),
            Action::Err => "E".to_string(),
        })),
        cl(t.gotos.iter().map(|g| match g {
            Goto::State(s) => format!("G({})", s.0),
            Goto::Err => "E".to_string(),
        }))
    )
}

pub fn c_err(e: &KikiErr) -> String {
    match e {
        KikiErr::Lex(i, c) => format!(
            "Lex({},{})",
            i.0,
            match c {
                Some(c) => format!("Some({})", *c as u32),
                None => "None".to_string(),
            }
        ),
        KikiErr::Parse(s, content, e) => format!("Parse({},{},{})", s.0, cs(content), e.0),
        KikiErr::NoStartSymbol => "NoStartSymbol".to_string(),
        KikiErr::MultipleStartSymbols(l) => {
            format!("MultipleStartSymbols({})", cl(l.iter().map(|p| p.0.to_string())))
        }
        KikiErr::NoTerminalEnum => "NoTerminalEnum".to_string(),
        KikiErr::MultipleTerminalEnums(l) => {
            format!("MultipleTerminalEnums({})", cl(l.iter().map(|p| p.0.to_string())))
        }
        KikiErr::SymbolOrTerminalEnumNameFirstLetterNotUppercase(p) => {
            format!("SymbolOrTerminalEnumNameFirstLetterNotUppercase({})", p.0)
        }
        KikiErr::FieldFirstLetterNotLowercase(p) => {
            format!("FieldFirstLetterNotLowercase({})", p.0)
        }
        KikiErr::NameClash(n, a, b) => format!("NameClash({},{},{})", cs(n), a.0, b.0),
        KikiErr::NonterminalEnumVariantNameClash(n, a, b) => {
            format!("NonterminalEnumVariantNameClash({},{},{})", cs(n), a.0, b.0)
        }
        KikiErr::NonterminalEnumVariantSymbolSequenceClash(l, a, b) => format!(
            "NonterminalEnumVariantSymbolSequenceClash({},{},{})",
            cl(l.iter().map(c_symbol)),
            a.0,
            b.0
        ),
        KikiErr::UndefinedNonterminal(n, p) => format!("UndefinedNonterminal({},{})", cs(n), p.0),
        KikiErr::UndefinedTerminal(n, p) => {
            format!("UndefinedTerminal({},{})", cs(n.raw()), p.0)
        }
        KikiErr::TableConflict(c) => format!(
            "TableConflict({},{},{},{},{})",
            c.state_index.0,
            c_item(&c.items.0),
            c_item(&c.items.1),
            c_vfile(&c.file),
            c_machine(&c.machine)
        ),
    }
}
