//! Oset operation scripts against the real `kiki::Oset`, with `BTreeSet` as an
//! independent oracle.  Line format: see ocaml/driver.ml.

use kiki::Oset;
use std::collections::BTreeSet;

trait Elt: Ord + Clone {
    fn parse(w: &str) -> Self;
    fn show(&self) -> String;
}

impl Elt for u64 {
    fn parse(w: &str) -> Self {
        w.parse().unwrap()
    }
    fn show(&self) -> String {
        self.to_string()
    }
}

impl Elt for (u64, u64) {
    fn parse(w: &str) -> Self {
        let mut it = w.split('.');
        (it.next().unwrap().parse().unwrap(), it.next().unwrap().parse().unwrap())
    }
    fn show(&self) -> String {
        format!("{}.{}", self.0, self.1)
    }
}

impl Elt for String {
    fn parse(w: &str) -> Self {
        if w == "-" {
            return String::new();
        }
        let bytes: Vec<u8> = (0..w.len() / 2)
            .map(|i| u8::from_str_radix(&w[2 * i..2 * i + 2], 16).unwrap())
            .collect();
        String::from_utf8(bytes).unwrap()
    }
    fn show(&self) -> String {
        crate::canon::cs(self)
    }
}

/// The same elements through iterators of different kinds: exact-size, lower size bound 0
/// (filter, flat_map, from_fn, scan), chained, peekable, and another set's own iterator —
/// the property quantifies over "construction from an iterator" and "extend", not over Vec.
fn feed<'a, T: Elt + 'a>(xs: Vec<T>, k: usize) -> Box<dyn Iterator<Item = T> + 'a> {
    match k % 8 {
        0 => Box::new(xs.into_iter()),
        1 => Box::new(xs.into_iter().filter(|_| true)),
        2 => Box::new(xs.into_iter().flat_map(Some)),
        3 => {
            let mut it = xs.into_iter();
            Box::new(std::iter::from_fn(move || it.next()))
        }
        4 => {
            let mid = xs.len() / 2;
            let (a, b) = (xs[..mid].to_vec(), xs[mid..].to_vec());
            Box::new(a.into_iter().chain(b.into_iter().filter(|_| true)))
        }
        5 => Box::new(xs.into_iter().peekable()),
        6 => Box::new(xs.into_iter().scan((), |_, x| Some(x))),
        _ => Box::new(xs.into_iter().rev().collect::<Vec<_>>().into_iter().rev()),
    }
}

fn show_set<T: Elt>(s: &Oset<T>) -> String {
    format!("[{}]", s.into_iter().map(|x| x.show()).collect::<Vec<_>>().join(","))
}

/// Returns the final set, the trace, and whether every intermediate set agreed
/// with the BTreeSet oracle (iteration order, membership, deref'd slice).
fn run_script<T: Elt>(script: &str) -> (Oset<T>, String, bool) {
    let mut s: Oset<T> = Oset::new();
    let mut oracle: BTreeSet<T> = BTreeSet::new();
    let mut trace = String::new();
    let mut agree = true;
    for (opi, op) in script.trim().split(';').filter(|w| !w.is_empty()).enumerate() {
        let (kind, arg) = (op.as_bytes()[0], &op[2..]);
        let adaptor = opi + script.len();
        let elems = |a: &str| -> Vec<T> {
            a.split(',').filter(|w| !w.is_empty()).map(T::parse).collect()
        };
        match kind {
            b'i' => {
                let x = T::parse(arg);
                s.insert(x.clone());
                oracle.insert(x);
                trace.push_str(&show_set(&s));
            }
            b'e' => {
                let xs = elems(arg);
                s.extend(feed(xs.clone(), adaptor));
                oracle.extend(xs);
                trace.push_str(&show_set(&s));
            }
            b'f' => {
                let xs = elems(arg);
                s = feed(xs.clone(), adaptor).collect();
                oracle = xs.into_iter().collect();
                trace.push_str(&show_set(&s));
            }
            b'c' => {
                let x = T::parse(arg);
                let c = s.contains(&x);
                agree &= c == oracle.contains(&x);
                trace.push_str(if c { "c1" } else { "c0" });
            }
            _ => panic!("op"),
        }
        trace.push(';');
        let via_iter: Vec<T> = (&s).into_iter().cloned().collect();
        let via_deref: Vec<T> = s.to_vec();
        let want: Vec<T> = oracle.iter().cloned().collect();
        agree &= via_iter == want && via_deref == want;
    }
    (s, trace, agree)
}

fn line_for<T: Elt>(rest: &str) -> String {
    let (l, r) = match rest.find('|') {
        Some(i) => (&rest[..i], &rest[i + 1..]),
        None => (rest, ""),
    };
    let (s1, o1, a1) = run_script::<T>(l);
    let (s2, o2, a2) = run_script::<T>(r);
    let c = match s1.cmp(&s2) {
        std::cmp::Ordering::Less => "L",
        std::cmp::Ordering::Equal => "E",
        std::cmp::Ordering::Greater => "G",
    };
    let mut out = format!("{}|{}|eq={},cmp={}", o1, o2, if s1 == s2 { "1" } else { "0" }, c);
    if !(a1 && a2) {
        out.push_str(" ORACLE-DISAGREES");
    }
    out
}

pub fn run_line(line: &str) -> String {
    let ty = line.as_bytes()[0];
    let rest = &line[2..];
    match ty {
        b'n' => line_for::<u64>(rest),
        b'p' => line_for::<(u64, u64)>(rest),
        b's' => line_for::<String>(rest),
        _ => panic!("oset type"),
    }
}
