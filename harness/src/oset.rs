//! Oset operation scripts against the real `kiki::Oset`, with `BTreeSet` as an
//! independent oracle.  Line format: see ocaml/driver.ml.

use kiki::Oset;
use std::collections::BTreeSet;

trait Elt: Ord + Clone {
    fn parse(w: &str) -> Self;
    fn show(&self) -> String;
}

impl Elt for u64 {
    fn parse(w: &str) -> Self {
        w.parse().unwrap()
    }
    fn show(&self) -> String {
        self.to_string()
    }
}

impl Elt for (u64, u64) {
    fn parse(w: &str) -> Self {
        let mut it = w.split('.');
        (it.next().unwrap().parse().unwrap(), it.next().unwrap().parse().unwrap())
    }
    fn show(&self) -> String {
        format!("{}.{}", self.0, self.1)
    }
}

impl Elt for String {
    fn parse(w: &str) -> Self {
        if w == "-" {
            return String::new();
        }
        let bytes: Vec<u8> = (0..w.len() / 2)
            .map(|i| u8::from_str_radix(&w[2 * i..2 * i + 2], 16).unwrap())
            .collect();
        String::from_utf8(bytes).unwrap()
    }
    fn show(&self) -> String {
        crate::canon::cs(self)
    }
}

fn show_set<T: Elt>(s: &Oset<T>) -> String {
    format!("[{}]", s.into_iter().map(|x| x.show()).collect::<Vec<_>>().join(","))
}

/// Returns the final set, the trace, and whether every intermediate set agreed
/// with the BTreeSet oracle (iteration order, membership, deref'd slice).
fn run_script<T: Elt>(script: &str) -> (Oset<T>, String, bool) {
    let mut s: Oset<T> = Oset::new();
    let mut oracle: BTreeSet<T> = BTreeSet::new();
    let mut trace = String::new();
    let mut agree = true;
    for op in script.trim().split(';').filter(|w| !w.is_empty()) {
        let (kind, arg) = (op.as_bytes()[0], &op[2..]);
        let elems = |a: &str| -> Vec<T> {
            a.split(',').filter(|w| !w.is_empty()).map(T::parse).collect()
        };
        match kind {
            b'i' => {
                let x = T::parse(arg);
                s.insert(x.clone());
                oracle.insert(x);
                trace.push_str(&show_set(&s));
            }
            b'e' => {
                let xs = elems(arg);
                s.extend(xs.clone());
                oracle.extend(xs);
                trace.push_str(&show_set(&s));
            }
            b'f' => {
                let xs = elems(arg);
                s = xs.clone().into_iter().collect();
                oracle = xs.into_iter().collect();
                trace.push_str(&show_set(&s));
            }
            b'c' => {
                let x = T::parse(arg);
                let c = s.contains(&x);
                agree &= c == oracle.contains(&x);
                trace.push_str(if c { "c1" } else { "c0" });
            }
            _ => panic!("op"),
        }
        trace.push(';');
        let via_iter: Vec<T> = (&s).into_iter().cloned().collect();
        let via_deref: Vec<T> = s.to_vec();
        let want: Vec<T> = oracle.iter().cloned().collect();
        agree &= via_iter == want && via_deref == want;
    }
    (s, trace, agree)
}

fn line_for<T: Elt>(rest: &str) -> String {
    let (l, r) = match rest.find('|') {
        Some(i) => (&rest[..i], &rest[i + 1..]),
        None => (rest, ""),
    };
    let (s1, o1, a1) = run_script::<T>(l);
    let (s2, o2, a2) = run_script::<T>(r);
    let c = match s1.cmp(&s2) {
        std::cmp::Ordering::Less => "L",
        std::cmp::Ordering::Equal => "E",
        std::cmp::Ordering::Greater => "G",
    };
    let mut out = format!("{}|{}|eq={},cmp={}", o1, o2, if s1 == s2 { "1" } else { "0" }, c);
    if !(a1 && a2) {
        out.push_str(" ORACLE-DISAGREES");
    }
    out
}

pub fn run_line(line: &str) -> String {
    let ty = line.as_bytes()[0];
    let rest = &line[2..];
    match ty {
        b'n' => line_for::<u64>(rest),
        b'p' => line_for::<(u64, u64)>(rest),
        b's' => line_for::<String>(rest),
        _ => panic!("oset type"),
    }
}
