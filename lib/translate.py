"""Translators: regenerate the parts of the Coq model that are read off the
source on every run.

  Gen/KikiTables.v  <- kiki/src/parser.rs  (ACTION/GOTO tables, start state,
                       kind enumerations, reduce-function shapes)
                       kiki/src/parser.kiki (rules of the front-end grammar)
  Gen/Template.v    <- kiki/src/pipeline/table_to_rust.rs (the `format!`
                       template of file_src, the &str constants)

Each reader fails loudly (TranslateError) on anything it does not recognise.
"""
import os
import re


class TranslateError(Exception):
    pass


def _need(cond, msg):
    if not cond:
        raise TranslateError(msg)


# ---------------------------------------------------------------- parser.rs

def _enum_variants(src, name):
    m = re.search(r'\nenum %s \{\n(.*?)\n\}' % re.escape(name), src, re.S)
    _need(m, 'enum %s not found in parser.rs' % name)
    out = []
    for line in m.group(1).split('\n'):
        line = line.strip()
        if not line:
            continue
        mm = re.fullmatch(r'([A-Za-z_][A-Za-z0-9_]*) = (\d+),', line)
        _need(mm, 'unrecognised variant line in enum %s: %r' % (name, line))
        _need(int(mm.group(2)) == len(out), 'non-sequential discriminant in enum %s' % name)
        out.append(mm.group(1))
    return out


def _table(src, name, cell_re, conv):
    m = re.search(r'\n(?:static|const) %s: \[\[(.*?); (\d+)\]; (\d+)\] = \[\n(.*?)\n\];' % name, src, re.S)
    _need(m, 'static %s not found' % name)
    cols, rows = int(m.group(2)), int(m.group(3))
    body = m.group(4)
    out, cur, depth = [], None, 0
    for line in body.split('\n'):
        line = line.strip()
        if line == '[':
            _need(cur is None, 'nested row in %s' % name)
            cur = []
        elif line == '],':
            _need(cur is not None, 'stray row end in %s' % name)
            _need(len(cur) == cols, 'row of %s has %d cells, expected %d' % (name, len(cur), cols))
            out.append(cur)
            cur = None
        elif line:
            mm = re.fullmatch(cell_re, line)
            _need(mm and cur is not None, 'unrecognised cell in %s: %r' % (name, line))
            cur.append(conv(mm))
    _need(len(out) == rows, '%s has %d rows, expected %d' % (name, len(out), rows))
    return out, rows, cols


def read_parser_rs(path):
    src = open(path, encoding='utf-8').read()
    terms = _enum_variants(src, 'QuasiterminalKind')
    _need(terms and terms[-1] == 'Eof', 'QuasiterminalKind must end with Eof')
    terms = terms[:-1]
    nts = _enum_variants(src, 'NonterminalKind')
    states = _enum_variants(src, 'State')
    rules = _enum_variants(src, 'RuleKind')

    def conv_action(mm):
        s = mm.group(1)
        m1 = re.fullmatch(r'Shift\(State::S(\d+)\)', s)
        if m1:
            return 'AShift %s' % m1.group(1)
        m1 = re.fullmatch(r'Reduce\(RuleKind::R(\d+)\)', s)
        if m1:
            return 'AReduce %s' % m1.group(1)
        if s == 'Accept':
            return 'AAccept'
        if s == 'Err':
            return 'AErr'
        raise TranslateError('unrecognised action %r' % s)

    actions, arows, acols = _table(src, 'ACTION_TABLE', r'Action::(.*),', conv_action)

    def conv_goto(mm):
        s = mm.group(1)
        if s == 'None':
            return 'None'
        m1 = re.fullmatch(r'Some\(State::S(\d+)\)', s)
        _need(m1, 'unrecognised goto %r' % s)
        return 'Some %s' % m1.group(1)

    gotos, grows, gcols = _table(src, 'GOTO_TABLE', r'(.*),', conv_goto)
    _need(arows == len(states) == grows, 'table heights differ from the State enum')
    _need(acols == len(terms) + 1, 'ACTION_TABLE width')
    _need(gcols == len(nts), 'GOTO_TABLE width')

    m = re.search(r'let mut states = vec!\[State::S(\d+)\];', src)
    _need(m, 'start state not found')
    start = int(m.group(1))
    m = re.search(r'return Ok\(([A-Za-z_][A-Za-z0-9_]*)::try_from\(nodes\.pop\(\)\.unwrap\(\)\)\.ok\(\)\.unwrap\(\)\);', src)
    _need(m and m.group(1) in nts, 'start nonterminal not found')
    start_nt = nts.index(m.group(1))

    # the driver loop, verbatim, for comparison with the text Driver.v was written against
    m = re.search(r'\npub fn parse<.*?\n\}\n', src, re.S)
    _need(m, 'parse function not found')
    driver_text = m.group(0)

    # reduce functions: popped children (right to left) and the produced kind
    shapes = []
    for i in range(len(rules)):
        m = re.search(r'\nfn reduce_r%d\((_?)states: &mut Vec<State>, (_?)nodes: &mut Vec<Node>\) -> \(Node, NonterminalKind\) \{\n(.*?)\n\}\n' % i, src, re.S)
        if m:
            body = m.group(3)
        else:
            # older layout: the reduction code is inline in the arms of pop_and_reduce
            m = re.search(r'\n        RuleKind::R%d => \{\n(.*?)\n        \}\n' % i, src, re.S)
            _need(m, 'neither reduce_r%d nor an inline RuleKind::R%d arm found' % (i, i))
            body = m.group(1)
        pops = []
        for line in body.split('\n'):
            line = line.strip()
            if 'nodes.pop()' not in line:
                continue
            if line == 'nodes.pop().unwrap();':
                pops.append(None)
                continue
            m1 = re.fullmatch(r'let [A-Za-z_0-9]+ = Box::new\(([A-Za-z_][A-Za-z0-9_]*)::try_from\(nodes\.pop\(\)\.unwrap\(\)\)\.ok\(\)\.unwrap\(\)\);', line)
            if m1:
                _need(m1.group(1) in nts, 'unknown nonterminal %s in reduce_r%d' % (m1.group(1), i))
                pops.append(('N', nts.index(m1.group(1))))
                continue
            m1 = re.fullmatch(r'let [A-Za-z_0-9]+ = nodes\.pop\(\)\.unwrap\(\)\.try_into_[a-z_0-9]*_(\d+)\(\)\.ok\(\)\.unwrap\(\);', line)
            _need(m1, 'unrecognised pop in reduce_r%d: %r' % (i, line))
            pops.append(('T', int(m1.group(1))))
        mt = re.search(r'states\.truncate\(states\.len\(\) - (\d+)\);', body)
        n = int(mt.group(1)) if mt else 0
        _need(n == len(pops), 'reduce_r%d pops %d nodes but truncates %d states' % (i, len(pops), n))
        mk = re.search(r'NonterminalKind::([A-Za-z_][A-Za-z0-9_]*),\n\s*\)\s*$', body)
        _need(mk and mk.group(1) in nts, 'produced kind of reduce_r%d not found' % i)
        shapes.append((nts.index(mk.group(1)), list(reversed(pops))))
    return dict(terms=terms, nts=nts, nstates=len(states), actions=actions, gotos=gotos,
                start=start, start_nt=start_nt, shapes=shapes, driver_text=driver_text)


# -------------------------------------------------------------- parser.kiki

_TOK = re.compile(r'\s+|//[^\n]*|#\[[^\n]*\]|\$?[A-Za-z_][A-Za-z0-9_]*|::|[:,(){}<>]')


def _kiki_tokens(text):
    pos, out = 0, []
    while pos < len(text):
        m = _TOK.match(text, pos)
        _need(m, 'parser.kiki: cannot tokenise at offset %d' % pos)
        t = m.group(0)
        pos = m.end()
        if t.isspace() or t.startswith('//') or t.startswith('#['):
            continue
        out.append(t)
    return out


def read_kiki_grammar(path):
    """Returns (start, terminals, [(nonterminal, [(variant or None, [(symbol, used)])])])."""
    toks = _kiki_tokens(open(path, encoding='utf-8').read())
    i = 0
    start, terminals, nts = None, None, []

    def fieldset():
        nonlocal i
        fields = []
        if i < len(toks) and toks[i] == '{':
            i += 1
            while toks[i] != '}':
                name = toks[i]
                _need(toks[i + 1] == ':', 'parser.kiki: expected : in named field')
                fields.append((toks[i + 2], name != '_'))
                i += 3
            i += 1
        elif i < len(toks) and toks[i] == '(':
            i += 1
            while toks[i] != ')':
                if toks[i] == '_':
                    _need(toks[i + 1] == ':', 'parser.kiki: expected : after _')
                    fields.append((toks[i + 2], False))
                    i += 3
                else:
                    fields.append((toks[i], True))
                    i += 1
            i += 1
        return fields

    while i < len(toks):
        t = toks[i]
        if t == 'start':
            start = toks[i + 1]
            i += 2
        elif t == 'struct':
            name = toks[i + 1]
            i += 2
            nts.append((name, [(None, fieldset())]))
        elif t == 'enum':
            name = toks[i + 1]
            _need(toks[i + 2] == '{', 'parser.kiki: expected { after enum name')
            i += 3
            variants = []
            while toks[i] != '}':
                vname = toks[i]
                i += 1
                variants.append((vname, fieldset()))
            i += 1
            nts.append((name, variants))
        elif t == 'terminal':
            _need(toks[i + 2] == '{', 'parser.kiki: expected { after terminal name')
            i += 3
            terminals = []
            while toks[i] != '}':
                _need(toks[i].startswith('$') and toks[i + 1] == ':', 'parser.kiki: bad terminal variant')
                terminals.append(toks[i][1:])
                i += 2
                # the payload type: everything up to the next `$Variant` or `}`
                while toks[i] != '}' and not toks[i].startswith('$'):
                    i += 1
            i += 1
        else:
            raise TranslateError('parser.kiki: unexpected token %r' % t)
    _need(start and terminals is not None, 'parser.kiki: start or terminal declaration missing')
    return start, terminals, nts


def coq_string(s):
    return '"' + s.replace('"', '""') + '"'


def gen_kiki_tables(repo):
    rs = read_parser_rs(os.path.join(repo, 'kiki/src/parser.rs'))
    start, terminals, nts = read_kiki_grammar(os.path.join(repo, 'kiki/src/parser.kiki'))
    nt_names = [n for n, _ in nts]

    def sym(s):
        if s.startswith('$'):
            _need(s[1:] in terminals, 'parser.kiki: undefined terminal %s' % s)
            return 'PT %d' % terminals.index(s[1:])
        _need(s in nt_names, 'parser.kiki: undefined nonterminal %s' % s)
        return 'PN %d' % nt_names.index(s)

    L = []
    L.append('(* GENERATED on every run by lib/translate.py from kiki/src/parser.rs and kiki/src/parser.kiki. *)')
    L.append('From Coq Require Import List String.')
    L.append('From Kiki Require Import Data LR.Driver.')
    L.append('Import ListNotations. Open Scope nat_scope. Open Scope string_scope.')
    L.append('')
    L.append('Definition rs_terminals : list string := [%s].' % '; '.join(coq_string(t) for t in rs['terms']))
    L.append('Definition rs_nonterminals : list string := [%s].' % '; '.join(coq_string(t) for t in rs['nts']))
    L.append('Definition rs_start_state : nat := %d.' % rs['start'])
    L.append('Definition rs_start_nt : nat := %d.' % rs['start_nt'])
    L.append('Definition rs_action : list (list action) := [')
    L.append(';\n'.join('  [%s]' % '; '.join(r) for r in rs['actions']))
    L.append('].')
    L.append('Definition rs_goto : list (list (option nat)) := [')
    L.append(';\n'.join('  [%s]' % '; '.join(r) for r in rs['gotos']))
    L.append('].')
    L.append('(* per reduce function: produced kind, and per child (left to right) the kind it is')
    L.append('   checked against, None when the child is popped without a check *)')
    L.append('Definition rs_shapes : list (nat * list (option psym)) := [')
    rows = []
    for lhs, pops in rs['shapes']:
        cells = []
        for p in pops:
            if p is None:
                cells.append('None')
            elif p[0] == 'N':
                cells.append('Some (PN %d)' % p[1])
            else:
                cells.append('Some (PT %d)' % p[1])
        rows.append('  (%d, [%s])' % (lhs, '; '.join(cells)))
    L.append(';\n'.join(rows))
    L.append('].')
    L.append('Definition rs_driver_text : string := %s.' % coq_string(rs['driver_text']))
    L.append('')
    L.append('Definition src_terminals : list string := [%s].' % '; '.join(coq_string(t) for t in terminals))
    L.append('Definition src_nonterminals : list string := [%s].' % '; '.join(coq_string(t) for t in nt_names))
    L.append('Definition src_start_nt : nat := %d.' % nt_names.index(start))
    L.append('Definition src_rules : list prule := [')
    rows = []
    for ni, (n, variants) in enumerate(nts):
        for v, fields in variants:
            rows.append('  {| pr_lhs := %d; pr_rhs := [%s]; pr_used := [%s] |}' % (
                ni, '; '.join(sym(s) for s, _ in fields),
                '; '.join('true' if u else 'false' for _, u in fields)))
    L.append(';\n'.join(rows))
    L.append('].')
    kiki_text = open(os.path.join(repo, 'kiki/src/parser.kiki'), encoding='utf-8').read()
    _need(all(ord(c) < 128 for c in kiki_text), 'parser.kiki: non-ASCII text')
    L.append('(* the text of parser.kiki itself *)')
    L.append('Definition parser_kiki_src : string := %s.' % coq_string(kiki_text))
    return '\n'.join(L) + '\n'


# ------------------------------------------------------- table_to_rust.rs

def read_template(path):
    src = open(path, encoding='utf-8').read()
    m = re.search(r'RustSrc\(format!\(\n\s*r#"(.*?)"#\n\s*\)\)', src, re.S)
    _need(m, 'file_src template not found in table_to_rust.rs')
    raw = m.group(1)
    segs, lit, i = [], [], 0
    while i < len(raw):
        c = raw[i]
        if c == '{':
            if raw.startswith('{{', i):
                lit.append('{')
                i += 2
                continue
            j = raw.index('}', i)
            name = raw[i + 1:j]
            _need(re.fullmatch(r'[A-Za-z_][A-Za-z0-9_]*', name), 'unsupported format hole {%s}' % name)
            if lit:
                segs.append(('lit', ''.join(lit)))
                lit = []
            segs.append(('hole', name))
            i = j + 1
        elif c == '}':
            _need(raw.startswith('}}', i), 'stray } in template')
            lit.append('}')
            i += 2
        else:
            _need(ord(c) < 128, 'non-ASCII character in template')
            lit.append(c)
            i += 1
    if lit:
        segs.append(('lit', ''.join(lit)))
    consts = re.findall(r'\nconst ([A-Z_]+): &str = "([^"\\]*)";', src)
    return segs, consts


def gen_template(repo):
    segs, consts = read_template(os.path.join(repo, 'kiki/src/pipeline/table_to_rust.rs'))
    L = []
    L.append('(* GENERATED on every run by lib/translate.py from kiki/src/pipeline/table_to_rust.rs. *)')
    L.append('From Coq Require Import List String.')
    L.append('From Kiki Require Import Emit.Emit.')
    L.append('Import ListNotations. Open Scope string_scope.')
    L.append('')
    L.append('Definition file_template : list tseg := [')
    L.append(';\n'.join('  %s %s' % ('TLit' if k == 'lit' else 'THole', coq_string(v)) for k, v in segs))
    L.append('].')
    L.append('Definition template_consts : list (string * string) := [')
    L.append(';\n'.join('  (%s, %s)' % (coq_string(k), coq_string(v)) for k, v in consts))
    L.append('].')
    return '\n'.join(L) + '\n'


def gen_kiki_ann(repo):
    """Untrusted hints for the validator run on the tables of parser.rs: the item annotation of every
    state and a FIRST table (brute force, lib/lrhint.py).  Checked inside Coq."""
    import lrhint
    rs = read_parser_rs(os.path.join(repo, 'kiki/src/parser.rs'))
    start, terminals, nts = read_kiki_grammar(os.path.join(repo, 'kiki/src/parser.kiki'))
    nt_names = [n for n, _ in nts]
    rules = []
    for n, variants in nts:
        for v, fields in variants:
            rules.append((n, [('T', s[1:]) if s.startswith('$') else ('N', s) for s, _ in fields]))

    def act(a):
        k = a.split(' ')
        return {'AShift': ('S', int(k[1]) if len(k) > 1 else 0), 'AReduce': ('R', int(k[1]) if len(k) > 1 else 0),
                'AAccept': ('Acc',), 'AErr': ('E',)}[k[0]]
    actions = [[act(a) for a in row] for row in rs['actions']]
    gotos = [[None if g == 'None' else int(g.split(' ')[1]) for g in row] for row in rs['gotos']]
    states, ref = lrhint.annotate_table(rules, start, terminals, nt_names, rs['start'], actions, gotos)
    tidx = {t: i for i, t in enumerate(terminals)}
    cert = lrhint.termination_certificate(len(terminals), len(nt_names), actions, gotos, [(l, len(p)) for l, p in rs['shapes']])
    K, phi = cert if cert is not None else (0, [])
    L = ['(* GENERATED on every run by lib/translate.py: untrusted hints for LR/Validate.v. *)',
         'From Coq Require Import List.', 'From Kiki Require Import Data LR.Driver LR.Grammar LR.Validate.',
         'Import ListNotations. Open Scope nat_scope.', '',
         'Definition kiki_ann : list (list item) :=\n  %s.' % lrhint.gallina_ann(states, tidx),
         'Definition kiki_ft : first_table := %s.' % lrhint.gallina_ft(ref, tidx),
         '(* termination certificate (LR/Term.v): potential per state and the constant K *)',
         'Definition kiki_K : nat := %d.' % K,
         'Definition kiki_phi : list nat := [%s].' % '; '.join(map(str, phi))]
    return '\n'.join(L) + '\n'


def write_if_changed(path, text):
    os.makedirs(os.path.dirname(path), exist_ok=True)
    try:
        if open(path, encoding='utf-8').read() == text:
            return False
    except FileNotFoundError:
        pass
    with open(path, 'w', encoding='utf-8') as f:
        f.write(text)
    return True


FALLBACKS = []      # (file, reason) of the last regenerate(): translated parts taken from the committed snapshot


def regenerate(repo, coq_dir, use_snapshots=True):
    """Rewrite Gen/*.v from the source.  Returns the list of files that changed.

    A source file the translator cannot read any more (a restructured `format!`, a reformatted table) does not by itself say
    anything about a property: the part is then taken from the snapshot committed under coq/GenRef/ (made from the source the
    machinery was built against), the fact is recorded in FALLBACKS (and from there in the evidence), and the tie between that
    part of the model and the code rests on the correspondence check alone — every emitted text / every front-end result is
    compared byte for byte with the model's, so a change of the template or of the tables that the translator cannot follow
    shows up there as a disagreement on the first input."""
    changed = []
    del FALLBACKS[:]
    for name, fn in (('KikiTables.v', gen_kiki_tables), ('Template.v', gen_template), ('KikiAnn.v', gen_kiki_ann)):
        p = os.path.join(coq_dir, 'Gen', name)
        try:
            text = fn(repo)
        except Exception as e:
            ref = os.path.join(coq_dir, 'GenRef', name + '.ref')
            if not (use_snapshots and os.path.exists(ref)):
                raise
            text = open(ref, encoding='utf-8').read()
            FALLBACKS.append((name, ('%s: %s' % (type(e).__name__, e))[:300]))
        if write_if_changed(p, text):
            changed.append(p)
    return changed


if __name__ == '__main__':
    import sys
    repo = sys.argv[1] if len(sys.argv) > 1 else '/repo'
    here = os.path.dirname(os.path.dirname(os.path.abspath(__file__)))
    print(regenerate(repo, os.path.join(here, 'coq')))
