"""Executable specifications used as oracles.  None of them shares code with the
Coq model of the implementation or with the crate: they are written from the
property texts and the user documentation."""
import re

# ====================================================================== canonical terms

def parse_canon(s):
    """Parses the canonical syntax printed by the harness: number | x<hex> | Tag | Tag(a,..) | [a,..]"""
    pos = 0
    n = len(s)

    def term():
        nonlocal pos
        c = s[pos]
        if c == '[':
            pos += 1
            items = []
            if s[pos] == ']':
                pos += 1
                return items
            while True:
                items.append(term())
                if s[pos] == ',':
                    pos += 1
                    continue
                assert s[pos] == ']', (s[pos:pos + 20])
                pos += 1
                return items
        if c.isdigit():
            j = pos
            while j < n and s[j].isdigit():
                j += 1
            v = int(s[pos:j])
            pos = j
            return v
        j = pos
        while j < n and (s[j].isalnum() or s[j] == '_'):
            j += 1
        word = s[pos:j]
        pos = j
        if pos < n and s[pos] == '(':
            pos += 1
            args = []
            while True:
                args.append(term())
                if s[pos] == ',':
                    pos += 1
                    continue
                assert s[pos] == ')'
                pos += 1
                return (word, args)
        if word.startswith('x') and re.fullmatch(r'x(?:[0-9a-f]{2})*', word):
            return ('$str', bytes.fromhex(word[1:]).decode('utf-8'))
        return (word, [])

    t = term()
    assert pos == n, 'trailing garbage in canonical term'
    return t


def cstr(t):
    assert t[0] == '$str'
    return t[1]


# ====================================================================== lexical specification (C08)

WHITE_SPACE = set([9, 10, 11, 12, 13, 32, 0x85, 0xA0, 0x1680, 0x2028, 0x2029, 0x202F, 0x205F, 0x3000] + list(range(0x2000, 0x200B)))
RESERVED = {'_': 'Underscore', 'start': 'StartKw', 'struct': 'StructKw', 'enum': 'EnumKw', 'terminal': 'TerminalKw'}
PUNCT = {':': 'Colon', ',': 'Comma', '(': 'LParen', ')': 'RParen', '{': 'LCurly', '}': 'RCurly', '<': 'LAngle', '>': 'RAngle'}
OPEN = {'(': ')', '[': ']', '{': '}'}
CLOSE = set(OPEN.values())


def _ident_start(c):
    return ('a' <= c <= 'z') or ('A' <= c <= 'Z') or c == '_'


def _ident_cont(c):
    return _ident_start(c) or ('0' <= c <= '9')


def lex_spec(src):
    """Maximal-munch tokenisation per the documented lexical rules.
    Returns ('ok', [token dicts]) or ('err', byte_index, char_or_None)."""
    offs = []
    b = 0
    for c in src:
        offs.append(b)
        b += len(c.encode('utf-8'))
    offs.append(b)
    n = len(src)
    i = 0
    toks = []

    def tok(kind, a, z, **kw):
        d = dict(kind=kind, text=src[a:z], start=offs[a], end=offs[z])
        d.update(kw)
        toks.append(d)

    while i < n:
        c = src[i]
        if ord(c) in WHITE_SPACE:
            i += 1
        elif c == '/':
            if i + 1 < n and src[i + 1] == '/':
                j = src.find('\n', i)
                i = n if j < 0 else j + 1
            else:
                return ('err', offs[i], '/')
        elif _ident_start(c):
            j = i
            while j < n and _ident_cont(src[j]):
                j += 1
            word = src[i:j]
            tok(RESERVED.get(word, 'Ident'), i, j, name=word)
            i = j
        elif c == '$':
            if i + 1 < n and _ident_start(src[i + 1]):
                j = i + 1
                while j < n and _ident_cont(src[j]):
                    j += 1
                word = src[i + 1:j]
                if word in RESERVED:
                    return ('err', offs[j], src[j] if j < n else None)
                tok('TerminalIdent', i, j, name=word)
                i = j
            else:
                return ('err', offs[i], '$')
        elif c == ':':
            if i + 1 < n and src[i + 1] == ':':
                tok('DoubleColon', i, i + 2)
                i += 2
            else:
                tok('Colon', i, i + 1)
                i += 1
        elif c in PUNCT:
            tok(PUNCT[c], i, i + 1)
            i += 1
        elif c == '#':
            if not (i + 1 < n and src[i + 1] == '['):
                return ('err', offs[i], '#')
            depth = 1
            j = i + 2
            end = None
            while j < n:
                d = src[j]
                if d in OPEN:
                    depth += 1
                elif d in CLOSE:
                    depth -= 1
                    if depth == 0:
                        end = j + 1
                        break
                elif d == '\n':
                    return ('err', offs[j], '\n')
                j += 1
            if end is None:
                return ('err', offs[n], None)
            stack = []
            for k in range(i + 1, end):
                d = src[k]
                if d in OPEN:
                    stack.append(d)
                elif d in CLOSE:
                    if not stack or OPEN[stack.pop()] != d:
                        return ('err', offs[k], d)
            tok('OuterAttribute', i, end)
            i = end
        else:
            return ('err', offs[i], c)
    return ('ok', toks)


def _hex(s):
    return 'x' + s.encode('utf-8').hex()


def canon_token(t):
    k = t['kind']
    if k == 'Ident':
        return 'Ident(%s,%d)' % (_hex(t['name']), t['start'])
    if k == 'TerminalIdent':
        return 'TerminalIdent(%s,%d)' % (_hex(t['name']), t['start'] + 1)
    if k == 'OuterAttribute':
        return 'OuterAttribute(%s,%d)' % (_hex(t['text']), t['start'])
    return '%s(%d)' % (k, t['start'])


def lex_spec_canon(src):
    r = lex_spec(src)
    if r[0] == 'ok':
        return 'Ok([%s])' % ','.join(canon_token(t) for t in r[1])
    return 'Err(Lex(%d,%s))' % (r[1], 'None' if r[2] is None else 'Some(%d)' % ord(r[2]))


# ====================================================================== Earley (C01-C03, C09)

def earley_prefix(rules, start, tokens):
    """rules: [(lhs, [symbols])], a symbol is ('T', x) or ('N', x).  tokens: list of x.
    Returns ('accept',) | ('error', i) with i the first index such that tokens[0..=i] is no
    prefix of a sentence | ('eof',) when tokens is a proper prefix of a sentence or of nothing
    longer... (distinguished by the caller through productivity).
    Rules mentioning unproductive nonterminals must have been pruned by the caller."""
    by_lhs = {}
    for idx, (lhs, rhs) in enumerate(rules):
        by_lhs.setdefault(lhs, []).append(idx)
    # nullable
    nullable = set()
    changed = True
    while changed:
        changed = False
        for lhs, rhs in rules:
            if lhs not in nullable and all(s[0] == 'N' and s[1] in nullable for s in rhs):
                nullable.add(lhs)
                changed = True
    START = -1

    def rhs_of(r):
        return [('N', start)] if r == START else rules[r][1]

    def close(items):
        work = list(items)
        seen = set(items)
        while work:
            (r, d, o) = work.pop()
            rhs = rhs_of(r)
            if d < len(rhs):
                s = rhs[d]
                if s[0] == 'N':
                    for r2 in by_lhs.get(s[1], []):
                        it = (r2, 0, len(sets))
                        if it not in seen:
                            seen.add(it)
                            work.append(it)
                    if s[1] in nullable:
                        it = (r, d + 1, o)
                        if it not in seen:
                            seen.add(it)
                            work.append(it)
            else:
                lhs = None if r == START else rules[r][0]
                if lhs is None:
                    continue
                src_set = seen if o == len(sets) else sets[o]
                for (r2, d2, o2) in list(src_set):
                    rhs2 = rhs_of(r2)
                    if d2 < len(rhs2) and rhs2[d2] == ('N', lhs):
                        it = (r2, d2 + 1, o2)
                        if it not in seen:
                            seen.add(it)
                            work.append(it)
        return seen

    sets = []
    cur = close({(START, 0, 0)})
    sets.append(cur)
    for i, tk in enumerate(tokens):
        nxt = set()
        for (r, d, o) in cur:
            rhs = rhs_of(r)
            if d < len(rhs) and rhs[d] == ('T', tk):
                nxt.add((r, d + 1, o))
        if not nxt:
            return ('error', i)
        cur = close(nxt)
        sets.append(cur)
    if (START, 1, 0) in cur:
        return ('accept',)
    return ('eof',)


def prune_unproductive(rules):
    productive = set()
    changed = True
    while changed:
        changed = False
        for lhs, rhs in rules:
            if lhs not in productive and all(s[0] == 'T' or s[1] in productive for s in rhs):
                productive.add(lhs)
                changed = True
    kept = [(lhs, rhs) for lhs, rhs in rules if lhs in productive and all(s[0] == 'T' or s[1] in productive for s in rhs)]
    return kept, productive


# the published Kiki grammar (USER_GUIDE.md: file format), written out by hand
def _kiki_rules():
    T = lambda x: ('T', x)
    N = lambda x: ('N', x)
    R = []
    R.append(('File', [N('Items')]))
    R.append(('Items', []))
    R.append(('Items', [N('Items'), N('Item')]))
    R.append(('Item', [T('StartKw'), T('Ident')]))
    R.append(('Item', [N('Attrs'), T('StructKw'), T('Ident'), N('Fieldset')]))
    R.append(('Item', [N('Attrs'), T('EnumKw'), T('Ident'), T('LCurly'), N('Variants'), T('RCurly')]))
    R.append(('Item', [N('Attrs'), T('TerminalKw'), T('Ident'), T('LCurly'), N('TVariants'), T('RCurly')]))
    R.append(('Attrs', []))
    R.append(('Attrs', [N('Attrs'), T('OuterAttribute')]))
    R.append(('Fieldset', []))
    R.append(('Fieldset', [T('LCurly'), N('NamedFields'), T('RCurly')]))
    R.append(('Fieldset', [T('LParen'), N('TupleFields'), T('RParen')]))
    R.append(('NamedFields', [N('NamedField')]))
    R.append(('NamedFields', [N('NamedFields'), N('NamedField')]))
    R.append(('NamedField', [N('FieldName'), T('Colon'), N('Sym')]))
    R.append(('FieldName', [T('Ident')]))
    R.append(('FieldName', [T('Underscore')]))
    R.append(('Sym', [T('Ident')]))
    R.append(('Sym', [T('TerminalIdent')]))
    R.append(('TupleFields', [N('TupleField')]))
    R.append(('TupleFields', [N('TupleFields'), N('TupleField')]))
    R.append(('TupleField', [N('Sym')]))
    R.append(('TupleField', [T('Underscore'), T('Colon'), N('Sym')]))
    R.append(('Variants', []))
    R.append(('Variants', [N('Variants'), T('Ident'), N('Fieldset')]))
    R.append(('TVariants', []))
    R.append(('TVariants', [N('TVariants'), T('TerminalIdent'), T('Colon'), N('Type')]))
    R.append(('Type', [T('LParen'), T('RParen')]))
    R.append(('Type', [N('Path')]))
    R.append(('Type', [N('Path'), T('LAngle'), N('Types'), T('RAngle')]))
    R.append(('Path', [T('Ident')]))
    R.append(('Path', [N('Path'), T('DoubleColon'), T('Ident')]))
    R.append(('Types', [N('Type')]))
    R.append(('Types', [N('Types'), T('Comma'), N('Type')]))
    return R


KIKI_RULES = _kiki_rules()


def kiki_parse_oracle(src, toks):
    """None if the token sequence is a sentence of the published grammar, else the
    (start, text, end) the Parse error must carry."""
    r = earley_prefix(KIKI_RULES, 'File', [t['kind'] for t in toks])
    if r[0] == 'accept':
        return None
    n = len(src.encode('utf-8'))
    if r[0] == 'eof':
        return (n, '', n)
    t = toks[r[1]]
    return (t['start'], t['text'], t['end'])


def parser_rs_selfcheck(repo):
    """parser.rs must be a parser for the grammar of parser.kiki: same terminals,
    nonterminals and rule shapes (the tables themselves are validated in Coq)."""
    import translate
    try:
        rs = translate.read_parser_rs(repo + '/kiki/src/parser.rs')
        start, terminals, nts = translate.read_kiki_grammar(repo + '/kiki/src/parser.kiki')
    except Exception as e:
        return 'unreadable: %r' % (e,)
    if rs['terms'] != terminals:
        return 'terminal lists differ'
    if rs['nts'] != [n for n, _ in nts]:
        return 'nonterminal lists differ'
    shapes = []
    for ni, (n, variants) in enumerate(nts):
        for v, fields in variants:
            shapes.append((ni, len(fields)))
    if [(l, len(p)) for l, p in rs['shapes']] != shapes:
        return 'rule shapes differ'
    if rs['nts'][rs['start_nt']] != start:
        return 'start symbols differ'
    return 'ok'


# ====================================================================== the file format, parsed from tokens (C10, C16)

class P:
    def __init__(self, toks):
        self.t = toks
        self.i = 0

    def peek(self, k=0):
        return self.t[self.i + k]['kind'] if self.i + k < len(self.t) else None

    def take(self, kind):
        assert self.peek() == kind, (self.peek(), kind)
        self.i += 1
        return self.t[self.i - 1]


def parse_file(toks):
    """Recursive-descent reading of a token list already known to be a sentence."""
    p = P(toks)
    items = []
    while p.peek() is not None:
        if p.peek() == 'StartKw':
            p.take('StartKw')
            items.append(('start', p.take('Ident')))
            continue
        attrs = []
        while p.peek() == 'OuterAttribute':
            attrs.append(p.take('OuterAttribute'))
        k = p.peek()
        if k == 'StructKw':
            p.take(k)
            name = p.take('Ident')
            items.append(('struct', name, attrs, _fieldset(p)))
        elif k == 'EnumKw':
            p.take(k)
            name = p.take('Ident')
            p.take('LCurly')
            vs = []
            while p.peek() != 'RCurly':
                vn = p.take('Ident')
                vs.append((vn, _fieldset(p)))
            p.take('RCurly')
            items.append(('enum', name, attrs, vs))
        else:
            p.take('TerminalKw')
            name = p.take('Ident')
            p.take('LCurly')
            vs = []
            while p.peek() != 'RCurly':
                tn = p.take('TerminalIdent')
                p.take('Colon')
                ty = []
                depth = 0
                while not (depth == 0 and p.peek() in ('TerminalIdent', 'RCurly')):
                    tk = p.t[p.i]
                    if tk['kind'] == 'LAngle':
                        depth += 1
                    elif tk['kind'] == 'RAngle':
                        depth -= 1
                    ty.append(tk)
                    p.i += 1
                vs.append((tn, ty))
            p.take('RCurly')
            items.append(('terminal', name, attrs, vs))
    return items


def _fieldset(p):
    if p.peek() == 'LCurly':
        p.take('LCurly')
        fields = []
        while p.peek() != 'RCurly':
            nm = p.t[p.i]
            p.i += 1
            p.take('Colon')
            sym = p.t[p.i]
            p.i += 1
            fields.append((nm, sym))
        p.take('RCurly')
        return ('named', fields)
    if p.peek() == 'LParen':
        p.take('LParen')
        fields = []
        while p.peek() != 'RParen':
            if p.peek() == 'Underscore':
                p.take('Underscore')
                p.take('Colon')
                fields.append((False, p.t[p.i]))
            else:
                fields.append((True, p.t[p.i]))
            p.i += 1
        p.take('RParen')
        return ('tuple', fields)
    return ('empty', [])


def _symkey(tok):
    return ('T' if tok['kind'] == 'TerminalIdent' else 'N', tok['name'])


def _pos(tok):
    return tok['start'] + 1 if tok['kind'] == 'TerminalIdent' else tok['start']


def _first_letter(name):
    for c in name:
        if c.isascii() and c.isalpha():
            return c
    return None


def wf_facts(items):
    """Everything the well-formedness rules talk about, with positions."""
    f = dict(starts=[], tenums=[], nts=[], refs=[], upper=[], lower=[], variants={})
    for it in items:
        if it[0] == 'start':
            f['starts'].append(it[1])
        elif it[0] == 'terminal':
            f['tenums'].append(it)
        else:
            f['nts'].append(it)
    f['nt_names'] = [it[1]['name'] for it in f['nts']]
    f['t_names'] = [v[0]['name'] for te in f['tenums'] for v in te[3]]
    # top-level declarations: (name, position)
    f['decls'] = [(it[1]['name'], it[1]['start']) for it in f['nts']]
    for te in f['tenums']:
        f['decls'] += [(v[0]['name'], _pos(v[0])) for v in te[3]]
        f['decls'].append((te[1]['name'], te[1]['start']))
        f['upper'].append(te[1])
        f['upper'] += [v[0] for v in te[3]]
    for it in f['nts']:
        f['upper'].append(it[1])
        fsets = [it[3]] if it[0] == 'struct' else [fs for _, fs in it[3]]
        if it[0] == 'enum':
            f['upper'] += [vn for vn, _ in it[3]]
        for fs in fsets:
            for a, sym in fs[1]:
                f['refs'].append(sym)
                if fs[0] == 'named' and a['kind'] == 'Ident':
                    f['lower'].append(a)
    return f


def well_formed(items):
    f = wf_facts(items)
    if len(f['starts']) != 1 or len(f['tenums']) != 1:
        return False
    if f['starts'][0]['name'] not in f['nt_names']:
        return False
    for r in f['refs']:
        if r['kind'] == 'Ident' and r['name'] not in f['nt_names']:
            return False
        if r['kind'] == 'TerminalIdent' and r['name'] not in f['t_names']:
            return False
    names = [n for n, _ in f['decls']]
    if len(set(names)) != len(names):
        return False
    for it in f['nts']:
        if it[0] == 'enum':
            vn = [v['name'] for v, _ in it[3]]
            seqs = [tuple(_symkey(s) for _, s in fs[1]) for _, fs in it[3]]
            if len(set(vn)) != len(vn) or len(set(seqs)) != len(seqs):
                return False
    for u in f['upper']:
        c = _first_letter(u['name'])
        if c is not None and not c.isupper():
            return False
    for l in f['lower']:
        c = _first_letter(l['name'])
        if c is not None and not c.islower():
            return False
    return True


def wf_check(src, line):
    """None if the implementation's answer `line` is compatible with C10 for `src`,
    else (kind, explanation)."""
    lx = lex_spec(src)
    if lx[0] != 'ok' or kiki_parse_oracle(src, lx[1]) is not None:
        return None                                   # not a syntactically valid file
    if not (line.startswith('Ok(') or line.startswith('Err(')):
        return None                                   # panics etc. belong to C07
    items = parse_file(lx[1])
    f = wf_facts(items)
    if line.startswith('Ok(') or line.startswith('Err(TableConflict('):
        if not well_formed(items):
            return ('accepts-ill-formed-file', 'a static validation error: the file violates the well-formedness rules')
        return None
    t = parse_canon(line)[1][0]
    kind, a = t
    ok = False
    if kind in ('Lex', 'Parse'):
        return ('unexpected-error-class', 'the file lexes and parses')
    if kind == 'NoStartSymbol':
        ok = len(f['starts']) == 0
    elif kind == 'MultipleStartSymbols':
        ok = len(f['starts']) >= 2 and a[0] == [s['start'] for s in f['starts']]
    elif kind == 'NoTerminalEnum':
        ok = len(f['tenums']) == 0
    elif kind == 'MultipleTerminalEnums':
        ok = len(f['tenums']) >= 2 and a[0] == [te[1]['start'] for te in f['tenums']]
    elif kind == 'SymbolOrTerminalEnumNameFirstLetterNotUppercase':
        ok = any(_pos(u) == a[0] and _first_letter(u['name']) is not None and not _first_letter(u['name']).isupper()
                 for u in f['upper'])
    elif kind == 'FieldFirstLetterNotLowercase':
        ok = any(l['start'] == a[0] and _first_letter(l['name']) is not None and not _first_letter(l['name']).islower()
                 for l in f['lower'])
    elif kind == 'NameClash':
        name, p1, p2 = cstr(a[0]), a[1], a[2]
        ok = p1 != p2 and (name, p1) in f['decls'] and (name, p2) in f['decls']
    elif kind == 'NonterminalEnumVariantNameClash':
        name, p1, p2 = cstr(a[0]), a[1], a[2]
        ok = p1 != p2 and any(it[0] == 'enum' and {p1, p2} <= {v['start'] for v, _ in it[3] if v['name'] == name}
                              for it in f['nts'])
    elif kind == 'NonterminalEnumVariantSymbolSequenceClash':
        seq = tuple((s[0], cstr(s[1][0])) for s in a[0])
        p1, p2 = a[1], a[2]
        ok = p1 != p2 and any(it[0] == 'enum' and {p1, p2} <= {v['start'] for v, fs in it[3]
                                                                if tuple(_symkey(s) for _, s in fs[1]) == seq}
                              for it in f['nts'])
    elif kind == 'UndefinedNonterminal':
        name, p = cstr(a[0]), a[1]
        sites = [r for r in f['refs'] if r['kind'] == 'Ident'] + f['starts']
        ok = name not in f['nt_names'] and any(r['name'] == name and r['start'] == p for r in sites)
    elif kind == 'UndefinedTerminal':
        name, p = cstr(a[0]), a[1]
        ok = name not in f['t_names'] and any(r['kind'] == 'TerminalIdent' and r['name'] == name and _pos(r) == p for r in f['refs'])
    else:
        return ('unknown-error-variant', kind)
    if not ok:
        return ('untruthful-error', 'an error describing a violation really present at the reported positions (file is %s)'
                % ('well formed' if well_formed(items) else 'ill formed'))
    return None


# ====================================================================== get_grammar_hash (C15)

def rust_lines(text):
    out = []
    for piece in re.findall(r'[^\n]*\n|[^\n]+$', text):
        if piece.endswith('\n'):
            piece = piece[:-1]
            if piece.endswith('\r'):
                piece = piece[:-1]
        out.append(piece)
    return out


def grammar_hash_spec(text):
    prefix = '// @sha256 '
    for line in rust_lines(text):
        if not line.startswith('//'):
            return None
        if line.startswith(prefix):
            return line[len(prefix):]
    return None


# ====================================================================== layout invariance (C16)

def normalise_result(line, src, toks):
    """Implementation result with every byte position replaced by (token index, offset in token)."""
    n = len(src.encode('utf-8'))

    def at(p):
        for i, t in enumerate(toks):
            if t['start'] <= p < t['end']:
                return 't%d+%d' % (i, p - t['start'])
            if p == t['end'] and (i + 1 == len(toks) or toks[i + 1]['start'] > p):
                return 't%d.end' % i
        return 'eof' if p == n else 'gap%d' % p

    if line.startswith('Ok(x'):
        text = bytes.fromhex(line[4:-1]).decode('utf-8')
        return 'Ok:' + '\n'.join(l for l in text.split('\n') if not l.startswith('// @sha256 '))
    if not line.startswith('Err('):
        return line
    out = line
    out = re.sub(r'\b(Ident|Terminal|Attr)\((x[0-9a-f]*),(\d+)\)', lambda m: '%s(%s,@%s)' % (m.group(1), m.group(2), at(int(m.group(3)))), out)
    out = re.sub(r'\bUnderscore\((\d+)\)', lambda m: 'Underscore(@%s)' % at(int(m.group(1))), out)
    m = re.match(r'Err\((\w+)\((.*)\)\)$', out, re.S)
    if not m:
        return out
    kind, body = m.group(1), m.group(2)
    if kind == 'Parse':
        mm = re.fullmatch(r'(\d+),(x[0-9a-f]*),(\d+)', body)
        s, e = int(mm.group(1)), int(mm.group(3))
        return 'Err(Parse(@%s,%s,len=%d))' % (at(s) if s < n else 'eof', mm.group(2), e - s)
    if kind in ('MultipleStartSymbols', 'MultipleTerminalEnums'):
        return 'Err(%s([%s]))' % (kind, ','.join('@' + at(int(x)) for x in re.findall(r'\d+', body)))
    if kind in ('SymbolOrTerminalEnumNameFirstLetterNotUppercase', 'FieldFirstLetterNotLowercase'):
        return 'Err(%s(@%s))' % (kind, at(int(body)))
    if kind in ('NameClash', 'NonterminalEnumVariantNameClash', 'NonterminalEnumVariantSymbolSequenceClash'):
        mm = re.fullmatch(r'(.*),(\d+),(\d+)', body, re.S)
        return 'Err(%s(%s,@%s,@%s))' % (kind, mm.group(1), at(int(mm.group(2))), at(int(mm.group(3))))
    if kind in ('UndefinedNonterminal', 'UndefinedTerminal'):
        mm = re.fullmatch(r'(.*),(\d+)', body, re.S)
        return 'Err(%s(%s,@%s))' % (kind, mm.group(1), at(int(mm.group(2))))
    return out


# ====================================================================== emitted text readers (C05, C06, C12, C13, C17)

def typedef_region(text):
    """The part of the emitted text between the lint header and the doc comment of parse."""
    a = text.index('#![allow(dead_code)]\n') + len('#![allow(dead_code)]\n')
    b = text.index('/// If the parser encounters an unexpected token')
    return text[a:b]


def split_typedefs(region):
    """[(attribute lines, header line, body lines)] for every `pub struct|enum` of the region."""
    lines = region.split('\n')
    defs = []
    i = 0
    pending = []
    while i < len(lines):
        l = lines[i]
        if l.startswith('pub struct ') or l.startswith('pub enum '):
            body = []
            head = l
            if not (l.endswith(';')):
                depth = l.count('{') + l.count('(') - l.count('}') - l.count(')')
                while depth > 0:
                    i += 1
                    body.append(lines[i])
                    depth += lines[i].count('{') + lines[i].count('(') - lines[i].count('}') - lines[i].count(')')
            defs.append((pending, head, body))
            pending = []
        elif l.strip() == '':
            if pending:
                defs.append((pending, None, []))      # attributes not followed by a definition
            pending = []
        else:
            pending.append(l)
        i += 1
    if pending:
        defs.append((pending, None, []))
    return defs


def attributes_oracle(g, text):
    try:
        defs = split_typedefs(typedef_region(text))
    except ValueError:
        return 'emitted text has no recognisable type-definition region'
    want = [('pub enum %s {' % g.tenum, g.tenum_attrs)]
    for nt in g.nts:
        want.append(('pub %s %s' % (nt['kind'], nt['name']), nt['attrs']))
    if len(defs) != len(want):
        return 'expected %d type definitions, found %d' % (len(want), len(defs))
    for (attrs, head, body), (whead, wattrs) in zip(defs, want):
        if head is None or not (head == whead or head.startswith(whead + ' ') or head.startswith(whead + ';')
                                or head.startswith(whead + '(') or head.startswith(whead + '{')):
            return 'definition order: expected %r, found %r' % (whead, head)
        if attrs != wattrs:
            return 'attributes of %r: expected %r, found %r' % (whead, wattrs, attrs)
    # nowhere else
    rest = text[text.index('/// If the parser encounters an unexpected token'):]
    for a in set(g.tenum_attrs + [a for nt in g.nts for a in nt['attrs']]):
        if a in rest.split('\n') or ('\n' + a + '\n') in rest:
            return 'attribute %r also appears outside the type definitions' % a
    return None


def retokenise_type(s):
    r = lex_spec(s)
    if r[0] != 'ok':
        return None
    return [t['text'] for t in r[1]]


def types_oracle(g, text):
    import gen
    tdecl = {t: gen.type_tokens(ty) for t, ty in g.terminals}
    try:
        defs = split_typedefs(typedef_region(text))
    except ValueError:
        return 'emitted text has no recognisable type-definition region'
    # (1) the terminal enum
    te = [d for d in defs if d[1] is not None and d[1].startswith('pub enum %s {' % g.tenum)]
    if len(te) != 1:
        return 'terminal enum not found'
    body = [l.strip() for l in te[0][2][:-1] if l.strip()]
    if len(body) != len(g.terminals):
        return 'terminal enum has %d variants, expected %d' % (len(body), len(g.terminals))
    for l, (t, ty) in zip(body, g.terminals):
        m = re.fullmatch(r'%s\((.*)\),' % re.escape(t), l)
        if not m or retokenise_type(m.group(1)) != tdecl[t]:
            return 'terminal enum variant %s: %r does not denote %r' % (t, l, ty)
    # (2) Node variants and try_into signatures
    rest = text[text.index('/// If the parser encounters an unexpected token'):]
    node_blocks = []
    for mb in re.finditer(r'\nenum (\w+) \{\n((?:    .*\n)*?)\}', rest):
        body_lines = [l.strip() for l in mb.group(2).split('\n') if l.strip()]
        heads = ['%s(%s),' % (nt['name'], nt['name']) for nt in g.nts]
        if body_lines[:len(heads)] == heads and len(body_lines) == len(heads) + len(g.terminals):
            node_blocks.append(body_lines[len(heads):])
    if len(node_blocks) != 1:
        return 'Node enum not found (%d candidates)' % len(node_blocks)
    for l, (t, ty) in zip(node_blocks[0], g.terminals):
        m = re.fullmatch(r'%s\((.*)\),' % re.escape(t), l)
        if not m or retokenise_type(m.group(1)) != tdecl[t]:
            return 'Node variant %s: %r does not denote %r' % (t, l, ty)
    for i, (t, ty) in enumerate(g.terminals):
        sig = re.findall(r'fn try_into_[a-z0-9_]*_%d\(self\) -> Result<(.*), Self> \{' % i, text)
        if len(sig) != 1 or retokenise_type(sig[0]) != tdecl[t]:
            return 'try_into signature of %s: %r' % (t, sig)
    # (3) fields of terminal type
    exp = expected_typedefs(g)
    got = [(h, [l.strip() for l in b if l.strip()]) for _, h, b in defs if h is not None][1:]
    if len(got) != len(exp):
        return 'number of nonterminal type definitions'
    for (h, b), (eh, eb) in zip(got, exp):
        if [retokenise_type(x) for x in [h] + b] != [retokenise_type(x) for x in [eh] + eb]:
            return 'type definition %r: found %r, expected %r' % (eh, [h] + b, [eh] + eb)
    return None


def expected_typedefs(g):
    """C06: the expected shape of every nonterminal's type definition, as (header, body lines),
    written from the property text (used fields only, Box for nonterminals, declared payload type
    for terminals, struct fields public, only-underscore fieldsets unit-like)."""
    ttype = dict(g.terminals)

    def fty(sym):
        return 'Box<%s>' % sym[1] if sym[0] == 'N' else ttype[sym[1]]

    out = []
    for nt in g.nts:
        if nt['kind'] == 'struct':
            fs = nt['variants'][0][1]
            lines = fieldset_lines(fs, fty, True)
            if lines is None:
                out.append(('pub struct %s;' % nt['name'], []))
            elif fs[0] == 'named':
                out.append(('pub struct %s {' % nt['name'], lines + ['}']))
            else:
                out.append(('pub struct %s(' % nt['name'], lines + [');']))
        else:
            body = []
            for vname, fs in nt['variants']:
                lines = fieldset_lines(fs, fty, False)
                if lines is None:
                    body.append('%s,' % vname)
                elif fs[0] == 'named':
                    body += ['%s {' % vname] + lines + ['},']
                else:
                    body += ['%s(' % vname] + lines + ['),']
            out.append(('pub enum %s {' % nt['name'], body + ['}']))
    return out


def fieldset_lines(fs, fty, public):
    if fs[0] == 'empty':
        return None
    pub = 'pub ' if public else ''
    if fs[0] == 'named':
        lines = ['%s%s: %s,' % (pub, name, fty(s)) for name, s in fs[1] if name is not None]
    else:
        lines = ['%s%s,' % (pub, fty(s)) for used, s in fs[1] if used]
    return lines or None


def read_tables(text):
    """ACTION_TABLE / GOTO_TABLE / start state read back from emitted text (any helper names)."""
    m = re.search(r'let mut states = vec!\[(\w+)::S(\d+)\];', text)
    start = int(m.group(2))
    tabs = re.findall(r'\nstatic (\w+): \[\[(.*?); (\d+)\]; (\d+)\] = \[\n(.*?)\n\];', text, re.S)
    assert len(tabs) == 2
    out = []
    for name, ty, cols, rows, body in tabs:
        cells = []
        for line in body.split('\n'):
            line = line.strip()
            if line in ('[', '],', ''):
                continue
            cells.append(line.rstrip(','))
        assert len(cells) == int(cols) * int(rows), (len(cells), cols, rows)
        out.append(cells)

    def act(c):
        c = c.split('::', 1)[1]
        m1 = re.fullmatch(r'Shift\(\w+::S(\d+)\)', c)
        if m1:
            return ('S', int(m1.group(1)))
        m1 = re.fullmatch(r'Reduce\(\w+::R(\d+)\)', c)
        if m1:
            return ('R', int(m1.group(1)))
        return ('Acc',) if c == 'Accept' else ('E',)

    def got(c):
        m1 = re.fullmatch(r'Some\(\w+::S(\d+)\)', c)
        return ('G', int(m1.group(1))) if m1 else ('E',)

    return start, [act(c) for c in out[0]], [got(c) for c in out[1]]


# ====================================================================== LALR(1) reference (C04, C11, C17)

def parse_mt(line):
    """The harness's `mt` line as python data, or None for front-end errors."""
    if not line.startswith('Ok(MT('):
        return None
    t = parse_canon(line)
    f, m, tb = t[1][0][1]
    out = dict(file=f, machine=m, file_canon=None)
    out['start'] = m[1][0]
    out['states'] = [[_item(i) for i in st] for st in m[1][1]]
    out['trans'] = [(tr[1][0], tr[1][1], _sym(tr[1][2])) for tr in m[1][2]]
    out['conflict'] = None
    out['table'] = None
    if tb[0] == 'Ok':
        tt = tb[1][0][1]
        out['table'] = dict(start=tt[0], terminals=[cstr(x) for x in tt[1]], nonterminals=[cstr(x) for x in tt[2]],
                            actions=[(a[0],) + tuple(a[1]) for a in tt[3]], gotos=[(a[0],) + tuple(a[1]) for a in tt[4]])
    else:
        c = tb[1][0][1]
        out['conflict'] = dict(state=c[0], item1=_item(c[1]), item2=_item(c[2]), file=c[3], machine=c[4])
    return out


def _item(t):
    r, la, dot = t[1]
    return (None if r[0] == 'Aug' else r[1][0], None if la[0] == 'Eof' else cstr(la[1][0]), dot)


def _sym(t):
    return (t[0], cstr(t[1][0]))


def file_rules(f):
    """(start, terminals, nonterminal names, rules [(lhs, [sym])]) from the canonical validated file."""
    start = cstr(f[1][0])
    terms = [cstr(v[1][0]) for v in f[1][1][1][2]]
    nts, rules, used = [], [], []
    for n in f[1][2]:
        name = cstr(n[1][1][1][0])
        nts.append(name)
        fsets = [n[1][2]] if n[0] == 'Struct' else [v[1][1] for v in n[1][2]]
        for fs in fsets:
            syms, flags = [], []
            if fs[0] == 'Named':
                for fld in fs[1][0]:
                    syms.append(_iot(fld[1][1]))
                    flags.append(fld[1][0][0] != 'Underscore')
            elif fs[0] == 'Tuple':
                for fld in fs[1][0]:
                    syms.append(_iot(fld[1][0]))
                    flags.append(fld[0] == 'Used')
            rules.append((name, syms))
            used.append(flags)
    return start, terms, nts, rules, used


def _iot(t):
    return ('N' if t[0] == 'Ident' else 'T', cstr(t[1][0]))


def lalr_reference(f, max_states=400):
    return lalr_build(*file_rules(f)[:4], max_states=max_states)


def lalr_build(start, terms, nts, rules, max_states=400):
    """Brute force: canonical LR(1) collection from the closure/goto definition, then merge
    states with equal cores.  Items are (rule or None, dot, lookahead or None)."""
    by_lhs = {}
    for i, (lhs, rhs) in enumerate(rules):
        by_lhs.setdefault(lhs, []).append(i)
    # sentential FIRST / nullable as least fixpoints
    first = {n: set() for n in nts}
    nullable = set()
    changed = True
    while changed:
        changed = False
        for lhs, rhs in rules:
            allnull = True
            for s in rhs:
                if s[0] == 'T':
                    if s[1] not in first[lhs]:
                        first[lhs].add(s[1])
                        changed = True
                    allnull = False
                    break
                add = first.get(s[1], set()) - first[lhs]
                if add:
                    first[lhs] |= add
                    changed = True
                if s[1] not in nullable:
                    allnull = False
                    break
            if allnull and lhs not in nullable:
                nullable.add(lhs)
                changed = True

    def rhs_of(r):
        return [('N', start)] if r is None else rules[r][1]

    def first_seq(seq, la):
        out = set()
        for s in seq:
            if s[0] == 'T':
                out.add(s[1])
                return out
            out |= first.get(s[1], set())
            if s[1] not in nullable:
                return out
        out.add(la)
        return out

    def closure(items):
        seen = set(items)
        work = list(items)
        while work:
            r, d, la = work.pop()
            rhs = rhs_of(r)
            if d < len(rhs) and rhs[d][0] == 'N':
                for b in first_seq(rhs[d + 1:], la):
                    for r2 in by_lhs.get(rhs[d][1], []):
                        it = (r2, 0, b)
                        if it not in seen:
                            seen.add(it)
                            work.append(it)
        return frozenset(seen)

    s0 = closure({(None, 0, None)})
    states = {s0: 0}
    order = [s0]
    trans = {}
    i = 0
    while i < len(order):
        st = order[i]
        syms = set()
        for r, d, la in st:
            rhs = rhs_of(r)
            if d < len(rhs):
                syms.add(rhs[d])
        for x in syms:
            tgt = closure({(r, d + 1, la) for r, d, la in st if d < len(rhs_of(r)) and rhs_of(r)[d] == x})
            if tgt not in states:
                if len(order) >= max_states:
                    return None
                states[tgt] = len(order)
                order.append(tgt)
            trans[(i, x)] = states[tgt]
        i += 1
    core = lambda st: frozenset((r, d) for r, d, _ in st)
    merged = {}
    for st in order:
        merged.setdefault(core(st), set()).update(st)
    mtrans = {}
    for (i, x), j in trans.items():
        mtrans[(core(order[i]), x)] = core(order[j])
    # demands and conflicts
    conflict = False
    actions = {}
    for c, items in merged.items():
        cell = {}
        for r, d, la in items:
            rhs = rhs_of(r)
            if d < len(rhs):
                if rhs[d][0] == 'T':
                    dem = (rhs[d][1], ('S', mtrans[(c, rhs[d])]))
                else:
                    continue
            elif r is None:
                dem = (None, ('Acc',))
            else:
                dem = (la, ('R', r))
            if dem[0] in cell and cell[dem[0]] != dem[1]:
                conflict = True
            cell.setdefault(dem[0], dem[1])
        actions[c] = cell
    return dict(start=core(s0), states=merged, trans=mtrans, conflict=conflict, actions=actions,
                terms=terms, nts=nts, rules=rules, canonical=(order, trans), first=first, nullable=nullable,
                startname=start)


def machine_iso(parsed_states, parsed_trans, parsed_start, ref):
    """None if the machine equals the reference up to renumbering, else a description."""
    core = lambda st: frozenset((r, d) for r, la, d in st)
    cores = [core(st) for st in parsed_states]
    if len(set(cores)) != len(cores):
        return 'two states share a core'
    if set(cores) != set(ref['states'].keys()):
        return 'the set of cores differs from the reachable cores (%d vs %d states)' % (len(cores), len(ref['states']))
    for st, c in zip(parsed_states, cores):
        got = set((r, d, la) for r, la, d in st)
        if got != ref['states'][c]:
            return 'lookahead sets of a state differ: extra %r, missing %r' % (sorted(got - ref['states'][c], key=str)[:3],
                                                                               sorted(ref['states'][c] - got, key=str)[:3])
    if cores[parsed_start] != ref['start']:
        return 'start state'
    got = {(cores[a], x): cores[b] for a, b, x in parsed_trans}
    if got != ref['trans'] or len(parsed_trans) != len(got):
        return 'transitions differ'
    return None


def item_demand(parsed, rules, start, state, item):
    r, la, d = item
    rhs = [('N', start)] if r is None else rules[r][1]
    if d < len(rhs):
        if rhs[d][0] == 'T':
            dest = [b for a, b, x in parsed['trans'] if a == state and x == rhs[d]]
            return (rhs[d][1], ('S', dest[0] if dest else None))
        return None
    if r is None:
        return (None, ('Acc',))
    return (la, ('R', r))


def compare_with_reference(pid, parsed, ref, gen_line):
    """(kind, observed, expected) or None."""
    if bool(parsed['conflict']) != ref['conflict']:
        return ('conflict-verdict', 'conflict reported' if parsed['conflict'] else 'parser emitted',
                'LALR(1) conflict' if ref['conflict'] else 'grammar is LALR(1): no conflict')
    iso = machine_iso(parsed['states'], parsed['trans'], parsed['start'], ref)
    if iso is not None and pid in ('C11', 'C17'):
        return ('automaton-is-not-the-LALR(1)-automaton', iso, 'same cores, transitions and lookahead sets up to renumbering')
    core = lambda st: frozenset((r, d) for r, la, d in st)
    if parsed['conflict']:
        if pid != 'C11':
            return None
        c = parsed['conflict']
        if c['state'] >= len(parsed['states']):
            return ('conflict-state-out-of-range', c['state'], '< %d' % len(parsed['states']))
        st = parsed['states'][c['state']]
        if c['item1'] not in st or c['item2'] not in st:
            return ('conflict-item-not-in-state', (c['item1'], c['item2']), 'both items in state %d' % c['state'])
        start, terms, nts, rules, _ = file_rules(parsed['file'])
        d1 = item_demand(parsed, rules, start, c['state'], c['item1'])
        d2 = item_demand(parsed, rules, start, c['state'], c['item2'])
        if d1 is None or d2 is None or d1[0] != d2[0] or d1[1] == d2[1]:
            return ('reported-items-do-not-conflict', (d1, d2), 'different actions on the same symbol')
        if c['file'] != parsed['file'] or c['machine'] != parsed['machine']:
            return ('attached-file-or-machine-differs', '', 'the validated input and its automaton')
        return None
    if pid != 'C17':
        return None
    tb = parsed['table']
    cores = [core(st) for st in parsed['states']]
    idx = {c: i for i, c in enumerate(cores)}
    nt_, nn = len(ref['terms']), len(ref['nts'])
    tables = [('hook', tb['start'], tb['actions'], tb['gotos'])]
    if gen_line.startswith('Ok(x'):
        try:
            s, a, g = read_tables(bytes.fromhex(gen_line[4:-1]).decode('utf-8'))
            tables.append(('emitted text', s, a, g))
        except Exception as e:
            return ('emitted-tables-unreadable', repr(e), 'ACTION_TABLE and GOTO_TABLE arrays')
    for where, s, acts, gts in tables:
        if s != parsed['start']:
            return ('start-state', '%s: %d' % (where, s), parsed['start'])
        if len(acts) != len(cores) * (nt_ + 1) or len(gts) != len(cores) * nn:
            return ('table-dimensions', where, '%d x %d and %d x %d' % (len(cores), nt_ + 1, len(cores), nn))
        for si, c in enumerate(cores):
            cell = ref['actions'][c]
            for ti, t in enumerate(ref['terms'] + [None]):
                want = cell.get(t, ('E',))
                if want[0] == 'S':
                    want = ('S', idx[want[1]])
                if tuple(acts[si * (nt_ + 1) + ti]) != tuple(want):
                    return ('action-cell', '%s: state %d, column %s: %r' % (where, si, t, acts[si * (nt_ + 1) + ti]), want)
            for ni, nme in enumerate(ref['nts']):
                tgt = ref['trans'].get((c, ('N', nme)))
                want = ('G', idx[tgt]) if tgt is not None else ('E',)
                if tuple(gts[si * nn + ni]) != tuple(want):
                    return ('goto-cell', '%s: state %d, nonterminal %s: %r' % (where, si, nme, gts[si * nn + ni]), want)
    return None
