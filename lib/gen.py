"""Generators for the correspondence checks.  Every random choice comes from
the random.Random instance handed in (derived from VERIF_SEED)."""
import random

# ---------------------------------------------------------------- names

HELPER_NAMES = ['State', 'Node', 'Action', 'RuleKind', 'Eof', 'Quasiterminal', 'QuasiterminalKind',
                'NonterminalKind', 'S', 'Terminal', 'Shift', 'Reduce', 'Accept', 'ACTION_TABLE',
                'GOTO_TABLE', 'Eof2', 'State2', 'S0', 'R0', 'Token', 'Item', 'T', 'Error', 'IntoIter', 'Output']
PLAIN_NAMES = ['Expr', 'Term', 'Factor', 'Stmt', 'Block', 'List', 'Pair', 'Atom', 'Decl', 'Args',
               'Opt', 'Seq', 'Tail', 'Head', 'Unit', 'Wrap', 'Leaf', 'Inner', 'Outer', 'Value',
               'Aa', 'Bb', 'Cc', 'Dd', 'Ee', 'X1', 'Y2', 'Z_3', '_1A', 'Lorem', 'Ipsum']
LETTERLESS = ['_1', '__', '_0_', '_9']
TERMINAL_NAMES = ['Num', 'Str', 'Plus', 'Minus', 'Star', 'LParen', 'RParen', 'Comma', 'Semi', 'Id',
                  'Kw', 'Dot', 'Eq', 'Lt', 'Bang', 'A', 'B', 'C', 'D', 'Tick']
FIELD_NAMES = ['left', 'right', 'val', 'inner', 'head', 'tail', 'x', 'y', 'z', 'states', 'nodes',
               'node', 'src', 't0', 't1', 'type_', 'a_b', '_a', 'item', 'op', 'top_state', 'new_state',
               'rule_kind', 'quasiterminals', 'terminal', '_0', 'n1']
RUST_RESERVED = {'Self', 'Option', 'Some', 'None', 'Ok', 'Err', 'Result', 'Box', 'Vec', 'String',
                 'TryFrom', 'IntoIterator', 'Iterator', 'Into', 'From', 'Clone', 'Copy', 'Debug',
                 'Default', 'Drop', 'Eq', 'Ord', 'PartialEq', 'PartialOrd', 'Send', 'Sync', 'Sized',
                 'ToString', 'ToOwned', 'AsRef', 'AsMut', 'Extend', 'Fn', 'FnMut', 'FnOnce', 'Unpin',
                 'DoubleEndedIterator', 'ExactSizeIterator', 'TryInto', 'FromIterator'}
PAYLOAD_TYPES = ['()', 'u32', 'crate::pay::P', 'crate::pay::Q<crate::pay::P, ()>', 'crate::pay::Q<u32, crate::pay::Q<(), crate::pay::P>>',
                 'crate::pay::R<u32, (), crate::pay::P>', 'crate::pay::R4<(), u32, crate::pay::P, crate::pay::Q<u32, ()>>',
                 'pay::P', 'super::pay::P']
N_BEHAVIOUR_TYPES = 7      # the first N are the ones the compiled-parser harness can construct
# code points picked by their LOW BYTE and by UTF-8 length boundaries: a `char as u8`, a byte-wise
# comparison or a byte/char length mix-up shows only on these (each special ASCII byte b gives
# U+01bb, U+4Ebb and U+1F3bb); plus the first/last code point of every UTF-8 length
_SPECIAL_BYTES = [0x0A, 0x0D, 0x20, 0x09, 0x22, 0x23, 0x24, 0x28, 0x29, 0x2C, 0x2F, 0x3A, 0x3C, 0x3E, 0x5B, 0x5D, 0x5F, 0x7B, 0x7D,
                  0x41, 0x5A, 0x61, 0x7A, 0x30, 0x39, 0x00, 0x7F, 0x80, 0xFF]
TRICKY_CHARS = sorted(set(
    [chr(base + b) for b in _SPECIAL_BYTES for base in (0x100, 0x4E00, 0x1F300)]
    + [chr(c) for c in (0x80, 0xFF, 0x100, 0x7FF, 0x800, 0xFFFD, 0x10000, 0x10FFFF, 0xD7FF, 0xE000, 0x2028, 0x2029, 0xFEFF,
                          0xFF12, 0xB2, 0xBD, 0x663, 0x2163, 0xC9, 0x1C5, 0xAA, 0xFF3F, 0xFF04)]))
# ... but not the ones that are Unicode whitespace (they would change the token sequence inside names/comments deliberately elsewhere)
TRICKY_CHARS = [c for c in TRICKY_CHARS if not c.isspace() and c not in '\x85\u2028\u2029']
RESERVED_CASE_NAMES = ['Start', 'Struct', 'Enum', 'Terminal', 'STRUCT', 'ENUM', 'Enums', 'StartKw', 'TERMINAL', 'START']
UNDERSCORE_NAMES = ['Type_', 'A_', 'B__', '_Z9', 'X_1_', 'Mod_']


def tricky_text(rng, lo=1, hi=12, ascii_pool='abc xyz=,.;!?-+*'):
    """Text without ASCII brackets, quotes, backslashes or line breaks, rich in tricky code points."""
    n = rng.randint(lo, hi)
    return ''.join(rng.choice(TRICKY_CHARS) if rng.random() < 0.5 else rng.choice(ascii_pool) for _ in range(n))


UNI_SPACES = [' ', ' ', '\t', '\n', '\r\n', ' ', ' ', '　', '\u000b', '\u000c', '\u0085', ' ', ' ']


class Grammar:
    """terminals: [(name, type)]; nts: [dict(name, kind, attrs, variants=[(vname|None, fieldset)])]
    fieldset: ('empty',) | ('named', [(fname|None, sym)]) | ('tuple', [(used, sym)]); sym: ('T'|'N', name)"""

    def __init__(self):
        self.start = None
        self.start_count = 1
        self.tenum = 'Tok'
        self.tenum_attrs = []
        self.terminals = []
        self.nts = []
        self.extra_items = []      # raw text items injected by the violation generator

    def rules(self):
        out = []
        for nt in self.nts:
            for vname, fs in nt['variants']:
                out.append((nt['name'], vname, fs))
        return out

    def rule_syms(self):
        return [(lhs, [s for _, s in fs[1]] if fs[0] != 'empty' else []) for lhs, _, fs in self.rules()]


def fs_syms(fs):
    return [] if fs[0] == 'empty' else [s for _, s in fs[1]]


def pick_names(rng, pool, n, avoid=()):
    pool = [p for p in pool if p not in avoid]
    rng.shuffle(pool)
    out = pool[:n]
    i = 0
    while len(out) < n:
        cand = 'N%d' % i
        i += 1
        if cand not in out and cand not in avoid:
            out.append(cand)
    return out


def gen_grammar(rng, adversarial=0.3, max_nts=6, max_terms=5, allow_empty_terminals=True,
                behaviour=False, bias_lalr=0.6, motifs=0.45, wide=0.05, payload_like_nt=0.0, empty_helper_enum=0.0,
                name_relations=0.15, many_terminals=0.08, min_sizes=False, letterless=0.1):
    """Random grammar.  behaviour=True: payload types come from the fixed menu the
    compiled-parser harness knows how to build, and every type derives Debug."""
    g = Grammar()
    nn = rng.randint(1, max_nts)
    nt_lo = 0 if allow_empty_terminals and rng.random() < 0.05 else 1
    nterm = rng.randint(nt_lo, max_terms)
    if min_sizes:
        nn, nterm = max_nts, max_terms
    elif rng.random() < many_terminals:
        # two-digit terminal indices (11..24 terminals with mixed payload types)
        nterm = rng.randint(11, 24)
    use_adv = rng.random() < adversarial
    nt_pool = (HELPER_NAMES + RESERVED_CASE_NAMES + UNDERSCORE_NAMES + PLAIN_NAMES) if use_adv else PLAIN_NAMES
    if rng.random() < letterless:
        nt_pool = nt_pool + LETTERLESS
    if rng.random() < 0.8 * letterless:
        # spelled like the emitter's own lower-case identifiers (rejected by the capitalisation rule today)
        nt_pool = ['_nodes', '_states', '_x_0', '_a_0', '_states_1'] + nt_pool[:3]
    names = pick_names(rng, list(nt_pool), nn, avoid=RUST_RESERVED)
    t_pool = (HELPER_NAMES + RESERVED_CASE_NAMES + UNDERSCORE_NAMES + TERMINAL_NAMES) if use_adv else TERMINAL_NAMES
    tnames = pick_names(rng, list(t_pool), nterm, avoid=set(names) | RUST_RESERVED)
    tenum_pool = [x for x in (['Tok', 'Token', 'Terminal', 'Node', 'State', 'Kind'] if use_adv else ['Tok', 'Token', 'Lex'])
                  if x not in names and x not in tnames]
    g.tenum = rng.choice(tenum_pool) if tenum_pool else 'TokEnum9'
    types = PAYLOAD_TYPES[:N_BEHAVIOUR_TYPES] if behaviour else PAYLOAD_TYPES
    g.terminals = [(t, rng.choice(types)) for t in tnames]
    g.start = rng.choice(names)

    def sym():
        if tnames and (rng.random() < 0.55):
            return ('T', rng.choice(tnames))
        return ('N', rng.choice(names))

    def fieldset(lead=None):
        r = rng.random()
        if r < 0.18 and lead is None:
            return ('empty',)
        n = rng.choice([1, 1, 2, 2, 3, 3, 4]) if rng.random() >= wide else rng.randint(9, 14)
        syms = [sym() for _ in range(n)]
        if n >= 9 and tnames:
            # a wide production: mostly terminals, so that it does not drown in conflicts
            syms = [('T', rng.choice(tnames)) if rng.random() < 0.8 else s for s in syms]
        if lead is not None:
            syms[0] = lead
        if n >= 3 and rng.random() < 0.06:
            # every field skipped (the emitted type is unit-like although the production is long)
            return ('named', [(None, syms[i]) for i in range(n)]) if rng.random() < 0.5 else ('tuple', [(False, syms[i]) for i in range(n)])
        if rng.random() < 0.5:
            fn = pick_names(rng, list(FIELD_NAMES), n)
            return ('named', [((None if rng.random() < 0.3 else fn[i]), syms[i]) for i in range(n)])
        return ('tuple', [((rng.random() >= 0.3), syms[i]) for i in range(n)])

    for name in names:
        attrs = []
        if behaviour:
            attrs.append('#[derive(Debug)]')
        if rng.random() < 0.2:
            attrs.append(rng.choice(['#[allow(unused)]', '#[doc = "x [y] {z} (w)"]', '#[cfg_attr(any(), derive(Clone))]',
                                     '#[doc = "héllo € \U0001F600"]', '#[allow(dead_code, unused_variables)]',
                                     '#[doc = "%s"]' % tricky_text(rng), '#[doc = "x%sy"]' % tricky_text(rng, 1, 5),
                                     '#[doc = "%s"]' % ''.join(rng.choice(TRICKY_CHARS) for _ in range(rng.randint(100, 400)))]))
        if rng.random() < 0.5:
            g.nts.append(dict(name=name, kind='struct', attrs=attrs, variants=[(None, fieldset())]))
        else:
            nv = rng.choice([0, 1, 2, 2, 3, 3, 4]) if rng.random() < 0.12 else rng.choice([1, 2, 2, 3, 3, 4])
            vnames = pick_names(rng, list(PLAIN_NAMES + (HELPER_NAMES if use_adv else [])), nv, avoid=RUST_RESERVED)
            variants, seen = [], set()
            leads = list(tnames)
            rng.shuffle(leads)
            for i in range(nv):
                for _ in range(10):
                    lead = None
                    if leads and rng.random() < bias_lalr:
                        lead = ('T', leads[i % len(leads)])
                    fs = fieldset(lead)
                    key = tuple(fs_syms(fs))
                    if key not in seen:
                        seen.add(key)
                        variants.append((vnames[i], fs))
                        break
            g.nts.append(dict(name=name, kind='enum', attrs=attrs, variants=variants))
    if behaviour:
        g.tenum_attrs.append('#[derive(Debug)]')
    elif rng.random() < 0.2:
        g.tenum_attrs.append('#[derive(Clone, Debug)]')
    if rng.random() < 0.3:
        g.item_order = rng.choice(['terminal_first', 'start_last', 'mixed', 'terminal_first_start_last'])
    if rng.random() < motifs:
        add_motifs(rng, g, behaviour)
    if rng.random() < name_relations:
        add_name_relations(rng, g, behaviour)
    if g.terminals and rng.random() < payload_like_nt:
        # a payload type that is spelled like one of the declared nonterminals
        retype_like_nonterminal(rng, g)
    if rng.random() < empty_helper_enum:
        # an enum without variants whose name is one of the generator's own helper names
        used = {n['name'] for n in g.nts} | {t for t, _ in g.terminals} | {g.tenum}
        cands = [h for h in ('Node', 'State', 'Action', 'RuleKind', 'Quasiterminal', 'QuasiterminalKind', 'NonterminalKind', 'Eof', 'S')
                 if h not in used]
        if cands:
            g.nts.insert(rng.randint(0, len(g.nts)), dict(name=rng.choice(cands), kind='enum', attrs=(['#[derive(Debug)]'] if behaviour else []), variants=[]))
    if rng.random() < 0.04:
        lengthen_a_name(rng, g)
    if g.nts and rng.random() < 0.05:
        # the same declaration again under another name, right after the original (anything remembered from one item to the next)
        k = rng.randrange(len(g.nts))
        src = g.nts[k]
        nm = _fresh_nt(g, src['name'][:1].upper() + 'Twin') if src['name'][:1].isalpha() else _fresh_nt(g, 'Twin')
        g.nts.insert(k + 1, dict(name=nm, kind=src['kind'], attrs=list(src['attrs']), variants=list(src['variants'])))
    return g


def lengthen_a_name(rng, g):
    """One terminal or nonterminal (every occurrence) gets a name of 255..300 characters: lengths beyond one byte."""
    k = rng.choice([255, 256, 257, 300])
    if g.terminals and rng.random() < 0.5:
        old = rng.choice(g.terminals)[0]
        new = (old + 'Qo' * k)[:k]
        g.terminals = [((new if t == old else t), ty) for t, ty in g.terminals]
        kind = 'T'
    else:
        old = rng.choice(g.nts)['name']
        new = (old + 'Qo' * k)[:k]
        for nt in g.nts:
            if nt['name'] == old:
                nt['name'] = new
        if g.start == old:
            g.start = new
        kind = 'N'
    for nt in g.nts:
        vs = []
        for vname, fs in nt['variants']:
            if fs[0] != 'empty':
                fs = (fs[0], [(f, ((k2, new) if (k2 == kind and x == old) else (k2, x))) for f, (k2, x) in fs[1]])
            vs.append((vname, fs))
        nt['variants'] = vs


def add_name_relations(rng, g, behaviour=False):
    """Names that are related to each other: two terminals that differ only in letter case (with different
    payload types, both in used fields), and a symbol whose name is the concatenation of two others, used
    in sibling variants with identical surroundings (`.. X N ..` next to `.. XN ..`)."""
    used = {n['name'] for n in g.nts} | {t for t, _ in g.terminals} | {g.tenum}
    types = PAYLOAD_TYPES[:N_BEHAVIOUR_TYPES] if behaviour else PAYLOAD_TYPES
    r = rng.random()
    if r < 0.3 and g.terminals:
        # a helper name of the generator together with numbered variants of it, contiguous or with gaps
        # (the generator's fresh names are X2, X3, ..: which one is free depends on all of them)
        x = rng.choice(['State', 'Node', 'Action', 'RuleKind', 'Eof', 'Quasiterminal', 'QuasiterminalKind', 'NonterminalKind', 'S',
                        'ACTION_TABLE', 'GOTO_TABLE'])
        nums = rng.choice([[2, 4], [3, 5], [2, 3], [7], [2, 3, 5], [2, 10], [4, 2, 9], [3]])
        names = [x] + [x + str(k) for k in nums]
        if not any(n in used or n in RUST_RESERVED for n in names):
            tn = [t for t, _ in g.terminals]
            as_terminal = rng.random() < 0.3
            for n in names:
                if as_terminal:
                    g.terminals.append((n, rng.choice(types)))
                else:
                    g.nts.append(_mk('struct', n, [(None, _wrap(rng, [('T', rng.choice(tn))]))], behaviour))
            nm = _fresh_nt(g, 'Numd')
            g.nts.append(_mk('struct', nm, [(None, _wrap(rng, [('T' if as_terminal else 'N', n) for n in names]))], behaviour))
            _hook(rng, g, ('N', nm), behaviour)
        return
    r = rng.random()
    if r < 0.25 and g.nts:
        # two terminals whose names differ but snake-case to the same string, with different payload types, both used
        a, b = rng.choice([('IdentRaw', 'Ident_raw'), ('AB', 'A_b'), ('LParen', 'L_paren'), ('XmlTag', 'Xml_tag'), ('Ab', 'AB')])
        if rng.random() < 0.5:
            a, b = b, a
        if a not in used and b not in used:
            ta, tb = rng.sample(types, 2) if len(types) >= 2 else (types[0], types[0])
            g.terminals.append((a, ta))
            g.terminals.append((b, tb))
            nm = _fresh_nt(g, 'Snake')
            fs = ('named', [('a', ('T', a)), ('b', ('T', b))]) if rng.random() < 0.5 else ('tuple', [(True, ('T', b)), (True, ('T', a))])
            g.nts.append(_mk('struct', nm, [(None, fs)], behaviour))
            _hook(rng, g, ('N', nm), behaviour)
        return
    r = rng.random()
    if r < 0.5 and g.terminals:
        # case variant of an existing terminal
        cands = [(t, ty) for t, ty in g.terminals if any(c.isalpha() for c in t[1:])]
        if cands:
            t, ty = rng.choice(cands)
            var = t[0] + ''.join(c.upper() if c.islower() else c.lower() for c in t[1:])
            if rng.random() < 0.5:
                var = t.upper()
            if var != t and var not in used and var not in RUST_RESERVED:
                other = [x for x in types if x != ty]
                g.terminals.append((var, rng.choice(other) if other else ty))
                nm = _fresh_nt(g, 'Case')
                fs = ('named', [('a', ('T', t)), ('b', ('T', var))]) if rng.random() < 0.5 else ('tuple', [(True, ('T', var)), (True, ('T', t))])
                g.nts.append(_mk('struct', nm, [(None, fs)], behaviour))
                _hook(rng, g, ('N', nm), behaviour)
    elif r < 0.75 and g.terminals:
        # two terminals, one name a proper suffix or prefix of the other (`$TerminalIdent` / `$Ident`), the longer declared
        # before or after the shorter, different payload types, both used
        t, ty = rng.choice(g.terminals)
        ext = rng.choice(['Terminal', 'Not', 'Raw', 'X', 'L'])
        var = (ext + t) if rng.random() < 0.6 else (t + ext)
        if var not in used and var not in RUST_RESERVED and t[:1].isupper():
            other = [x for x in types if x != ty]
            k = [i for i, (q, _) in enumerate(g.terminals) if q == t][0]
            g.terminals.insert(k if rng.random() < 0.6 else k + 1, (var, rng.choice(other) if other else ty))
            nm = _fresh_nt(g, 'Sfx')
            fs = ('named', [('a', ('T', t)), ('b', ('T', var))]) if rng.random() < 0.5 else ('tuple', [(True, ('T', var)), (True, ('T', t))])
            g.nts.append(_mk('struct', nm, [(None, fs)], behaviour))
            _hook(rng, g, ('N', nm), behaviour)
    elif g.terminals and g.nts:
        # XN next to X N
        x_is_t = rng.random() < 0.6
        x = rng.choice([t for t, _ in g.terminals]) if x_is_t else rng.choice([n['name'] for n in g.nts])
        n = rng.choice([m['name'] for m in g.nts])
        cat = x + n
        if cat not in used and cat not in RUST_RESERVED:
            if x_is_t:
                g.terminals.append((cat, rng.choice(types)))
                catsym = ('T', cat)
            else:
                g.nts.append(_mk('struct', cat, [(None, _wrap(rng, [('T', rng.choice([t for t, _ in g.terminals]))]))], behaviour))
                catsym = ('N', cat)
            lead = ('T', rng.choice([t for t, _ in g.terminals]))
            nm = _fresh_nt(g, 'Cat')
            v1 = ('tuple', [(False, lead), (True, ('T', x) if x_is_t else ('N', x)), (True, ('N', n))])
            v2 = ('tuple', [(False, lead), (True, catsym)])
            g.nts.append(_mk('enum', nm, [('Two', v1), ('One', v2)], behaviour))
            _hook(rng, g, ('N', nm), behaviour)


def _hook(rng, g, head, behaviour):
    """Make `head` reachable: a new start production next to the old start symbol."""
    tn = [t for t, _ in g.terminals]
    s0 = _fresh_nt(g, 'Top')
    before = [rng.choice([('T', rng.choice(tn)), ('N', g.start)])] if tn and rng.random() < 0.7 else []
    g.nts.insert(rng.randint(0, len(g.nts)), _mk('struct', s0, [(None, _wrap(rng, before + [head]))], behaviour))
    g.start = s0


def retype_like_nonterminal(rng, g):
    """Give one terminal a payload type spelled like a declared nonterminal N.  N must not itself hold
    that terminal (payloads are stored unboxed: it would be a type of infinite size, a user error)."""
    pairs = []
    for i, (t, _) in enumerate(g.terminals):
        for nt in g.nts:
            if not any(('T', t) in fs_syms(fs) for _, fs in nt['variants']):
                pairs.append((i, nt['name']))
    if pairs:
        i, name = rng.choice(pairs)
        g.terminals[i] = (g.terminals[i][0], name)


def _fresh_nt(g, base):
    used = {n['name'] for n in g.nts} | {t for t, _ in g.terminals} | {g.tenum}
    i = 0
    while True:
        name = '%s%d' % (base, i) if i else base
        if name not in used:
            return name
        i += 1


def _mk(kind, name, variants, behaviour):
    return dict(name=name, kind=kind, attrs=(['#[derive(Debug)]'] if behaviour else []), variants=variants)


def _wrap(rng, syms):
    """A fieldset over the given symbols with random used/_ fields."""
    if not syms:
        return ('empty',)
    if rng.random() < 0.5:
        fn = pick_names(rng, list(FIELD_NAMES), len(syms))
        return ('named', [((None if rng.random() < 0.25 else fn[i]), s) for i, s in enumerate(syms)])
    return ('tuple', [((rng.random() >= 0.25), s) for s in syms])


def add_motifs(rng, g, behaviour=False):
    """Grammar shapes that stress the table construction: chains of nonterminals that are nullable only
    through each other (declared in either order), unit chains, optional lists, alternatives sharing a
    prefix in different contexts.  Each motif adds fresh nonterminals and hooks them into the grammar."""
    if not g.terminals:
        g.terminals.append(('Tm', 'u32'))
    tn = [t for t, _ in g.terminals]
    for _ in range(rng.choice([1, 1, 2, 3])):
        m = rng.choice(['nullable_chain', 'nullable_chain', 'nullable_chain', 'unit_chain', 'opt_list', 'shared_prefix', 'shared_prefix', 'eps_alts',
                        'prefix_loop', 'prefix_loop', 'late_merge', 'late_merge', 'wide_prefix', 'wide_prefix', 'dead_tail', 'unit_tail', 'concat_keys', 'twin_dots', 'twin_dots', 'context_family', 'context_family', 'self_embed', 'mutual_nest', 'mutual_nest'])
        new = []
        if m == 'nullable_chain':
            k = rng.randint(2, 5)
            names = []
            for i in range(k):
                nm = _fresh_nt(g, rng.choice(['Gap', 'Nul', 'Eps', 'Blank']))
                g.nts.append(_mk('struct', nm, [], behaviour))     # placeholder to reserve the name
                names.append(nm)
            del g.nts[len(g.nts) - k:]
            for i, nm in enumerate(names):
                if i + 1 < k:
                    r = rng.random()
                    if r < 0.6:
                        new.append(_mk('struct', nm, [(None, _wrap(rng, [('N', names[i + 1])]))], behaviour))
                    elif r < 0.8:
                        new.append(_mk('struct', nm, [(None, _wrap(rng, [('N', names[i + 1]), ('N', names[-1])]))], behaviour))
                    else:
                        new.append(_mk('enum', nm, [('Thru', _wrap(rng, [('N', names[i + 1])])),
                                                    ('Tok', _wrap(rng, [('T', rng.choice(tn))]))], behaviour))
                else:
                    if rng.random() < 0.6:
                        new.append(_mk('struct', nm, [(None, ('empty',))], behaviour))
                    else:
                        new.append(_mk('enum', nm, [('Nil', ('empty',)), ('One', _wrap(rng, [('T', rng.choice(tn))]))], behaviour))
            head = ('N', names[0])
        elif m == 'unit_chain':
            k = rng.randint(2, 4)
            names = [None] * k
            for i in range(k):
                names[i] = _fresh_nt(g, 'Unit')
                g.nts.append(_mk('struct', names[i], [], behaviour))
            del g.nts[len(g.nts) - k:]
            for i, nm in enumerate(names):
                tgt = ('N', names[i + 1]) if i + 1 < k else ('T', rng.choice(tn))
                new.append(_mk('struct', nm, [(None, _wrap(rng, [tgt]))], behaviour))
            head = ('N', names[0])
        elif m == 'opt_list':
            nm = _fresh_nt(g, 'Lst')
            item = ('T', rng.choice(tn))
            rec = [('N', nm), item] if rng.random() < 0.5 else [item, ('N', nm)]
            new.append(_mk('enum', nm, [('Nil', ('empty',)), ('Cons', _wrap(rng, rec))], behaviour))
            head = ('N', nm)
        elif m == 'eps_alts':
            a, b = _fresh_nt(g, 'OptA'), None
            g.nts.append(_mk('struct', a, [], behaviour))
            b = _fresh_nt(g, 'OptB')
            del g.nts[-1]
            new.append(_mk('enum', a, [('No', ('empty',)), ('Yes', _wrap(rng, [('T', rng.choice(tn))]))], behaviour))
            new.append(_mk('enum', b, [('No', ('empty',)), ('Yes', _wrap(rng, [('T', rng.choice(tn))]))], behaviour))
            wrapn = _fresh_nt(g, 'Both')
            new.append(_mk('struct', wrapn, [(None, _wrap(rng, [('N', a), ('N', b)]))], behaviour))
            head = ('N', wrapn)
        elif m == 'prefix_loop':
            # X -> p Y, Y -> X q | v...: the state after `p` has a transition on `p` to ITSELF that brings a new lookahead (q),
            # which must then travel through the closure into the transitions that leave the state (on v)
            while len(tn) < 3:
                t = 'Tk%d' % len(tn)
                g.terminals.append((t, 'u32'))
                tn.append(t)
            pp, q, v = rng.sample(tn, 3)
            x = _fresh_nt(g, 'Pfx')
            g.nts.append(_mk('struct', x, [], behaviour))
            y = _fresh_nt(g, 'Opnd')
            del g.nts[-1]
            leaf = [('T', v)] + ([('T', rng.choice(tn))] if rng.random() < 0.3 else [])
            alts = [('Post', _wrap(rng, [('N', x), ('T', q)])), ('Leaf', _wrap(rng, leaf))]
            if rng.random() < 0.3:
                alts.append(('Post2', _wrap(rng, [('N', x), ('T', q), ('T', q)])))
            rng.shuffle(alts)
            new.append(_mk('struct', x, [(None, _wrap(rng, [('T', pp), ('N', y)]))], behaviour))
            new.append(_mk('enum', y, alts, behaviour))
            head = ('N', x)
        elif m == 'wide_prefix':
            # alternatives that share a prefix of L symbols and then differ: a nonterminal (declared right after, with
            # several alternatives of its own, so that their rule indices are the next ones) or a terminal.  The state after
            # the prefix holds items with dot = L together with dot-0 items of the following rules; L is often 8, 10 or 16
            # (anything that packs (rule, dot) into one number collides there).
            while len(tn) < 5:
                t = 'Tk%d' % len(tn)
                g.terminals.append((t, 'u32'))
                tn.append(t)
            L = rng.choice([7, 8, 8, 8, 9, 10, 10, 12, 13, 16, 16])
            pre = [('T', rng.choice(tn)) for _ in range(L)]
            blk = _fresh_nt(g, 'Blk')
            g.nts.append(_mk('struct', blk, [], behaviour))
            w = _fresh_nt(g, 'Wide')
            del g.nts[-1]
            firsts = rng.sample(tn, min(len(tn), rng.randint(3, 5)))
            a = firsts[0]
            alts = [('Def', _wrap(rng, pre + [('N', blk)]))]
            if rng.random() < 0.3:
                alts.append(('Alt', _wrap(rng, pre + [('N', blk), ('T', rng.choice(tn))])))
            alts.append(('Decl', _wrap(rng, pre + [('T', a)])))
            new.append(_mk('enum', w, alts, behaviour))
            balts = [('B%d' % i, _wrap(rng, [('T', t)] + ([('T', rng.choice(tn))] if rng.random() < 0.5 else []))) for i, t in enumerate(firsts[1:])]
            new.append(_mk('enum' if len(balts) > 1 else 'struct', blk, balts if len(balts) > 1 else [(None, balts[0][1])], behaviour))
            head = ('N', w)
        elif m == 'dead_tail':
            # Top -> Head N1..Nk Dead [..]: nullable nonterminals with non-empty FIRST followed by a variant-less enum (empty
            # FIRST, not nullable): FIRST(N1..Nk Dead) is FIRST(N1..Nk), and Head's closure items exist only with those lookaheads
            while len(tn) < 3:
                t = 'Tk%d' % len(tn)
                g.terminals.append((t, 'u32'))
                tn.append(t)
            k = rng.randint(1, 3)
            hd = _fresh_nt(g, 'Hd')
            g.nts.append(_mk('struct', hd, [], behaviour))
            dead = _fresh_nt(g, 'Todo')
            g.nts.append(_mk('struct', dead, [], behaviour))
            opts = []
            for i in range(k):
                o = _fresh_nt(g, 'Maybe')
                g.nts.append(_mk('struct', o, [], behaviour))
                opts.append(o)
            top = _fresh_nt(g, 'Draft')
            del g.nts[len(g.nts) - k - 2:]
            new.append(_mk('struct', top, [(None, _wrap(rng, [('N', hd)] + [('N', o) for o in opts] + [('N', dead)] + ([('T', rng.choice(tn))] if rng.random() < 0.4 else [])))], behaviour))
            new.append(_mk('enum', hd, [('H', _wrap(rng, [('T', rng.choice(tn))]))], behaviour))
            for o in opts:
                new.append(_mk('enum', o, [('Absent', ('empty',)), ('Present', _wrap(rng, [('T', rng.choice(tn))]))], behaviour))
            new.append(_mk('enum', dead, [], behaviour))
            head = ('N', top)
        elif m == 'context_family':
            # a family of rules with a common prefix (X -> c d ; Y -> c d e ; W -> c m) used behind several leading terminals in
            # different combinations, some followed by a terminal: the same (rule, dot) sits in several states with different
            # lookaheads and different neighbours, and the states of the family are neighbours in the sorted order
            need = 9
            while len(tn) < need:
                t = 'Tk%d' % len(tn)
                g.terminals.append((t, rng.choice(['u32', '()'])))
                tn.append(t)
            pool = list(tn)
            rng.shuffle(pool)
            c, d, e, mm = pool[:4]
            leads = pool[4:4 + rng.randint(2, 4)]
            trail = pool[4 + len(leads):]
            fam = {}
            for nmx, body in (('Fx', [c, d]), ('Fy', [c, d, e]), ('Fw', [c, mm])):
                q = _fresh_nt(g, nmx)
                g.nts.append(_mk('struct', q, [], behaviour))      # reserve
                fam[q] = body
            del g.nts[len(g.nts) - 3:]
            top = _fresh_nt(g, 'Fam')
            alts, seen = [], set()
            for li, l in enumerate(leads):
                members = rng.sample(list(fam), rng.randint(1, 3))
                for q in members:
                    tail = [('T', rng.choice(trail))] if trail and rng.random() < 0.4 else []
                    key = (l, q, tuple(tail))
                    if key in seen:
                        continue
                    seen.add(key)
                    alts.append(('V%d%s' % (li, q), ('tuple', [(False, ('T', l)), (True, ('N', q))] + [(False, x) for x in tail])))
            rng.shuffle(alts)
            new.append(_mk('enum', top, alts, behaviour))
            for q, body in fam.items():
                new.append(_mk('struct', q, [(None, ('tuple', [(False, ('T', x)) for x in body]))], behaviour))
            head = ('N', top)
        elif m == 'mutual_nest':
            # Block -> Open Body | a ; Body -> Open Inner | u ; Inner -> Block c ; Open -> l : the state after `Open` has TWO kernel
            # items and a transition on the nonterminal Open to itself; lookaheads travel from one kernel item to the other through
            # the loop (two rounds to saturate), and the construct is reached from two contexts whose lookaheads arrive separately
            while len(tn) < 7:
                t = 'Tk%d' % len(tn)
                g.terminals.append((t, rng.choice(['u32', '()'])))
                tn.append(t)
            a, u, c, l, k1, k2, e1 = rng.sample(tn, 7)
            stems = rng.sample(['Block', 'Body', 'Inner', 'Open', 'Choice', 'Item', 'Zone', 'Ante', 'Mid', 'Xtra'], 6)
            names = []
            for st_ in stems:
                q = _fresh_nt(g, st_)
                g.nts.append(_mk('struct', q, [], behaviour))
                names.append(q)
            top = _fresh_nt(g, 'Nest')
            del g.nts[len(g.nts) - 6:]
            blk, bod, inn, opn, cho, itm = names
            T = lambda x: ('T', x)
            N = lambda x: ('N', x)
            defs = [_mk('enum', top, [('S', _wrap(rng, [N(itm), T(e1)])), ('L', _wrap(rng, [T(k1), N(itm), T(k2)]))], behaviour),
                    _mk('struct', itm, [(None, _wrap(rng, [T(k2), N(cho)]))], behaviour),
                    _mk('enum', cho, [('B', _wrap(rng, [N(blk)])), ('O', _wrap(rng, [N(bod)]))], behaviour),
                    _mk('enum', blk, [('Nest', _wrap(rng, [N(opn), N(bod)])), ('Atom', _wrap(rng, [T(a)]))], behaviour),
                    _mk('enum', bod, [('Nest', _wrap(rng, [N(opn), N(inn)])), ('Unit', _wrap(rng, [T(u)]))], behaviour),
                    _mk('struct', inn, [(None, _wrap(rng, [N(blk), T(c)]))], behaviour),
                    _mk('struct', opn, [(None, _wrap(rng, [T(l)]))], behaviour)]
            rng.shuffle(defs)
            new += defs
            head = ('N', top)
        elif m == 'self_embed':
            # Unit -> t u next to Expr -> n | t Expr Opt u with Opt -> eps | c: after `t` the state keeps Unit -> t . u beside the
            # self-embedding Expr -> t . Expr Opt u, and goto(that state, t) has a strict subset of its cores
            while len(tn) < 4:
                t = 'Tk%d' % len(tn)
                g.terminals.append((t, 'u32'))
                tn.append(t)
            t, u, n_, c = rng.sample(tn, 4)
            un = _fresh_nt(g, 'Unitv')
            g.nts.append(_mk('struct', un, [], behaviour))
            ex = _fresh_nt(g, 'Expx')
            g.nts.append(_mk('struct', ex, [], behaviour))
            op = _fresh_nt(g, 'Optc')
            g.nts.append(_mk('struct', op, [], behaviour))
            st = _fresh_nt(g, 'Stmx')
            del g.nts[len(g.nts) - 3:]
            defs = [_mk('enum', st, [('U', _wrap(rng, [('N', un)])), ('E', _wrap(rng, [('N', ex)]))], behaviour),
                    _mk('struct', un, [(None, _wrap(rng, [('T', t), ('T', u)]))], behaviour),
                    _mk('enum', ex, [('Num', _wrap(rng, [('T', n_)])), ('Paren', _wrap(rng, [('T', t), ('N', ex), ('N', op), ('T', u)]))], behaviour),
                    _mk('enum', op, [('None', ('empty',)), ('Some', _wrap(rng, [('T', c)]))], behaviour)]
            if rng.random() < 0.5:
                defs[1], defs[2] = defs[2], defs[1]
            new += defs
            head = ('N', st)
        elif m == 'twin_dots':
            # X -> t R u | R ; R -> t v w ..: after `t` the state holds R -> t . v and (from X -> t . R u) R -> . t v — ONE rule
            # at TWO dot positions, before two different terminals, with different lookaheads
            while len(tn) < 4:
                t = 'Tk%d' % len(tn)
                g.terminals.append((t, 'u32'))
                tn.append(t)
            t, vv, ww, uu = rng.sample(tn, 4)
            rr = _fresh_nt(g, 'Call')
            g.nts.append(_mk('struct', rr, [], behaviour))
            xx = _fresh_nt(g, 'Stmt')
            del g.nts[-1]
            body = [('T', t), ('T', vv)] + ([('T', ww)] if rng.random() < 0.7 else []) + ([('T', t)] if rng.random() < 0.3 else [])
            alts = [('Lab', _wrap(rng, [('T', t), ('N', rr)] + ([('T', uu)] if rng.random() < 0.7 else []))), ('Plain', _wrap(rng, [('N', rr)]))]
            if rng.random() < 0.5:
                alts.reverse()
            xn = _mk('enum', xx, alts, behaviour)
            rn = _mk('struct', rr, [(None, _wrap(rng, body))], behaviour)
            new += [xn, rn] if rng.random() < 0.5 else [rn, xn]
            head = ('N', xx)
        elif m == 'unit_tail':
            # a production whose fields are all `_` (3..5 of them), placed after a used field of its parent
            while len(tn) < 3:
                t = 'Tk%d' % len(tn)
                g.terminals.append((t, 'u32'))
                tn.append(t)
            u = _fresh_nt(g, 'Mark')
            g.nts.append(_mk('struct', u, [], behaviour))
            par = _fresh_nt(g, 'Pred')
            del g.nts[-1]
            n = rng.randint(3, 5)
            syms = [('T', rng.choice(tn)) for _ in range(n)]
            ufs = ('tuple', [(False, x) for x in syms]) if rng.random() < 0.5 else ('named', [(None, x) for x in syms])
            first = ('T', syms[-1][1]) if rng.random() < 0.6 else ('T', rng.choice(tn))
            pfs = ('named', [('col', first), ('test', ('N', u))]) if rng.random() < 0.5 else ('tuple', [(True, first), (True, ('N', u))])
            new.append(_mk('struct', par, [(None, pfs)], behaviour))
            new.append(_mk('struct', u, [(None, ufs)], behaviour))
            head = ('N', par)
        elif m == 'concat_keys':
            # names chosen so that nonterminal ++ lookahead spells the same string twice: (Ab, CdEf) and (AbCd, Ef), both
            # expanded in one closure — anything keyed by a concatenation of names confuses them
            base, mid, tail = rng.choice([('Expr', 'List', 'End'), ('Ab', 'Cd', 'Ef'), ('Stmt', 'Seq', 'Stop'), ('X', 'Y', 'Z')])
            n1, n2, t1, t2 = base, base + mid, mid + tail, tail
            usedn = {n['name'] for n in g.nts} | {t for t, _ in g.terminals} | {g.tenum}
            if not ({n1, n2, t1, t2} & usedn):
                g.terminals += [(t1, '()'), (t2, '()'), ('Cx9', 'u32')]
                tn += [t1, t2, 'Cx9']
                pr = _fresh_nt(g, 'Prog')
                v = [('A', _wrap(rng, [('N', n2), ('T', t2)])), ('B', _wrap(rng, [('N', n1), ('T', t1)]))]
                if rng.random() < 0.5:
                    v.reverse()
                new.append(_mk('enum', pr, v, behaviour))
                new.append(_mk('struct', n1, [(None, _wrap(rng, [('T', 'Cx9')]))], behaviour))
                new.append(_mk('struct', n2, [(None, _wrap(rng, [('T', 'Cx9'), ('T', 'Cx9')]))], behaviour))
                head = ('N', pr)
            else:
                continue
        elif m == 'big_state':
            # a nonterminal with 33..70 alternatives (keywords): item sets of that size, reached from two contexts whose
            # lookaheads arrive at different times
            n = rng.choice([33, 36, 40, 64, 70])
            kws = ['Kw%d' % i for i in range(n)]
            g.terminals += [(k, '()') for k in kws]
            pt = ['Bs%d' % i for i in range(8)]
            g.terminals += [(t, '()') for t in pt]
            tn += pt
            rng.shuffle(pt)
            st = _fresh_nt(g, 'BsStmt')
            g.nts.append(_mk('struct', st, [], behaviour))
            it = _fresh_nt(g, 'BsItem')
            g.nts.append(_mk('struct', it, [], behaviour))
            ca = _fresh_nt(g, 'BsCall')
            g.nts.append(_mk('struct', ca, [], behaviour))
            wo = _fresh_nt(g, 'BsWord')
            del g.nts[len(g.nts) - 3:]
            new.append(_mk('enum', st, [('A', _wrap(rng, [('N', it), ('T', pt[0])])), ('B', _wrap(rng, [('T', pt[1]), ('N', ca), ('T', pt[2])])),
                                        ('C', _wrap(rng, [('T', pt[3]), ('N', it), ('T', pt[4])]))], behaviour))
            new.append(_mk('struct', it, [(None, _wrap(rng, [('T', pt[5]), ('N', ca)]))], behaviour))
            new.append(_mk('struct', ca, [(None, _wrap(rng, [('T', pt[6]), ('N', wo), ('T', pt[7])]))], behaviour))
            new.append(_mk('enum', wo, [('W%d' % i, ('tuple', [(False, ('T', k))])) for i, k in enumerate(kws)], behaviour))
            head = ('N', st)
        elif m == 'late_merge':
            # E -> l d E | d d d | l E r [| v]: one production appears at two dot positions in a state, the state discovered
            # last still has successors, and lookaheads reach it only in the re-propagation phase (which state is last
            # depends on the order of the terminal names, hence the random choice of names)
            while len(tn) < 3:
                t = 'Tk%d' % len(tn)
                g.terminals.append((t, 'u32'))
                tn.append(t)
            l, d, r = rng.sample(tn, 3)
            e = _fresh_nt(g, rng.choice(['Ex', 'Recv', 'Zq', 'Aq']))
            alts = [('Recv', _wrap(rng, [('T', l), ('T', d), ('N', e)])),
                    ('Hole', _wrap(rng, [('T', d)] * rng.choice([2, 3, 3, 4]))),
                    ('Group', _wrap(rng, [('T', l), ('N', e), ('T', r)]))]
            if rng.random() < 0.3:
                others = [t for t in tn if t not in (l, d, r)]
                if others:
                    alts.append(('Var', _wrap(rng, [('T', rng.choice(others))])))
            rng.shuffle(alts)
            new.append(_mk('enum', e, alts, behaviour))
            head = ('N', e)
        else:   # shared_prefix: A -> x y, B -> x z, C -> A | B, contexts p A and q C
            while len(tn) < 3:
                t = 'Tk%d' % len(tn)
                g.terminals.append((t, 'u32'))
                tn.append(t)
            x, y, z = rng.sample(tn, 3)
            a = _fresh_nt(g, 'PreA')
            g.nts.append(_mk('struct', a, [], behaviour))
            b = _fresh_nt(g, 'PreB')
            g.nts.append(_mk('struct', b, [], behaviour))
            c = _fresh_nt(g, 'PreC')
            g.nts.append(_mk('struct', c, [], behaviour))
            d = _fresh_nt(g, 'PreS')
            del g.nts[len(g.nts) - 3:]
            new.append(_mk('struct', a, [(None, _wrap(rng, [('T', x), ('T', y)]))], behaviour))
            new.append(_mk('struct', b, [(None, _wrap(rng, [('T', x), ('T', z)]))], behaviour))
            new.append(_mk('enum', c, [('A', _wrap(rng, [('N', a)])), ('B', _wrap(rng, [('N', b)]))], behaviour))
            p, q = rng.sample(tn, 2)
            new.append(_mk('enum', d, [('P', _wrap(rng, [('T', p), ('N', a)])), ('Q', _wrap(rng, [('T', q), ('N', c)]))], behaviour))
            head = ('N', d)
        # declaration order of the new nonterminals: as written (use before definition), reversed, or shuffled
        r = rng.random()
        if m == 'wide_prefix' and r < 0.8:
            r = 0.0
        if r < 0.4:
            pass
        elif r < 0.7:
            new.reverse()
        else:
            rng.shuffle(new)
        pos = rng.randint(0, len(g.nts))
        g.nts[pos:pos] = new
        # hook the motif into the grammar: a new start production, or in the middle of an existing right-hand side
        r = rng.random()
        slots = _all_sym_slots(g)
        if r < 0.5 or not slots:
            s0 = _fresh_nt(g, 'Top')
            before = [rng.choice([('T', rng.choice(tn)), ('N', g.start)])] if rng.random() < 0.7 else []
            after = [('T', rng.choice(tn))] if rng.random() < 0.7 else []
            g.nts.insert(rng.randint(0, len(g.nts)), _mk('struct', s0, [(None, _wrap(rng, before + [head] + after))], behaviour))
            g.start = s0
        else:
            n, vi, fi = rng.choice(slots)
            vname, fs = n['variants'][vi]
            fields = list(fs[1])
            extra = (None if fs[0] == 'named' and rng.random() < 0.3 else ('mo%d' % len(fields))) if fs[0] == 'named' else (rng.random() < 0.7)
            fields.insert(fi + 1 if rng.random() < 0.7 else fi, (extra, head))
            n['variants'][vi] = (vname, (fs[0], fields))


# ---------------------------------------------------------------- rendering

def render_tokens(g):
    """The grammar file as a list of token texts ('\n' entries are mandatory line breaks after attributes)."""
    toks = []
    items = []
    st = ['start', g.start]
    for nt in g.nts:
        it = []
        for a in nt['attrs']:
            it += [a, '\n']
        if nt['kind'] == 'struct':
            it += ['struct', nt['name']] + fieldset_tokens(nt['variants'][0][1])
        else:
            it += ['enum', nt['name'], '{']
            for vname, fs in nt['variants']:
                it += [vname] + fieldset_tokens(fs)
            it += ['}']
        items.append(it)
    te = []
    for a in g.tenum_attrs:
        te += [a, '\n']
    te += ['terminal', g.tenum or 'Tok', '{']
    for t, ty in g.terminals:
        te += ['$' + t, ':'] + type_tokens(ty)
    te += ['}']
    order = getattr(g, 'item_order', None)
    starts = [list(st) for _ in range(g.start_count)]
    tes = [te] if g.tenum is not None else []
    if order == 'terminal_first':
        items = tes + starts + items
    elif order == 'start_last':
        items = items + tes + starts
    elif order == 'mixed':
        k = len(items)
        items = items[:k // 3] + starts + items[k // 3:(2 * k) // 3] + tes + items[(2 * k) // 3:]
    elif order == 'terminal_first_start_last':
        items = tes + items + starts
    else:
        items = starts + items + tes
    for raw in g.extra_items:
        items.append(list(raw))
    return items


def type_tokens(ty):
    out, cur = [], ''
    i = 0
    while i < len(ty):
        c = ty[i]
        if c.isalnum() or c == '_':
            cur += c
        else:
            if cur:
                out.append(cur)
                cur = ''
            if c == ':':
                out.append('::')
                i += 1
            elif c in '<>,()':
                out.append(c)
        i += 1
    if cur:
        out.append(cur)
    return out


def fieldset_tokens(fs):
    if fs[0] == 'empty':
        return []
    out = []
    if fs[0] == 'named':
        out.append('{')
        for fname, s in fs[1]:
            out += [fname if fname is not None else '_', ':', sym_token(s)]
        out.append('}')
    else:
        out.append('(')
        for used, s in fs[1]:
            if not used:
                out += ['_', ':']
            out.append(sym_token(s))
        out.append(')')
    return out


def sym_token(s):
    return ('$' + s[1]) if s[0] == 'T' else s[1]


def needs_space(a, b):
    """Would gluing token texts a and b change the token sequence?"""
    if a == '\n' or b == '\n':
        return False
    wa = a[-1].isalnum() or a[-1] == '_'
    wb = b[0].isalnum() or b[0] == '_'
    if wa and wb:
        return True
    if a[-1] == ':' and b[0] == ':':
        return True
    return False


def layout(rng, items, style='random', shuffle_items=False):
    """Render token items to text with a random layout that keeps the token sequence."""
    if shuffle_items:
        items = list(items)
        rng.shuffle(items)
    out = []
    prev = None

    def gap(must):
        if style == 'plain':
            return ' ' if must else ''
        r = rng.random()
        if style == 'dense':
            return ' ' if must else ''
        s = ''
        if r < 0.15:
            s = '// ' + rng.choice(['c', 'x y z', 'é€\U0001F600', 'start struct $', '#[', '', tricky_text(rng), tricky_text(rng, 1, 3) + ' Leaf(_: $Dot)',
                                    # long (>= 48 bytes, up to a few hundred) with multi-byte characters: bytes != chars
                                    'Repr\u00e9sentation d\'une expression entre parenth\u00e8ses \u00e9quilibr\u00e9es ' + tricky_text(rng, 0, 60),
                                    tricky_text(rng, 48, 200),
                                    # separators that are line breaks elsewhere (not inside a `//` comment), then token-like text
                                    'x\u2028$Star: ()', 'y\u2029struct Zq', 'z\u0085$Zz', 'v\x0b,', 'w\x0c{', 'cr\rstart Qq']) + '\n'
        elif r < 0.5 or must:
            s = ''.join(rng.choice(UNI_SPACES) for _ in range(rng.randint(1, 3)))
        return s

    for it in items:
        for t in it:
            if t == '\n':
                # nothing at all may follow an attribute: `#[a]#[b]struct` is three tokens
                out.append(rng.choice(['\n', '\r\n', '\n\n', ' \n', '', '', ' ', '\t', '//c\n']) if style != 'plain' else '\n')
                prev = '\n'
                continue
            if prev is not None:
                out.append(gap(needs_space(prev, t)))
            out.append(t)
            prev = t
        out.append(rng.choice(['\n', '\n\n', '\r\n', ' ']) if style != 'plain' else '\n')
        prev = '\n' if True else prev
    if style == 'random' and rng.random() < 0.2:
        out.append('// trailing comment without newline')
    return ''.join(out)


def render(rng, g, style='random'):
    return layout(rng, render_tokens(g), style)


def render_plain(g):
    return layout(random.Random(0), render_tokens(g), 'plain')


# ---------------------------------------------------------------- grammar analysis (python side)

def analyse(g):
    """nullable and productive nonterminals; FIRST is not needed here."""
    rules = g.rule_syms()
    nts = [n['name'] for n in g.nts]
    productive, nullable = set(), set()
    changed = True
    while changed:
        changed = False
        for lhs, rhs in rules:
            if lhs not in productive and all(s[0] == 'T' or s[1] in productive for s in rhs):
                productive.add(lhs)
                changed = True
            if lhs not in nullable and all(s[0] == 'N' and s[1] in nullable for s in rhs):
                nullable.add(lhs)
                changed = True
    return dict(rules=rules, nts=nts, productive=productive, nullable=nullable)


def sample_sentence(rng, g, info, max_depth=7):
    """Random derivation from the start symbol; returns a list of terminal indices or None."""
    tidx = {t: i for i, (t, _) in enumerate(g.terminals)}
    by_lhs = {}
    for lhs, rhs in info['rules']:
        by_lhs.setdefault(lhs, []).append(rhs)
    # minimal depth of each productive nonterminal
    depth = {}
    changed = True
    while changed:
        changed = False
        for lhs, rhs in info['rules']:
            if all(s[0] == 'T' or s[1] in depth for s in rhs):
                d = 1 + max([0] + [depth[s[1]] for s in rhs if s[0] == 'N'])
                if lhs not in depth or d < depth[lhs]:
                    depth[lhs] = d
                    changed = True
    if g.start not in depth:
        return None
    out = []

    def expand(nt, budget):
        alts = [r for r in by_lhs.get(nt, []) if all(s[0] == 'T' or (s[1] in depth and depth[s[1]] < budget) for s in r)]
        if not alts:
            alts = [r for r in by_lhs.get(nt, []) if all(s[0] == 'T' or s[1] in depth for s in r)]
            alts.sort(key=lambda r: max([0] + [depth[s[1]] for s in r if s[0] == 'N']))
            alts = alts[:1]
        rhs = rng.choice(alts)
        for s in rhs:
            if len(out) > 60:
                return
            if s[0] == 'T':
                out.append(tidx[s[1]])
            else:
                expand(s[1], budget - 1)

    expand(g.start, max(max_depth, depth[g.start] + rng.randint(0, 3)))
    return out


def mutate_sentence(rng, w, nterm):
    w = list(w)
    if nterm == 0:
        return w
    r = rng.random()
    if r < 0.25 and w:
        del w[rng.randrange(len(w))]
    elif r < 0.5:
        w.insert(rng.randint(0, len(w)), rng.randrange(nterm))
    elif r < 0.7 and len(w) >= 2:
        i = rng.randrange(len(w) - 1)
        w[i], w[i + 1] = w[i + 1], w[i]
    elif r < 0.85 and w:
        w = w[:rng.randint(0, len(w))]
    elif w:
        w[rng.randrange(len(w))] = rng.randrange(nterm)
    return w


# ---------------------------------------------------------------- text-level generators

LEX_PIECES = ['\uff12', '\u00b2', '\u00bd', '\u0663', '\u2163', '\u00c9', '\u01c5', '\u00aa', '\uff3f', '\uff04', '\uff1a', '$Ab\uff12', 'Ab\u00b2', '$x\u0663y', 'start\u00c9', '$\uff21', '_\u2163', 'start', 'struct', 'enum', 'terminal', '_', 'Foo', 'bar_9', '$Tok', '$start', '$_', '$_x', '$', ':', '::', ':::',
              ',', '(', ')', '{', '}', '<', '>', '#[a]', '#[a(b)]', '#[a[b]{c}(d)]', '#[(]]', '#[', '#', '#[x\n]',
              '#[doc = "é"]', '#[€]', '#[é(]]', '#[€{)}]', '#[doc="ü"(]]', '#[😀[}]', '#[ß(ü])]', '#[a"é"]]', '#[(é)]', '#[{€}]x', '#[\U0001F600 (x)]', '#[a]]', '#[a)]', '#[{)}]', '/', '//', '// c\n', '//é\n',
              '\n', '\r\n', ' ', '\t', ' ', '　', ' ', '4', '4ever', 'x4', 'é', '€', '\U0001F600', '"', "'", ';',
              '=', '-', '+', '*', '!', '@', '[', ']', '\\', '$9', '$$', '$ ', 'struct_', '_struct', 'terminalx', 'START', '#!',
              '#[derive(Debug, Clone)]', '#[cfg(any(a, b))]', '​', '﻿', '\x00', '\x7f', '\u0085']


# code points on which Rust's Unicode-aware char predicates (is_numeric, is_alphabetic, is_alphanumeric, is_uppercase,
# is_lowercase, ...) differ from their is_ascii_* counterparts, and look-alikes of Kiki's punctuation: one per general category
UNI_CLASS = ['\uff12', '\u00b2', '\u00bd', '\u0663', '\u2163', '\u3007', '\u00c9', '\u01c5', '\u00aa', '\u02b0', '\u03a9',
             '\u00df', '\u65e5', '\u24d0', '\u0301', '\u200d', '\uff3f', '\uff04', '\uff1a', '\uff21', '\uff41', '\u203f']
# one representative of every kind of lexeme and of every kind of junk, for exhaustive pair / triple coverage
LEX_CORE = UNI_CLASS + ['#[]', '#["("]', '#["]"]', 'start', 'struct', 'enum', 'terminal', '_', 'Abc', 'abc', 'x1', '_x', '$Abc', '$start', '$_', '$', ':', '::', ':::', ',',
            '(', ')', '{', '}', '<', '>', '#[a]', '#[a(b)]', '#[', '#', '\u00e9', '\u00a0', '\ufeff', '//', '/', '0', '9a', '"', '-', '.', ';', '=',
            '\u3000', '\r', 'Start', 'terminals']
LEX_SEPS = ['', ' ', '\n', '//c\n', '\u00a0', '\t']


def lex_pairs():
    """Every ordered pair of core lexemes, glued and separated in every way; every ordered triple of a smaller core, glued."""
    out = []
    for a in LEX_CORE:
        for b in LEX_CORE:
            for sep in LEX_SEPS:
                out.append(a + sep + b)
    small = ['start', '_', 'Ab', '$Ab', ':', '::', '(', '#[a]', '\u00e9', '/', ' ', '\n']
    for a in small:
        for b in small:
            for c in small:
                out.append(a + b + c)
    return out


def gen_lex_text(rng, n=None):
    n = n if n is not None else rng.randint(0, 14)
    return ''.join(rng.choice(LEX_PIECES) + rng.choice(['', '', ' ', '\n']) for _ in range(n))


def mutate_text(rng, s):
    if not s:
        return rng.choice(LEX_PIECES)
    r = rng.random()
    i = rng.randrange(len(s))
    if r < 0.3:
        return s[:i] + s[i + 1:]
    if r < 0.6:
        return s[:i] + rng.choice(LEX_PIECES) + s[i:]
    if r < 0.8:
        j = min(len(s), i + rng.randint(1, 8))
        return s[:i] + s[j:]
    return s[:i] + rng.choice(LEX_PIECES) + s[i + 1:]


def mutate_token_items(rng, items):
    """Token-level mutation of a valid file: delete / duplicate / swap / insert a token."""
    flat = [t for it in items for t in it + ['\n']]
    if not flat:
        return [flat]
    r = rng.random()
    i = rng.randrange(len(flat))
    pool = ['start', 'struct', 'enum', 'terminal', '_', 'Zz', '$Zz', ':', '::', ',', '(', ')', '{', '}', '<', '>', '#[zz]', 'fld']
    if rng.random() < 0.15:
        # tokens whose text is long (beyond 255 / 256 / 65535 bytes or characters): attributes and names, ASCII and multi-byte
        k = rng.choice([255, 256, 257, 300, 70000])
        pool = ['#[doc = "%s"]' % ('d' * k), '#[doc = "%s"]' % ('\u00e9' * k), 'L' + 'o' * k, '$L' + 'o' * k, 'l' + 'o' * k]
    if rng.random() < 0.2:
        # aim at the places where the neighbouring token matters: right after / before `::`, `$`-names, `<`, `:`
        spots = [k for k, t in enumerate(flat) if t in ('::', ':', '<', ',') or t.startswith('$')]
        if spots:
            k = rng.choice(spots)
            flat.insert(k + (1 if rng.random() < 0.7 else 0), rng.choice(['start', 'struct', 'enum', 'terminal', '_', '::', '$Zz', 'Zz']))
            return [flat]
    if r < 0.3:
        del flat[i]
    elif r < 0.55:
        flat.insert(i, rng.choice(pool))
    elif r < 0.7 and len(flat) > 1:
        j = rng.randrange(len(flat))
        flat[i], flat[j] = flat[j], flat[i]
    elif r < 0.85:
        flat = flat[:i]
    else:
        flat[i] = rng.choice(pool)
    return [flat]


# ---------------------------------------------------------------- well-formedness violations

def inject_violations(rng, g, k=None):
    """Mutates g in place with k static-validation violations; returns their kinds."""
    kinds = []
    k = k if k is not None else rng.choice([1, 1, 1, 2, 2, 3])
    for _ in range(k):
        v = rng.choice(['nostart', 'multistart', 'noterm', 'multiterm', 'undef_nt', 'undef_t', 'wrong_ns_nt',
                        'wrong_ns_t', 'clash_nt', 'clash_t', 'clash_tenum', 'clash_nt_t', 'variant_name',
                        'variant_seq', 'lower_nt', 'lower_t', 'lower_tenum', 'lower_variant', 'upper_field',
                        'undef_start', 'start_is_terminal', 'ref_tenum_as_nt', 'ref_tenum_as_t', 'start_is_tenum',
                        'start_case', 'ref_case_nt', 'ref_case_t', 'variant_seq_x2', 'variant_name_x2', 'clash_x2',
                        'sigil_twin', 'clash_nt_t_x2'])
        if kinds and rng.random() < 0.35:
            v = kinds[-1]        # the same kind of violation again, somewhere else: which one is reported depends on the text only
        kinds.append(v)
        nts = g.nts
        def _case_variant(n):
            cands = [n.lower(), n.upper(), n[0].lower() + n[1:], n.swapcase()]
            return next((c for c in cands if c != n and c not in RUST_RESERVED), None)
        defined_nts = {n['name'] for n in nts}
        defined_ts = {t for t, _ in g.terminals}
        if v == 'variant_seq_x2':
            # two DIFFERENT symbol sequences, each used by two variants of the same enum (which clash is reported must not
            # depend on anything but the text)
            es = [n for n in nts if n['kind'] == 'enum' and len(n['variants']) >= 2 and len({tuple(fs_syms(f)) for _, f in n['variants']}) >= 2]
            if es:
                e = rng.choice(es)
                seen, picks = set(), []
                for vn, fs in e['variants']:
                    k = tuple(fs_syms(fs))
                    if k not in seen:
                        seen.add(k)
                        picks.append(fs)
                for j, fs in enumerate(picks[:rng.choice([2, 2, 3])]):
                    syms = fs_syms(fs)
                    alt = ('empty',) if not syms else ('tuple', [(True, q) for q in syms])
                    e['variants'].insert(rng.randint(0, len(e['variants'])), ('Dup%d' % (90 + j), alt))
            continue
        if v == 'variant_name_x2':
            es = [n for n in nts if n['kind'] == 'enum' and len(n['variants']) >= 2]
            if es:
                e = rng.choice(es)
                for j, (vn, _) in enumerate(list(e['variants'])[:2]):
                    e['variants'].insert(rng.randint(0, len(e['variants'])), (vn, ('tuple', [(True, ('N', nts[0]['name']))] * (6 + j))))
            continue
        if v == 'sigil_twin':
            # a variant next to a copy of itself in which ONE symbol changed namespace (`Lit(Num)` beside `Tok($Num)`): the two
            # sequences are different (no clash); the copy's symbol is undefined unless the name exists on both sides
            es = [n for n in nts if n['kind'] == 'enum' and any(fs_syms(f) for _, f in n['variants'])]
            if es:
                e = rng.choice(es)
                vname, fs = rng.choice([(a, f) for a, f in e['variants'] if fs_syms(f)])
                syms = list(fs_syms(fs))
                i = rng.randrange(len(syms))
                syms[i] = ('N' if syms[i][0] == 'T' else 'T', syms[i][1])
                twin = ('tuple', [(True, q) for q in syms])
                e['variants'].insert(rng.randint(0, len(e['variants'])), ((vname or 'V') + 'Twin', twin))
            continue
        if v == 'clash_nt_t_x2' and len(nts) >= 2:
            # two different names, each declared on both sides (which clash is reported depends on the text only)
            for n in rng.sample(nts, 2):
                g.terminals.insert(rng.randint(0, len(g.terminals)), (n['name'], '()'))
            continue
        if v == 'clash_x2' and len(nts) >= 2:
            for n in rng.sample(nts, 2):
                g.nts.insert(rng.randint(0, len(g.nts)), dict(name=n['name'], kind='struct', attrs=[], variants=[(None, ('empty',))]))
            continue
        if v == 'start_case' and nts:
            c = _case_variant(g.start)
            if c and c not in defined_nts:
                g.start = c                       # `start expr` with `enum Expr`
            continue
        if v == 'ref_case_nt' and nts:
            c = _case_variant(rng.choice(nts)['name'])
            if c and c not in defined_nts:
                _replace_sym(rng, g, ('N', c))
            continue
        if v == 'ref_case_t' and nts and g.terminals:
            c = _case_variant(rng.choice(g.terminals)[0])
            if c and c not in defined_ts:
                _replace_sym(rng, g, ('T', c))
            continue
        if v == 'ref_tenum_as_nt' and nts and g.tenum:
            _replace_sym(rng, g, ('N', g.tenum))          # `tok: Token` — the terminal ENUM's name where a nonterminal is due
            continue
        if v == 'ref_tenum_as_t' and nts and g.tenum:
            _replace_sym(rng, g, ('T', g.tenum))          # `$Token`
            continue
        if v == 'start_is_tenum' and g.tenum:
            g.start = g.tenum
            continue
        if v == 'nostart':
            g.start_count = 0
        elif v == 'multistart':
            g.start_count = rng.choice([2, 3])
        elif v == 'noterm':
            g.tenum = None
        elif v == 'multiterm':
            g.extra_items.append(['terminal', 'Other', '{', '$Zq', ':', '(', ')', '}'])
        elif v == 'undef_nt' and nts:
            _replace_sym(rng, g, ('N', 'Undefined9'))
        elif v == 'undef_t' and nts:
            _replace_sym(rng, g, ('T', 'Undefined9'))
        elif v == 'wrong_ns_nt' and nts and g.terminals:
            _replace_sym(rng, g, ('N', rng.choice(g.terminals)[0]))     # terminal name used as nonterminal
        elif v == 'wrong_ns_t' and nts:
            _replace_sym(rng, g, ('T', rng.choice(nts)['name']))        # nonterminal name used as terminal
        elif v == 'clash_nt' and nts:
            n = rng.choice(nts)
            g.nts.insert(rng.randint(0, len(nts)), dict(name=n['name'], kind='struct', attrs=[], variants=[(None, ('empty',))]))
        elif v == 'clash_t' and g.terminals:
            t = rng.choice(g.terminals)
            g.terminals.insert(rng.randint(0, len(g.terminals)), (t[0], '()'))
        elif v == 'clash_tenum' and nts and g.tenum:
            g.tenum = rng.choice(nts)['name'] if rng.random() < 0.5 or not g.terminals else rng.choice(g.terminals)[0]
        elif v == 'clash_nt_t' and nts:
            g.terminals.append((rng.choice(nts)['name'], '()'))
        elif v == 'variant_name':
            es = [n for n in nts if n['kind'] == 'enum' and n['variants']]
            if es:
                e = rng.choice(es)
                e['variants'].append((rng.choice(e['variants'])[0], ('tuple', [(True, ('N', nts[0]['name']))] * 5)))
        elif v == 'variant_seq':
            es = [n for n in nts if n['kind'] == 'enum' and n['variants']]
            if es:
                e = rng.choice(es)
                fs = rng.choice(e['variants'])[1]
                syms = fs_syms(fs)
                alt = ('empty',) if not syms else rng.choice([('tuple', [(rng.random() < 0.5, s) for s in syms]),
                                                              ('named', [(None, s) for s in syms])])
                e['variants'].append(('Dup9', alt))
        elif v == 'lower_nt' and nts:
            n = rng.choice(nts)
            old = n['name']
            new = rng.choice(['lower9', '_x1', 'a', '_9z', '_1foo', '__7v', '_0_a'])
            _rename_nt(g, old, new)
        elif v == 'lower_t' and g.terminals:
            i = rng.randrange(len(g.terminals))
            old = g.terminals[i][0]
            new = rng.choice(['low9', '_t', 'q', '_0num', '__1t'])
            g.terminals[i] = (new, g.terminals[i][1])
            _rename_sym(g, ('T', old), ('T', new))
        elif v == 'lower_tenum' and g.tenum:
            g.tenum = rng.choice(['tok', '_tok', 't9', '_9tok', '__0k'])
        elif v == 'lower_variant':
            es = [n for n in nts if n['kind'] == 'enum' and n['variants']]
            if es:
                e = rng.choice(es)
                i = rng.randrange(len(e['variants']))
                e['variants'][i] = (rng.choice(['low', '_v', 'v9', '__7v', '_1v']), e['variants'][i][1])
        elif v == 'upper_field':
            cands = [(n, i) for n in nts for i, (_, fs) in enumerate(n['variants']) if fs[0] == 'named']
            if cands:
                n, i = rng.choice(cands)
                vname, fs = n['variants'][i]
                fields = list(fs[1])
                j = rng.randrange(len(fields))
                fields[j] = (rng.choice(['Upper', '_U', 'X', '_1X', '__0Y']), fields[j][1])
                n['variants'][i] = (vname, ('named', fields))
        elif v == 'undef_start':
            g.start = 'NoSuchStart9'
        elif v == 'start_is_terminal' and g.terminals:
            g.start = rng.choice(g.terminals)[0]
    return kinds


def _all_sym_slots(g):
    slots = []
    for n in g.nts:
        for vi, (_, fs) in enumerate(n['variants']):
            if fs[0] != 'empty':
                for fi in range(len(fs[1])):
                    slots.append((n, vi, fi))
    return slots


def _replace_sym(rng, g, new):
    slots = _all_sym_slots(g)
    if not slots:
        g.nts.append(dict(name='Holder9', kind='struct', attrs=[], variants=[(None, ('tuple', [(True, new)]))]))
        return
    n, vi, fi = rng.choice(slots)
    vname, fs = n['variants'][vi]
    fields = list(fs[1])
    fields[fi] = (fields[fi][0], new)
    n['variants'][vi] = (vname, (fs[0], fields))


def _rename_sym(g, old, new):
    for n in g.nts:
        for vi, (vname, fs) in enumerate(n['variants']):
            if fs[0] != 'empty':
                n['variants'][vi] = (vname, (fs[0], [(a, new if s == old else s) for a, s in fs[1]]))


def _rename_nt(g, old, new):
    for n in g.nts:
        if n['name'] == old:
            n['name'] = new
    if g.start == old:
        g.start = new
    _rename_sym(g, ('N', old), ('N', new))


# ---------------------------------------------------------------- curated corpus

CURATED = {
    'slr_not_lr0': 'start E\nenum E { Add(E $Plus T) One(T) }\nenum T { Mul(T $Star F) One(F) }\nenum F { Par($L E $R) Id($Id) }\nterminal K { $Plus: () $Star: () $L: () $R: () $Id: u32 }\n',
    'lalr_not_slr': 'start S\nenum S { A(L $Eq R) B(R) }\nenum L { Deref($Star R) Id($Id) }\nstruct R(L)\nterminal K { $Eq: () $Star: () $Id: u32 }\n',
    'lr1_not_lalr': 'start S\nenum S { A($A E $C) B($A F $D) C($B F $C) D($B E $D) }\nstruct E($E)\nstruct F($E)\nterminal K { $A: () $B: () $C: () $D: () $E: () }\n',
    'ambiguous_expr': 'start E\nenum E { Add(E $Plus E) Id($Id) }\nterminal K { $Plus: () $Id: u32 }\n',
    'dangling_else': 'start S\nenum S { If($If S) IfElse($If S $Else S) X($X) }\nterminal K { $If: () $Else: () $X: () }\n',
    'eps_middle': 'start S\nstruct S { a: $A  o: Opt  b: $B }\nenum Opt { No  Yes($C) }\nterminal K { $A: u32 $B: u32 $C: u32 }\n',
    'unproductive': 'start S\nenum S { A($A) B(U) }\nstruct U(U $A)\nterminal K { $A: u32 }\n',
    'unreachable': 'start S\nstruct S($A)\nstruct Z($A $A)\nterminal K { $A: u32 }\n',
    'left_right_rec': 'start L\nenum L { Nil  Cons(L $A) }\nenum R { Nil  Cons($A R) }\nterminal K { $A: u32 }\n',
    'variantless_enum_ref': 'start A\nstruct A(E)\nenum E {}\nterminal T {}\n',
    'variantless_enum_unref': 'start A\nstruct A($X)\nenum E {}\nterminal T { $X: () }\n',
    'zero_terminals': 'start A\nstruct A\nterminal T {}\n',
    'all_underscore': 'start A\nstruct A { _: $X _: B }\nstruct B(_: $X)\nterminal T { $X: u32 }\n',
    'start_named_S': 'start S\nstruct S\nterminal T { $A: () }\n',
    'variant_named_error': 'start Expr\nenum Expr { Error($Bad) Num($Num) }\nterminal T { $Bad: () $Num: () }\n',
    'nonterminal_named_error': 'start Error\nstruct Error($Num)\nterminal T { $Num: () }\n',
    'eof_terminal': 'start A\nstruct A($Eof)\nterminal T { $Eof: () }\n',
    'eof_nonterminal': 'start Eof\nstruct Eof($A)\nterminal T { $A: () }\n',
    'wrong_namespace_nt': 'start A\nstruct A(Num)\nterminal Tok { $Num: () }\n',
    'wrong_namespace_t': 'start A\nstruct A($B)\nstruct B\nterminal Tok { $Num: () }\n',
    'tuple_struct_used': 'start P\nstruct P($A $A)\nterminal T { $A: u32 }\n',
    'attr_multibyte': '#[doc = "é"]\nstruct A\nstart A\nterminal T {}\n',
    'attr_euro': '#[€]\nstruct A\nstart A\nterminal T {}\n',
    'attr_mismatch_offset': '   #[(]]',
    'attr_unterminated_eof': 'start A terminal T {} struct A #[foo',
    'helper_names': 'start State\nstruct State { node: Node  action: $Action }\nenum Node { RuleKind(RuleKind) Quasiterminal($Quasiterminal) }\nstruct RuleKind\nterminal Terminal { $Action: () $Quasiterminal: u32 $NonterminalKind: () $QuasiterminalKind: () }\n',
    'reduce_names': 'start A\nstruct A { states: $X  nodes: B }\nstruct B { _: $X  t0: $X }\nterminal T { $X: u32 }\n',
    'generic_types': 'start A\nstruct A($X $Y)\nterminal T { $X: a::b::C<d::E, F<(), g::H>>  $Y: Vec<Vec<u32>> }\n',
    'dollar_keyword': '$start',
    'colons': ':::::',
    'empty': '',
    'nullable_chain_top_down': 'start S\nstruct Head { _: $A }\nstruct S { a: Head  c: C  _: $X }\nstruct C { d: D }\nstruct D { b: B }\nstruct B\nterminal Token { $A: ()  $X: () }\n',
    'nullable_chain_trailer': 'start Doc\nstruct Doc { head: $Word  mods: Mods  trailer: Trailer }\nenum Mods { Nil  Cons($Bang Mods) }\nenum Trailer { Semi($Semi)  None(Blank) }\nstruct Blank(Nothing)\nstruct Nothing\nterminal Token { $Word: ()  $Bang: ()  $Semi: () }\n',
    'nullable_chain_conflict': 'start S\nenum S { A(P Gap $X)  B(Q $X) }\nstruct P($Y)\nstruct Q($Y)\nstruct Gap(Gap2)\nstruct Gap2(Gap3)\nstruct Gap3(Gap4)\nstruct Gap4\nterminal T { $X: ()  $Y: () }\n',
    'prefix_cores': 'start S\nenum S { P($P A)  Q($Q C) }\nenum C { A(A)  B(B) }\nstruct A($X $Y)\nstruct B($X $Z)\nterminal T { $P: ()  $Q: ()  $X: ()  $Y: ()  $Z: () }\n',
    'only_comment': '// nothing',
}


# ---------------------------------------------------------------- FIRST-map stress

def gen_first_stress(rng, behaviour=False):
    """Small rule sets that stress the FIRST / nullable fixpoint: mostly nonterminals on the right-hand sides, many empty
    productions, mutual and left recursion, declaration order unrelated to dependency order (the fixpoint's passes follow
    the declaration order, so when a fact arrives — and in which pass nothing else changes — depends on it)."""
    g = Grammar()
    if rng.random() < 0.25:
        return _first_chain(rng, g, behaviour)
    nn = rng.randint(2, 6)
    nt = rng.randint(1, 3)
    names = pick_names(rng, list(PLAIN_NAMES), nn, avoid=RUST_RESERVED)
    tnames = pick_names(rng, list(TERMINAL_NAMES), nt, avoid=set(names) | RUST_RESERVED)
    g.tenum = 'Tok'
    g.tenum_attrs = ['#[derive(Debug)]'] if behaviour else []
    g.terminals = [(t, '()') for t in tnames]
    g.start = rng.choice(names)
    p_nt = rng.choice([0.5, 0.7, 0.85])
    p_empty = rng.choice([0.1, 0.25, 0.4])

    def rhs():
        if rng.random() < p_empty:
            return []
        return [('N', rng.choice(names)) if rng.random() < p_nt else ('T', rng.choice(tnames))
                for _ in range(rng.choice([1, 1, 2, 2, 2, 3, 3, 4]))]

    for name in names:
        k = rng.choice([1, 1, 2, 2, 3])
        if k == 1:
            g.nts.append(_mk('struct', name, [(None, _wrap(rng, rhs()))], behaviour))
        else:
            seen, variants = set(), []
            for i in range(k):
                for _ in range(8):
                    r = rhs()
                    if tuple(r) not in seen:
                        seen.add(tuple(r))
                        variants.append(('V%d' % i, _wrap(rng, r)))
                        break
            g.nts.append(_mk('enum', name, variants, behaviour))
    rng.shuffle(g.nts)
    return g


def _first_chain(rng, g, behaviour):
    """A chain of unit productions A1 -> A2 -> .. -> Ak declared top-down (or in a random order), nullable at the bottom,
    with a feedback rule C -> A1 t, Ak -> C: nullability climbs the chain one level per pass and only then does `t` travel
    round the feedback and climb it again — about 2k passes for about k rules.  Few other rules."""
    k = rng.randint(3, 9)
    names = pick_names(rng, list(PLAIN_NAMES), k + 3, avoid=RUST_RESERVED)
    chain, fb, pre, top = names[:k], names[k], names[k + 1], names[k + 2]
    tnames = pick_names(rng, list(TERMINAL_NAMES), 4, avoid=set(names) | RUST_RESERVED)
    t, end, item, stop = tnames
    g.tenum = 'Tok'
    g.tenum_attrs = ['#[derive(Debug)]'] if behaviour else []
    g.terminals = [(x, '()') for x in tnames]
    nts = []
    for i in range(k - 1):
        nts.append(_mk('struct', chain[i], [(None, _wrap(rng, [('N', chain[i + 1])]))], behaviour))
    bottom = [('Nil', ('empty',)), ('More', _wrap(rng, [('N', fb)] + ([('T', rng.choice(tnames))] if rng.random() < 0.5 else [])))]
    nts.append(_mk('enum', chain[-1], bottom, behaviour))
    fbrule = _mk('struct', fb, [(None, _wrap(rng, [('N', chain[0]), ('T', t)]))], behaviour)
    shape = rng.random()
    if shape < 0.4:
        # nothing else: the chain is the grammar
        g.start = chain[0]
        extra = []
    else:
        # a context in which FIRST(chain[0]) decides a lookahead
        g.start = top
        extra = [_mk('enum', top, [('Body', _wrap(rng, [('N', pre), ('N', chain[0]), ('T', end)])),
                                   ('Bare', _wrap(rng, [('T', rng.choice([t, item])), ('T', stop)]))], behaviour),
                 _mk('struct', pre, [(None, ('empty',))], behaviour)]
    order = rng.random()
    if order < 0.6:
        g.nts = extra + ([fbrule] if rng.random() < 0.5 else []) + nts
        if fbrule not in g.nts:
            g.nts.append(fbrule)
    elif order < 0.8:
        g.nts = nts[::-1] + [fbrule] + extra
    else:
        g.nts = extra + nts + [fbrule]
        rng.shuffle(g.nts)
    return g


def first_reference(g):
    """FIRST and nullable by the defining rules (least fixpoint, chaotic iteration until nothing changes)."""
    first = {nt['name']: set() for nt in g.nts}
    nullable = {nt['name']: False for nt in g.nts}
    rules = [(lhs, fs_syms(fs)) for lhs, _, fs in g.rules()]
    changed = True
    while changed:
        changed = False
        for lhs, rhs in rules:
            allnull = True
            for k, x in rhs:
                if k == 'T':
                    if x not in first[lhs]:
                        first[lhs].add(x)
                        changed = True
                    allnull = False
                    break
                add = first.get(x, set()) - first[lhs]
                if add:
                    first[lhs] |= add
                    changed = True
                if not nullable.get(x, False):
                    allnull = False
                    break
            if allnull and not nullable[lhs]:
                nullable[lhs] = True
                changed = True
    return first, nullable


def first_probe_variants(g, a, behaviour=False):
    """Grammars around g in which FIRST(a) / nullable(a) is consulted by the LALR construction: a fresh start production
    puts `a` right after a fresh nonterminal (and before a fresh terminal), declared after or before everything else."""
    out = []
    for tail in (False, True):
        for front in (False, True):
            h = Grammar()
            h.tenum_attrs = list(g.tenum_attrs)
            h.tenum, h.terminals = g.tenum, list(g.terminals) + [('Yy9', '()')] + ([('Zz9', '()')] if tail else [])
            new = [_mk('struct', 'Top9', [(None, ('tuple', [(True, ('N', 'Yn9')), (True, ('N', a))] + ([(True, ('T', 'Zz9'))] if tail else [])))], behaviour),
                   _mk('struct', 'Yn9', [(None, ('tuple', [(True, ('T', 'Yy9'))]))], behaviour)]
            h.nts = (new + list(g.nts)) if front else (list(g.nts) + new)
            h.start = 'Top9'
            out.append(h)
    return out


# ---------------------------------------------------------------- large automata from small pieces

def join_grammars(rng, parts):
    """One grammar whose automaton is (roughly) the disjoint union of the parts' automata: every name of part i gets the
    suffix `Q<i>`, and a new start symbol chooses a part by a fresh leading terminal.  The conflicts of the whole are the
    conflicts of the parts; the sizes (states, transitions, rules, terminals) add up — small patterns in a big automaton."""
    g = Grammar()
    g.tenum = 'Tok'
    g.start = 'Whole'
    variants = []
    for i, h in enumerate(parts):
        suf = 'Q%d' % i
        ren = lambda n: n + suf
        for t, ty in h.terminals:
            g.terminals.append((ren(t), ty))
        lead = 'Lead%d' % i
        g.terminals.append((lead, '()'))
        for nt in h.nts:
            vs = []
            for vname, fs in nt['variants']:
                if fs[0] == 'empty':
                    vs.append((vname, fs))
                else:
                    fix = lambda fld: (fld + '_') if fld == 'terminal' else fld     # a reserved word as a field name is a syntax error
                    vs.append((vname, (fs[0], [(fix(fld) if fs[0] == 'named' else fld, (k, ren(x))) for fld, (k, x) in fs[1]])))
            g.nts.append(dict(name=ren(nt['name']), kind=nt['kind'], attrs=list(nt['attrs']), variants=vs))
        variants.append(('P%d' % i, ('tuple', [(False, ('T', lead)), (True, ('N', ren(h.start)))])))
    g.nts.insert(rng.randint(0, len(g.nts)), dict(name='Whole', kind='enum', attrs=[], variants=variants))
    if rng.random() < 0.6:
        g.item_order = rng.choice(['terminal_first', 'start_last', 'mixed', 'terminal_first_start_last'])
    return g


def conflict_motif(rng, behaviour=False):
    """A small grammar with exactly one well-known kind of LALR(1) conflict, terminal names drawn at random
    (which item of a conflict is met first depends on their order)."""
    g = Grammar()
    g.tenum = 'Tok'
    tn = pick_names(rng, list(TERMINAL_NAMES), 4, avoid=RUST_RESERVED)
    g.terminals = [(t, '()') for t in tn]
    x, s_, y, z = tn
    T = lambda t: ('T', t)
    N = lambda n: ('N', n)
    kind = rng.choice(['same_rule_sr', 'same_rule_sr', 'dangling', 'binop', 'rr', 'lr1_not_lalr'])
    mk = lambda k, n, v: _mk(k, n, v, behaviour)
    tup = lambda syms: ('tuple', [(True, q) for q in syms])
    if kind == 'same_rule_sr':
        # F -> Ty x s | x Ty s ; Ty -> x : after x, reduce Ty -> x . on x against the shift of the SAME rule's Ty -> . x
        g.start = 'Fld'
        g.nts = [mk('enum', 'Fld', [('A', tup([N('Ty'), T(x), T(s_)])), ('B', tup([T(x), N('Ty'), T(s_)]))]),
                 mk('struct', 'Ty', [(None, tup([T(x)]))])]
    elif kind == 'dangling':
        g.start = 'St'
        g.nts = [mk('enum', 'St', [('If', tup([T(x), N('St')])), ('IfElse', tup([T(x), N('St'), T(s_), N('St')])), ('Other', tup([T(y)]))])]
    elif kind == 'binop':
        g.start = 'Ex'
        g.nts = [mk('enum', 'Ex', [('Bin', tup([N('Ex'), T(x), N('Ex')])), ('Atom', tup([T(y)]))])]
    elif kind == 'rr':
        g.start = 'Rr'
        g.nts = [mk('enum', 'Rr', [('A', tup([N('Ra')])), ('B', tup([N('Rb')]))]),
                 mk('struct', 'Ra', [(None, tup([T(x)]))]), mk('struct', 'Rb', [(None, tup([T(x)]))])]
    else:
        # S -> a A d | b B d | a B e | b A e ; A -> c ; B -> c   (LR(1), not LALR(1))
        g.terminals.append(('Ee9', '()'))
        e = 'Ee9'
        g.start = 'Sl'
        g.nts = [mk('enum', 'Sl', [('V1', tup([T(x), N('La'), T(z)])), ('V2', tup([T(s_), N('Lb'), T(z)])),
                                   ('V3', tup([T(x), N('Lb'), T(e)])), ('V4', tup([T(s_), N('La'), T(e)]))]),
                 mk('struct', 'La', [(None, tup([T(y)]))]), mk('struct', 'Lb', [(None, tup([T(y)]))])]
    if rng.random() < 0.5:
        g.nts.reverse()
    return g


def many_symbols_grammar(rng, behaviour=False):
    """More than 256 terminals, more than 256 rules and more than 256 states, with nothing else of interest: a number that is
    cut to a byte somewhere (a terminal, rule or state index) shows here.  Too big for the extracted model."""
    g = Grammar()
    g.tenum = 'Tok'
    n = rng.choice([257, 260, 300])
    types = ['()', 'u32'] if behaviour else ['()']
    g.terminals = [('T%d' % i, rng.choice(types)) for i in range(n)]
    g.start = 'Top'
    T = lambda i: ('T', 'T%d' % i)
    tup = lambda syms: ('tuple', [(True, q) for q in syms])
    order = list(range(n))
    rng.shuffle(order)
    vs = []
    for j, i in enumerate(order):
        k = rng.random()
        if k < 0.6:
            vs.append(('V%d' % i, tup([T(i)])))
        elif k < 0.85:
            vs.append(('V%d' % i, tup([T(i), T(order[(j + 1) % n])])))
        else:
            vs.append(('V%d' % i, tup([T(i), ('N', 'Leaf')])))
    attrs = ['#[derive(Debug)]'] if behaviour else []
    g.nts = [dict(name='Top', kind='enum', attrs=attrs, variants=[('One', tup([('N', 'Item')])), ('Two', tup([('N', 'Item'), T(order[1]), ('N', 'Item')]))]),
             dict(name='Item', kind='enum', attrs=attrs, variants=vs),
             dict(name='Leaf', kind='struct', attrs=attrs, variants=[(None, tup([T(order[0])]))])]
    if behaviour:
        g.tenum_attrs = ['#[derive(Debug)]']
    return g


def far_prefix(rng):
    """Comment lines of 66..140 KB in front of a file: every byte offset after it is beyond 16 bits (and the multi-byte variant
    makes byte offsets and character offsets differ by more than 16 bits too)."""
    fill = rng.choice(['x', 'x', '\u00e9', '\u8868'])
    n = rng.choice([66000, 70000, 131100]) // len(fill.encode('utf-8'))
    lines = []
    while n > 0:
        k = min(n, rng.choice([1000, 4000, 70000]))
        lines.append('// ' + fill * k)
        n -= k
    return '\n'.join(lines) + '\n'


def relate_adjacent_attrs(rng, g, p=0.35):
    """Consecutive declarations whose attribute lists are related: equal, one a proper prefix of the other (either order),
    the same attributes in another order, or differing in the last one only."""
    prev = None
    for nt in g.nts:
        if prev is not None and prev['attrs'] and rng.random() < p:
            a = list(prev['attrs'])
            r = rng.random()
            if r < 0.3:
                nt['attrs'] = a + [rng.choice(['#[derive(PartialEq, Eq)]', '#[allow(unused)]', a[0]])]
            elif r < 0.55 and len(a) >= 2:
                nt['attrs'] = a[:rng.randint(1, len(a) - 1)]
            elif r < 0.7:
                nt['attrs'] = a
            elif r < 0.85:
                nt['attrs'] = list(reversed(a))
            else:
                nt['attrs'] = a[:-1] + ['#[allow(dead_code)]']
        prev = nt
    if g.nts and g.nts[-1]['attrs'] and rng.random() < p:
        a = list(g.nts[-1]['attrs'])
        g.tenum_attrs = a + ['#[derive(PartialEq, Eq)]'] if rng.random() < 0.5 else a[:max(1, len(a) - 1)]


def relate_adjacent_types(rng, g, p=0.4):
    """Make the payload type of a terminal a near-copy of its predecessor's: the same type, one path (outermost or nested,
    generic callee or plain) longer or shorter by a leading segment, one segment renamed, or one argument changed.
    (A cache, a comparison or a dedup keyed on part of a type shows only between such neighbours.)"""
    import re as _re
    ts = list(g.terminals)
    for i in range(1, len(ts)):
        if rng.random() >= p:
            continue
        prev = ts[i - 1][1]
        paths = list(_re.finditer(r'[A-Za-z_][A-Za-z0-9_]*(?:::[A-Za-z_][A-Za-z0-9_]*)*', prev))
        r = rng.random()
        new = prev
        if r < 0.15 or not paths:
            new = prev
        else:
            m = rng.choice(paths)
            segs = m.group(0).split('::')
            k = rng.random()
            if k < 0.4:
                segs = [rng.choice(['raw', 'std', 'm_', segs[0]])] + segs
            elif k < 0.6 and len(segs) > 1:
                segs = segs[1:]
            elif k < 0.8:
                j = rng.randrange(len(segs))
                segs[j] = segs[j] + rng.choice(['2', '_', 'x'])
            else:
                segs = segs + [rng.choice(['T', segs[-1]])]
            new = prev[:m.start()] + '::'.join(segs) + prev[m.end():]
        ts[i] = (ts[i][0], new)
    g.terminals = ts


def wide_conflict(rng, conflict=True):
    """A statement list with N keyword statement forms (N*(N+2) items and more in the start state: 300..700, beyond one byte)
    and, when `conflict`, one conflict between two rules whose items sit anywhere in that state (first, last or in the
    middle of the declaration order): reduce/reduce between two nullable prefixes, or shift/reduce with a keyword.
    Few states (about 3N): the extracted model can follow."""
    g = Grammar()
    g.tenum = 'Tok'
    n = rng.choice([16, 18, 21, 25])
    kws = ['K%d' % i for i in range(n)]
    g.terminals = [(k, '()') for k in kws] + [('Id', 'u8'), ('Semi', '()')]
    rng.shuffle(g.terminals)
    T = lambda t: ('T', t)
    N = lambda q: ('N', q)
    tup = lambda syms: ('tuple', [(True, q) for q in syms])
    stmts = [('S%d' % i, tup([T(k), T('Id'), T('Semi')])) for i, k in enumerate(kws)]
    extra = []
    kind = rng.choice(['rr', 'sr', 'rr3'])
    if conflict:
        if kind == 'rr':
            stmts += [('Call', tup([N('OptA'), T('Id'), T('Semi')])), ('Index', tup([N('OptB'), T('Id'), T('Id'), T('Semi')]))]
            extra = [dict(name='OptA', kind='enum', attrs=[], variants=[('None', ('empty',)), ('Some', tup([T('Semi')]))]),
                     dict(name='OptB', kind='enum', attrs=[], variants=[('None', ('empty',)), ('Some', tup([T('Semi'), T('Semi')]))])]
        elif kind == 'rr3':
            stmts += [('Call', tup([N('OptA'), T('Id'), T('Semi')])), ('Index', tup([N('OptB'), T('Id'), T('Id'), T('Semi')])),
                      ('Third', tup([N('OptC'), T('Id'), T('Id'), T('Id'), T('Semi')]))]
            extra = [dict(name=q, kind='struct', attrs=[], variants=[(None, ('empty',))]) for q in ('OptA', 'OptB', 'OptC')]
        else:
            # an optional keyword prefix against the keyword statement itself: shift K0 / reduce OptK -> .
            stmts += [('Pre', tup([N('OptK'), T(kws[0]), T('Semi')]))]
            extra = [dict(name='OptK', kind='enum', attrs=[], variants=[('None', ('empty',)), ('Some', tup([T('Id')]))])]
    else:
        stmts += [('Call', tup([N('OptA'), T('Id'), T('Semi')]))]
        extra = [dict(name='OptA', kind='enum', attrs=[], variants=[('None', ('empty',)), ('Some', tup([T('Semi')]))])]
    rng.shuffle(stmts)
    lst = dict(name='List', kind='enum', attrs=[], variants=[('One', tup([N('Stmt')])), ('Cons', tup([N('List'), N('Stmt')]))])
    stmt = dict(name='Stmt', kind='enum', attrs=[], variants=stmts)
    g.start = 'List'
    r = rng.random()
    g.nts = (extra + [lst, stmt]) if r < 0.35 else ([lst, stmt] + extra) if r < 0.7 else ([lst] + extra + [stmt])
    return g


def big_state_grammar(rng):
    """A grammar whose item sets have 33..70 items (a nonterminal with that many keyword alternatives), reached from two
    contexts whose lookaheads arrive at different times.  Too slow for the extracted model: crate vs reference only."""
    g = Grammar()
    g.tenum = 'Tok'
    g.terminals = [('Tm', 'u32')]
    g.start = None
    _force = ['big_state']
    # reuse the motif code path
    import types
    orig_choice = rng.choice
    state = {'first': True}

    def choice(seq):
        if state['first'] and isinstance(seq, list) and 'nullable_chain' in seq:
            state['first'] = False
            return 'big_state'
        return orig_choice(seq)
    g.nts = [dict(name='Seed9', kind='struct', attrs=[], variants=[(None, ('tuple', [(True, ('T', 'Tm'))]))])]
    g.start = 'Seed9'
    rng.choice = choice
    try:
        add_motifs(rng, g, False)
    finally:
        rng.choice = orig_choice
    return g
