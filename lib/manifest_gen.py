"""Writes MANIFEST.json from the table below (kept in one place so that it stays valid)."""
import json
import os

HERE = os.path.dirname(os.path.dirname(os.path.abspath(__file__)))

CLAIMED = {}
NOT_YET = {}


def claim(pid, text, note, technique, design_ref):
    CLAIMED[pid] = dict(text=text, note=note, technique=technique, design_ref=design_ref)


COMMON_NOTE = ('Trusted: Coq 8.16.1 kernel; no axioms (Print Assumptions checked on every run); translators; '
               'ExtrOcamlBasic extraction cross-checked by vm_compute on a sub-sample; the correspondence harness. '
               'Modelled, not verified: std collections and str methods by documented contract. ')

claim('C18',
      'Coq theorems over the executable model of Oset (insert/contains/from_iter/extend as sorted-list functions): for every '
      'operation sequence and every element type with a lawful total order the set is strictly increasing, holds exactly the '
      'given elements once, contains is membership, == and cmp depend only on the element sets. The model is tied to '
      'kiki::Oset by running operation scripts on both (and on BTreeSet) with exact comparison.',
      COMMON_NOTE + 'Vec::binary_search / sort / sort_unstable / dedup are modelled by their contracts on strictly sorted data. '
      'Element types whose Ord is not a lawful total order are outside the theorem (and outside the property).',
      'Coq proof by induction over operation lists (sortedness + membership invariant, extensionality of strictly sorted lists) + differential correspondence',
      'DESIGN.md §5 C18')


def build():
    props = [json.loads(l)['id'] for l in open(os.path.join(HERE, 'properties.jsonl'))]
    checks = []
    for pid in props:
        if pid not in CLAIMED:
            continue
        c = CLAIMED[pid]
        checks.append(dict(
            property_id=pid,
            quick_cmd='bin/check %s --tier quick' % pid,
            thorough_cmd='bin/check %s --tier thorough' % pid,
            evidence_file='/verif/evidence/%s.json' % pid,
            replay_cmd_template='bin/check %s --replay {path}' % pid,
            engine='coq+correspondence',
            level_claimed=dict(category='proof', text=c['text'], design_ref=c['design_ref']),
            level_note=c['note'],
            technique=c['technique']))
    na = [dict(property_id=p, reason=NOT_YET.get(p, 'check not built yet in this session (claimed in DESIGN.md; will be added)'))
          for p in props if p not in CLAIMED]
    m = dict(
        version=1,
        setup_cmd='bin/setup',
        hooks=dict(guard='kiki_verif', enable='RUSTFLAGS="--cfg kiki_verif" (set by lib/vlib.py when it builds harness/ against /repo/kiki)',
                   baseline_off_cmd='cd /repo && cargo test --workspace --no-fail-fast --offline',
                   source_commits=['49ac09d'], add_only=True),
        engines=[dict(name='coq+correspondence', path='/verif/coq, /verif/lib, /verif/harness, /verif/ocaml',
                      serves_properties=sorted(CLAIMED),
                      kind_free_text='Coq 8.16.1 development (hand-written executable model + regenerated tables/template) with '
                                     'extracted OCaml model differential-tested against the crate, plus python oracles')],
        checks=checks,
        notes='See DESIGN.md. Known findings: known_findings.jsonl.',
        not_applicable=na)
    with open(os.path.join(HERE, 'MANIFEST.json'), 'w') as f:
        json.dump(m, f, indent=1)


if __name__ == '__main__':
    build()
