"""Writes MANIFEST.json from the table below (kept in one place so that it stays valid)."""
import json
import os

HERE = os.path.dirname(os.path.dirname(os.path.abspath(__file__)))

CLAIMED = {}
NOT_YET = {}


def claim(pid, text, note, technique, design_ref):
    CLAIMED[pid] = dict(text=text, note=note, technique=technique, design_ref=design_ref)


COMMON_NOTE = ('Trusted: Coq 8.16.1 kernel; no axioms (Print Assumptions checked on every run); translators; '
               'ExtrOcamlBasic extraction cross-checked by vm_compute on a sub-sample; the correspondence harness. '
               'Modelled, not verified: std collections and str methods by documented contract. ')

PER_GRAMMAR = ('The same conclusions are proved WITHOUT the validator for every source text the model of generate accepts, under every '
               'hash iteration order (PipelineProofs.v, Build/GenCorrect.v: FIRST fixpoint closed, closure = least set, worklist invariants, '
               'LALR merge keeps cores distinct, normalisation is a renaming, the table holds exactly the items\' demands, translation of '
               'names to positions). The model is tied to the crate by the correspondence check; additionally the validator is run inside Coq '
               'on the tables read back from the real emitted text of every sampled grammar. ')

claim('C01',
      'Coq theorems (LR/Complete.v, Sound.v, Payload.v, ValidateProofs.v): for any tables + item annotation + FIRST table passing '
      'the boolean validator, any payload type and any token sequence, the emitted driver loop never panics, returns Ok only with a '
      'derivation tree of the start symbol whose yield is the input, accepts every sentence within size+1 iterations, and acceptance '
      'depends only on token kinds. ' + PER_GRAMMAR + 'The real emitted parsers are compiled and run against the Coq driver, an Earley '
      'recogniser and a brute-force canonical LR(1) parser.',
      COMMON_NOTE + 'rustc\'s reading of the driver text is compared, not proved. Termination on every input is proved from a checked per-grammar certificate (LR/Term.v), not for all grammars at once.',
      'Coq proof (CPS induction on derivations; stack invariant; generator invariants for all accepted grammars) + validator run in Coq on real tables + differential execution of compiled parsers',
      'DESIGN.md §4.5, §5 C01')
claim('C02',
      'Coq theorems: for validated tables the value returned on acceptance is a derivation tree (every node an instance of its '
      'production with children in declaration order) whose leaves are the input token objects in order (yield t = w), and derivations '
      'are unique. ' + PER_GRAMMAR + 'Projection to the user types (dropping `_` fields, Box) is compared on compiled parsers via derive(Debug) output.',
      COMMON_NOTE + 'The projection performed by the emitted reduce functions is modelled (Emit/Parser.v) and compared, not proved.',
      'Coq proof (soundness invariant yields(stack)++rest = input; uniqueness from strong completeness) + compiled-parser differential',
      'DESIGN.md §5 C02')
claim('C03',
      'Coq theorems (LR/ErrPos.v, LR/Viable.v): a rejection returns the head of the unconsumed input (the original token object, or None at the end), '
      'the source iterator was pulled exactly consumed+1 times, no sentence starts with consumed ++ [that token] (lockstep lemma + strong '
      'completeness), AND — for grammars in which every right-hand side derives some token sequence — consumed itself is a prefix of a sentence '
      '(every item of a state is reached from the kernel by finitely many closure steps, so the stack can always be completed): the reported '
      'index is neither too late nor too early. Proved for every grammar the model of generate accepts (reject_exact; Inv3 from the builder\'s '
      'bi_reach invariant). AND for every accepted grammar, unproductive nonterminals included (the second clause of the quantifier): the rejection is '
      'at the position at which the canonical LR(1) parser of the grammar stops (LR/CanonAgree.v): the canonical parser, defined from the '
      'canonical collection by viable prefix, consumes the same tokens, and from there can neither shift the reported token nor accept. '
      'Earley / canonical LR(1) oracles still decide every sampled input on compiled parsers with a counting iterator. ' + PER_GRAMMAR,
      COMMON_NOTE + 'Peekable/Chain modelled by documented behaviour.',
      'Coq proof (one-token-lookahead lockstep, fuel monotonicity, completeness, kernel-reachability of items) + compiled-parser differential with pull counter',
      'DESIGN.md §5 C03')
claim('C04',
      'Coq theorems: the table stage of the model can fail only with a genuine conflict of the automaton it was given, and on success the '
      'table holds exactly the demands of the machine\'s items (table_spec); every grammar the model of generate accepts is unambiguous and '
      'its emitted parser is a correct recogniser (all grammars, no validator); the lookahead sets of the machine are the least solution of the '
      'LALR(1) propagation rules over its own LR(0) automaton (Build/DerProofs.v), and a table is produced if and only if no two items of one '
      'state demand different actions on one lookahead (exactness w.r.t. that automaton; Build/NoPanic.v table_iff_conflict_free); and that '
      'automaton IS the textbook one, for every validated file, accepted or rejected (Build/CanonMachine.v, Build/FirstLeast.v): each state is the '
      'union of the canonical LR(1) item sets I(g) over the viable prefixes g leading to it, each I(g) has exactly the state\'s core, distinct states '
      'have distinct cores, and the FIRST map behind the closure is exactly FIRST/nullable (closed and least) — so Ok iff the canonical LR(1) sets '
      'merged by core are conflict-free. The crate and the model are still compared with a brute-force canonical-LR(1)-then-merge reference on '
      'generated and textbook grammars, and the FIRST map alone (hook first_sets) with FIRST by its defining rules.',
      COMMON_NOTE, 'Coq proof (builder-table invariant, table_spec, generator invariants) + differential against brute-force LALR(1) reference', 'DESIGN.md §5 C04')
claim('C05',
      'Coq theorem: the twelve generated helper identifiers are pairwise distinct and differ from all user identifiers. rustc acceptance of '
      'the real output is checked on adversarially named grammars with trait-less payload types (cargo check).',
      COMMON_NOTE + 'Rust name resolution is not modelled. Known finding K1.',
      'Coq proof (freshness of generated names) + rustc type-check of real output', 'DESIGN.md §5 C05')
claim('C06',
      'Coq theorems on the emitter model: for every source the model of generate accepts, the emitted text after its header is the terminal enum '
      '(`pub enum <name> { <variants> }` after its attributes), then one definition per nonterminal in declaration order, then `pub fn parse<P>(src: P) '
      '-> Result<<start type>, Option<<terminal enum>>> where P: IntoIterator<Item = <terminal enum>> {` (template shape checked by vm_compute on the '
      'template regenerated from table_to_rust.rs on this run); each definition is `typedef_spec` of its declaration — attributes, `pub struct N`/`pub enum N`, '
      'variants in order, and per fieldset exactly the used (non-`_`) fields in order, `pub` in structs, `Box<N>` for a nonterminal-typed field and the '
      'declared payload type for a terminal-typed one, unit-like when no field is used (Emit/TypedefSpec.v, Emit/ModuleShape.v, C06_module_declares). '
      'What rustc makes of that text is decided by the check: token-exact comparison of the real type definitions with '
      'the shapes expected from the declarations + a rustc-checked client using every declared item and the parse signature from outside the module.',
      COMMON_NOTE, 'Coq proof (emitter specification in the property\'s terms: filter/map over declarations; template shape by vm_compute) + expected-item oracle + rustc client', 'DESIGN.md §5 C06')
claim('C07',
      'Coq theorem, for EVERY string and every iteration order of the hash collections: the model of generate never returns Panic '
      '(PipelineProofs.generate_never_panics) — every unwrap/expect/index/slice/"Impossible" arm of the crate is an explicit Panic in the model '
      'and each is shown unreachable from the invariant the code relies on (token spans on character boundaries; reduce functions + cst_to_ast '
      'total on derivation trees; FIRST map keys; item rule indices; queue indices; total renumbering; a transition for every shift; '
      'unreachable goto conflict; declared lookaheads; cells in range; declared terminals in the emitter; no unbound hole in the template '
      'regenerated on this run). AND the never-loops half, for every string (Totality.v): with the fuel of every loop left as a parameter, the '
      'model returns Ok or Err — neither Panic nor OutOfFuel — for every fuel above an explicit bound computed from the input '
      '(C07_generate_is_total), and any larger fuel gives the same result (C07_fuel_is_only_a_bound): the tokenizer is structural; the '
      'front-end parse loop has a checked potential function; every changing pass of the FIRST fixpoint grows a bounded map; every '
      'closure insertion is a new item of a finite universe; worklist states have pairwise distinct cores (at most 2^|cores| states of '
      'at most |universe| items) and every re-queueing adds an item; fresh-name candidates are pairwise distinct. The model the check '
      'runs is the instance with a fixed fuel; an OutOfFuel there shows up as a disagreement. NOT proved: host stack depth, and a '
      'polynomial running-time bound. The crate is run on malformed/unusual/large inputs under catch_unwind and in watchdog-guarded '
      'child processes, results equal to the model.',
      COMMON_NOTE + 'Host stack depth and wall-clock time are sampled only.',
      'Coq proof (stage-by-stage invariants => no Panic; termination measure for every loop => no OutOfFuel; all inputs) + differential fuzzing with panic/abort/hang detection', 'DESIGN.md §5 C07')
claim('C08',
      'Coq theorem, for EVERY string: tokenize src = spec (S |src|) 0 src (Lex/Spec.v), where spec is the documented lexical rules written as '
      'a maximal-munch scanner that reads one lexeme at a time and shares nothing with the tokenizer\'s character-driven state machine; the '
      'equality includes error values and every byte position (multi-byte characters, attributes with nested/mismatched brackets, `:::`, '
      'reserved word after `$`, comment at end of file). The crate is tied to the model per input: crate tokens (hook) = independent Python '
      'lexical specification = model, on generated, soup and mutated texts.',
      COMMON_NOTE, 'Coq proof (simulation of the state machine by the scanner, run lemmas per token class) + three-way differential with executable lexical specification', 'DESIGN.md §5 C08')
claim('C09',
      'Coq theorems, unconditional: the tables/rules/reduce shapes read from parser.rs and parser.kiki on every run pass the validator by '
      'vm_compute and equal the hand-written grammar of record; hence for every token sequence the front end never panics, accepts exactly '
      'the sentences of the published grammar, and a rejection is not too late; for every source text a syntax error carries exactly the byte span '
      'and text of the first token after which no valid file can continue, or the empty span at the end of the source (Lex/Spans.v + ErrPos); '
      'and the front end is the inverse of a printer (Front/Unparse.v): whenever it returns an AST, the token sequence it read is exactly `unparse ast` '
      '(positions apart), so two different token sequences never give the same AST and nothing of the input is dropped or invented. '
      '"Not too early" too (Front/SelfHost.v): the tables read from parser.rs on this run are exactly the tables the model of generate produces from the text '
      'of parser.kiki (vm_compute), so the theorems proved for the tables of every accepted grammar hold for the front end without validator or hints, and '
      'every symbol of the published grammar is productive (vm_compute): what the front end has consumed when it reports a syntax error is a prefix of some '
      'valid file (C09_syntax_error_is_neither_late_nor_early). An Earley oracle over an independently written grammar and the lexical specification still decides it per input.',
      COMMON_NOTE + 'cst_to_ast is modelled together with the reduce functions (Front/Cst2Ast.v) and compared.',
      'Translation (tables regenerated from parser.rs) + Coq validator by vm_compute + Tier A theorems', 'DESIGN.md §5 C09')
claim('C10',
      'Coq theorems, for every AST: validate_ast f = Ok v implies WF f (the property\'s conjunction, stated on the AST) and the validated file '
      'is the input; validate_ast f = Err e implies truthful f e — error variant by variant, the violation named by the error is present in '
      'the file at the positions it carries (Ast/Truthful.v). Lifted to generate on source text (Ok => parsed file WF; a validation error is '
      'returned unchanged and is truthful). That AST positions are the byte offsets of the tokens is Lex/Spans.v plus the check\'s oracle, '
      'which is written against the property text on the token stream and run on violation-injected inputs.',
      COMMON_NOTE, 'Coq proof (induction over declarations; seen-table invariants; error-path lemmas) + differential with violation-injecting generator', 'DESIGN.md §5 C10')
claim('C11',
      'Coq theorem: a TableConflict of the model names a state of the machine, two items of it demanding different actions on one lookahead, '
      'and attaches the given file and machine; and the machine the generator builds is the LALR(1) automaton in the least-fixpoint sense: closed '
      'item sets, one state per LR(0) core, deterministic complete transitions, every item derivable (lookaheads least) — which IS the textbook '
      'definition (Build/CanonMachine.v): each state is the union of the canonical LR(1) item sets I(g) over the viable prefixes g leading to it, '
      'each I(g) has exactly its core, and the FIRST map is exactly FIRST/nullable (Build/FirstLeast.v). Every sampled machine is still compared '
      'with a brute-force LALR(1) reference, and the FIRST map alone (hook first_sets) with FIRST by its defining rules.',
      COMMON_NOTE, 'Coq proof (builder-table invariant) + differential + brute-force LALR(1) isomorphism', 'DESIGN.md §5 C11')
claim('C12',
      'Coq theorems: attributes are emitted verbatim, one per line, immediately before their type definition; and the front-end link '
      '(Front/AttrSource.v): for every source the model of generate accepts, the attributes stored with a struct, enum or terminal declaration are '
      'exactly the attribute tokens of the SOURCE that stand directly before its keyword, in order, with their text '
      '(C12_stored_attributes_are_the_tokens_before_the_keyword). Byte-exactness and "nowhere else" '
      'on the real output are decided by an oracle on the emitted text.',
      COMMON_NOTE, 'Coq proof (emitter decomposition lemmas) + oracle on real output', 'DESIGN.md §5 C12')
claim('C13',
      'Coq theorems: the type text stored per terminal is type_to_string of the declared type and all use sites print it; and the round trip '
      '(Ast/TypeText.v): for every type expression of the Kiki type syntax, nested to any depth, re-tokenising type_to_string ty with a '
      'maximal-munch lexer gives exactly the identifiers, `::`, `<`, `,`, `>`, `()` of ty in order (argument positions and nesting kept); and '
      'the front-end link (Front/TypeTokens.v, Front/TypeSource.v, Lex/IdentShape.v): for every source the model of generate accepts, every '
      'stored payload type text re-tokenises to a contiguous segment of the token sequence of the SOURCE — the tokens the user wrote after '
      'the terminal\'s colon (C13_payload_types_read_back_as_the_source_tokens). '
      'Re-tokenisation of every type position of the REAL output against the declaration\'s own tokens is done by the check.',
      COMMON_NOTE, 'Coq proof (nested induction over type expressions; compositional lexing lemma) + re-tokenisation oracle on real output', 'DESIGN.md §5 C13')
claim('C14',
      'Coq theorems: the result of the model of generate (Ok text or Err e, byte for byte) is the same under ANY two iteration orders of its two '
      'hash collections (the transition set, the action/goto maps): the automaton by order-independence of Oset::from_iter, the table because '
      'writes to distinct cells commute and the first error is the same conflict (PipelineProofs.v). The crate is run 3x in-process (one on a '
      'fresh thread) and in child processes with identical results required, and the model under two opposite orders.',
      COMMON_NOTE + 'That the model lists all hash-iteration sites is by inspection of the crate (HashSet<Transition>, HashMap actions/gotos).',
      'Coq proof (order-independence of from_iter; commuting writes; permutation-invariant first conflict) + repeated-run differential', 'DESIGN.md §5 C14')
claim('C15',
      'Coq theorems: for the template regenerated on this run, get_grammar_hash(emitted text) = the embedded digest; the line-wise specification '
      'of get_grammar_hash. Digest = SHA-256(source) checked with hashlib on every case.',
      COMMON_NOTE + 'SHA-256 collision resistance is assumed for the freshness conclusion.',
      'Coq proof (lines/strip_prefix lemmas; template shape by vm_compute) + differential', 'DESIGN.md §5 C15')
claim('C16',
      'Coq theorems. Tokenizer level, through the lexical specification (tokenize = lex 0 on every string): a whitespace character or a whole '
      '`//` comment in front of any text produces no token and only moves what follows; a comment running to the end of the file produces nothing; '
      'the same text further right gives the same tokens and the same lexical error, shifted. Whole pipeline (PositionsProofs.v): two sources with '
      'the same token contents give for the same digest the same emitted text byte for byte, or the same error up to positions (syntax errors '
      'included: their text is the text of the offending token) — the parser, cst_to_ast, validate_ast, the automaton, the table and the emitter '
      'each commute with erasing every stored position. And the exact position map (PosMapProofs.v): the stored positions of a tokenised text increase '
      'strictly, so two layouts of the same tokens are related by a function pf on stored positions; for EVERY such pf the second result is the first '
      'with pf applied to each position an error carries (the attached grammar of a table conflict included) — every stage commutes with an arbitrary '
      'position map, the automaton construction and the emitter return no error value — and a syntax error is at the same token with that token\'s own '
      'span and text, or at the end of either source. Invariance of the whole result is also '
      'decided per pair (source, random re-layout) on the crate, modulo hash line / position map.',
      COMMON_NOTE, 'Coq proof (lexical specification: gap and shift theorems; every later stage commutes with an arbitrary map of the stored positions) + metamorphic differential', 'DESIGN.md §5 C16')
claim('C17',
      'Coq theorems: for validated tables every non-error cell is demanded by an item and every demand/transition of an item is in the table; '
      'the same for the tables of every grammar the model of generate accepts, with the machine\'s own item sets as annotation (closed states, '
      'distinct cores, deterministic complete transitions, targets with the core of the advanced kernel\'s closure), and the lookahead sets are '
      'LEAST: an item is in a state exactly when it is derivable from the start item by the closure rule and by following transitions '
      '(Build/DerProofs.v, LR/Least.v); and that is the textbook definition (LR/CanonLR1.v, LR/FirstExact.v): the annotation of a state is exactly the '
      'union of the canonical LR(1) item sets I(g) over the viable prefixes g whose path through the tables ends in it, each I(g) has exactly its '
      'core, and the FIRST table is exactly FIRST/nullable of the grammar. Tables read from the real text = model = brute-force reference is '
      'checked per sampled grammar, and the FIRST map alone (hook first_sets) against FIRST by its defining rules.',
      COMMON_NOTE, 'Coq proof (generator invariants) + Coq validator on real tables + differential against brute-force LALR(1) reference', 'DESIGN.md §5 C17')
claim('C18',
      'Coq theorems over the executable model of Oset (insert/contains/from_iter/extend as sorted-list functions): for every '
      'operation sequence and every element type with a lawful total order the set is strictly increasing, holds exactly the '
      'given elements once, contains is membership, == and cmp depend only on the element sets. The model is tied to '
      'kiki::Oset by running operation scripts on both (and on BTreeSet) with exact comparison.',
      COMMON_NOTE + 'Vec::binary_search / sort / sort_unstable / dedup are modelled by their contracts on strictly sorted data. '
      'Element types whose Ord is not a lawful total order are outside the theorem (and outside the property).',
      'Coq proof by induction over operation lists (sortedness + membership invariant, extensionality of strictly sorted lists) + differential correspondence',
      'DESIGN.md §5 C18')


def build():
    props = [json.loads(l)['id'] for l in open(os.path.join(HERE, 'properties.jsonl'))]
    checks = []
    for pid in props:
        if pid not in CLAIMED:
            continue
        c = CLAIMED[pid]
        checks.append(dict(
            property_id=pid,
            quick_cmd='bin/check %s --tier quick' % pid,
            thorough_cmd='bin/check %s --tier thorough' % pid,
            evidence_file='/verif/evidence/%s.json' % pid,
            replay_cmd_template='bin/check %s --replay {path}' % pid,
            engine='coq+correspondence',
            level_claimed=dict(category='proof', text=c['text'], design_ref=c['design_ref']),
            level_note=c['note'],
            technique=c['technique']))
    na = [dict(property_id=p, reason=NOT_YET.get(p, 'check not built yet in this session (claimed in DESIGN.md; will be added)'))
          for p in props if p not in CLAIMED]
    m = dict(
        version=1,
        setup_cmd='bin/setup',
        hooks=dict(guard='kiki_verif', enable='RUSTFLAGS="--cfg kiki_verif" (set by lib/vlib.py when it builds harness/ against /repo/kiki)',
                   baseline_off_cmd='cd /repo && cargo test --workspace --no-fail-fast --offline',
                   source_commits=['49ac09d', '31a77b9'], add_only=True),
        engines=[dict(name='coq+correspondence', path='/verif/coq, /verif/lib, /verif/harness, /verif/ocaml',
                      serves_properties=sorted(CLAIMED),
                      kind_free_text='Coq 8.16.1 development (hand-written executable model + regenerated tables/template) with '
                                     'extracted OCaml model differential-tested against the crate, plus python oracles')],
        checks=checks,
        notes='See DESIGN.md. Known findings: known_findings.jsonl.',
        not_applicable=na)
    with open(os.path.join(HERE, 'MANIFEST.json'), 'w') as f:
        json.dump(m, f, indent=1)


if __name__ == '__main__':
    build()
