"""Per-property correspondence checks and oracles.

Each check function takes a Ctx and returns a Result:
  evaluations / distinct_nontrivial / rule / samples   what was run
  disagreements   cases where model and implementation differ (the tie is broken)
  failures        cases where an *oracle* (executable specification, independent
                  of the model of the code) says the implementation violates the property
  known           failures matched by /verif/known_findings.jsonl
"""
import hashlib
import json
import os
import random

import gen
import oracles
import vlib


class Ctx:
    def __init__(self, pid, tier, seed, model_ok=True):
        self.pid = pid
        self.tier = tier
        self.seed = seed
        self.quick = tier == 'quick'
        self.model_ok = model_ok
        self.rng = random.Random('%s/%d' % (pid, seed))

        # change-aware budget: when a source file this property is anchored in differs from the tree the machinery was
        # committed against, the quick tier searches deeper (it does not alarm by itself: a rewrite may be harmless)
        self.changed = vlib.changed_anchor_files(pid)
        self.escalate = bool(self.changed) and self.quick

    def n(self, quick, thorough):
        if self.escalate:
            return max(quick, min(thorough, quick * 5))
        return quick if self.quick else thorough


class Result:
    def __init__(self):
        self.evaluations = 0
        self.keys = set()
        self.rule = ''
        self.samples = []
        self.disagreements = []
        self.failures = []
        self.known = []
        self.extra = {}

    def count(self, key, nontrivial=True):
        self.evaluations += 1
        if nontrivial:
            self.keys.add(key)

    def sample(self, s):
        if len(self.samples) < 5:
            self.samples.append(s if len(str(s)) < 400 else str(s)[:400] + '...')


def corpus_sources():
    """Curated inputs plus minimised failures kept under /verif/corpus; run first."""
    out = [(k, v) for k, v in gen.CURATED.items()]
    d = os.path.join(vlib.VERIF, 'corpus')
    if os.path.isdir(d):
        for f in sorted(os.listdir(d)):
            if f.endswith('.kiki'):
                out.append(('corpus/' + f, open(os.path.join(d, f), encoding='utf-8').read()))
    ex = os.path.join(vlib.REPO, 'kiki/src/examples')
    if os.path.isdir(ex):
        for root, ds, fs in sorted(os.walk(ex)):
            for f in sorted(fs):
                if f.endswith('.kiki'):
                    try:
                        out.append(('repo/' + f, open(os.path.join(root, f), encoding='utf-8').read()))
                    except Exception:
                        pass
    return out


def gen_lines(srcs, rev=False):
    return ['%d %s %s' % (1 if rev else 0, hashlib.sha256(s.encode('utf-8')).hexdigest(), vlib.cps(s)) for s in srcs]


def hex_lines(srcs):
    return [s.encode('utf-8').hex() for s in srcs]


def run_gen_both(ctx, srcs, rev=False, rust_cmd='gen'):
    r = vlib.run_rust(rust_cmd, hex_lines(srcs))
    m = vlib.run_model('gen', gen_lines(srcs, rev)) if ctx.model_ok else [None] * len(srcs)
    return r, m


def classify(line):
    if line is None:
        return 'none'
    if line.startswith('Ok('):
        return 'Ok'
    if line.startswith('Err('):
        return 'Err:' + line[4:].split('(')[0].split(')')[0]
    return line.split(' ')[0].split('(')[0]


def decode_ok(line):
    assert line.startswith('Ok(x') and line.endswith(')')
    return bytes.fromhex(line[4:-1]).decode('utf-8')


def short(s, n=300):
    s = str(s)
    if s.startswith('Ok(x') and len(s) > n:
        try:
            return 'Ok(<emitted text, %d bytes, sha256 %s>)' % ((len(s) - 5) // 2, hashlib.sha256(s.encode()).hexdigest()[:12])
        except Exception:
            pass
    return s if len(s) <= n else s[:n] + '...'


def textdiff(x, y, limit=12):
    """First differing lines of two Ok(x<hex>) results, for the replay file."""
    if not (x and y and x.startswith('Ok(x') and y.startswith('Ok(x')):
        return None
    import difflib
    a, b = decode_ok(x).split('\n'), decode_ok(y).split('\n')
    return [l for l in difflib.unified_diff(a, b, 'implementation', 'model', lineterm='', n=0)][:limit]


def disagreement(kind, src, x, y):
    d = dict(kind=kind, src=src, impl=short(x), model=short(y))
    td = textdiff(x, y)
    if td:
        d['diff'] = td
    return d


def grammar_batch(ctx, n, **kw):
    out = []
    for _ in range(n):
        g = gen.gen_grammar(ctx.rng, **kw)
        out.append((g, gen.render(ctx.rng, g, ctx.rng.choice(['plain', 'random', 'random', 'dense']))))
    return out


# ====================================================================== C18

def gen_oset_script(rng, ty):
    def elem():
        if ty == 'n':
            return str(rng.randint(0, 12))
        if ty == 'p':
            return '%d.%d' % (rng.randint(0, 3), rng.randint(0, 3))
        s = rng.choice(['', 'a', 'b', 'ab', 'aa', 'A', 'é', '€', 'b\x00', 'z', 'Zz', '\U0001F600', 'a' * 3])
        return s.encode('utf-8').hex() or '-'

    ops = []
    if ty == 'n' and rng.random() < 0.12:
        # large sets around powers of two, then small / large batches in every order, below, inside and above the current range
        size = rng.choice([63, 64, 65, 127, 128, 129, 130, 200, 255, 256, 257, 300, 511, 512, 640])
        base = list(range(10, 10 + 3 * size, 3))[:size]
        if rng.random() < 0.5:
            rng.shuffle(base)
        ops.append('f:' + ','.join(map(str, base)))
        hi = 10 + 3 * size
        for _ in range(rng.randint(1, 5)):
            k = rng.choice([1, 2, 2, 3, 4, size // 64 or 1, size // 64 + 1, 9])
            pool = rng.choice([list(range(hi + 1, hi + 40)), list(range(0, 10)), list(range(10, hi)), list(range(0, hi + 40))])
            batch = [rng.choice(pool) for _ in range(k)]
            order = rng.random()
            if order < 0.4:
                batch.sort(reverse=True)
            elif order < 0.6:
                batch.sort()
            r = rng.random()
            if r < 0.6:
                ops.append('e:' + ','.join(map(str, batch)))
            else:
                ops += ['i:%d' % b for b in batch]
            ops.append('c:%d' % rng.choice(batch))
            ops.append('c:%d' % rng.choice(pool))
        return ';'.join(ops)
    for _ in range(rng.randint(0, 40 if rng.random() < 0.3 else 10)):
        r = rng.random()
        if r < 0.35:
            ops.append('i:' + elem())
        elif r < 0.55:
            ops.append('e:' + ','.join(elem() for _ in range(rng.randint(0, 6))))
        elif r < 0.7:
            ops.append('f:' + ','.join(elem() for _ in range(rng.randint(0, 8))))
        else:
            ops.append('c:' + elem())
    return ';'.join(ops)


def check_C18(ctx):
    res = Result()
    res.rule = ('Oset operation scripts (insert / extend / from_iter / contains, 0-40 ops, element types u64, '
                '(u64,u64), String incl. multi-byte) run on kiki::Oset, on the Coq model and on BTreeSet; two scripts '
                'per case are compared with == and cmp; non-trivial = script has >=3 ops; distinct by script text')
    n = ctx.n(300, 30000)
    lines = []
    fixed = ['n f:3,1,3,2;i:0;e:5,1,4;i:4;c:4;c:9|f:0,1,2,3,4,5', 'n |', 's i:-;i:61;c:-|f:61,-', 'p f:1.2,1.1,0.3;c:1.1|i:0.3;e:1.1,1.2',
             'n f:2,1|f:1,2,2,1', 'n f:1,2|f:1,3', 's f:c3a9,65|f:65,c3a9']
    lines += fixed
    for _ in range(n):
        ty = ctx.rng.choice('nps')
        a = gen_oset_script(ctx.rng, ty)
        b = gen_oset_script(ctx.rng, ty) if ctx.rng.random() < 0.7 else ';'.join(reversed(a.split(';')))
        lines.append('%s %s|%s' % (ty, a, b))
    # large sets of every element type, then EVERY element inserted again one by one (and a few absent ones): an insert that
    # is wrong only at one position of a large set is met
    def enc(ty, k):
        if ty == 'n':
            return str(10 + 3 * k)
        if ty == 'p':
            return '%d.%d' % (k // 7, k % 7)
        return ('k%04d' % k).encode().hex()
    for ty, size in (('s', 200), ('s', 345), ('n', 600), ('n', 1100), ('p', 300), ('p', 530)):
        elems = [enc(ty, k) for k in range(size)]
        order = list(range(size))
        if ctx.rng.random() < 0.5:
            ctx.rng.shuffle(order)
        script = ['f:' + ','.join(elems)] + ['i:' + elems[k] for k in order]
        lines.append('%s %s|f:%s' % (ty, ';'.join(script), ','.join(elems)))
    big_from = len(lines) - 6
    r = vlib.run_rust('oset', lines)
    # the model is run on everything but the six reinsert-all scripts (quadratic traces); those are decided by BTreeSet
    m = (vlib.run_model('oset', lines[:big_from]) + [None] * 6) if ctx.model_ok else [None] * len(lines)
    for case, x, y in zip(lines, r, m):
        res.count(case, case.count(';') >= 2)
        res.sample(dict(script=case, impl=x))
        if 'ORACLE-DISAGREES' in x or x.startswith('Panic') or x.startswith('CRASH'):
            res.failures.append(dict(kind='oset-vs-btreeset', case=case, impl=x,
                                     expected='agreement with BTreeSet on iteration order, membership, deref'))
        elif y is not None and x != y:
            res.disagreements.append(dict(kind='oset', case=case, impl=x, model=y))
    # vm_compute cross-check of a sub-sample (extraction not trusted for these)
    if ctx.model_ok:
        goals = []
        for case, y in list(zip(lines, m))[:40]:
            if not case.startswith('n ') or y is None:
                continue
            script = case[2:].split('|')[0]
            ops = []
            ok = True
            for op in [o for o in script.split(';') if o]:
                k, arg = op[0], op[2:]
                if k == 'i':
                    ops.append('OInsert %s' % arg)
                elif k == 'e':
                    ops.append('OExtend [%s]' % ';'.join(a for a in arg.split(',') if a))
                elif k == 'f':
                    ops.append('OFromIter [%s]' % ';'.join(a for a in arg.split(',') if a))
            trace = [t for t in y.split('|')[0].split(';') if t.startswith('[')]
            final = trace[-1][1:-1] if trace else ''
            goals.append(('run_ops N_cmp [%s]' % '; '.join(ops), final))
        ok, out = vm_goal_lists(goals, 'c18')
        res.extra['vm_crosscheck_cases'] = len(goals)
        if not ok:
            res.disagreements.append(dict(kind='vm_compute-vs-extraction', log=short(out, 2000)))
    return res


def vm_goal_lists(goals, tag):
    """goals: [(gallina expr of type list N, 'a,b,c')]"""
    if not goals:
        return True, ''
    d = os.path.join(vlib.BUILD, 'vm')
    os.makedirs(d, exist_ok=True)
    path = os.path.join(d, 'cases_%s_%d.v' % (tag, os.getpid()))
    L = ['From Kiki Require Import Base.Ord Base.Chars Data Oset.Model.', 'Open Scope N_scope.']
    for expr, final in goals:
        L.append('Goal (%s) = [%s]. Proof. vm_compute. reflexivity. Qed.' % (expr, ';'.join(x for x in final.split(',') if x)))
    open(path, 'w').write('\n'.join(L) + '\n')
    rc, out = vlib.sh(['timeout', '600', 'coqc', '-noglob', '-Q', vlib.COQ, 'Kiki', path], cwd=d, timeout=700)
    for ext in ('.v', '.vo', '.vok', '.vos', '.glob'):
        try:
            os.unlink(path[:-2] + ext)
        except OSError:
            pass
    return rc == 0, out


# ====================================================================== text-level properties

def text_batch(ctx, n_valid, n_lex, n_mut):
    """(label, source) list: corpus, generated valid files in random layouts, lexical soup, mutations."""
    out = list(corpus_sources())
    for g, s in grammar_batch(ctx, n_valid):
        out.append(('valid', s))
    for _ in range(n_lex):
        out.append(('lex', gen.gen_lex_text(ctx.rng)))
    base = [s for _, s in out if s]
    for _ in range(n_mut):
        s = ctx.rng.choice(base)
        for _ in range(ctx.rng.randint(1, 3)):
            s = gen.mutate_text(ctx.rng, s)
        out.append(('mutated', s))
    return out


def check_C08(ctx):
    res = Result()
    res.rule = ('source texts (curated corpus, generated grammar files in random Unicode layouts, lexical soup from a '
                'piece table incl. multi-byte characters/attributes/maximal-munch cases, character-level mutations) '
                'through the tokenize hook, the Coq tokenizer model and the independent maximal-munch lexical '
                'specification (oracles.lex_spec); non-trivial = text has >=2 lexemes or a lexical error; distinct by text')
    cases = text_batch(ctx, ctx.n(80, 4000), ctx.n(250, 30000), ctx.n(170, 16000))
    # exhaustive: every ordered pair of core lexemes glued / separated in every way, every glued triple of a smaller core
    # (what a lexeme is may depend on its neighbours only through these)
    cases += [('pair', s) for s in gen.lex_pairs()]
    # lexical errors and tokens far from the start: positions beyond 16 bits
    for _ in range(ctx.n(6, 100)):
        cases.append(('far', gen.far_prefix(ctx.rng) + gen.gen_lex_text(ctx.rng, ctx.rng.randint(1, 8))))
    srcs = [s for _, s in cases]
    r = vlib.run_rust('tok', hex_lines(srcs))
    m = vlib.run_model('tok', [vlib.cps(s) for s in srcs]) if ctx.model_ok else [None] * len(srcs)
    kinds = {}
    for (label, s), x, y in zip(cases, r, m):
        spec = oracles.lex_spec_canon(s)
        k = classify(x)
        kinds[k] = kinds.get(k, 0) + 1
        res.count(s, len(s.split()) >= 2 or k != 'Ok')
        res.sample(dict(src=short(s, 120), impl=short(x, 200)))
        if x != spec:
            res.failures.append(dict(kind='tokenize-vs-lexical-spec', src=s, impl=x, expected=spec, label=label))
        elif y is not None and x != y:
            res.disagreements.append(dict(kind='tokenize', src=s, impl=x, model=y))
    res.extra['result_kinds'] = kinds
    return res


def check_C07(ctx):
    res = Result()
    res.rule = ('generate on curated corner cases, generated grammar files, lexical soup and mutated texts, in-process '
                'under catch_unwind and in watchdog-guarded child processes; implementation must return Ok/Err (no panic, '
                'abort or timeout) and agree with the model, whose every unwrap/index/slice is an explicit Panic result; '
                'non-trivial = text of >=10 bytes; distinct by text')
    cases = text_batch(ctx, ctx.n(120, 6000), ctx.n(150, 8000), ctx.n(230, 12000))
    # big inputs: many declarations / deep type nesting within the property's bounds
    big = []
    k = ctx.n(60, 400)
    big.append('start A0\n' + ''.join('struct A%d(A%d)\n' % (i, i + 1) for i in range(k)) + 'struct A%d\nterminal T {}\n' % k)
    depth = ctx.n(40, 250)
    big.append('start A\nstruct A($X)\nterminal T { $X: ' + 'B<' * depth + 'u8' + '>' * depth + ' }\n')
    big.append('start A\nstruct A\nterminal T {}\n' + '// padding\n' * ctx.n(500, 5000))
    for b in big:
        cases.append(('big', b))
    # well-formed but unusual: rule sets that stress the FIRST fixpoint (long unit chains with feedback, many passes per rule),
    # and grammars with more than ten / a hundred of everything
    for _ in range(ctx.n(150, 4000)):
        cases.append(('first-stress', gen.render(ctx.rng, gen.gen_first_stress(ctx.rng), 'plain')))
    for _ in range(5 if ctx.quick else 40):     # not scaled by the change-aware budget: the extracted model is slow on these
        cases.append(('large', gen.render(ctx.rng, gen.gen_grammar(ctx.rng, max_nts=ctx.rng.choice([12, 18, 25]), max_terms=ctx.rng.choice([12, 30]), min_sizes=True), 'plain')))
    # naming/grammar-level malformations: files with injected static-validation violations
    for _ in range(ctx.n(150, 6000)):
        g = gen.gen_grammar(ctx.rng, max_nts=5)
        kinds_inj = gen.inject_violations(ctx.rng, g)
        cases.append(('injected:' + ','.join(kinds_inj), gen.layout(ctx.rng, gen.render_tokens(g), ctx.rng.choice(['plain', 'random']))))
    # syntax-level malformations: token-level mutations of valid files (very long tokens included)
    for _ in range(ctx.n(150, 6000)):
        g = gen.gen_grammar(ctx.rng, max_nts=4)
        items = gen.render_tokens(g)
        for _ in range(ctx.rng.randint(1, 2)):
            items = gen.mutate_token_items(ctx.rng, items)
        cases.append(('token-mutated', gen.layout(ctx.rng, items, ctx.rng.choice(['plain', 'random']))))
    srcs = [s for _, s in cases]
    r, m = run_gen_both(ctx, srcs)
    kinds = {}
    for (label, s), x, y in zip(cases, r, m):
        k = classify(x)
        kinds[k] = kinds.get(k, 0) + 1
        res.count(s, len(s) >= 10)
        res.sample(dict(src=short(s, 120), impl=short(x, 120)))
        if k not in ('Ok',) and not k.startswith('Err:'):
            res.failures.append(dict(kind='generate-not-total', src=s, impl=short(x), expected='Ok(..) or Err(..)', label=label))
        elif y is not None and x != y:
            res.disagreements.append(disagreement('generate', s, x, y))
    res.extra['result_kinds'] = kinds
    # search step (DESIGN 3.5): around every disagreeing case, try the same file with each declared
    # nonterminal as the start symbol (defects hidden in unreachable declarations become reachable)
    import re as _re
    variants = []
    for d in res.disagreements[:12]:
        src = d.get('src', '')
        toks = oracles.lex_spec(src)
        if toks[0] != 'ok':
            continue
        names = [toks[1][i + 1]['name'] for i in range(len(toks[1]) - 1)
                 if toks[1][i]['kind'] in ('StructKw', 'EnumKw') and toks[1][i + 1]['kind'] == 'Ident']
        starts = [i for i in range(len(toks[1]) - 1) if toks[1][i]['kind'] == 'StartKw' and toks[1][i + 1]['kind'] == 'Ident']
        if len(starts) != 1:
            continue
        st = toks[1][starts[0] + 1]
        b = src.encode('utf-8')
        for nme in names:
            variants.append((b[:st['start']] + nme.encode() + b[st['end']:]).decode('utf-8'))
    if variants:
        for v, x in zip(variants, vlib.run_rust('gen', hex_lines(variants))):
            res.evaluations += 1
            k = classify(x)
            if k != 'Ok' and not k.startswith('Err:'):
                res.failures.append(dict(kind='generate-not-total', src=v, impl=short(x), expected='Ok(..) or Err(..)', label='search:start-variant'))
    # child processes with a watchdog (aborts / stack overflows / hangs are invisible to catch_unwind)
    sub = srcs[:ctx.n(40, 400)] + big
    for s, x in zip(sub, run_children(sub)):
        res.evaluations += 1
        if x.startswith('CRASH') or x.startswith('TIMEOUT'):
            res.failures.append(dict(kind='generate-abort-or-hang', src=s, impl=x, expected='Ok(..) or Err(..)'))
    return res


def run_children(srcs, timeout=20):
    import subprocess
    out = []
    procs = []
    d = os.path.join(vlib.BUILD, 'cases')
    os.makedirs(d, exist_ok=True)
    for i, s in enumerate(srcs):
        p = os.path.join(d, 'child.%d.%d.txt' % (os.getpid(), i))
        open(p, 'w').write(s.encode('utf-8').hex() + '\n')
        procs.append((subprocess.Popen([vlib.HARNESS_BIN, 'gen', p], stdout=subprocess.PIPE, stderr=subprocess.DEVNULL, text=True), p))
        if len(procs) >= vlib.NPROC:
            out.extend(_reap(procs, timeout))
            procs = []
    out.extend(_reap(procs, timeout))
    return out


def _reap(procs, timeout):
    import subprocess
    out = []
    for p, path in procs:
        try:
            so, _ = p.communicate(timeout=timeout)
            line = so.strip().split('\n')[0] if so.strip() else ''
            out.append(line if p.returncode == 0 and line else 'CRASH rc=%s' % p.returncode)
        except subprocess.TimeoutExpired:
            p.kill()
            p.communicate()
            out.append('TIMEOUT after %ds' % timeout)
        try:
            os.unlink(path)
        except OSError:
            pass
    return out


def check_C09(ctx):
    res = Result()
    res.rule = ('token-level valid and mutated grammar files (delete/insert/swap/truncate/replace a token) through generate; '
                'implementation result must equal the model (front-end driver over the tables read from parser.rs) and the '
                'independent oracle: an Earley recogniser over the published Kiki grammar decides acceptance and the index '
                'of the first token that cannot continue a valid file, spans from the lexical specification; '
                'non-trivial = >=5 tokens; distinct by text')
    cases = []
    for label, s in corpus_sources():
        cases.append((label, s))
    for g, s in grammar_batch(ctx, ctx.n(60, 3000)):
        cases.append(('valid', s))
    for _ in range(ctx.n(240, 17000)):
        g = gen.gen_grammar(ctx.rng)
        items = gen.render_tokens(g)
        for _ in range(ctx.rng.randint(1, 2)):
            items = gen.mutate_token_items(ctx.rng, items)
        cases.append(('token-mutated', gen.layout(ctx.rng, items, ctx.rng.choice(['plain', 'random']))))
    # files that stop too early, with every kind of text after the last token: nothing, ASCII / Unicode whitespace, a comment
    # without a final newline whose last character is ASCII or multi-byte (the error span is the END of the source)
    tails = ['', ' ', '\n', '\r\n', '\t', '\u00a0', '\u2028', '\u3000', '\u1680 ', ' \u2003', '// c', '// more fields\u2026', '// \u00e9', '// \U0001F600',
             '//', '// x\n', '// \u8868\n\u3000', '\n// \u00e9\u00e9']
    for _ in range(ctx.n(120, 4000)):
        g = gen.gen_grammar(ctx.rng, max_nts=3)
        items = gen.render_tokens(g)
        k = ctx.rng.randrange(len(items))
        part = list(items[k][:ctx.rng.randint(1, max(1, len(items[k]) - 1))])
        while part and part[-1] == '\n':
            part.pop()
        body = gen.layout(ctx.rng, list(items[:k]) + ([part] if part else []), ctx.rng.choice(['plain', 'random']))
        tail = ctx.rng.choice(tails) if ctx.rng.random() < 0.8 else '// ' + gen.tricky_text(ctx.rng, 1, 6)
        cases.append(('truncated+tail', body.rstrip('\n') + (' ' if tail.startswith('//') else '') + tail))
    # the offending token is the last thing in the file: nothing at all after it
    for _ in range(ctx.n(60, 2000)):
        g = gen.gen_grammar(ctx.rng, max_nts=3)
        items = gen.render_tokens(g)
        flat = [t for it in items for t in it if t != '\n']
        k = ctx.rng.randint(1, len(flat))
        extra = ctx.rng.choice(['}', ')', '>', ',', ':', '::', '$Zz', 'Zz', '_', 'start', 'struct', 'enum', 'terminal', '{', '(', '<', '#[zz]'])
        body = gen.layout(ctx.rng, [flat[:k] + [extra]], ctx.rng.choice(['plain', 'random'])).rstrip()
        if body.endswith(extra):
            cases.append(('last-token-at-eof', body))
    # syntax errors far from the start: spans beyond 16 bits
    for _ in range(ctx.n(6, 120)):
        g = gen.gen_grammar(ctx.rng, max_nts=3)
        items = gen.mutate_token_items(ctx.rng, gen.render_tokens(g))
        cases.append(('far-token-mutated', gen.far_prefix(ctx.rng) + gen.layout(ctx.rng, items, 'plain')))
    srcs = [s for _, s in cases]
    r, m = run_gen_both(ctx, srcs)
    kinds = {}
    for (label, s), x, y in zip(cases, r, m):
        k = classify(x)
        kinds[k] = kinds.get(k, 0) + 1
        toks = oracles.lex_spec(s)
        if toks[0] != 'ok':
            res.evaluations += 1
            continue           # lexical errors belong to C08
        res.count(s, len(toks[1]) >= 5)
        res.sample(dict(src=short(s, 120), impl=short(x, 120)))
        exp = oracles.kiki_parse_oracle(s, toks[1])
        got_parse = k == 'Err:Parse'
        if exp is None:
            if got_parse:
                res.failures.append(dict(kind='front-end-rejects-a-sentence', src=s, impl=short(x), expected='no Parse error', label=label))
        else:
            want = 'Err(Parse(%d,x%s,%d))' % (exp[0], exp[1].encode('utf-8').hex(), exp[2])
            if x != want:
                res.failures.append(dict(kind='parse-error-not-exact', src=s, impl=short(x), expected=want, label=label))
        if y is not None and x != y and not any(f.get('src') == s for f in res.failures[-1:]):
            res.disagreements.append(disagreement('generate', s, x, y))
    res.extra['result_kinds'] = kinds
    # parser.rs against parser.kiki: the grammar the tables were generated from is the published one
    res.extra['parser_rs_check'] = oracles.parser_rs_selfcheck(vlib.REPO)
    if res.extra['parser_rs_check'] != 'ok':
        res.disagreements.append(dict(kind='parser.rs-vs-parser.kiki', detail=res.extra['parser_rs_check']))
    return res


def check_C10(ctx):
    res = Result()
    res.rule = ('generated grammar files with 0-3 injected static-validation violations of 21 kinds (missing/multiple start '
                'or terminal declarations, undefined or wrong-namespace references, name clashes across the three namespaces, '
                'variant name / symbol-sequence clashes, capitalisation) in random layouts; implementation result must equal '
                'the model, and the oracle (oracles.wf_check, written against the property text on the token stream) must '
                'confirm: Ok only if well formed, and every error describes a violation really present at the reported '
                'positions; non-trivial = >=1 violation injected or >=3 declarations; distinct by text')
    cases = [(l, s, None) for l, s in corpus_sources()]
    for _ in range(ctx.n(300, 20000)):
        g = gen.gen_grammar(ctx.rng, max_nts=5)
        kinds = gen.inject_violations(ctx.rng, g) if ctx.rng.random() < 0.8 else []
        s = gen.layout(ctx.rng, gen.render_tokens(g), ctx.rng.choice(['plain', 'random']), shuffle_items=ctx.rng.random() < 0.5)
        cases.append(('injected:' + ','.join(kinds), s, kinds))
    # the same kind of file far from the start: every reported position beyond 16 bits
    for _ in range(ctx.n(6, 120)):
        g = gen.gen_grammar(ctx.rng, max_nts=4)
        kinds = gen.inject_violations(ctx.rng, g)
        s = gen.far_prefix(ctx.rng) + gen.layout(ctx.rng, gen.render_tokens(g), 'plain', shuffle_items=ctx.rng.random() < 0.5)
        cases.append(('far-injected:' + ','.join(kinds), s, kinds))
    srcs = [s for _, s, _ in cases]
    r, m = run_gen_both(ctx, srcs)
    kinds_hist, inj_hist = {}, {}
    for (label, s, kinds), x, y in zip(cases, r, m):
        k = classify(x)
        kinds_hist[k] = kinds_hist.get(k, 0) + 1
        for kk in (kinds or []):
            inj_hist[kk] = inj_hist.get(kk, 0) + 1
        res.count(s, bool(kinds) or s.count('struct') + s.count('enum') >= 3)
        res.sample(dict(src=short(s, 120), injected=kinds, impl=short(x, 120)))
        verdict = oracles.wf_check(s, x)
        if verdict is not None:
            res.failures.append(dict(kind='validation-' + verdict[0], src=s, impl=short(x), expected=verdict[1], label=label))
        elif y is not None and x != y:
            res.disagreements.append(disagreement('generate', s, x, y))
    res.extra['result_kinds'] = kinds_hist
    res.extra['injected_kinds'] = inj_hist
    return res


def check_C15(ctx):
    res = Result()
    res.rule = ('(a) emitted texts of accepted grammars: header is a // block carrying hashlib.sha256 of the exact source and '
                'get_grammar_hash returns it; (b) header-like texts (CRLF, missing final newline, repeated prefixes, prefix in '
                'later lines, non-comment lines first) through get_grammar_hash, the model and a direct Python reading of the '
                'specification; non-trivial = text has a line starting with //; distinct by text')
    gs = grammar_batch(ctx, ctx.n(60, 1500))
    srcs = [s for _, s in corpus_sources()] + [s for _, s in gs]
    # grammars whose first emitted items carry long multi-byte attributes: some character straddles every size boundary of the output
    for k in (60, 150, 400, 1200):
        for fill in ('é', '表', '\U0001F600'):
            doc = '#[doc = "%s"]' % (fill * k)
            srcs.append('start A\n%s\nstruct A($X)\n%s\nterminal T { $X: () }\n' % (doc, doc))
    r, m = run_gen_both(ctx, srcs)
    texts = []
    for s, x, y in zip(srcs, r, m):
        if y is not None and x != y:
            res.disagreements.append(disagreement('generate', s, x, y))
        if not x.startswith('Ok(x'):
            res.evaluations += 1
            continue
        text = decode_ok(x)
        texts.append(text)
        res.count(s)
        want = hashlib.sha256(s.encode('utf-8')).hexdigest()
        head = []
        for line in text.split('\n'):
            if not line.startswith('//'):
                break
            head.append(line)
        if not text.startswith('//') or ('// @sha256 ' + want) not in head:
            res.failures.append(dict(kind='header-lacks-source-digest', src=s, impl=short('\n'.join(head)), expected='// @sha256 ' + want))
    pieces = ['// @sha256 ', '// @sha256', '//', '// ', '@sha256 ', 'abc', '0123abcdef', '\n', '\r\n', '\r', ' ', '/', '// @sha256 // @sha256 ',
              '#![x]', 'é', '// @sha256 deadbeef', '//@sha256 x', '\n\n', '// x\n', '// @sha256 \n']
    for _ in range(ctx.n(400, 20000)):
        texts.append(''.join(ctx.rng.choice(pieces) for _ in range(ctx.rng.randint(0, 8))))
    texts += ['// @sha256 // @sha256 abc', '// @sha256 abc\r\n', '// a\r\n// @sha256 x\r', 'x\n// @sha256 y', '', '// @sha256 ']
    # headers whose hash line sits near a size boundary, after comment lines of ASCII or multi-byte text
    for bound in (255, 256, 512, 1024, 2048, 4096, 8192, 65536):
        for _ in range(ctx.n(2, 8)):
            fill = ctx.rng.choice(['x', 'é', '表', '\U0001F600'])
            lines, total = [], 0
            target = bound + ctx.rng.randint(-40, 40)
            while total < target:
                k = ctx.rng.randint(1, 60)
                line = '// ' + fill * k
                lines.append(line)
                total += len(line.encode('utf-8')) + 1
            texts.append('\n'.join(lines) + '\n// @sha256 ' + '0123456789abcdef' * 4 + '\n\nfn main() {}\n')
    r = vlib.run_rust('hash', hex_lines(texts))
    m = vlib.run_model('hash', [vlib.cps(t) for t in texts]) if ctx.model_ok else [None] * len(texts)
    for t, x, y in zip(texts, r, m):
        res.count(t, '//' in t)
        res.sample(dict(text=short(t, 100), impl=short(x, 100)))
        spec = oracles.grammar_hash_spec(t)
        want = 'None' if spec is None else 'Some(x%s)' % spec.encode('utf-8').hex()
        if x != want:
            res.failures.append(dict(kind='get_grammar_hash-vs-spec', text=t, impl=x, expected=want))
        elif y is not None and x != y:
            res.disagreements.append(dict(kind='get_grammar_hash', text=t, impl=x, model=y))
    return res


def strip_hash(text):
    return '\n'.join(l for l in text.split('\n') if not l.startswith('// @sha256 '))


def check_C16(ctx):
    res = Result()
    res.rule = ('pairs (source, re-layout of the same token sequence: Unicode spaces, CR/LF, comments with arbitrary content, '
                'comment at EOF without newline, dense one-line form) through generate; results must be identical except the '
                '@sha256 line, errors identical after mapping byte positions to token indices (oracles.lex_spec gives the '
                'token spans); also each side against the model; covers accepted files, injected validation errors and '
                'token-level syntax errors; non-trivial = the two layouts differ; distinct by text pair')
    pairs = []
    for _ in range(ctx.n(200, 10000)):
        g = gen.gen_grammar(ctx.rng, max_nts=5)
        r = ctx.rng.random()
        if r < 0.3:
            gen.inject_violations(ctx.rng, g)
        items = gen.render_tokens(g)
        if 0.3 <= r < 0.5:
            items = gen.mutate_token_items(ctx.rng, items)
        a = gen.layout(ctx.rng, items, ctx.rng.choice(['plain', 'random', 'dense']))
        b = gen.layout(ctx.rng, items, ctx.rng.choice(['random', 'random', 'dense']))
        if ctx.rng.random() < 0.2 and not a.rstrip().endswith(('// trailing comment without newline',)) and '//' not in a.rstrip().split('\n')[-1]:
            a = a.rstrip()          # nothing at all after the last token (the other layout has a line break or a comment there)
        pairs.append((a, b))
    for _, s in corpus_sources():
        toks = oracles.lex_spec(s)
        if toks[0] == 'ok' and toks[1]:
            items = [[t['text'] for t in toks[1]]]
            # keep attributes on their own line
            flat = []
            for t in items[0]:
                flat.append(t)
                if t.startswith('#['):
                    flat.append('\n')
            pairs.append((s, gen.layout(ctx.rng, [flat], 'random')))
    # exhaustive over neighbours: every ordered pair of core lexemes at three places of a small file, glued and separated in
    # every way; the variants that have the same token sequence (by the lexical specification) must give the same result
    core = ['start', 'struct', 'enum', 'terminal', '_', 'Abc', 'abc', '$Abc', ':', '::', ',', '(', ')', '{', '}', '<', '>', '#[a]\n', 'crate']
    frames = [('start A\nstruct A($K)\nterminal T { $K: crate', ' }\n'), ('start A\nstruct A { f: ', ' }\nterminal T { $K: () }\n'),
              ('start A\n', '\nstruct A\nterminal T { $K: () }\n')]
    for pre, post in frames:
        for x in core:
            for y in core:
                variants = [pre + sep1 + x + sep + y + post for sep1 in ('', ' ') for sep in gen.LEX_SEPS]
                groups = {}
                for v in variants:
                    tk = oracles.lex_spec(v)
                    if tk[0] == 'ok':
                        groups.setdefault(tuple(t['text'] for t in tk[1]), []).append(v)
                for vs in groups.values():
                    for v in vs[1:]:
                        pairs.append((vs[0], v))
    srcs = [x for p in pairs for x in p]
    r, m = run_gen_both(ctx, srcs)
    for i, (a, b) in enumerate(pairs):
        xa, xb = r[2 * i], r[2 * i + 1]
        res.count(a + '\x00' + b, a != b)
        res.sample(dict(a=short(a, 80), b=short(b, 80), impl_a=short(xa, 80), impl_b=short(xb, 80)))
        ta, tb = oracles.lex_spec(a), oracles.lex_spec(b)
        if ta[0] != 'ok' or tb[0] != 'ok' or [t['text'] for t in ta[1]] != [t['text'] for t in tb[1]]:
            continue        # the generator broke the token sequence (should not happen); not a property case
        na, nb = oracles.normalise_result(xa, a, ta[1]), oracles.normalise_result(xb, b, tb[1])
        if na != nb:
            res.failures.append(dict(kind='layout-changes-result', src=a, relayout=b, impl=short(na), impl_relayout=short(nb),
                                     expected='identical results modulo hash line / position shift'))
            continue
        for s, x, y, tk in ((a, xa, m[2 * i], ta[1]), (b, xb, m[2 * i + 1], tb[1])):
            # the embedded source hash is C15's business: compare modulo the hash line
            if y is not None and x != y and oracles.normalise_result(x, s, tk) != oracles.normalise_result(y, s, tk):
                res.disagreements.append(disagreement('generate', s, x, y))
    return res


def check_C14(ctx):
    res = Result()
    res.rule = ('every case: generate 3x in one process (one call on a fresh thread) and in separate child processes (fresh '
                'RandomState seeds); all results byte-identical to each other and to the model run with the two hash-iteration '
                'sites in insertion order and in reverse order; cases: generated grammars (accepted and conflicting), injected '
                'validation errors, curated corpus; non-trivial = grammar has >=2 nonterminals; distinct by text')
    cases = [s for _, s in corpus_sources()]
    for g, s in grammar_batch(ctx, ctx.n(150, 4000), max_nts=7):
        cases.append(s)
    for _ in range(ctx.n(40, 1000)):
        g = gen.gen_grammar(ctx.rng)
        gen.inject_violations(ctx.rng, g)
        cases.append(gen.render(ctx.rng, g))
    r3 = vlib.run_rust('gen3', hex_lines(cases))
    m0 = vlib.run_model('gen', gen_lines(cases, False)) if ctx.model_ok else [None] * len(cases)
    m1 = vlib.run_model('gen', gen_lines(cases, True)) if ctx.model_ok else [None] * len(cases)
    for s, x, y0, y1 in zip(cases, r3, m0, m1):
        res.count(s, s.count('struct') + s.count('enum') >= 2)
        res.sample(dict(src=short(s, 100), impl=short(x, 80)))
        if x.startswith('NONDETERMINISTIC'):
            res.failures.append(dict(kind='nondeterministic-in-process', src=s, impl=short(x, 600), expected='three identical results'))
        elif y0 is not None and (x != y0 or y0 != y1):
            res.disagreements.append(dict(kind='generate-vs-model(both hash orders)', src=s, impl=short(x), model=short(y0), model_rev=short(y1)))
    # separate processes
    sub = cases[:ctx.n(30, 300)]
    runs = [run_children(sub) for _ in range(ctx.n(2, 8))]
    for i, s in enumerate(sub):
        outs = set(run[i] for run in runs) | {r3[i]}
        res.evaluations += len(runs)
        if len(outs) > 1:
            res.failures.append(dict(kind='nondeterministic-across-processes', src=s, impl=[short(o, 200) for o in outs], expected='identical results'))
    return res


def check_C12(ctx):
    res = Result()
    res.rule = ('grammar files whose declarations carry 0-4 outer attributes (nested brackets of the three kinds, multi-byte text, '
                'strings with brackets) on struct, enum and terminal declarations; the real output must carry exactly those '
                'attribute texts, in order, immediately before the matching `pub struct|enum` and nowhere else (oracle on the '
                'emitted text), and equal the model; non-trivial = >=1 attribute; distinct by text')
    attrs = ['#[derive(Debug)]', '#[derive(Clone, Debug, PartialEq)]', '#[allow(unused)]', '#[doc = "é€\U0001F600"]', '#[doc = "a [b] {c} (d)"]',
             '#[cfg_attr(all(), allow(dead_code))]', '#[x(y[z{w}])]', '#[doc="  spaced   "]', '#[€]', '#[a]', '#[doc = "pub struct Fake;"]',
             '#[doc = "// not a comment"]', '#[doc = "\t tab"]', '#[ß(ü)]', '#[]', '#[ ]', '#[doc = "half-open (lo, hi] and 1) item"]'.replace('(lo, hi] and 1) item', '[lo, hi] and (1) item')]
    def tricky_attr():
        # balanced by construction: bracket pairs of the three kinds, nested, with tricky code points (same low byte as a
        # bracket, quote, `#`, newline; UTF-8 length boundaries) between them
        def body(d):
            out = gen.tricky_text(ctx.rng, 0, 6)
            for _ in range(ctx.rng.randint(0, 2 if d else 3)):
                o, c = ctx.rng.choice(['()', '[]', '{}'])
                out += o + (body(d - 1) if d else gen.tricky_text(ctx.rng, 0, 4)) + c + gen.tricky_text(ctx.rng, 0, 4)
            return out
        return '#[' + ctx.rng.choice(['doc', 'x', 'cfg_attr', 'é']) + body(3) + ']'

    def pick_attr():
        return tricky_attr() if ctx.rng.random() < 0.35 else ctx.rng.choice(attrs)

    cases = [s for _, s in corpus_sources() if '#[' in s]
    meta = [None] * len(cases)
    for _ in range(ctx.n(150, 6000)):
        g = gen.gen_grammar(ctx.rng, max_nts=4)
        for nt in g.nts:
            nt['attrs'] = [pick_attr() for _ in range(ctx.rng.choice([0, 0, 1, 1, 2, 3, 4]))]
        g.tenum_attrs = [pick_attr() for _ in range(ctx.rng.choice([0, 1, 2, 3]))]
        gen.relate_adjacent_attrs(ctx.rng, g)
        cases.append(gen.render(ctx.rng, g, ctx.rng.choice(['plain', 'random'])))
        meta.append(g)
    r, m = run_gen_both(ctx, cases)
    for s, g, x, y in zip(cases, meta, r, m):
        res.count(s, '#[' in s)
        res.sample(dict(src=short(s, 120), impl=short(classify(x))))
        if x.startswith('Ok(x') and g is not None:
            bad = oracles.attributes_oracle(g, decode_ok(x))
            if bad:
                res.failures.append(dict(kind='attributes-not-verbatim', src=s, impl=short(bad), expected='attributes verbatim before the matching type'))
                continue
        if g is not None and x.startswith('Err(Lex('):
            # every attribute here is single-line and balanced, and nothing else in a generated file is a lexical error
            res.failures.append(dict(kind='balanced-attribute-rejected', src=s, impl=short(x), expected='no lexical error: all attributes are single-line and balanced'))
            continue
        if y is not None and x != y:
            res.disagreements.append(disagreement('generate', s, x, y))
    return res


def check_C13(ctx):
    res = Result()
    res.rule = ('grammar files whose terminals carry random payload type expressions (unit, paths, generics nested to depth 0-6, '
                'random layout inside the type); every use site of every terminal in the real output (terminal enum, struct and '
                'variant fields, Node variants, try_into_* signatures) must re-tokenise to the declared token sequence '
                '(oracle), and the text must equal the model; non-trivial = some type has a generic argument; distinct by text')

    def ty(depth):
        r = ctx.rng.random()
        if depth <= 0 or r < 0.3:
            return ctx.rng.choice(['()', 'u32', 'a::B', 'crate::x::Y', 'Zz', 'String', 'std::string::String', 'crate::token::type_::Keyword',
                                   'a_::b_::C_', '_a::_b', 'x1::y2::Z3', 'super::super::m_::T'])
        path = '::'.join(ctx.rng.choice(['a', 'B', 'c_d', 'Vec', 'Option', 'std', 'type_', 'enum_', '_x', 'A1', 'r_2_', 'crate', 'super', 'x__'])
                         for _ in range(ctx.rng.randint(1, 4)))
        return path + '<' + ', '.join(ty(depth - 1) for _ in range(ctx.rng.randint(1, 3))) + '>'

    cases, meta = [], []
    for _ in range(ctx.n(200, 8000)):
        g = gen.gen_grammar(ctx.rng, max_nts=4)
        g.terminals = [(t, ty(ctx.rng.randint(0, 6))) for t, _ in g.terminals]
        gen.relate_adjacent_types(ctx.rng, g)
        if ctx.rng.random() < 0.3:
            gen.retype_like_nonterminal(ctx.rng, g)
        cases.append(gen.render(ctx.rng, g, ctx.rng.choice(['plain', 'random'])))
        meta.append(g)
    cases.append(gen.CURATED['generic_types'])
    meta.append(None)
    r, m = run_gen_both(ctx, cases)
    for s, g, x, y in zip(cases, meta, r, m):
        res.count(s, '<' in s)
        res.sample(dict(src=short(s, 120), impl=short(classify(x))))
        if x.startswith('Ok(x') and g is not None:
            bad = oracles.types_oracle(g, decode_ok(x))
            if bad:
                res.failures.append(dict(kind='payload-type-not-faithful', src=s, impl=short(bad), expected='declared type token-for-token at every use site'))
                continue
        if y is not None and x != y:
            res.disagreements.append(disagreement('generate', s, x, y))
    return res


# ====================================================================== automaton-level properties

def mt_both(ctx, srcs):
    r = vlib.run_rust('mt', hex_lines(srcs))
    m = vlib.run_model('mt', ['0 ' + vlib.cps(s) for s in srcs]) if ctx.model_ok else [None] * len(srcs)
    return r, m


def automaton_cases(ctx, n):
    cases = [(l, s) for l, s in corpus_sources()]
    for g, s in grammar_batch(ctx, n, max_nts=5, bias_lalr=ctx.rng.choice([0.3, 0.6, 0.9]), motifs=0.7):
        cases.append(('generated', s))
    for _ in range(ctx.n(12, 200)):
        cases.append(('conflict-motif', gen.render(ctx.rng, gen.conflict_motif(ctx.rng), 'plain')))
    # a start state of 300..700 items (beyond one byte), with and without a conflict somewhere in it
    for _ in range(ctx.n(4, 40)):
        cases.append(('wide-conflict', gen.render(ctx.rng, gen.wide_conflict(ctx.rng, conflict=(ctx.rng.random() < 0.75)), 'plain')))
    # more than 256 terminals / rules / states (crate vs reference only)
    for _ in range(ctx.n(2, 20)):
        cases.append(('joined', gen.render(ctx.rng, gen.many_symbols_grammar(ctx.rng), 'plain')))
    # item sets of 33..70 items (crate vs reference only, like the joined grammars)
    for _ in range(ctx.n(8, 100)):
        cases.append(('joined', gen.render(ctx.rng, gen.big_state_grammar(ctx.rng), 'plain')))
    # large automata (hundreds of states and transitions, dozens of terminals) made of small pieces: accepted pieces plus at
    # most one conflicting piece, so that a small conflict pattern is THE conflict of a big automaton
    pool = [gen.gen_grammar(ctx.rng, max_nts=3, max_terms=3, adversarial=0.0, name_relations=0.0, many_terminals=0.0, letterless=0.0,
                            bias_lalr=ctx.rng.choice([0.6, 0.9]), motifs=0.4) for _ in range(ctx.n(160, 1500))]
    verdicts = vlib.run_rust('gen', hex_lines([gen.render(ctx.rng, h, 'plain') for h in pool]))
    okp = [h for h, x in zip(pool, verdicts) if x.startswith('Ok(')]
    cfp = [h for h, x in zip(pool, verdicts) if x.startswith('Err(TableConflict(')]
    for _ in range(ctx.n(20, 300)):
        k = ctx.rng.choice([14, 24, 32, 40])
        if len(okp) < 3:
            break
        parts = [ctx.rng.choice(okp) for _ in range(k)]
        r = ctx.rng.random()
        if r < 0.4:
            parts[ctx.rng.randrange(k)] = gen.conflict_motif(ctx.rng)
        elif cfp and r < 0.75:
            parts[ctx.rng.randrange(k)] = ctx.rng.choice(cfp)
        cases.append(('joined', gen.render(ctx.rng, gen.join_grammars(ctx.rng, parts), 'plain')))
    return cases


def check_automaton(ctx, pid):
    res = Result()
    cases = automaton_cases(ctx, ctx.n(300, 5000))
    srcs = [s for _, s in cases]
    # the large joined grammars go through the crate and the reference only: the extracted model (unary numbers, list-based
    # sets) needs minutes for an automaton of a few hundred states
    small = [i for i, (l, _) in enumerate(cases) if l != 'joined']
    r = vlib.run_rust('mt', hex_lines(srcs))
    m = [None] * len(srcs)
    if ctx.model_ok:
        for i, y in zip(small, vlib.run_model('mt', ['0 ' + vlib.cps(srcs[i]) for i in small])):
            m[i] = y
    rg = vlib.run_rust('gen', hex_lines(srcs))
    hist = {}
    budget = ctx.n(150, 2500)
    for (label, s), x, y, xg in zip(cases, r, m, rg):
        if label == 'joined':
            budget += 1          # always compared with the reference
        parsed = oracles.parse_mt(x)
        cls = 'front-end-error' if parsed is None else ('conflict' if parsed['conflict'] else 'ok')
        hist[cls] = hist.get(cls, 0) + 1
        if parsed is None:
            res.evaluations += 1
            # every grammar gets a verdict: a panic is neither a parser nor an error value
            if x.startswith('Panic'):
                if y is not None and x == y:
                    continue
                res.failures.append(dict(kind='panic-instead-of-a-verdict', src=s, impl=short(x, 100),
                                         expected='a table or a TableConflict', label=label))
            continue
        nontrivial = len(parsed['states']) >= 4
        if pid == 'C11' and not parsed['conflict']:
            res.evaluations += 1
        else:
            res.count(s, nontrivial)
            res.sample(dict(src=short(s, 150), states=len(parsed['states']), result=cls))
        fail = None
        # the public result must be what the hook shows
        if parsed['conflict'] and not xg.startswith('Err(TableConflict('):
            fail = ('generate-does-not-report-the-conflict', short(xg, 100), 'Err(TableConflict(..))')
        if not parsed['conflict'] and not xg.startswith('Ok('):
            fail = ('generate-rejects-a-grammar-whose-table-was-built', short(xg, 100), 'Ok(..)')
        disagree = y is not None and x != y
        if fail is None and (budget > 0 or disagree):
            budget -= 1
            ref = oracles.lalr_reference(parsed['file'], max_states=(3000 if label == 'joined' else 400))
            if ref is not None:
                fail = oracles.compare_with_reference(pid, parsed, ref, xg)
        if fail is not None:
            res.failures.append(dict(kind=fail[0], src=s, impl=fail[1], expected=fail[2], label=label))
        elif y is not None and x != y:
            # compare the projection this property is about
            py = oracles.parse_mt(y)
            if pid == 'C04':
                differs = py is None or bool(py['conflict']) != bool(parsed['conflict'])
            elif pid == 'C17':
                differs = (not parsed['conflict']) and (py is None or py['conflict'] or py['machine'] != parsed['machine']
                                                         or py['table'] != parsed['table'])
            else:
                differs = bool(parsed['conflict'])
            if differs:
                res.disagreements.append(dict(kind='machine/table', src=s, impl=short(x), model=short(y)))
    res.extra['result_kinds'] = hist
    first_map_stage(ctx, pid, res)
    return res


def parse_fm(line):
    """Ok([F(xname,[xterm..],0|1)..]) -> {name: (set(terms), nullable)} or None."""
    if not line.startswith('Ok('):
        return None
    t = oracles.parse_canon(line)
    out = {}
    for f in t[1][0]:
        name, terms, eps = f[1]
        out[oracles.cstr(name)] = ([oracles.cstr(x) for x in terms], int(eps) == 1)
    return out


def first_map_stage(ctx, pid, res):
    """The FIRST map, on its own: hook `first_sets` of the crate vs get_first_sets of the model (a tie at an intermediate
    result: a wrong entry is seen even when the LALR construction happens not to consult it) and vs FIRST by its defining
    rules.  A wrong FIRST entry is not yet a violation of a property about the automaton: the grammar is then put into
    contexts in which the entry IS consulted, and the automaton of each is compared with the reference."""
    n = ctx.n(6000, 60000)
    gs = [gen.gen_first_stress(ctx.rng) for _ in range(n)]
    srcs = [gen.render(ctx.rng, g, 'plain') for g in gs]
    r = vlib.run_rust('fm', hex_lines(srcs))
    m = vlib.run_model('fm', [vlib.cps(s) for s in srcs]) if ctx.model_ok else [None] * n
    wrong, probes = 0, 0
    for g, s, x, y in zip(gs, srcs, r, m):
        res.evaluations += 1
        got = parse_fm(x)
        if got is None:
            if y is not None and x != y:
                res.disagreements.append(disagreement('first-map', s, x, y))
            continue
        first, nullable = gen.first_reference(g)
        bad = [a for a in first if a not in got or set(got[a][0]) != first[a] or got[a][1] != nullable[a]
               or got[a][0] != sorted(got[a][0], key=lambda u: u.encode('utf-8'))]
        if y is not None and x != y and not bad:
            res.disagreements.append(disagreement('first-map', s, x, y))
        if not bad:
            continue
        wrong += 1
        found = False
        for a in bad:
            for h in [g] + gen.first_probe_variants(g, a):
                hs = gen.render(ctx.rng, h, 'plain')
                probes += 1
                hx = vlib.run_rust('mt', hex_lines([hs]))[0]
                hg = vlib.run_rust('gen', hex_lines([hs]))[0]
                parsed = oracles.parse_mt(hx)
                ref = oracles.lalr_reference(parsed['file']) if parsed else None
                if parsed is None or ref is None:
                    continue
                fail = oracles.compare_with_reference(pid, parsed, ref, hg)
                if fail is not None:
                    res.failures.append(dict(kind=fail[0], src=hs, impl=fail[1], expected=fail[2], label='first-map probe'))
                    found = True
                    break
            if found:
                break
        if not found:
            res.disagreements.append(dict(kind='first-map-is-not-FIRST', src=s, impl=short(x, 400),
                                          model=short(y or '', 400), expected=short(repr((first, nullable)), 400)))
    res.extra['first_maps_compared'] = n
    res.extra['first_maps_wrong'] = wrong
    res.extra['first_map_probes'] = probes


def check_C04(ctx):
    res = check_automaton(ctx, 'C04')
    res.rule = ('well-formed grammar files (generator biased to near-conflict shapes, plus the SLR/LALR/LR(1)-separating and '
                'ambiguous corpus) through generate and the machine/table hook; verdict (parser emitted vs TableConflict) must equal '
                'the model and the brute-force reference: canonical LR(1) collection built from the item-closure definition, states '
                'merged by core, conflict iff two items of a merged state demand different actions on one symbol; '
                'non-trivial = automaton has >=4 states; distinct by text')
    return res


def check_C11(ctx):
    res = check_automaton(ctx, 'C11')
    res.rule = ('conflicting well-formed grammars: the TableConflict payload (state index, both items, attached file, attached '
                'machine) must equal the model; oracle: index in range, both items members of that state, the two items demand '
                'different actions on a common symbol, attached machine isomorphic to the brute-force LALR(1) automaton of the '
                'attached grammar, attached file equal to the validated input; non-trivial = automaton has >=4 states; distinct by text')
    return res


def check_C17(ctx):
    res = check_automaton(ctx, 'C17')
    res.rule = ('accepted grammars: ACTION/GOTO tables read back from the real emitted text and from the hook must equal the model '
                'cell for cell (same numbering) and the brute-force LALR(1) reference up to renumbering: one state per reachable '
                'core, shift/goto = transitions, reduce/accept exactly on the lookahead sets, Err elsewhere; '
                'non-trivial = automaton has >=4 states; distinct by text')
    return res
