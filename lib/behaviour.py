"""Checks that need rustc: the emitted text compiled and run (C01-C03), compiled
with trait-less payload types (C05), compiled against a client that uses every
declared type from outside the module (C06)."""
import hashlib
import os
import re
import shutil

import checks
import gen
import lrhint
import oracles
import vlib
from checks import Result, short, decode_ok, disagreement

PAY_RS = r'''// payload types for the compiled-parser harness
use std::marker::PhantomData;
pub trait Mk { fn mk(p: u32) -> Self; }
impl Mk for () { fn mk(_: u32) -> Self {} }
impl Mk for u32 { fn mk(p: u32) -> Self { p } }
pub struct P(pub u32);
impl Mk for P { fn mk(p: u32) -> Self { P(p) } }
impl std::fmt::Debug for P { fn fmt(&self, f: &mut std::fmt::Formatter<'_>) -> std::fmt::Result { write!(f, "{}", self.0) } }
pub struct Q<A, B>(pub u32, pub PhantomData<(A, B)>);
impl<A, B> Mk for Q<A, B> { fn mk(p: u32) -> Self { Q(p, PhantomData) } }
impl<A, B> std::fmt::Debug for Q<A, B> { fn fmt(&self, f: &mut std::fmt::Formatter<'_>) -> std::fmt::Result { write!(f, "{}", self.0) } }
pub struct R<A, B, C>(pub u32, pub PhantomData<(A, B, C)>);
impl<A, B, C> Mk for R<A, B, C> { fn mk(p: u32) -> Self { R(p, PhantomData) } }
impl<A, B, C> std::fmt::Debug for R<A, B, C> { fn fmt(&self, f: &mut std::fmt::Formatter<'_>) -> std::fmt::Result { write!(f, "{}", self.0) } }
pub struct R4<A, B, C, D>(pub u32, pub PhantomData<(A, B, C, D)>);
impl<A, B, C, D> Mk for R4<A, B, C, D> { fn mk(p: u32) -> Self { R4(p, PhantomData) } }
impl<A, B, C, D> std::fmt::Debug for R4<A, B, C, D> { fn fmt(&self, f: &mut std::fmt::Formatter<'_>) -> std::fmt::Result { write!(f, "{}", self.0) } }
// payload types that implement no trait at all (C05)
pub struct NoTraits;
pub struct NoTraitsG<A>(pub PhantomData<A>);
pub mod deep { pub mod er { pub struct NoTraits2; } }
'''

HARNESS_PRELUDE = r'''#![allow(dead_code, unused_variables, unused_imports, non_snake_case, non_camel_case_types, unreachable_code, unused_mut, clippy::all)]
mod pay;
use std::cell::Cell;
use std::rc::Rc;
struct Counting<I> { inner: I, pulls: Rc<Cell<usize>>, done: bool }
impl<I: Iterator> Iterator for Counting<I> {
    type Item = I::Item;
    fn next(&mut self) -> Option<I::Item> {
        if self.done { println!("POLLED-AFTER-NONE"); }
        self.pulls.set(self.pulls.get() + 1);
        let x = self.inner.next();
        if x.is_none() { self.done = true; }
        x
    }
}
fn any<T>() -> T { unimplemented!() }
'''


def crate_dir(tag):
    d = os.path.join(vlib.BUILD, 'parsers', tag)
    os.makedirs(os.path.join(d, 'src'), exist_ok=True)
    return d


def write_crate(d, modules, main_body):
    with open(os.path.join(d, 'Cargo.toml'), 'w') as f:
        f.write('[package]\nname = "emitted"\nversion = "0.1.0"\nedition = "2021"\n\n[workspace]\n\n'
                '[profile.dev]\ndebug = 0\nopt-level = 0\nincremental = false\n')
    for f in os.listdir(os.path.join(d, 'src')):
        os.unlink(os.path.join(d, 'src', f))
    open(os.path.join(d, 'src', 'pay.rs'), 'w').write(PAY_RS)
    for i, text in modules:
        open(os.path.join(d, 'src', 'p%d.rs' % i), 'w').write(text)
    with open(os.path.join(d, 'src', 'main.rs'), 'w') as f:
        f.write(HARNESS_PRELUDE + ''.join('mod p%d;\n' % i for i, _ in modules) + main_body)


def cargo(d, cmd, timeout=1500):
    env = dict(os.environ, CARGO_NET_OFFLINE='true', CARGO_TARGET_DIR=os.path.join(d, 'target'), CARGO_TERM_COLOR='never',
               RUSTFLAGS='-Awarnings')
    return vlib.sh(['cargo', cmd, '--offline', '--quiet'], cwd=d, env=env, timeout=timeout)


def failing_modules(out):
    """Indices of emitted modules (or their clients) that rustc complains about."""
    bad = {}
    cur = None
    for line in out.split('\n'):
        if line.startswith('error'):
            cur = line
        m = re.search(r'--> src/p(\d+)\.rs', line)
        if m and cur:
            bad.setdefault(int(m.group(1)), cur)
        m = re.search(r'--> src/main\.rs:(\d+)', line)
        if m and cur:
            bad.setdefault(('main', int(m.group(1))), cur)
    return bad


def accepted_grammars(ctx, n, behaviour=True, **kw):
    """Generated grammars the real crate accepts, with the real emitted text."""
    out = []
    tries = 0
    while len(out) < n and tries < 6:
        tries += 1
        batch = [gen.gen_grammar(ctx.rng, behaviour=behaviour, allow_empty_terminals=False, **kw) for _ in range(2 * n)]
        srcs = [gen.render(ctx.rng, g, ctx.rng.choice(['plain', 'random'])) for g in batch]
        r = vlib.run_rust('gen', checks.hex_lines(srcs))
        for g, s, x in zip(batch, srcs, r):
            if x.startswith('Ok(x') and len(out) < n:
                out.append((g, s, x))
    return out


def curated_behaviour():
    """Hand-written grammars for the behaviour checks (python structure, so that sentences can be sampled)."""
    specs = []

    def G(start, terms, nts):
        g = gen.Grammar()
        g.start = start
        g.tenum = 'Tok'
        g.tenum_attrs = ['#[derive(Debug)]']
        g.terminals = terms
        for name, kind, variants in nts:
            g.nts.append(dict(name=name, kind=kind, attrs=['#[derive(Debug)]'], variants=variants))
        return g

    T = lambda x: ('T', x)
    N = lambda x: ('N', x)
    specs.append(G('E', [('Plus', '()'), ('Star', '()'), ('L', '()'), ('R', '()'), ('Id', 'u32')], [
        ('E', 'enum', [('Add', ('tuple', [(True, N('E')), (False, T('Plus')), (True, N('T'))])), ('One', ('tuple', [(True, N('T'))]))]),
        ('T', 'enum', [('Mul', ('named', [('l', N('T')), (None, T('Star')), ('r', N('F'))])), ('One', ('tuple', [(True, N('F'))]))]),
        ('F', 'enum', [('Par', ('tuple', [(False, T('L')), (True, N('E')), (False, T('R'))])), ('Id', ('tuple', [(True, T('Id'))]))])]))
    specs.append(G('S', [('Eq', '()'), ('Star', 'crate::pay::P'), ('Id', 'u32')], [
        ('S', 'enum', [('A', ('tuple', [(True, N('L')), (True, T('Eq')), (True, N('R'))])), ('B', ('tuple', [(True, N('R'))]))]),
        ('L', 'enum', [('Deref', ('tuple', [(True, T('Star')), (True, N('R'))])), ('Id', ('tuple', [(True, T('Id'))]))]),
        ('R', 'struct', [(None, ('tuple', [(True, N('L'))]))])]))
    specs.append(G('S', [('A', 'u32'), ('B', 'u32'), ('C', 'u32')], [
        ('S', 'struct', [(None, ('named', [('a', T('A')), ('o', N('Opt')), ('b', T('B'))]))]),
        ('Opt', 'enum', [('No', ('empty',)), ('Yes', ('tuple', [(True, T('C'))]))])]))
    specs.append(G('S', [('A', 'u32')], [
        ('S', 'enum', [('A', ('tuple', [(True, T('A'))])), ('B', ('tuple', [(True, N('U'))]))]),
        ('U', 'struct', [(None, ('tuple', [(True, N('U')), (True, T('A'))]))])]))
    specs.append(G('L', [('A', 'u32')], [
        ('L', 'enum', [('Nil', ('empty',)), ('Cons', ('tuple', [(True, N('L')), (True, T('A'))]))]),
        ('R', 'enum', [('Nil', ('empty',)), ('Cons', ('tuple', [(True, T('A')), (True, N('R'))]))])]))
    specs.append(G('A', [('X', 'u32')], [
        ('A', 'struct', [(None, ('named', [(None, T('X')), (None, N('B'))]))]),
        ('B', 'struct', [(None, ('tuple', [(False, T('X'))]))])]))
    specs.append(G('State', [('Action', '()'), ('Quasiterminal', 'u32'), ('NonterminalKind', '()'), ('QuasiterminalKind', '()')], [
        ('State', 'struct', [(None, ('named', [('node', N('Node')), ('action', T('Action'))]))]),
        ('Node', 'enum', [('RuleKind', ('tuple', [(True, N('RuleKind'))])), ('Quasiterminal', ('tuple', [(True, T('Quasiterminal'))]))]),
        ('RuleKind', 'struct', [(None, ('empty',))])]))
    specs[-1].tenum = 'Terminal'
    specs.append(G('A', [('X', 'u32')], [
        ('A', 'struct', [(None, ('named', [('states', T('X')), ('nodes', N('B'))]))]),
        ('B', 'struct', [(None, ('named', [(None, T('X')), ('t0', T('X'))]))])]))
    specs.append(G('P', [('A', 'u32')], [('P', 'struct', [(None, ('tuple', [(True, T('A')), (True, T('A'))]))])]))
    # nullable only through a chain, declared before its definition, between a nonterminal and a terminal
    specs.append(G('S', [('A', '()'), ('X', 'u32')], [
        ('Head', 'struct', [(None, ('named', [(None, T('A'))]))]),
        ('S', 'struct', [(None, ('named', [('a', N('Head')), ('c', N('C')), (None, T('X'))]))]),
        ('C', 'struct', [(None, ('named', [('d', N('D'))]))]),
        ('D', 'struct', [(None, ('named', [('b', N('B'))]))]),
        ('B', 'struct', [(None, ('empty',))])]))
    specs.append(G('Doc', [('Word', 'u32'), ('Bang', '()'), ('Semi', 'u32')], [
        ('Doc', 'struct', [(None, ('named', [('head', T('Word')), ('mods', N('Mods')), ('trailer', N('Trailer'))]))]),
        ('Mods', 'enum', [('Nil', ('empty',)), ('Cons', ('tuple', [(True, T('Bang')), (True, N('Mods'))]))]),
        ('Trailer', 'enum', [('Semi', ('tuple', [(True, T('Semi'))])), ('None', ('tuple', [(True, N('Blank'))]))]),
        ('Blank', 'struct', [(None, ('tuple', [(True, N('Nothing'))]))]),
        ('Nothing', 'struct', [(None, ('empty',))])]))
    # wide productions (more than ten positions), tuple and named, with `_` positions in between
    specs.append(G('W', [('A', 'u32'), ('B', '()')], [
        ('W', 'enum', [('Tup', ('tuple', [(True, T('A')), (False, T('B')), (True, T('A')), (True, T('A')), (False, T('A')), (True, T('A')),
                                          (True, T('A')), (True, T('A')), (False, T('B')), (True, T('A')), (True, T('A')), (True, T('A')),
                                          (True, T('A'))])),
                       ('Nam', ('named', [(None, T('B')), ('f1', T('A')), ('f2', T('A')), (None, T('A')), ('f4', T('A')), ('f5', T('A')),
                                          ('f6', T('A')), ('f7', T('A')), ('f8', T('A')), ('f9', T('A')), ('f10', T('A')), ('f11', T('A')),
                                          ('f12', T('A'))]))])]))
    # two contexts whose item-set cores are a strict prefix of one another
    specs.append(G('S', [('P', '()'), ('Q', '()'), ('X', 'u32'), ('Y', 'u32'), ('Z', 'u32')], [
        ('S', 'enum', [('P', ('tuple', [(True, T('P')), (True, N('A'))])), ('Q', ('tuple', [(True, T('Q')), (True, N('C'))]))]),
        ('C', 'enum', [('A', ('tuple', [(True, N('A'))])), ('B', ('tuple', [(True, N('B'))]))]),
        ('A', 'struct', [(None, ('tuple', [(True, T('X')), (True, T('Y'))]))]),
        ('B', 'struct', [(None, ('tuple', [(True, T('X')), (True, T('Z'))]))])]))
    # a production whose fields are ALL `_` (three of them), after a used field of its parent: x IS NOT x
    specs.append(G('Pred', [('Ident', 'u32'), ('Is', 'u32'), ('Not', 'u32')], [
        ('Pred', 'struct', [(None, ('named', [('col', T('Ident')), ('test', N('NullTest'))]))]),
        ('NullTest', 'struct', [(None, ('tuple', [(False, T('Is')), (False, T('Not')), (False, T('Ident'))]))])]))
    # a state with a transition to itself that brings a new lookahead (prefix operator + postfix context): * * x ! !
    specs.append(G('Deref', [('Star', '()'), ('Bang', '()'), ('Ident', 'u32')], [
        ('Deref', 'struct', [(None, ('tuple', [(False, T('Star')), (True, N('Operand'))]))]),
        ('Operand', 'enum', [('Checked', ('tuple', [(True, N('Deref')), (False, T('Bang'))])), ('Var', ('tuple', [(True, T('Ident'))]))])]))
    # lookaheads that reach the last-discovered state only in the re-propagation phase: < < - - - - >
    specs.append(G('Expr', [('Dash', '()'), ('Lt', '()'), ('Gt', '()')], [
        ('Expr', 'enum', [('Recv', ('tuple', [(False, T('Lt')), (False, T('Dash')), (True, N('Expr'))])),
                          ('Hole', ('tuple', [(False, T('Dash')), (False, T('Dash')), (False, T('Dash'))])),
                          ('Group', ('tuple', [(False, T('Lt')), (True, N('Expr')), (False, T('Gt'))]))])]))
    # the user's own tokens / types named like the generator's helper items (end-of-input marker included)
    specs.append(G('File', [('Num', 'u32'), ('Eof', '()')], [
        ('File', 'struct', [(None, ('named', [('lines', N('Lines')), (None, T('Eof'))]))]),
        ('Lines', 'enum', [('Nil', ('empty',)), ('Cons', ('tuple', [(True, N('Lines')), (True, T('Num'))]))])]))
    specs.append(G('Node', [('State', 'u32'), ('Action', '()'), ('Quasiterminal', 'u32')], [
        ('Node', 'enum', [('Leaf', ('tuple', [(True, T('State'))])), ('Pair', ('tuple', [(True, N('Node')), (False, T('Action')), (True, N('RuleKind'))]))]),
        ('RuleKind', 'struct', [(None, ('named', [('q', T('Quasiterminal'))]))])]))
    # two terminals that differ only in letter case, with different payload types
    specs.append(G('Stmt', [('Id', 'u32'), ('ID', '()'), ('Hash', '()'), ('Eq', '()')], [
        ('Stmt', 'enum', [('Lookup', ('named', [(None, T('Hash')), ('id', T('ID'))])),
                          ('Assign', ('named', [('name', T('Id')), (None, T('Eq')), ('val', T('ID'))]))])]))
    return specs


def rules_of(g):
    return [(lhs, gen.fs_syms(fs)) for lhs, _, fs in g.rules()]


def inputs_for(ctx, g, n_sent, n_mut, n_rand, exhaustive_len=0):
    info = gen.analyse(g)
    nterm = len(g.terminals)
    out = [[]]
    for _ in range(n_sent):
        w = gen.sample_sentence(ctx.rng, g, info)
        if w is not None and len(w) <= 40:
            out.append(w)
    base = [w for w in out]
    for _ in range(n_mut):
        out.append(gen.mutate_sentence(ctx.rng, ctx.rng.choice(base), nterm))
    for _ in range(n_rand):
        out.append([ctx.rng.randrange(nterm) for _ in range(ctx.rng.randint(0, 6))] if nterm else [])
    if exhaustive_len and nterm:
        import itertools
        total = 0
        for L in range(exhaustive_len + 1):
            if total + nterm ** L > 4000:
                break
            total += nterm ** L
            for w in itertools.product(range(nterm), repeat=L):
                out.append(list(w))
    seen, uniq = set(), []
    for w in out:
        if tuple(w) not in seen:
            seen.add(tuple(w))
            uniq.append(w)
    return uniq


def run_main_body(grammars, inputs):
    """main() that feeds every input to every parser and prints one line per (grammar, input)."""
    L = ['fn main() {\n']
    for i, (g, _, _) in enumerate(grammars):
        L.append('    run_%d();\n' % i)
    L.append('}\n')
    for i, (g, _, _) in enumerate(grammars):
        L.append('fn run_%d() {\n' % i)
        L.append('    let inputs: &[&[usize]] = &[%s];\n' % ', '.join('&[%s]' % ', '.join(map(str, w)) for w in inputs[i]))
        L.append('    for (j, w) in inputs.iter().enumerate() {\n')
        L.append('        let toks: Vec<p%d::%s> = w.iter().enumerate().map(|(pos, k)| match *k {\n' % (i, g.tenum))
        for k, (t, ty) in enumerate(g.terminals):
            L.append('            %d => p%d::%s::%s(pay::Mk::mk(pos as u32)),\n' % (k, i, g.tenum, t))
        L.append('            _ => unreachable!(),\n        }).collect();\n')
        L.append('        let pulls = Rc::new(Cell::new(0usize));\n')
        L.append('        let it = Counting { inner: toks.into_iter(), pulls: pulls.clone(), done: false };\n')
        L.append('        let r = std::panic::catch_unwind(std::panic::AssertUnwindSafe(|| p%d::parse(it)));\n' % i)
        L.append('        match r {\n')
        L.append('            Ok(Ok(t)) => println!("%d {} Ok({:?}) pulls={}", j, t, pulls.get()),\n' % i)
        L.append('            Ok(Err(e)) => println!("%d {} Err({:?}) pulls={}", j, e, pulls.get()),\n' % i)
        L.append('            Err(_) => println!("%d {} panic pulls={}", j, pulls.get()),\n' % i)
        L.append('        }\n    }\n}\n')
    return ''.join(L)


def compile_and_run(tag, grammars, inputs):
    d = crate_dir(tag)
    write_crate(d, [(i, decode_ok(x)) for i, (_, _, x) in enumerate(grammars)], run_main_body(grammars, inputs))
    rc, out = cargo(d, 'build')
    if rc != 0:
        return None, out
    std = os.path.join(d, 'target', 'debug', 'emitted')
    import subprocess
    try:
        p = subprocess.run([std], stdout=subprocess.PIPE, stderr=subprocess.DEVNULL, text=True, timeout=600)
        res = p.stdout
    except subprocess.TimeoutExpired as e:
        res = (e.stdout or b'').decode() if isinstance(e.stdout, bytes) else (e.stdout or '')
        res += '\nTIMEOUT\n'
    table = {}
    for line in res.split('\n'):
        m = re.match(r'(\d+) (\d+) (.*)$', line)
        if m:
            table[(int(m.group(1)), int(m.group(2)))] = m.group(3)
        elif line.startswith('POLLED-AFTER-NONE') or line.startswith('TIMEOUT'):
            table['flag'] = line
    return table, out


# ---------------------------------------------------------------- independent expectations

def canonical_lr1_run(ref, g, w):
    """Drive the brute-force canonical LR(1) collection; returns ('accept', tree) | ('error', i) | ('eof',)."""
    order, trans = ref['canonical']
    rules = ref['rules']
    terms = ref['terms']
    start = ref['start']

    def rhs_of(r):
        return rules[r][1]

    st = [0]
    nodes = []
    i = 0
    steps = 0
    while True:
        steps += 1
        if steps > 100000:
            return ('loop',)
        la = terms[w[i]] if i < len(w) else None
        items = order[st[-1]]
        acts = set()
        for r, d, l in items:
            rhs = [('N', ref_start_name(ref))] if r is None else rhs_of(r)
            if d < len(rhs):
                if rhs[d] == ('T', la) and la is not None:
                    acts.add(('S',))
            elif r is None:
                if la is None:
                    acts.add(('A',))
            elif l == la:
                acts.add(('R', r))
        if not acts:
            return ('eof',) if i >= len(w) else ('error', i)
        if len(acts) > 1:
            return ('conflict',)
        a = acts.pop()
        if a[0] == 'S':
            st.append(trans[(st[-1], ('T', la))])
            nodes.append(('leaf', w[i], i))
            i += 1
        elif a[0] == 'A':
            return ('accept', nodes[-1])
        else:
            r = a[1]
            n = len(rhs_of(r))
            ch = nodes[len(nodes) - n:] if n else []
            if n:
                del nodes[len(nodes) - n:]
                del st[len(st) - n:]
            nodes.append(('node', r, ch))
            st.append(trans[(st[-1], ('N', rules[r][0]))])


def ref_start_name(ref):
    return ref['startname']


def debug_render(g, node):
    """derive(Debug) `{:?}` rendering of the value a derivation denotes (property C02's reading)."""
    rules = g.rules()
    if node[0] == 'leaf':
        ty = g.terminals[node[1]][1]
        return '()' if ty == '()' else str(node[2])
    lhs, vname, fs = rules[node[1]]
    name = vname if vname is not None else lhs
    kids = [debug_render(g, c) for c in node[2]]
    if fs[0] == 'empty':
        return name
    if fs[0] == 'named':
        parts = ['%s: %s' % (fn, k) for (fn, _), k in zip(fs[1], kids) if fn is not None]
        return name if not parts else '%s { %s }' % (name, ', '.join(parts))
    parts = [k for (used, _), k in zip(fs[1], kids) if used]
    return name if not parts else '%s(%s)' % (name, ', '.join(parts))


def token_debug(g, k, pos):
    t, ty = g.terminals[k]
    return '%s(%s)' % (t, '()' if ty == '()' else str(pos))


def expected_line(g, ref, pruned, productive_all, w):
    """What C01-C03 require the emitted parser to print for input w."""
    tnames = [t for t, _ in g.terminals]
    e = oracles.earley_prefix(pruned, g.start, [tnames[k] for k in w]) if g.start in {l for l, _ in pruned} else (('eof',) if not w else ('error', 0))
    c = canonical_lr1_run(ref, g, w)
    if e[0] == 'accept':
        if c[0] != 'accept':
            return None, 'oracles disagree (earley accepts, canonical LR(1) %r)' % (c,)
        return 'Ok(%s) pulls=%d' % (debug_render(g, c[1]), len(w) + 1), None
    if c[0] == 'accept':
        return None, 'oracles disagree (canonical LR(1) accepts)'
    # the index: for grammars whose nonterminals are all productive, the first token no sentence can
    # contain there (earley); otherwise the index at which a canonical LR(1) parser stops
    idx = e if productive_all else c
    if productive_all and c != e:
        return None, 'oracles disagree on the error index (earley %r, canonical LR(1) %r)' % (e, c)
    if idx[0] == 'eof':
        return 'Err(None) pulls=%d' % (len(w) + 1), None
    if idx[0] == 'error':
        i = idx[1]
        return 'Err(Some(%s)) pulls=%d' % (token_debug(g, w[i], i), i + 1), None
    return None, 'canonical LR(1) reference is not deterministic: %r' % (idx,)


def g_to_file_canon(g, mt_line):
    p = oracles.parse_mt(mt_line)
    return p


# ---------------------------------------------------------------- validation of the real tables inside Coq

def validate_real_tables(tag, entries):
    """entries: [(label, parsed hook output, emitted text)].  For every grammar, a Gallina goal
    `validate T ann ft = true` over the tables READ BACK FROM THE REAL EMITTED TEXT, with the crate's
    own automaton and a brute-force FIRST table as untrusted hints; proved by vm_compute in one coqc run.
    Returns (number validated, [labels that failed], log)."""
    goals = []
    for i, (label, parsed, text) in enumerate(entries):
        try:
            table = oracles.read_tables(text)
            g = lrhint.validation_goal('g%d' % i, parsed, table=table)
        except Exception as e:
            g = None
        goals.append(g)
    d = os.path.join(vlib.BUILD, 'vm')
    os.makedirs(d, exist_ok=True)
    head = ['From Coq Require Import List. Import ListNotations.',
            'From Kiki Require Import Data LR.Driver LR.Grammar LR.Inv LR.Validate LR.Term.', 'Open Scope nat_scope.']

    def compiles(idxs):
        path = os.path.join(d, 'validate_%s_%d.v' % (tag, os.getpid()))
        open(path, 'w').write('\n'.join(head + [goals[i] for i in idxs]) + '\n')
        rc, out = vlib.sh(['timeout', '900', 'coqc', '-noglob', '-Q', vlib.COQ, 'Kiki', path], cwd=d, timeout=1000)
        for ext in ('.v', '.vo', '.vok', '.vos', '.glob'):
            try:
                os.unlink(path[:-2] + ext)
            except OSError:
                pass
        return rc == 0, out

    idxs = [i for i, g in enumerate(goals) if g is not None]
    bad = [entries[i][0] for i, g in enumerate(goals) if g is None]
    validate_real_tables.certified = sum(1 for g in goals if g is not None and 'Goal term_check' in g)
    ok, out = compiles(idxs)
    if ok:
        return len(idxs), bad, ''
    good = 0
    for i in idxs:                      # isolate the failing ones
        ok1, out1 = compiles([i])
        if ok1:
            good += 1
        else:
            bad.append(entries[i][0])
    return good, bad, out[-1500:]


# ---------------------------------------------------------------- C01 / C02 / C03

def behaviour_check(ctx, pid):
    res = Result()
    ng = ctx.n(30, 300)
    grammars = []
    for g in curated_behaviour():
        s = gen.render(ctx.rng, g, 'plain')
        x = vlib.run_rust('gen', checks.hex_lines([s]))[0]
        if x.startswith('Ok(x'):
            grammars.append((g, s, x))
    grammars += accepted_grammars(ctx, ng, behaviour=True, max_nts=4, max_terms=4, motifs=0.7, wide=0.15)
    # the FIRST map on its own (hook first_sets vs FIRST by its defining rules): a grammar with a wrong entry is put into
    # contexts where the entry is consulted, and those grammars join the run (so that a sentence they reject is found)
    nfm = ctx.n(6000, 40000)
    fgs = [gen.gen_first_stress(ctx.rng, behaviour=True) for _ in range(nfm)]
    fsrcs = [gen.render(ctx.rng, g, 'plain') for g in fgs]
    fr = vlib.run_rust('fm', checks.hex_lines(fsrcs))
    probes = []
    for g, x in zip(fgs, fr):
        got = checks.parse_fm(x)
        if got is None:
            continue
        first, nullable = gen.first_reference(g)
        bad = [a for a in first if a not in got or set(got[a][0]) != first[a] or got[a][1] != nullable[a]]
        for a in bad[:2]:
            probes += [g] + gen.first_probe_variants(g, a, behaviour=True)
    for g in probes[:12]:
        s = gen.render(ctx.rng, g, 'plain')
        x = vlib.run_rust('gen', checks.hex_lines([s]))[0]
        if x.startswith('Ok(x'):
            grammars.append((g, s, x))
    res.extra['first_maps_compared'] = nfm
    res.extra['first_map_probe_grammars'] = len(probes)
    # automata of more than 256 states (state numbers beyond one byte): accepted small grammars glued together.  The extracted
    # model and the Coq validator need minutes at that size: these run against the Earley / canonical LR(1) oracles only.
    big = set()
    pool = [h for h, _, _ in accepted_grammars(ctx, ctx.n(40, 200), behaviour=True, max_nts=3, max_terms=3, adversarial=0.0, name_relations=0.0,
                                               many_terminals=0.0, letterless=0.0, motifs=0.2)]
    for _ in range(ctx.n(2, 12)):
        if len(pool) < 3:
            break
        h = gen.join_grammars(ctx.rng, [ctx.rng.choice(pool) for _ in range(ctx.rng.choice([32, 40, 48]))])
        h.tenum_attrs = ['#[derive(Debug)]']
        for nt in h.nts:
            if not nt['attrs']:
                nt['attrs'] = ['#[derive(Debug)]']
        s = gen.render(ctx.rng, h, 'plain')
        x = vlib.run_rust('gen', checks.hex_lines([s]))[0]
        if x.startswith('Ok(x'):
            big.add(len(grammars))
            grammars.append((h, s, x))
        elif pid == 'C01':
            # the parts are accepted and share no name: the whole is LALR(1) and must get its parser
            res.failures.append(dict(kind='no-parser-for-a-join-of-accepted-grammars', src=s, input=[], impl=short(x, 120), expected='Ok(..)'))
    for _ in range(ctx.n(1, 4)):
        h = gen.many_symbols_grammar(ctx.rng, behaviour=True)
        s = gen.render(ctx.rng, h, 'plain')
        x = vlib.run_rust('gen', checks.hex_lines([s]))[0]
        if x.startswith('Ok(x'):
            big.add(len(grammars))
            grammars.append((h, s, x))
        elif pid == 'C01':
            res.failures.append(dict(kind='no-parser-for-a-conflict-free-grammar', src=s, input=[], impl=short(x, 120), expected='Ok(..)'))
    res.extra['grammars_with_more_than_256_states'] = len(big)
    # a big joined grammar: several sentences through every part (an error in two of its 300 states shows only there)
    inputs = [inputs_for(ctx, g, 300, 150, 20, exhaustive_len=1) if k in big else
              inputs_for(ctx, g, ctx.n(12, 60), ctx.n(20, 120), ctx.n(8, 60), exhaustive_len=ctx.n(3, 6))
              for k, (g, _, _) in enumerate(grammars)]
    grammars_all = list(grammars)
    srcs = [s for _, s, _ in grammars]
    # implementation: compile the real emitted text and run it
    key = hashlib.sha256(('%s/%s/%d/%s' % (vlib.repo_hash(), ctx.tier, ctx.seed, 'beh')).encode()).hexdigest()[:12]
    table, out = compile_and_run('run-' + pid, grammars, inputs)
    rounds = 0
    while table is None and rounds < 5:
        # some emitted module does not compile: report it, drop it, and go on with the others
        rounds += 1
        bad = sorted(k for k in failing_modules(out) if isinstance(k, int))
        if not bad:
            res.failures.append(dict(kind='emitted-parser-does-not-compile', src=srcs[0], impl=short(out, 1500), expected='a compiling crate'))
            return res
        msgs = failing_modules(out)
        for k in bad:
            res.failures.append(dict(kind='emitted-parser-does-not-compile', src=srcs[k], impl=short(msgs[k]), expected='a compiling module'))
        keep = [i for i in range(len(grammars)) if i not in bad]
        grammars = [grammars[i] for i in keep]
        inputs = [inputs[i] for i in keep]
        srcs = [srcs[i] for i in keep]
        table, out = compile_and_run('run-' + pid, grammars, inputs)
    if table is None:
        res.failures.append(dict(kind='emitted-parser-does-not-compile', src=srcs[0] if srcs else '', impl=short(out, 1500), expected='a compiling crate'))
        return res
    if 'flag' in table:
        res.failures.append(dict(kind='iterator-polled-after-None-or-timeout', src='', impl=table['flag'], expected='no poll after None'))
    # model: the Coq driver over the model's table of the same source
    mlines = ['%s |%s' % (vlib.cps(s), ';'.join(' '.join(map(str, w)) for w in ws)) for s, ws in zip(srcs, inputs)]
    m = [None] * len(srcs)
    # `big` is by position in the ORIGINAL list; modules that did not compile were dropped above, so go by source text
    bigsrc = {s0 for k, (_, s0, _) in enumerate(grammars_all) if k in big}
    if ctx.model_ok:
        small = [k for k, s0 in enumerate(srcs) if s0 not in bigsrc]
        for k, y in zip(small, vlib.run_model('run', [mlines[k] for k in small])):
            m[k] = y
    mt = vlib.run_rust('mt', checks.hex_lines(srcs))
    hist = {}
    entries = []
    for i, (g, s, x) in enumerate(grammars):
        parsed_i = oracles.parse_mt(mt[i])
        if parsed_i is not None and not parsed_i['conflict'] and s not in bigsrc:
            entries.append((i, parsed_i, decode_ok(x)))
    nval, badval, vlog = validate_real_tables(pid, entries)
    res.extra['real_tables_validated_in_coq'] = nval
    res.extra['termination_certificates_checked_in_coq'] = getattr(validate_real_tables, 'certified', 0)
    checked = 0
    for i, ((g, s, x), ws) in enumerate(zip(grammars, inputs)):
        parsed = oracles.parse_mt(mt[i])
        ref = oracles.lalr_reference(parsed['file'], max_states=(3000 if s in bigsrc else 300)) if parsed else None
        if ref is not None:
            ref['startname'] = g.start
        pruned, productive = oracles.prune_unproductive(rules_of(g))
        productive_all = len(productive) == len(g.nts)
        mres = m[i].split('\t') if m[i] is not None else None
        if mres is not None and len(mres) != len(ws):
            res.disagreements.append(dict(kind='emitted-parser-run', src=s, impl='%d results' % len(ws), model=short(m[i])))
            mres = None
        for j, w in enumerate(ws):
            got = table.get((i, j), 'missing')
            cls = got.split('(')[0].split(' ')[0]
            hist[cls] = hist.get(cls, 0) + 1
            res.count((s, tuple(w)), len(w) >= 2)
            if i < 2 and j < 3:
                res.sample(dict(grammar=short(s, 160), input=w, impl=got))
            want, why = (None, None)
            if ref is not None:
                want, why = expected_line(g, ref, pruned, productive_all, w)
                if want is not None:
                    checked += 1
            relevant = True
            if want is not None and got != want:
                # attribute the failure to the property it violates
                acc_want, acc_got = want.startswith('Ok('), got.startswith('Ok(')
                if got.startswith('panic') or got == 'missing' or acc_want != acc_got:
                    # no verdict where one was due breaks C01, and also the property that says what the verdict's payload is:
                    # a sentence that yields no tree (C02), a non-sentence that yields no Err(..) (C03)
                    kinds = {'C01', 'C02' if acc_want else 'C03'}
                elif acc_want:
                    kinds = {'C02'}
                else:
                    kinds = {'C03'}
                if pid in kinds:
                    kind = pid
                    res.failures.append(dict(kind={'C01': 'wrong-acceptance-or-panic', 'C02': 'wrong-tree', 'C03': 'wrong-error-token-or-pulls'}[kind],
                                             src=s, input=w, impl=got, expected=want))
                    continue
                relevant = False
            if mres is not None and got != mres[j] and relevant:
                res.disagreements.append(dict(kind='emitted-parser-run', src=s, input=w, impl=got, model=mres[j]))
    for i in badval:
        if not any(f.get('src') == srcs[i] for f in res.failures):
            res.disagreements.append(dict(kind='validator-rejects-the-real-tables', src=srcs[i], log=short(vlog, 800)))
    res.extra['result_kinds'] = hist
    res.extra['grammars'] = len(grammars)
    res.extra['inputs_checked_against_oracles'] = checked
    return res


def check_C01(ctx):
    res = behaviour_check(ctx, 'C01')
    res.rule = ('accepted grammars (curated: expression, LALR-not-SLR, epsilon in the middle, unproductive, left/right recursion, '
                'all-underscore, helper names; plus generated ones) x inputs (sampled sentences, mutated sentences, random strings, all '
                'strings up to a length): the REAL emitted text compiled by rustc and run, against (a) the Coq driver over the model\'s '
                'tables and (b) an Earley recogniser and a brute-force canonical LR(1) parser written from the grammar; '
                'non-trivial = input of >=2 tokens; distinct by (grammar, input)')
    return res


def check_C02(ctx):
    res = behaviour_check(ctx, 'C02')
    res.rule = ('same runs as C01; for accepted inputs the `{:?}` rendering of the returned value (derive(Debug) on every type, payload = '
                'input position) must equal the rendering of the derivation built by the brute-force canonical LR(1) parser and projected '
                'per the property (used fields in declaration order, `_` fields absent), and the model\'s; non-trivial = input of >=2 tokens')
    return res


def check_C03(ctx):
    res = behaviour_check(ctx, 'C03')
    res.rule = ('same runs as C01; for rejected inputs the returned token (kind and position payload) and the number of next() calls '
                'made on the counting source iterator must equal: first index no sentence can continue (Earley, grammars with only '
                'productive nonterminals) / the index where the canonical LR(1) parser stops (otherwise); Err(None) iff proper prefix; '
                'never polled after None; non-trivial = input of >=2 tokens')
    return res


# ---------------------------------------------------------------- C05 / C06

NOTRAIT_TYPES = ['()', 'crate::pay::NoTraits', 'crate::pay::NoTraitsG<crate::pay::NoTraits>', 'crate::pay::deep::er::NoTraits2',
                 'crate::pay::NoTraitsG<crate::pay::NoTraitsG<()>>', 'u8']


def client_fn(i, g):
    """C06: a function outside module p<i> that names every declared type, field and variant
    and the parse signature; it must type-check.  Built from the grammar, not from the emitted text."""
    ntnames = {nt['name'] for nt in g.nts}
    m = 'p%d' % i
    ttype = {t: (('%s::%s' % (m, ty)) if ty in ntnames else ty) for t, ty in g.terminals}
    L = ['fn client_%d() {\n' % i]

    def fty(sym):
        return 'Box<%s::%s>' % (m, sym[1]) if sym[0] == 'N' else ttype[sym[1]]

    def pattern(path, fs, tag):
        binds = []
        if fs[0] == 'empty':
            return path, binds
        if fs[0] == 'named':
            used = [(fn, s) for fn, s in fs[1] if fn is not None]
            if not used:
                return path, binds
            for k, (fn, s) in enumerate(used):
                binds.append(('%s_%d' % (tag, k), fty(s)))
            return '%s { %s }' % (path, ', '.join('%s: %s_%d' % (fn, tag, k) for k, (fn, _) in enumerate(used))), binds
        used = [s for u, s in fs[1] if u]
        if not used:
            return path, binds
        for k, s in enumerate(used):
            binds.append(('%s_%d' % (tag, k), fty(s)))
        return '%s(%s)' % (path, ', '.join('%s_%d' % (tag, k) for k in range(len(used)))), binds

    for n, nt in enumerate(g.nts):
        if nt['kind'] == 'struct':
            pat, binds = pattern('%s::%s' % (m, nt['name']), nt['variants'][0][1], 'f%d' % n)
            L.append('    { let v: %s::%s = any(); let %s = v; %s }\n' % (m, nt['name'], pat, ' '.join('let _: %s = %s;' % (ty, b) for b, ty in binds)))
        else:
            arms = []
            for vi, (vname, fs) in enumerate(nt['variants']):
                pat, binds = pattern('%s::%s::%s' % (m, nt['name'], vname), fs, 'f%d_%d' % (n, vi))
                arms.append('%s => { %s }' % (pat, ' '.join('let _: %s = %s;' % (ty, b) for b, ty in binds)))
            L.append('    { let v: %s::%s = any(); match v { %s } }\n' % (m, nt['name'], ' '.join(arms)))
    arms = ['%s::%s::%s(x) => { let _: %s = x; }' % (m, g.tenum, t, ttype[t]) for t, ty in g.terminals]
    L.append('    { let v: %s::%s = any(); match v { %s } }\n' % (m, g.tenum, ' '.join(arms)))
    L.append('    { let _f: fn(Vec<%s::%s>) -> Result<%s::%s, Option<%s::%s>> = %s::parse::<Vec<%s::%s>>; }\n'
             % (m, g.tenum, m, g.start, m, g.tenum, m, m, g.tenum))
    L.append('    { let _f: fn(std::iter::Empty<%s::%s>) -> Result<%s::%s, Option<%s::%s>> = %s::parse; }\n'
             % (m, g.tenum, m, g.start, m, g.tenum, m))
    L.append('}\n')
    return ''.join(L)


def compile_modules(tag, grammars, with_clients):
    d = crate_dir(tag)
    body = ['fn main() {}\n']
    marks = {}
    if with_clients:
        for i, (g, _, _) in enumerate(grammars):
            body.append(client_fn(i, g))
    write_crate(d, [(i, decode_ok(x)) for i, (_, _, x) in enumerate(grammars)], ''.join(body))
    # map main.rs lines to clients
    lines = open(os.path.join(d, 'src', 'main.rs')).read().split('\n')
    cur = None
    for ln, l in enumerate(lines, 1):
        m = re.match(r'fn client_(\d+)\(\)', l)
        if m:
            cur = int(m.group(1))
        marks[ln] = cur
    rc, out = cargo(d, 'check')
    bad = {}
    if rc != 0:
        for k, msg in failing_modules(out).items():
            if isinstance(k, int):
                bad.setdefault(k, ('module', msg))
            elif marks.get(k[1]) is not None:
                bad.setdefault(marks[k[1]], ('client', msg))
        if not bad:
            bad[-1] = ('crate', out[-1500:])
    return bad, out


def isolate(tag, grammars, bad, with_clients):
    """rustc stops at the first failing phase; re-check the remaining modules without the failing ones."""
    allbad = dict(bad)
    rounds = 0
    while bad and rounds < 6:
        rounds += 1
        keep = [(i, t) for i, t in enumerate(grammars) if i not in allbad]
        if not keep:
            break
        sub = [t for _, t in keep]
        b2, _ = compile_modules(tag, sub, with_clients)
        bad = {}
        for k, v in b2.items():
            if k >= 0:
                bad[keep[k][0]] = v
        allbad.update(bad)
    return allbad


def check_C05(ctx):
    res = Result()
    res.rule = ('accepted grammars with adversarial naming (nonterminals, variants, terminals, the terminal enum and fields drawn from the '
                'generator\'s own helper names: State, Node, Action, RuleKind, Eof, Quasiterminal*, NonterminalKind, S, Terminal, '
                'ACTION_TABLE, states, nodes, t0, ...; names without letters) and payload types that implement no trait: the REAL emitted '
                'text must type-check as a module (cargo check, one crate per batch, failing modules isolated); text must equal the model; '
                'non-trivial = grammar uses >=1 helper name; distinct by text')
    cases = []
    for k in ('start_named_S', 'variant_named_error', 'nonterminal_named_error', 'eof_terminal', 'eof_nonterminal', 'helper_names', 'reduce_names', 'zero_terminals', 'all_underscore',
              'variantless_enum_unref', 'variantless_enum_ref', 'tuple_struct_used'):
        cases.append((None, gen.CURATED[k]))
    n = ctx.n(40, 500)
    for _ in range(3 * n):
        g = gen.gen_grammar(ctx.rng, adversarial=0.9, max_nts=5, max_terms=4, empty_helper_enum=0.25)
        g.terminals = [(t, ctx.rng.choice(NOTRAIT_TYPES)) for t, _ in g.terminals]
        if g.terminals and ctx.rng.random() < 0.15:
            gen.retype_like_nonterminal(ctx.rng, g)
        g.tenum_attrs = []
        for nt in g.nts:
            nt['attrs'] = []
        cases.append((g, gen.render(ctx.rng, g, 'plain')))
    srcs = [s for _, s in cases]
    r, m = checks.run_gen_both(ctx, srcs)
    accepted = []
    for (g, s), x, y in zip(cases, r, m):
        if y is not None and x != y:
            res.disagreements.append(disagreement('generate', s, x, y))
        if x.startswith('Ok(x') and len(accepted) < n + 10:
            # the curated sources name payload types that must exist
            if g is None and re.search(r':\s*(u32)', s):
                pass
            accepted.append((g, s, x))
    bad, out = compile_modules('c05', accepted, with_clients=False)
    if bad:
        bad = isolate('c05', accepted, bad, False)
    for i, (g, s, x) in enumerate(accepted):
        res.count(s, any(h in s for h in gen.HELPER_NAMES))
        res.sample(dict(src=short(s, 160), compiles=i not in bad))
        if i in bad:
            res.failures.append(dict(kind='emitted-module-does-not-compile', src=s, impl=short(bad[i][1], 400), expected='rustc accepts the module'))
    if -1 in bad:
        res.failures.append(dict(kind='emitted-module-does-not-compile', src='(whole batch)', impl=short(bad[-1][1], 1500), expected='rustc accepts the crate'))
    res.extra['modules_compiled'] = len(accepted)
    return res


def check_C06(ctx):
    res = Result()
    res.rule = ('accepted grammars covering struct/enum x named/tuple/empty fieldsets x used/`_` fields x terminal/nonterminal symbols: '
                '(a) the type-definition region of the REAL emitted text must equal, token for token, the definitions expected from the '
                'declarations (oracles.expected_typedefs, written from the property); (b) a client outside the module that destructures '
                'every struct (all fields public), matches every enum exhaustively without wildcard, asserts every field type and '
                'coerces parse to fn(I) -> Result<Start, Option<Tok>> must type-check; (c) text equals the model; '
                'non-trivial = grammar has >=1 used field; distinct by text')
    n = ctx.n(40, 500)
    grammars = []
    for g in curated_behaviour():
        s = gen.render(ctx.rng, g, 'plain')
        x = vlib.run_rust('gen', checks.hex_lines([s]))[0]
        if x.startswith('Ok(x'):
            grammars.append((g, s, x))
    grammars += accepted_grammars(ctx, n, behaviour=True, max_nts=5, max_terms=4, payload_like_nt=0.3, empty_helper_enum=0.1, wide=0.1)
    # more than twenty top-level items, in every order of the start / terminal declarations among the nonterminals:
    # accepted small grammars glued together (the model is skipped for these: minutes at that size)
    big_from = len(grammars)
    pool = [h for h, _, _ in accepted_grammars(ctx, ctx.n(40, 200), behaviour=True, max_nts=3, max_terms=3, adversarial=0.0, name_relations=0.0,
                                               many_terminals=0.0, letterless=0.0, motifs=0.2)]
    for _ in range(5 if ctx.quick else 40):
        if len(pool) < 3:
            break
        h = gen.join_grammars(ctx.rng, [ctx.rng.choice(pool) for _ in range(ctx.rng.choice([7, 9, 12, 16]))])
        h.tenum_attrs = ['#[derive(Debug)]']
        for nt in h.nts:
            if not nt['attrs']:
                nt['attrs'] = ['#[derive(Debug)]']
        s = gen.render(ctx.rng, h, 'plain')
        x = vlib.run_rust('gen', checks.hex_lines([s]))[0]
        if x.startswith('Ok(x'):
            grammars.append((h, s, x))
    srcs = [s for _, s, _ in grammars]
    m = [None] * len(srcs)
    if ctx.model_ok:
        for i, y in enumerate(vlib.run_model('gen', checks.gen_lines(srcs[:big_from]))):
            m[i] = y
    failed = set()
    for i, ((g, s, x), y) in enumerate(zip(grammars, m)):
        res.count(s, any(fs[0] != 'empty' for _, _, fs in g.rules()))
        res.sample(dict(src=short(s, 160)))
        text = decode_ok(x)
        try:
            defs = oracles.split_typedefs(oracles.typedef_region(text))
            got = [(h, [l.strip() for l in b if l.strip()]) for _, h, b in defs if h is not None][1:]
            exp = oracles.expected_typedefs(g)
            flat = lambda d: [oracles.retokenise_type(z) for h, b in d for z in [h] + b]
            bad = None if flat(got) == flat(exp) else 'type definitions differ from the declarations'
            sig = 'pub fn parse<'
            msig = re.search(r'pub fn parse<(\w+)>\(src: (\w+)\) -> Result<(\w+), Option<(\w+)>>\nwhere (\w+): IntoIterator<Item = (\w+)> \{', text)
            if not msig or not (msig.group(1) == msig.group(2) == msig.group(5) and msig.group(3) == g.start
                                and msig.group(4) == msig.group(6) == g.tenum):
                bad = 'parse signature'
        except Exception as e:
            bad = 'unreadable type definitions: %r' % (e,)
            got, exp = None, None
        if bad:
            failed.add(i)
            res.failures.append(dict(kind='typedefs-do-not-mirror-declarations', src=s, impl=short(got, 600), expected=short(exp, 600), detail=bad))
        elif y is not None and x != y:
            res.disagreements.append(disagreement('generate', s, x, y))
    # the same oracle on many more grammars that are NOT compiled (any payload types, names related to one another, payload types
    # related to their neighbours' and spelled like nonterminals): the definitions are compared as text
    extra = []
    for _ in range(ctx.n(400, 8000)):
        g = gen.gen_grammar(ctx.rng, max_nts=5, max_terms=5, name_relations=0.6, payload_like_nt=0.3, empty_helper_enum=0.05)
        if ctx.rng.random() < 0.5:
            gen.relate_adjacent_types(ctx.rng, g)
        extra.append((g, gen.render(ctx.rng, g, ctx.rng.choice(['plain', 'random']))))
    xr = vlib.run_rust('gen', checks.hex_lines([s for _, s in extra]))
    xm = vlib.run_model('gen', checks.gen_lines([s for _, s in extra])) if ctx.model_ok else [None] * len(extra)
    ntext = 0
    for (g, s), x, y in zip(extra, xr, xm):
        if y is not None and x != y:
            res.disagreements.append(disagreement('generate', s, x, y))
            continue
        if not x.startswith('Ok(x'):
            res.evaluations += 1
            continue
        ntext += 1
        res.count(s, any(fs[0] != 'empty' for _, _, fs in g.rules()))
        text = decode_ok(x)
        try:
            defs = oracles.split_typedefs(oracles.typedef_region(text))
            got = [(h, [l.strip() for l in b if l.strip()]) for _, h, b in defs if h is not None][1:]
            exp = oracles.expected_typedefs(g)
            flat = lambda d: [oracles.retokenise_type(z) for h, b in d for z in [h] + b]
            bad1 = None if flat(got) == flat(exp) else 'type definitions differ from the declarations'
        except Exception as e:
            bad1, got, exp = 'unreadable type definitions: %r' % (e,), None, None
        if bad1:
            res.failures.append(dict(kind='typedefs-do-not-mirror-declarations', src=s, impl=short(got, 600), expected=short(exp, 600), detail=bad1))
    res.extra['typedefs_compared_as_text_only'] = ntext
    bad, out = compile_modules('c06', grammars, with_clients=True)
    if bad:
        bad = isolate('c06', grammars, bad, True)
    for i, (g, s, x) in enumerate(grammars):
        if i in bad and i not in failed:
            res.failures.append(dict(kind='client-of-declared-types-does-not-compile(%s)' % bad[i][0], src=s, impl=short(bad[i][1], 400),
                                     expected='a client using every declared type, field, variant and parse type-checks'))
    if -1 in bad:
        res.failures.append(dict(kind='client-crate-does-not-compile', src='(whole batch)', impl=short(bad[-1][1], 1500), expected='rustc accepts the crate'))
    res.extra['modules_compiled'] = len(grammars)
    return res


CHECKS = {'C01': check_C01, 'C02': check_C02, 'C03': check_C03, 'C05': check_C05, 'C06': check_C06}
