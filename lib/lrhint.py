"""Untrusted hints for the Coq validator (LR/Validate.v): the item annotation of
every state and a FIRST table, computed here by brute force and then *checked*
inside Coq against the tables the driver reads."""
import oracles


def gallina_psym(sym, tidx, nidx):
    return 'PT %d' % tidx[sym[1]] if sym[0] == 'T' else 'PN %d' % nidx[sym[1]]


def gallina_rules(rules, used, tidx, nidx):
    rows = []
    for (lhs, rhs), fl in zip(rules, used):
        rows.append('{| pr_lhs := %d; pr_rhs := [%s]; pr_used := [%s] |}' % (
            nidx[lhs], '; '.join(gallina_psym(s, tidx, nidx) for s in rhs), '; '.join('true' if u else 'false' for u in fl)))
    return '[' + ';\n   '.join(rows) + ']'


def gallina_item(it, tidx):
    r, la, d = it
    return '{| irule := %s; idot := %d; ila := %s |}' % (
        'None' if r is None else 'Some %d' % r, d, 'None' if la is None else 'Some %d' % tidx[la])


def gallina_ann(states, tidx):
    return '[' + ';\n   '.join('[' + '; '.join(gallina_item(it, tidx) for it in st) + ']' for st in states) + ']'


def gallina_ft(ref, tidx):
    rows = []
    for n in ref['nts']:
        rows.append('([%s], %s)' % ('; '.join(str(tidx[t]) for t in sorted(ref['first'].get(n, ()), key=lambda t: tidx[t])),
                                    'true' if n in ref['nullable'] else 'false'))
    return '[' + '; '.join(rows) + ']'


def gallina_action(a):
    return {'S': 'AShift %s', 'R': 'AReduce %s'}.get(a[0], None) % a[1] if a[0] in 'SR' else ('AAccept' if a[0] == 'Acc' else 'AErr')


def gallina_ptable(start, start_nt, nterm, nn, actions, gotos, rules_name):
    ns = len(actions) // (nterm + 1)
    arows = ['[' + '; '.join(gallina_action(a) for a in actions[i * (nterm + 1):(i + 1) * (nterm + 1)]) + ']' for i in range(ns)]
    grows = ['[' + '; '.join(('Some %d' % g[1]) if g[0] == 'G' else 'None' for g in gotos[i * nn:(i + 1) * nn]) + ']' for i in range(ns)]
    return ('{| pt_start := %d; pt_start_nt := %d; pt_nterm := %d;\n   pt_action := [%s];\n   pt_goto := [%s];\n   pt_rules := %s |}'
            % (start, start_nt, nterm, ';\n     '.join(arows), ';\n     '.join(grows), rules_name))


def validation_goal(name, parsed, table=None):
    """Gallina text: definitions + `Goal validate ... = true` for one grammar.
    parsed: oracles.parse_mt(...) of the hook output; table: (start, actions, gotos) read back from
    the emitted text, or None to use the hook's table."""
    start, terms, nts, rules, used = oracles.file_rules(parsed['file'])
    ref = oracles.lalr_build(start, terms, nts, rules)
    if ref is None:
        return None
    tidx = {t: i for i, t in enumerate(terms)}
    nidx = {n: i for i, n in enumerate(nts)}
    if table is None:
        tb = parsed['table']
        table = (tb['start'], tb['actions'], tb['gotos'])
    L = []
    L.append('Definition %s_rules : list prule :=\n  %s.' % (name, gallina_rules(rules, used, tidx, nidx)))
    L.append('Definition %s_T : ptable :=\n  %s.' % (name, gallina_ptable(table[0], nidx[start], len(terms), len(nts), table[1], table[2], name + '_rules')))
    L.append('Definition %s_ann : list (list item) :=\n  %s.' % (name, gallina_ann(parsed['states'], tidx)))
    L.append('Definition %s_ft : first_table := %s.' % (name, gallina_ft(ref, tidx)))
    L.append('Goal validate %s_T %s_ann %s_ft = true. Proof. vm_compute. reflexivity. Qed.' % (name, name, name))
    nterm, nn = len(terms), len(nts)
    ns = len(table[1]) // (nterm + 1)
    arows = [table[1][i * (nterm + 1):(i + 1) * (nterm + 1)] for i in range(ns)]
    grows = [[(g[1] if g[0] == 'G' else None) for g in table[2][i * nn:(i + 1) * nn]] for i in range(ns)]
    cert = termination_certificate(nterm, nn, arows, grows, [(nidx[lhs], len(rhs)) for lhs, rhs in rules])
    if cert is not None:
        L.append('Goal term_check %s_T %s_ann %d [%s] = true. Proof. vm_compute. reflexivity. Qed.'
                 % (name, name, cert[0], '; '.join(map(str, cert[1]))))
    else:
        L.append('(* no termination certificate found *)')
    return '\n'.join(L)


def annotate_table(rules, start_nt_name, terms, nts, start_state, actions, gotos):
    """Item annotation for a table whose states are not known (parser.rs): follow the table's own
    transitions from the start state in parallel with the brute-force LALR(1) automaton."""
    ref = oracles.lalr_build(start_nt_name, terms, nts, rules, max_states=2000)
    nterm, nn = len(terms), len(nts)
    ns = len(actions)
    core_of = {start_state: ref['start']}
    work = [start_state]
    while work:
        s = work.pop()
        c = core_of[s]
        for ti, t in enumerate(terms):
            a = actions[s][ti]
            if a[0] == 'S' and (c, ('T', t)) in ref['trans'] and a[1] not in core_of:
                core_of[a[1]] = ref['trans'][(c, ('T', t))]
                work.append(a[1])
        for ni, n in enumerate(nts):
            g = gotos[s][ni]
            if g is not None and (c, ('N', n)) in ref['trans'] and g not in core_of:
                core_of[g] = ref['trans'][(c, ('N', n))]
                work.append(g)
    states = []
    for s in range(ns):
        c = core_of.get(s)
        items = sorted(ref['states'][c], key=str) if c is not None else []
        states.append([(r, la, d) for (r, d, la) in items])
    return states, ref


# ---------------------------------------------------------------- termination certificate (LR/Term.v)

def termination_certificate(nterm, nn, actions, gotos, rules_shape):
    """actions: rows of ('S',s)|('R',r)|('Acc',)|('E',); gotos: rows of state or None;
    rules_shape: [(lhs index, rhs length)].  Returns (K, phi) satisfying LR/Term.v:term_check, or None."""
    ns = len(actions)
    preds1 = [set() for _ in range(ns)]
    for p in range(ns):
        for c in range(nterm + 1):
            a = actions[p][c]
            if a[0] == 'S' and a[1] < ns:
                preds1[a[1]].add(p)
        for n in range(nn):
            g = gotos[p][n]
            if g is not None and g < ns:
                preds1[g].add(p)

    def predsn(n, s):
        cur = {s}
        for _ in range(n):
            nxt = set()
            for q in cur:
                nxt |= preds1[q]
            cur = nxt
        return cur

    cons = set()
    for s in range(ns):
        for c in range(nterm + 1):
            a = actions[s][c]
            if a[0] != 'R' or a[1] >= len(rules_shape):
                continue
            lhs, n = rules_shape[a[1]]
            for p in predsn(n, s):
                g = gotos[p][lhs] if lhs < nn else None
                if g is not None:
                    cons.add((s, g, n))
    K = ns + 1
    for _ in range(6):
        dist = [0] * ns
        ok = True
        for it in range(ns + 1):
            changed = False
            for (s, s2, n) in cons:
                w = K * n - K - 1
                if dist[s] + w < dist[s2]:
                    dist[s2] = dist[s] + w
                    changed = True
            if not changed:
                break
        else:
            ok = False
        if ok and not changed:
            lo = min(dist) if dist else 0
            return K, [d - lo for d in dist]
        K *= 4
    return None
