"""Shared machinery of the checks: building the Coq development, the extracted
model and the Rust harness from the current /repo working tree; running both
sides on case files; the audit; evidence and violation reporting."""
import fcntl
import hashlib
import json
import os
import re
import resource
import subprocess
import sys
import time

VERIF = os.path.dirname(os.path.dirname(os.path.abspath(__file__)))
REPO = os.environ.get('VERIF_REPO', '/repo')
BUILD = os.path.join(VERIF, '_build')
COQ = os.path.join(VERIF, 'coq')
OUT = os.path.join(VERIF, 'out')
HARNESS_TARGET = os.path.join(BUILD, 'harness-target')
HARNESS_BIN = os.path.join(HARNESS_TARGET, 'debug', 'kiki_verif_harness')
KMODEL = os.path.join(BUILD, 'ocaml', 'kmodel')
NPROC = os.cpu_count() or 4

sys.path.insert(0, os.path.join(VERIF, 'lib'))
import translate  # noqa: E402

CARGO_ENV = dict(os.environ, CARGO_NET_OFFLINE='true', RUSTFLAGS='--cfg kiki_verif',
                 CARGO_TARGET_DIR=HARNESS_TARGET, CARGO_TERM_COLOR='never')

FORBIDDEN = re.compile(r'\b(Admitted|admit|Axiom|Axioms|Parameter|Parameters|Conjecture|Hypothesis|Variable)\b'
                       r'|Unset\s+Guard|bypass_check|type-in-type|impredicative-set|Admit\s+Obligations')

TRUSTED_BASE = [
    'Coq 8.16.1 kernel (coqc); vm_compute is used, native_compute is not; the thorough tier re-checks the compiled Props file and all it depends on with coqchk -o',
    'axioms: none (every property theorem is "Closed under the global context"; checked on every run)',
    'translators lib/translate.py (parser.rs tables, parser.kiki rules, table_to_rust.rs template)',
    'extraction: ExtrOcamlBasic only (bool, option, unit, list, prod, sumbool, sumor), no Extract Constant; OCaml 4.13.1',
    'correspondence harness (harness/, ocaml/driver.ml, lib/*.py generators and oracles)',
    'std collections/iterators/str methods modelled by documented contract; sha256 by hashlib; rustc semantics of emitted text',
]


def log(*a):
    print(*a, file=sys.stderr, flush=True)


def sh(cmd, cwd=None, env=None, timeout=3600, stdin=None):
    p = subprocess.run(cmd, cwd=cwd, env=env, timeout=timeout, stdout=subprocess.PIPE,
                       stderr=subprocess.STDOUT, text=True, input=stdin, errors='replace')
    return p.returncode, p.stdout


class Lock:
    def __init__(self, name='build'):
        os.makedirs(BUILD, exist_ok=True)
        self.path = os.path.join(BUILD, '.%s.lock' % name)

    def __enter__(self):
        self.f = open(self.path, 'w')
        fcntl.flock(self.f, fcntl.LOCK_EX)
        return self

    def __exit__(self, *a):
        fcntl.flock(self.f, fcntl.LOCK_UN)
        self.f.close()


def repo_hash():
    """Hash of everything under /repo that can influence the crate's behaviour."""
    h = hashlib.sha256()
    for root in ('kiki/src', 'kiki/Cargo.toml', 'kiki/build.rs', 'Cargo.toml', 'Cargo.lock'):
        p = os.path.join(REPO, root)
        if os.path.isdir(p):
            for d, ds, fs in sorted(os.walk(p)):
                ds.sort()
                for f in sorted(fs):
                    q = os.path.join(d, f)
                    h.update(q.encode())
                    h.update(open(q, 'rb').read())
        elif os.path.exists(p):
            h.update(open(p, 'rb').read())
    return h.hexdigest()[:16]


# ------------------------------------------------------------------ Coq

class ProofFailure(Exception):
    def __init__(self, what, logtext):
        super().__init__(what)
        self.what = what
        self.logtext = logtext


def coq_makefile():
    mk = os.path.join(COQ, 'Makefile')
    cp = os.path.join(COQ, '_CoqProject')
    if not os.path.exists(mk) or os.path.getmtime(mk) < os.path.getmtime(cp):
        rc, out = sh(['coq_makefile', '-f', '_CoqProject', '-o', 'Makefile'], cwd=COQ)
        if rc != 0:
            raise ProofFailure('coq_makefile failed', out)


def regenerate_gen():
    """Translators: Gen/*.v from the current source.  A source the translators no
    longer understand is a broken tie between model and code."""
    try:
        return translate.regenerate(REPO, COQ)
    except translate.TranslateError as e:
        raise ProofFailure('translator: %s' % e, str(e))
    except Exception as e:  # unreadable file etc.
        raise ProofFailure('translator crashed: %r' % e, repr(e))


def coq_make(targets, timeout=3000):
    coq_makefile()
    rc, out = sh(['timeout', str(timeout), 'make', '-j%d' % NPROC] + targets, cwd=COQ, timeout=timeout + 60)
    return rc, out


def audit_sources():
    """Forbidden vernacular anywhere in the development."""
    bad = []
    for d, ds, fs in os.walk(COQ):
        for f in fs:
            if not f.endswith('.v'):
                continue
            p = os.path.join(d, f)
            text = open(p, encoding='utf-8').read()
            # drop comments (non-nested is enough for our sources, nested handled by loop)
            prev = None
            while prev != text:
                prev = text
                text = re.sub(r'\(\*(?:(?!\(\*|\*\)).)*\*\)', ' ', text, flags=re.S)
            in_section = 0
            for ln, line in enumerate(text.split('\n'), 1):
                if re.match(r'\s*Section\b', line):
                    in_section += 1
                if re.match(r'\s*End\b', line) and in_section:
                    in_section -= 1
                for m in FORBIDDEN.finditer(line):
                    w = m.group(0)
                    if w in ('Variable', 'Hypothesis') and in_section:
                        continue      # section-local, discharged at End
                    bad.append('%s:%d: %s' % (os.path.relpath(p, VERIF), ln, w))
    return bad


def check_props(pid, coqchk=False):
    """Rebuild Props/<pid>.v against the regenerated model; returns
    dict(theorems=[...], closed=n, axioms=[...]).  Raises ProofFailure."""
    with Lock('coq'):
        regenerate_gen()
        src = os.path.join(COQ, 'Props', pid + '.v')
        if not os.path.exists(src):
            raise ProofFailure('Props/%s.v missing' % pid, '')
        os.utime(src, None)      # force recompilation so Print Assumptions output is seen
        rc, out = coq_make(['Props/%s.vo' % pid])
    if rc != 0:
        raise ProofFailure('make Props/%s.vo failed' % pid, out)
    text = open(src, encoding='utf-8').read()
    theorems = re.findall(r'^\s*Theorem\s+([A-Za-z0-9_\']+)', text, re.M)
    printed = re.findall(r'^\s*Print Assumptions\s+([A-Za-z0-9_\']+)\.', text, re.M)
    missing = [t for t in theorems if t not in printed]
    if missing:
        raise ProofFailure('theorems without Print Assumptions: %s' % missing, out)
    closed = out.count('Closed under the global context')
    axioms = []
    if 'Axioms:' in out:
        for blk in re.findall(r'Axioms:\n((?:.+\n?)+?)(?=\n|Closed|COQC|$)', out):
            axioms.append(blk.strip())
    if axioms or closed != len(printed):
        raise ProofFailure('assumptions are not closed (%d of %d closed): %s' % (closed, len(printed), axioms), out)
    bad = audit_sources()
    if bad:
        raise ProofFailure('forbidden vernacular: %s' % bad[:5], '\n'.join(bad))
    chk = None
    if coqchk:
        # independent re-check of the compiled Props file and everything it depends on
        rc, cout = sh(['coqchk', '-silent', '-o', '-Q', '.', 'Kiki', 'Kiki.Props.%s' % pid], cwd=COQ, timeout=1800)
        wanted = ['* Axioms: <none>', 'relying on type-in-type: <none>', 'relying on unsafe (co)fixpoints: <none>',
                  'positivity is assumed: <none>']
        if rc != 0 or not all(w in cout for w in wanted):
            raise ProofFailure('coqchk does not confirm Props/%s.vo (axioms / unsafe features)' % pid, cout[-3000:])
        chk = 'coqchk -o: no axioms, no type-in-type, no unsafe fixpoints, no assumed positivity'
    return dict(theorems=theorems, closed=closed, axioms=axioms, coqchk=chk)


# ------------------------------------------------------------------ model (OCaml)

def ensure_model():
    with Lock('coq'):
        regenerate_gen()
        ml = os.path.join(BUILD, 'ocaml', 'model.ml')
        os.makedirs(os.path.dirname(ml), exist_ok=True)
        if not os.path.exists(ml):
            os.utime(os.path.join(COQ, 'Extract.v'), None)
        rc, out = coq_make(['Extract.vo'])
        if rc != 0:
            raise ProofFailure('make Extract.vo failed (the model no longer builds against the regenerated Gen/*.v)', out)
        drv_src = os.path.join(VERIF, 'ocaml', 'driver.ml')
        drv = os.path.join(BUILD, 'ocaml', 'driver.ml')
        stale = (not os.path.exists(KMODEL)
                 or os.path.getmtime(KMODEL) < os.path.getmtime(ml)
                 or os.path.getmtime(KMODEL) < os.path.getmtime(drv_src))
        if stale:
            open(drv, 'w').write(open(drv_src).read())
            rc, out = sh(['ocamlfind', 'ocamlopt', '-O2', '-w', '-a', 'model.mli', 'model.ml', 'driver.ml', '-o', 'kmodel'],
                         cwd=os.path.join(BUILD, 'ocaml'))
            if rc != 0:
                raise RuntimeError('OCaml build failed:\n' + out)


def _big_stack():
    try:
        resource.setrlimit(resource.RLIMIT_STACK, (resource.RLIM_INFINITY, resource.RLIM_INFINITY))
    except Exception:
        pass


def _run_sharded(argv_prefix, lines, tag, preexec=None, timeout=1800, shards=None):
    """Run `argv_prefix <file>` over `lines` split into shards; returns output lines in order."""
    if not lines:
        return []
    os.makedirs(os.path.join(BUILD, 'cases'), exist_ok=True)
    n = min(shards or NPROC, len(lines))
    size = (len(lines) + n - 1) // n
    procs = []
    for i in range(n):
        chunk = lines[i * size:(i + 1) * size]
        if not chunk:
            continue
        path = os.path.join(BUILD, 'cases', '%s.%d.%d.txt' % (tag, os.getpid(), i))
        with open(path, 'w') as f:
            f.write('\n'.join(chunk) + '\n')
        p = subprocess.Popen(argv_prefix + [path], stdout=subprocess.PIPE, stderr=subprocess.PIPE,
                             text=True, preexec_fn=preexec)
        procs.append((p, path, len(chunk)))
    out = []
    for p, path, cnt in procs:
        try:
            so, se = p.communicate(timeout=timeout)
        except subprocess.TimeoutExpired:
            p.kill()
            so, se = p.communicate()
            se += '\nTIMEOUT'
        got = so.split('\n')
        if got and got[-1] == '':
            got.pop()
        if len(got) != cnt:
            # the process died: mark the missing results
            got = got + ['CRASH rc=%s %s' % (p.returncode, se.strip()[-200:].replace('\n', ' '))] * (cnt - len(got))
        out.extend(got[:cnt])
        try:
            os.unlink(path)
        except OSError:
            pass
    return out


def cps(s):
    return ' '.join(str(ord(c)) for c in s)


MODEL_TIMEOUTS = 0


def run_model(cmd, lines, tag='m'):
    """The extracted model on `lines`.  A shard that exceeds the time limit yields None for its unfinished cases (the model
    is proved to terminate; it is merely slow on large automata) — they are then not compared, and counted in the evidence."""
    global MODEL_TIMEOUTS
    limit = 300 if os.environ.get('VERIF_TIER', 'quick') != 'thorough' else 1800
    out = _run_sharded([KMODEL, cmd], lines, tag + '-' + cmd, preexec=_big_stack, timeout=limit)
    res = []
    for y in out:
        if y.startswith('CRASH') and y.rstrip().endswith('TIMEOUT'):
            MODEL_TIMEOUTS += 1
            res.append(None)
        else:
            res.append(y)
    return res


# ------------------------------------------------------------------ harness (Rust)

def ensure_harness():
    with Lock('cargo'):
        hd = os.path.join(VERIF, 'harness')
        lock = os.path.join(hd, 'Cargo.lock')
        src_lock = os.path.join(REPO, 'Cargo.lock')
        if os.path.exists(src_lock):
            want = open(src_lock).read()
            if not os.path.exists(lock):
                open(lock, 'w').write(want)
        rc, out = sh(['cargo', 'build', '--offline'], cwd=hd, env=CARGO_ENV, timeout=1800)
        if rc != 0:
            # a stale lock file is the usual reason; retry from /repo's
            if os.path.exists(src_lock):
                open(lock, 'w').write(open(src_lock).read())
                rc, out = sh(['cargo', 'build', '--offline'], cwd=hd, env=CARGO_ENV, timeout=1800)
        if rc != 0:
            raise RuntimeError('harness build failed:\n' + out[-4000:])


def run_rust(cmd, lines, tag='r'):
    return _run_sharded([HARNESS_BIN, cmd], lines, tag + '-' + cmd)


# ------------------------------------------------------------------ vm_compute cross-check

def vm_crosscheck(entry_expr_and_expected, tag):
    """entry_expr_and_expected: list of (gallina expression of type str, expected python string).
    Writes a cases.v that must be accepted by coqc: each case is proved by vm_compute."""
    if not entry_expr_and_expected:
        return True, ''
    d = os.path.join(BUILD, 'vm')
    os.makedirs(d, exist_ok=True)
    path = os.path.join(d, 'cases_%s_%d.v' % (tag, os.getpid()))
    L = ['From Kiki Require Import Base.Chars Data Pipeline Canon Oset.Model Base.Ord.',
         'Open Scope N_scope.']
    for i, (expr, expected) in enumerate(entry_expr_and_expected):
        exp = '[' + ';'.join(str(ord(c)) for c in expected) + ']'
        L.append('Goal (%s) = %s%%N. Proof. vm_compute. reflexivity. Qed.' % (expr, exp))
    open(path, 'w').write('\n'.join(L) + '\n')
    rc, out = sh(['timeout', '600', 'coqc', '-noglob', '-Q', COQ, 'Kiki', path], cwd=d, timeout=700)
    for ext in ('.v', '.vo', '.vok', '.vos', '.glob'):
        try:
            os.unlink(path[:-2] + ext)
        except OSError:
            pass
    return rc == 0, out


def gallina_str(s):
    return '[' + ';'.join(str(ord(c)) for c in s) + ']%N'


# ------------------------------------------------------------------ reporting

def load_known_findings():
    p = os.path.join(VERIF, 'known_findings.jsonl')
    out = []
    if os.path.exists(p):
        for line in open(p):
            line = line.strip()
            if line and not line.startswith('#'):
                out.append(json.loads(line))
    return out


def write_replay(pid, seed, obj):
    d = os.path.join(OUT, 'replays')
    os.makedirs(d, exist_ok=True)
    n = 0
    while True:
        path = os.path.join(d, '%s-%d-%d.json' % (pid, seed, n))
        if not os.path.exists(path):
            break
        n += 1
    with open(path, 'w') as f:
        json.dump(obj, f, indent=1, ensure_ascii=False)
    return path


def write_evidence(pid, tier, seed, coverage, wall, violations, assumptions):
    d = os.path.join(VERIF, 'evidence')
    os.makedirs(d, exist_ok=True)
    ev = dict(property_id=pid, tier=tier, seed=seed, level='proof', coverage=coverage,
              assumptions=assumptions, wall_s=round(wall, 2), violations=violations)
    with open(os.path.join(d, pid + '.json'), 'w') as f:
        json.dump(ev, f, indent=1, ensure_ascii=False)


# ------------------------------------------------------------------ change-aware budget

FINGERPRINT = os.path.join(VERIF, 'fingerprint.json')


def source_fingerprint():
    """sha256 of every file under kiki/src of the working tree (the hooks file included)."""
    import hashlib
    out = {}
    root = os.path.join(REPO, 'kiki', 'src')
    for d, ds, fs in os.walk(root):
        ds.sort()
        for f in sorted(fs):
            p = os.path.join(d, f)
            rel = os.path.relpath(p, REPO)
            try:
                out[rel] = hashlib.sha256(open(p, 'rb').read()).hexdigest()
            except OSError:
                pass
    return out


def changed_anchor_files(pid):
    """Files under kiki/src that differ from the recorded fingerprint and matter to property pid: its anchor files
    (properties.jsonl), or every property when the changed file is anchored nowhere."""
    try:
        base = json.load(open(FINGERPRINT))
    except Exception:
        return []
    now = source_fingerprint()
    changed = sorted(k for k in set(base) | set(now) if base.get(k) != now.get(k))
    if not changed:
        return []
    anchors, mine = set(), set()
    try:
        for l in open(os.path.join(VERIF, 'properties.jsonl')):
            p = json.loads(l)
            fs = set(p.get('anchors', {}).get('files', []))
            anchors |= fs
            if p['id'] == pid:
                mine = fs
    except Exception:
        return changed
    # the pipeline stages feed one another: a change in an earlier stage matters to the properties of the later ones
    hit = [c for c in changed if c in mine or c not in anchors]
    return hit or ([c for c in changed] if pid in ('C07', 'C14') else [])
