(* Np.v — "this result is not a panic", and how it composes. *)
From Coq Require Import List.
From Kiki Require Import Base.Ord Base.Chars Data.
Import ListNotations.

Definition np {A} (r : res A) : Prop := forall site, r <> Panic site.

Lemma np_ok {A} (a : A) : np (Ok a).
Proof. intros s; discriminate. Qed.
Lemma np_err {A} e : np (@Err A e).
Proof. intros s; discriminate. Qed.
Lemma np_oof {A} s0 : np (@OutOfFuel A s0).
Proof. intros s; discriminate. Qed.

Lemma np_bind {A B} (r : res A) (k : A -> res B) : np r -> (forall a, r = Ok a -> np (k a)) -> np (bind r k).
Proof. intros Hr Hk. destruct r as [a|e|s|s]; cbn; [apply Hk; reflexivity|apply np_err|exfalso; apply (Hr s); reflexivity|apply np_oof]. Qed.

Lemma np_unwrap {A} site (o : option A) : o <> None -> np (unwrap site o).
Proof. destruct o; [intros _; apply np_ok|contradiction]. Qed.

Lemma np_map_res {A B} (f : A -> res B) l : (forall x, In x l -> np (f x)) -> np (map_res f l).
Proof.
  induction l as [|x l IH]; intros H; cbn [map_res]; [apply np_ok|].
  apply np_bind; [apply H; left; reflexivity|]. intros y _. apply np_bind; [apply IH; intros z Hz; apply H; right; exact Hz|].
  intros ys _. apply np_ok.
Qed.


Lemma np_for_each {A} (f : A -> res unit) l : (forall x, In x l -> np (f x)) -> np (for_each f l).
Proof.
  induction l as [|x l IH]; intros H; cbn [for_each]; [apply np_ok|].
  apply np_bind; [apply H; left; reflexivity|]. intros _ _. apply IH. intros z Hz. apply H. right. exact Hz.
Qed.

(* straight-line code: binds, matches and ifs over results that are themselves not panics *)
Ltac np_step :=
  match goal with
  | |- np (Ok _) => apply np_ok
  | |- np (Err _) => apply np_err
  | |- np (OutOfFuel _) => apply np_oof
  | |- np (bind _ _) => apply np_bind; [|intros ? _]
  | |- np (match ?x with _ => _ end) => destruct x
  | |- np (if ?x then _ else _) => destruct x
  | |- np (map_res _ _) => apply np_map_res; intros ? _
  | |- np (for_each _ _) => apply np_for_each; intros ? _
  end.
Ltac np_auto := repeat np_step.
