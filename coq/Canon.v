(* Canon.v — canonical one-line rendering of the model's results, character for
   character the format printed by the Rust harness (harness/src/canon.rs).
   Used only by the correspondence check.  No proofs. *)
From Kiki Require Import Base.Ord Base.Chars Data LR.Driver.
Open Scope nat_scope.

Inductive canon :=
| CN (n : N)
| CS (s : str)
| CT (tag : string) (args : list canon)
| CL (l : list canon).

Definition cnat (n : nat) : canon := CN (N.of_nat n).

Fixpoint render (c : canon) : str :=
  match c with
  | CN n => dec_N n
  | CS s => ch "x" :: hex_str s
  | CT tag [] => s2l tag
  | CT tag args => s2l tag ++ s2l "(" ++ join (s2l ",") (map render args) ++ s2l ")"
  | CL l => s2l "[" ++ join (s2l ",") (map render l) ++ s2l "]"
  end.

Definition c_ident (i : ident) := CT "Ident" [CS (id_name i); CN (id_pos i)].
Definition c_tident (t : tident) := CT "Terminal" [CS (ti_name t); CN (ti_dpos t)].
Definition c_attr (a : attribute) := CT "Attr" [CS (at_src a); CN (at_pos a)].

Definition c_token (t : token) : canon :=
  match t with
  | TUnderscore p => CT "Underscore" [CN p]
  | TIdent i => CT "Ident" [CS (id_name i); CN (id_pos i)]
  | TTerminalIdent i => CT "TerminalIdent" [CS (ti_name i); CN (ti_dpos i)]
  | TOuterAttribute a => CT "OuterAttribute" [CS (at_src a); CN (at_pos a)]
  | TStartKw p => CT "StartKw" [CN p] | TStructKw p => CT "StructKw" [CN p]
  | TEnumKw p => CT "EnumKw" [CN p] | TTerminalKw p => CT "TerminalKw" [CN p]
  | TColon p => CT "Colon" [CN p] | TDoubleColon p => CT "DoubleColon" [CN p]
  | TComma p => CT "Comma" [CN p]
  | TLParen p => CT "LParen" [CN p] | TRParen p => CT "RParen" [CN p]
  | TLCurly p => CT "LCurly" [CN p] | TRCurly p => CT "RCurly" [CN p]
  | TLAngle p => CT "LAngle" [CN p] | TRAngle p => CT "RAngle" [CN p]
  end.

Definition c_symbol (s : symbol) : canon :=
  match s with SymT n => CT "T" [CS n] | SymN n => CT "N" [CS n] end.

Definition c_iot (s : ident_or_tident) : canon :=
  match s with IOTIdent i => c_ident i | IOTTerminal t => c_tident t end.

Definition c_fieldset (fs : fieldset) : canon :=
  match fs with
  | FEmpty => CT "Empty" []
  | FNamed l => CT "Named" [CL (map (fun f => CT "F" [match nf_name f with
                                                      | IOUIdent i => c_ident i
                                                      | IOUUnderscore p => CT "Underscore" [CN p]
                                                      end; c_iot (nf_symbol f)]) l)]
  | FTuple l => CT "Tuple" [CL (map (fun f => match f with
                                              | TFUsed s => CT "Used" [c_iot s]
                                              | TFSkipped s => CT "Skipped" [c_iot s]
                                              end) l)]
  end.

Definition c_nonterminal (n : nonterminal) : canon :=
  match n with
  | NStruct s => CT "Struct" [CL (map c_attr (sd_attrs s)); c_ident (sd_name s); c_fieldset (sd_fieldset s)]
  | NEnum e => CT "Enum" [CL (map c_attr (ed_attrs e)); c_ident (ed_name e);
                          CL (map (fun v => CT "Variant" [c_ident (ev_name v); c_fieldset (ev_fieldset v)])
                                  (ed_variants e))]
  end.

Definition c_vfile (f : vfile) : canon :=
  CT "File" [CS (vf_start f);
             CT "TEnum" [CL (map c_attr (vt_attrs (vf_tenum f))); CS (vt_name (vf_tenum f));
                         CL (map (fun v => CT "V" [CS (tvr_name v); CS (tvr_type v)]) (vt_variants (vf_tenum f)))];
             CL (map c_nonterminal (vf_nts f))].

Definition c_item (i : item) : canon :=
  CT "I" [match it_rule i with Some r => CT "R" [cnat r] | None => CT "Aug" [] end;
          match it_la i with Some t => CT "T" [CS t] | None => CT "Eof" [] end;
          cnat (it_dot i)].

Definition c_machine (m : machine) : canon :=
  CT "Machine" [cnat (m_start m);
                CL (map (fun s => CL (map c_item s)) (m_states m));
                CL (map (fun t => CT "Tr" [cnat (tr_from t); cnat (tr_to t); c_symbol (tr_symbol t)])
                        (m_transitions m))].

Definition c_action (a : action) : canon :=
  match a with
  | AShift s => CT "S" [cnat s] | AReduce r => CT "R" [cnat r]
  | AAccept => CT "Acc" [] | AErr => CT "E" []
  end.

Definition c_goto (g : goto) : canon :=
  match g with GState s => CT "G" [cnat s] | GErr => CT "E" [] end.

Definition c_table (t : table) : canon :=
  CT "Table" [cnat (tb_start t); CL (map CS (tb_terminals t)); CL (map CS (tb_nonterminals t));
              CL (map c_action (tb_actions t)); CL (map c_goto (tb_gotos t))].

Definition c_err (e : kiki_err) : canon :=
  match e with
  | ELex i c => CT "Lex" [CN i; match c with Some c => CT "Some" [CN c] | None => CT "None" [] end]
  | EParse s content e => CT "Parse" [CN s; CS content; CN e]
  | ENoStartSymbol => CT "NoStartSymbol" []
  | EMultipleStartSymbols l => CT "MultipleStartSymbols" [CL (map CN l)]
  | ENoTerminalEnum => CT "NoTerminalEnum" []
  | EMultipleTerminalEnums l => CT "MultipleTerminalEnums" [CL (map CN l)]
  | ESymbolNotUppercase p => CT "SymbolOrTerminalEnumNameFirstLetterNotUppercase" [CN p]
  | EFieldNotLowercase p => CT "FieldFirstLetterNotLowercase" [CN p]
  | ENameClash n p1 p2 => CT "NameClash" [CS n; CN p1; CN p2]
  | EVariantNameClash n p1 p2 => CT "NonterminalEnumVariantNameClash" [CS n; CN p1; CN p2]
  | EVariantSeqClash l p1 p2 => CT "NonterminalEnumVariantSymbolSequenceClash" [CL (map c_symbol l); CN p1; CN p2]
  | EUndefinedNonterminal n p => CT "UndefinedNonterminal" [CS n; CN p]
  | EUndefinedTerminal n p => CT "UndefinedTerminal" [CS n; CN p]
  | ETableConflict c => CT "TableConflict" [cnat (cf_state c); c_item (cf_item1 c); c_item (cf_item2 c);
                                            c_vfile (cf_file c); c_machine (cf_machine c)]
  end.

Definition c_res {A} (f : A -> canon) (r : res A) : canon :=
  match r with
  | Ok a => CT "Ok" [f a]
  | Err e => CT "Err" [c_err e]
  | Panic _ => CT "Panic" []
  | OutOfFuel site => CT "OutOfFuel" [CS (s2l site)]
  end.
