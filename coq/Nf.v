(* Nf.v — "this result is not OutOfFuel", and how it composes (C07: no loop runs out of fuel). *)
From Coq Require Import List.
From Kiki Require Import Base.Ord Base.Chars Data.
Import ListNotations.

Definition nf {A} (r : res A) : Prop := forall site, r <> OutOfFuel site.

Lemma nf_ok {A} (a : A) : nf (Ok a). Proof. discriminate 1. Qed.
Lemma nf_err {A} e : nf (@Err A e). Proof. discriminate 1. Qed.
Lemma nf_panic {A} s : nf (@Panic A s). Proof. discriminate 1. Qed.
Lemma nf_oof {A} s : ~ nf (@OutOfFuel A s). Proof. intros H. apply (H s). reflexivity. Qed.

Lemma nf_bind {A B} (r : res A) (k : A -> res B) : nf r -> (forall a, nf (k a)) -> nf (bind r k).
Proof. intros Hr Hk. destruct r; cbn; [apply Hk|discriminate 1|discriminate 1|]. intros s. exfalso. apply (Hr site). reflexivity. Qed.

Lemma nf_bind_inv {A B} (r : res A) (k : A -> res B) : nf (bind r k) -> nf r /\ forall a, r = Ok a -> nf (k a).
Proof.
  intros H. destruct r as [a|e|s|s]; cbn in H.
  - split; [discriminate 1|]. intros a' E. injection E as <-. exact H.
  - split; [discriminate 1|discriminate 1].
  - split; [discriminate 1|discriminate 1].
  - exfalso. apply (H s). reflexivity.
Qed.

Lemma nf_unwrap {A} site (o : option A) : nf (unwrap site o).
Proof. destruct o; discriminate 1. Qed.

Lemma nf_map_res {A B} (f : A -> res B) l : (forall x, nf (f x)) -> nf (map_res f l).
Proof.
  intros H. induction l as [|x l IH]; cbn [map_res]; [discriminate 1|].
  apply nf_bind; [apply H|]. intros y. apply nf_bind; [exact IH|]. intros; discriminate 1.
Qed.

Lemma nf_for_each {A} (f : A -> res unit) l : (forall x, nf (f x)) -> nf (for_each f l).
Proof.
  intros H. induction l as [|x l IH]; cbn [for_each]; [discriminate 1|].
  apply nf_bind; [apply H|]. intros _. exact IH.
Qed.

(* straight-line code *)
Ltac nf_step :=
  match goal with
  | |- nf (Ok _) => apply nf_ok
  | |- nf (Err _) => apply nf_err
  | |- nf (Panic _) => apply nf_panic
  | |- nf (unwrap _ _) => apply nf_unwrap
  | |- nf (bind _ _) => apply nf_bind; [|intros ?]
  | |- nf (match ?x with _ => _ end) => destruct x
  | |- nf (if ?x then _ else _) => destruct x
  | |- nf (map_res _ _) => apply nf_map_res; intros ?
  | |- nf (for_each _ _) => apply nf_for_each; intros ?
  end.
Ltac nf_auto := repeat nf_step.
