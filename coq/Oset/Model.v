(* Oset/Model.v — executable model of kiki/src/data/oset.rs.
   `Oset<T>` is its `raw : Vec<T>`; each operation is modelled by what the std
   routine it calls is documented to do (see DESIGN.md §3.2):
     Vec::binary_search on `raw`  -> position of the first element not smaller
     Vec::sort / sort_unstable    -> a sorted permutation (stable insertion sort here)
     Vec::dedup                   -> drop each element equal to its predecessor *)
From Kiki Require Import Base.Ord.

Section Oset.
  Context {A : Type} (cmp : cmp_t A).

  Definition oset := list A.

  Definition onew : oset := [].

  (* insert: binary_search, Ok(_) => nothing, Err(i) => raw.insert(i, item) *)
  Fixpoint oinsert (x : A) (l : oset) : oset :=
    match l with
    | [] => [x]
    | y :: ys => match cmp x y with
                 | Lt => x :: l
                 | Eq => l
                 | Gt => y :: oinsert x ys
                 end
    end.

  (* contains: binary_search(item).is_ok() *)
  Fixpoint ocontains (x : A) (l : oset) : bool :=
    match l with
    | [] => false
    | y :: ys => match cmp x y with
                 | Lt => false
                 | Eq => true
                 | Gt => ocontains x ys
                 end
    end.

  (* stable insertion sort *)
  Fixpoint sinsert (x : A) (l : list A) : list A :=
    match l with
    | [] => [x]
    | y :: ys => match cmp x y with
                 | Gt => y :: sinsert x ys
                 | _ => x :: l
                 end
    end.

  Definition isort (l : list A) : list A := fold_right sinsert [] l.

  Fixpoint dedup_from (p : A) (l : list A) : list A :=
    match l with
    | [] => [p]
    | y :: ys => if is_eq (cmp p y) then dedup_from p ys else p :: dedup_from y ys
    end.

  Definition dedup (l : list A) : list A :=
    match l with [] => [] | x :: xs => dedup_from x xs end.

  (* FromIterator: collect, sort, dedup *)
  Definition ofrom_iter (l : list A) : oset := dedup (isort l).

  (* Extend: raw.extend(iter); sort_unstable; dedup *)
  Definition oextend (s : oset) (l : list A) : oset := dedup (isort (s ++ l)).

  (* derived PartialEq / Ord on the struct = on `raw` *)
  Definition oeq (s1 s2 : oset) : bool := is_eq (lcmp cmp s1 s2).
  Definition ocmp (s1 s2 : oset) : comparison := lcmp cmp s1 s2.

  (* Operation scripts, as driven by the correspondence harness. *)
  Inductive op := OInsert (x : A) | OExtend (l : list A) | OFromIter (l : list A).

  Definition apply_op (s : oset) (o : op) : oset :=
    match o with
    | OInsert x => oinsert x s
    | OExtend l => oextend s l
    | OFromIter l => ofrom_iter l
    end.

  Definition run_ops (ops : list op) : oset := fold_left apply_op ops onew.

  (* everything the script ever handed to the set that is still supposed to be in it *)
  Definition given_op (acc : list A) (o : op) : list A :=
    match o with
    | OInsert x => x :: acc
    | OExtend l => l ++ acc
    | OFromIter l => l
    end.
  Definition given (ops : list op) : list A := fold_left given_op ops [].
End Oset.
