From Coq Require Import List Sorting.Sorted Permutation Lia.
From Kiki Require Import Base.Ord Base.OrdProofs Oset.Model.
Import ListNotations.

Section OsetProofs.
  Context {A : Type} (cmp : cmp_t A) (L : OrdLaws cmp).

  Definition lt (x y : A) : Prop := cmp x y = Lt.
  Definition le (x y : A) : Prop := cmp x y <> Gt.
  Definition SSorted (l : list A) : Prop := StronglySorted lt l.
  Definition WSorted (l : list A) : Prop := StronglySorted le l.

  Lemma lt_trans x y z : lt x y -> lt y z -> lt x z.
  Proof. apply (ol_trans cmp L). Qed.

  Lemma lt_irrefl x : ~ lt x x.
  Proof. unfold lt; rewrite (ol_refl cmp L); congruence. Qed.

  Lemma le_trans x y z : le x y -> le y z -> le x z.
  Proof.
    unfold le; intros H1 H2 H3. apply (ol_gt_lt cmp L) in H3.
    destruct (cmp x y) eqn:E1; [|clear H1|congruence].
    - apply (ol_eq cmp L) in E1; subst. apply (ol_gt_lt cmp L) in H3. congruence.
    - destruct (cmp y z) eqn:E2; [| |congruence].
      + apply (ol_eq cmp L) in E2; subst.
        rewrite (ol_sym cmp L), H3 in E1; discriminate.
      + pose proof (ol_trans cmp L _ _ _ H3 E1) as H4.
        rewrite (ol_sym cmp L), E2 in H4; discriminate.
  Qed.

  (* ---------- insert ---------- *)

  Lemma oinsert_in x l y : In y (oinsert cmp x l) <-> y = x \/ In y l.
  Proof.
    induction l as [|z zs IH]; cbn.
    - intuition.
    - destruct (cmp x z) eqn:E; cbn.
      + apply (ol_eq cmp L) in E; subst. intuition.
      + intuition.
      + rewrite IH. intuition.
  Qed.

  Lemma oinsert_sorted x l : SSorted l -> SSorted (oinsert cmp x l).
  Proof.
    unfold SSorted. induction 1 as [|z zs Hs IH Hall]; cbn.
    - constructor; [constructor|constructor].
    - destruct (cmp x z) eqn:E.
      + constructor; assumption.
      + constructor; [constructor; assumption|].
        constructor; [exact E|]. rewrite Forall_forall in *; intros w Hw.
        eapply lt_trans; [exact E|auto].
      + constructor; [exact IH|]. rewrite Forall_forall in *; intros w Hw.
        apply oinsert_in in Hw as [->|Hw]; [|auto].
        apply (ol_gt_lt cmp L); exact E.
  Qed.

  (* ---------- contains ---------- *)

  Lemma ocontains_spec x l : SSorted l -> ocontains cmp x l = true <-> In x l.
  Proof.
    unfold SSorted. induction 1 as [|z zs Hs IH Hall]; cbn.
    - intuition discriminate.
    - destruct (cmp x z) eqn:E.
      + apply (ol_eq cmp L) in E; subst. intuition.
      + split; [discriminate|]. intros [->|Hin].
        * rewrite (ol_refl cmp L) in E; discriminate.
        * rewrite Forall_forall in Hall. specialize (Hall _ Hin). unfold lt in Hall.
          rewrite (ol_sym cmp L), E in Hall; discriminate.
      + rewrite IH. split; [auto|]. intros [->|Hin]; [|exact Hin].
        rewrite (ol_refl cmp L) in E; discriminate.
  Qed.

  (* ---------- sort ---------- *)

  Lemma sinsert_perm x l : Permutation (x :: l) (sinsert cmp x l).
  Proof.
    induction l as [|y ys IH]; cbn; [reflexivity|].
    destruct (cmp x y); try reflexivity.
    rewrite perm_swap. constructor. exact IH.
  Qed.

  Lemma isort_perm l : Permutation l (isort cmp l).
  Proof.
    induction l as [|x xs IH]; cbn; [constructor|].
    rewrite <- sinsert_perm. constructor; exact IH.
  Qed.

  Lemma sinsert_sorted x l : WSorted l -> WSorted (sinsert cmp x l).
  Proof.
    unfold WSorted. induction 1 as [|z zs Hs IH Hall]; cbn.
    - constructor; constructor.
    - destruct (cmp x z) eqn:E.
      + constructor; [constructor; assumption|].
        constructor; [unfold le; congruence|].
        apply (ol_eq cmp L) in E; subst. exact Hall.
      + constructor; [constructor; assumption|].
        constructor; [unfold le; congruence|].
        rewrite Forall_forall in *; intros w Hw. eapply le_trans; [|apply Hall, Hw].
        unfold le; congruence.
      + constructor; [exact IH|].
        rewrite Forall_forall in *; intros w Hw.
        apply (Permutation_in _ (Permutation_sym (sinsert_perm x zs))) in Hw.
        destruct Hw as [->|Hw]; [|auto].
        unfold le. rewrite (ol_sym cmp L), E. cbn; congruence.
  Qed.

  Lemma isort_sorted l : WSorted (isort cmp l).
  Proof.
    induction l as [|x xs IH]; cbn; [constructor|]. apply sinsert_sorted, IH.
  Qed.

  (* ---------- dedup ---------- *)

  Lemma dedup_from_in p l y : In y (dedup_from cmp p l) <-> y = p \/ In y l.
  Proof.
    revert p; induction l as [|z zs IH]; intros p; cbn.
    - intuition.
    - destruct (cmp p z) eqn:E; cbn; rewrite ?IH.
      + apply (ol_eq cmp L) in E; subst. intuition.
      + intuition.
      + intuition.
  Qed.

  Lemma dedup_in l y : In y (dedup cmp l) <-> In y l.
  Proof. destruct l as [|x xs]; cbn; [tauto|]. rewrite dedup_from_in. intuition. Qed.

  Lemma dedup_from_sorted p l : WSorted (p :: l) -> SSorted (dedup_from cmp p l).
  Proof.
    unfold WSorted, SSorted. revert p; induction l as [|z zs IH]; intros p H; cbn.
    - constructor; constructor.
    - inversion H as [|? ? Hs Hall]; subst.
      destruct (cmp p z) eqn:E; cbn.
      + apply (ol_eq cmp L) in E; subst. apply IH. exact Hs.
      + constructor; [apply IH; exact Hs|].
        rewrite Forall_forall; intros w Hw. apply dedup_from_in in Hw as [->|Hw]; [exact E|].
        inversion Hs as [|? ? Hs' Hall']; subst. rewrite Forall_forall in Hall'.
        specialize (Hall' _ Hw). unfold le in Hall'. unfold lt.
        destruct (cmp z w) eqn:E2; [| |congruence].
        * apply (ol_eq cmp L) in E2; subst; exact E.
        * eapply lt_trans; eauto.
      + inversion Hall as [|? ? Hpz _]; subst. unfold le in Hpz; congruence.
  Qed.

  Lemma dedup_sorted l : WSorted l -> SSorted (dedup cmp l).
  Proof. destruct l; cbn; [constructor|apply dedup_from_sorted]. Qed.

  (* ---------- from_iter / extend ---------- *)

  Lemma ofrom_iter_sorted l : SSorted (ofrom_iter cmp l).
  Proof. apply dedup_sorted, isort_sorted. Qed.

  Lemma ofrom_iter_in l y : In y (ofrom_iter cmp l) <-> In y l.
  Proof.
    unfold ofrom_iter. rewrite dedup_in. split; apply Permutation_in;
      [apply Permutation_sym|]; apply isort_perm.
  Qed.

  Lemma oextend_sorted s l : SSorted (oextend cmp s l).
  Proof. apply ofrom_iter_sorted. Qed.

  Lemma oextend_in s l y : In y (oextend cmp s l) <-> In y s \/ In y l.
  Proof. unfold oextend. fold (ofrom_iter cmp (s ++ l)). rewrite ofrom_iter_in, in_app_iff; tauto. Qed.

  (* ---------- canonical form ---------- *)

  Lemma ssorted_nodup l : SSorted l -> NoDup l.
  Proof.
    induction 1 as [|z zs Hs IH Hall]; constructor; [|exact IH].
    intros Hin. rewrite Forall_forall in Hall. apply (lt_irrefl z), Hall, Hin.
  Qed.

  Lemma ssorted_ext l1 : forall l2, SSorted l1 -> SSorted l2 ->
    (forall x, In x l1 <-> In x l2) -> l1 = l2.
  Proof.
    induction l1 as [|x xs IH]; intros [|y ys] H1 H2 Hext.
    - reflexivity.
    - exfalso. apply (Hext y). left; reflexivity.
    - exfalso. apply (Hext x). left; reflexivity.
    - inversion H1 as [|? ? Hs1 Hall1]; inversion H2 as [|? ? Hs2 Hall2]; subst.
      rewrite Forall_forall in Hall1, Hall2.
      assert (x = y) as ->.
      { destruct (proj1 (Hext x) (or_introl eq_refl)) as [->|Hx]; [reflexivity|].
        destruct (proj2 (Hext y) (or_introl eq_refl)) as [->|Hy]; [reflexivity|].
        exfalso. apply (lt_irrefl x). eapply lt_trans; [apply Hall1, Hy|apply Hall2, Hx]. }
      f_equal. apply IH; try assumption.
      intros w; split; intros Hw.
      + destruct (proj1 (Hext w) (or_intror Hw)) as [<-|Hw']; [|exact Hw'].
        exfalso. apply (lt_irrefl y), Hall1, Hw.
      + destruct (proj2 (Hext w) (or_intror Hw)) as [<-|Hw']; [|exact Hw'].
        exfalso. apply (lt_irrefl y), Hall2, Hw.
  Qed.

  Lemma ssorted_perm_eq l1 l2 : SSorted l1 -> SSorted l2 -> Permutation l1 l2 -> l1 = l2.
  Proof.
    intros H1 H2 HP. apply ssorted_ext; try assumption.
    intros x; split; apply Permutation_in; [|apply Permutation_sym]; exact HP.
  Qed.

  (* from_iter does not depend on the order (or multiplicity) in which it is fed *)
  Lemma ofrom_iter_ext l1 l2 : (forall x, In x l1 <-> In x l2) ->
    ofrom_iter cmp l1 = ofrom_iter cmp l2.
  Proof.
    intros H. apply ssorted_ext; try apply ofrom_iter_sorted.
    intros x. rewrite !ofrom_iter_in. apply H.
  Qed.

  Lemma ofrom_iter_perm l1 l2 : Permutation l1 l2 -> ofrom_iter cmp l1 = ofrom_iter cmp l2.
  Proof.
    intros HP. apply ofrom_iter_ext. intros x; split; apply Permutation_in;
      [|apply Permutation_sym]; exact HP.
  Qed.

  (* ---------- operation scripts: every reachable set ---------- *)

  Lemma apply_op_sorted s o : SSorted s -> SSorted (apply_op cmp s o).
  Proof.
    destruct o; cbn; intros H;
      [apply oinsert_sorted, H|apply oextend_sorted|apply ofrom_iter_sorted].
  Qed.

  Lemma apply_op_in s o acc : (forall y, In y s <-> In y acc) ->
    forall y, In y (apply_op cmp s o) <-> In y (given_op acc o).
  Proof.
    intros H y; destruct o; cbn.
    - rewrite oinsert_in, H. intuition.
    - rewrite oextend_in, in_app_iff, H. tauto.
    - apply ofrom_iter_in.
  Qed.

  Lemma run_ops_gen ops : forall s acc, SSorted s -> (forall y, In y s <-> In y acc) ->
    SSorted (fold_left (apply_op cmp) ops s) /\
    (forall y, In y (fold_left (apply_op cmp) ops s) <-> In y (fold_left given_op ops acc)).
  Proof.
    induction ops as [|o ops IH]; intros s acc Hs Hin; cbn; [split; assumption|].
    apply IH; [apply apply_op_sorted, Hs|apply apply_op_in, Hin].
  Qed.

  Theorem run_ops_sorted ops : SSorted (run_ops cmp ops).
  Proof. apply (run_ops_gen ops [] []); [constructor|tauto]. Qed.

  Theorem run_ops_in ops y : In y (run_ops cmp ops) <-> In y (given ops).
  Proof. apply (run_ops_gen ops [] []); [constructor|tauto]. Qed.

  Theorem run_ops_nodup ops : NoDup (run_ops cmp ops).
  Proof. apply ssorted_nodup, run_ops_sorted. Qed.

  Theorem run_ops_contains ops x : ocontains cmp x (run_ops cmp ops) = true <-> In x (given ops).
  Proof. rewrite ocontains_spec by apply run_ops_sorted. apply run_ops_in. Qed.

  (* equality and ordering depend only on the element sets *)
  Theorem run_ops_ext ops1 ops2 :
    (forall x, In x (given ops1) <-> In x (given ops2)) -> run_ops cmp ops1 = run_ops cmp ops2.
  Proof.
    intros H. apply ssorted_ext; try apply run_ops_sorted.
    intros x. rewrite !run_ops_in. apply H.
  Qed.

  Theorem oeq_iff_same_elements ops1 ops2 :
    oeq cmp (run_ops cmp ops1) (run_ops cmp ops2) = true <->
    (forall x, In x (given ops1) <-> In x (given ops2)).
  Proof.
    unfold oeq. split.
    - intros H x. destruct (lcmp cmp _ _) eqn:E; try discriminate.
      apply (lcmp_eq cmp L) in E. rewrite <- !run_ops_in, E. tauto.
    - intros H. rewrite (run_ops_ext _ _ H). rewrite (ol_refl _ (lcmp_laws cmp L)). reflexivity.
  Qed.

  Theorem ocmp_congruence ops1 ops1' ops2 ops2' :
    (forall x, In x (given ops1) <-> In x (given ops1')) ->
    (forall x, In x (given ops2) <-> In x (given ops2')) ->
    ocmp cmp (run_ops cmp ops1) (run_ops cmp ops2) = ocmp cmp (run_ops cmp ops1') (run_ops cmp ops2').
  Proof. intros H1 H2. rewrite (run_ops_ext _ _ H1), (run_ops_ext _ _ H2). reflexivity. Qed.
End OsetProofs.
