(* Emit/ModuleShape.v — C06 on the model of the whole emitted module: after the header, the text is
   the terminal enum (`pub enum <name> { <variants> }` preceded by its attributes), then the type
   definitions of the nonterminals in declaration order (Emit/TypedefSpec.v), then
   `pub fn parse<P>(src: P) -> Result<<start type>, Option<<terminal enum>>> where P: IntoIterator<Item = <terminal enum>> {`.
   The shape of the template is a boolean check run by vm_compute on the template regenerated
   from table_to_rust.rs on every run. *)
From Coq Require Import List Arith Lia Bool String.
From Kiki Require Import Base.Ord Base.Chars Data DataProofs Ast.ValidateProofs Build.Table Emit.Emit Emit.EmitProofs Emit.TypedefSpec.
From Kiki Require Gen.Template.
Import ListNotations.
Local Open Scope string_scope.

Definition ends_with (l suf : str) : bool := str_eqb (skipn (length l - length suf) l) suf.
Definition starts_with (l pre : str) : bool := str_eqb (firstn (length pre) l) pre.

Lemma ends_with_split l suf : ends_with l suf = true -> exists c, l = (c ++ suf)%list.
Proof.
  unfold ends_with. intros H. apply str_eqb_eq in H. exists (firstn (length l - length suf) l).
  rewrite <- H at 2. symmetry. apply firstn_skipn.
Qed.

Lemma starts_with_split l pre : starts_with l pre = true -> exists c, l = (pre ++ c)%list.
Proof.
  unfold starts_with. intros H. apply str_eqb_eq in H. exists (skipn (length pre) l).
  rewrite <- H at 1. symmetry. apply firstn_skipn.
Qed.

Definition is_hole (s : tseg) (k : string) : bool := match s with THole h => String.eqb h k | TLit _ => false end.
Definition is_lit (s : tseg) (k : string) : bool := match s with TLit x => String.eqb x k | THole _ => false end.

(* the first 23 segments of the template *)
Definition template_decls_ok (tpl : list tseg) : bool :=
  match tpl with
  | TLit _ :: g :: TLit _ :: a :: e1 :: n1 :: e2 :: v :: e3 :: d :: TLit sig :: p1 :: l1 :: p2 :: l2 :: st :: l3 :: n2 :: l4 :: p3 :: l5 :: n3 :: TLit body :: _ =>
      is_hole g "grammar_sha256" && is_hole a "terminal_enum_attributes" && is_lit e1 "pub enum " && is_hole n1 "terminal_enum_name"
      && is_lit e2 " {
" && is_hole v "terminal_enum_variants_indent_1" && is_lit e3 "
}

" && is_hole d "nonterminal_type_defs" && ends_with (s2l sig) (s2l "pub fn parse<")
      && is_hole p1 "parse_type_param_name" && is_lit l1 ">(src: " && is_hole p2 "parse_type_param_name" && is_lit l2 ") -> Result<"
      && is_hole st "start_type_name" && is_lit l3 ", Option<" && is_hole n2 "terminal_enum_name" && is_lit l4 ">>
where " && is_hole p3 "parse_type_param_name" && is_lit l5 ": IntoIterator<Item = " && is_hole n3 "terminal_enum_name"
      && starts_with (s2l body) (s2l "> {")
  | _ => false
  end.

Theorem current_template_decls_ok : template_decls_ok Gen.Template.file_template = true.
Proof. vm_compute. reflexivity. Qed.

Lemma fill_lit env s r text : fill env (TLit s :: r) = Ok text -> exists rest, fill env r = Ok rest /\ text = (S_ s ++ rest)%list.
Proof. cbn [fill]. intros H. apply bind_ok in H as (rest & Hr & H). injection H as <-. eauto. Qed.

Lemma fill_hole env h r text : fill env (THole h :: r) = Ok text ->
  exists v rest, env_get env h = Some v /\ fill env r = Ok rest /\ text = (v ++ rest)%list.
Proof.
  cbn [fill]. intros H. apply bind_ok in H as (v & Hv & H). apply bind_ok in H as (rest & Hr & H). injection H as <-.
  destruct (env_get env h); [|discriminate]. injection Hv as ->. eauto.
Qed.

Lemma is_hole_eq s k : is_hole s k = true -> s = THole k.
Proof. destruct s; cbn; [discriminate|]. intros H. apply String.eqb_eq in H. subst. reflexivity. Qed.
Lemma is_lit_eq s k : is_lit s k = true -> s = TLit k.
Proof. destruct s; cbn; [|discriminate]. intros H. apply String.eqb_eq in H. subst. reflexivity. Qed.

Local Open Scope list_scope.

(* the text of any filling of a template of that shape *)
Theorem module_shape tpl env text : template_decls_ok tpl = true -> fill env tpl = Ok text ->
  exists pre attrs tenum tvars typedefs c P start rest,
    env_get env "terminal_enum_attributes" = Some attrs /\ env_get env "terminal_enum_name" = Some tenum /\
    env_get env "terminal_enum_variants_indent_1" = Some tvars /\ env_get env "nonterminal_type_defs" = Some typedefs /\
    env_get env "parse_type_param_name" = Some P /\ env_get env "start_type_name" = Some start /\
    text = pre ++ attrs ++ S_ "pub enum " ++ tenum ++ S_ " {
" ++ tvars ++ S_ "
}

" ++ typedefs ++ c ++ S_ "pub fn parse<" ++ P ++ S_ ">(src: " ++ P ++ S_ ") -> Result<" ++ start ++ S_ ", Option<" ++ tenum ++ S_ ">>
where " ++ P ++ S_ ": IntoIterator<Item = " ++ tenum ++ S_ "> {" ++ rest.
Proof.
  unfold template_decls_ok.
  destruct tpl as [|[h0|?] [|g [|[h1|?] [|a [|e1 [|n1 [|e2 [|v [|e3 [|d [|[sig|?] [|p1 [|l1 [|p2 [|l2 [|st [|l3 [|n2 [|l4 [|p3 [|l5 [|n3 [|[body|?] tl]]]]]]]]]]]]]]]]]]]]]]];
    try discriminate.
  intros Hok Hf. repeat rewrite andb_true_iff in Hok.
  destruct Hok as ((((((((((((((((((((Hg & Ha) & He1) & Hn1) & He2) & Hv) & He3) & Hd) & Hsig) & Hp1) & Hl1) & Hp2) & Hl2) & Hst) & Hl3) & Hn2) & Hl4) & Hp3) & Hl5) & Hn3) & Hbody).
  apply is_hole_eq in Hg, Ha, Hn1, Hv, Hd, Hp1, Hp2, Hst, Hn2, Hp3, Hn3. apply is_lit_eq in He1, He2, He3, Hl1, Hl2, Hl3, Hl4, Hl5. subst.
  apply ends_with_split in Hsig as (c & Hsig). apply starts_with_split in Hbody as (b & Hbody).
  apply fill_lit in Hf as (r0 & Hf & ->). apply fill_hole in Hf as (vg & r1 & Eg & Hf & ->).
  apply fill_lit in Hf as (r2 & Hf & ->). apply fill_hole in Hf as (va & r3 & Ea & Hf & ->).
  apply fill_lit in Hf as (r4 & Hf & ->). apply fill_hole in Hf as (vn & r5 & En & Hf & ->).
  apply fill_lit in Hf as (r6 & Hf & ->). apply fill_hole in Hf as (vv & r7 & Ev & Hf & ->).
  apply fill_lit in Hf as (r8 & Hf & ->). apply fill_hole in Hf as (vd & r9 & Ed & Hf & ->).
  apply fill_lit in Hf as (r10 & Hf & ->). apply fill_hole in Hf as (vp & r11 & Ep & Hf & ->).
  apply fill_lit in Hf as (r12 & Hf & ->). apply fill_hole in Hf as (vp' & r13 & Ep' & Hf & ->).
  apply fill_lit in Hf as (r14 & Hf & ->). apply fill_hole in Hf as (vs & r15 & Es & Hf & ->).
  apply fill_lit in Hf as (r16 & Hf & ->). apply fill_hole in Hf as (vn' & r17 & En' & Hf & ->).
  apply fill_lit in Hf as (r18 & Hf & ->). apply fill_hole in Hf as (vp'' & r19 & Ep'' & Hf & ->).
  apply fill_lit in Hf as (r20 & Hf & ->). apply fill_hole in Hf as (vn'' & r21 & En'' & Hf & ->).
  apply fill_lit in Hf as (r22 & Hf & ->).
  rewrite Ep in Ep', Ep''. injection Ep' as <-. injection Ep'' as <-. rewrite En in En', En''. injection En' as <-. injection En'' as <-.
  unfold S_ in *. rewrite Hsig, Hbody.
  exists (s2l h0 ++ vg ++ s2l h1), va, vn, vv, vd, c, vp, vs, (b ++ r22).
  repeat split; try assumption. repeat rewrite <- app_assoc. reflexivity.
Qed.

(* ---------- for the module `generate` emits ---------- *)
Theorem emitted_module_declares fuel consts t f digest text :
  table_to_rust fuel Gen.Template.file_template consts t f digest = Ok text ->
  exists nm defs pre c rest,
    make_names fuel f = Ok nm /\
    Forall2 (fun n d => typedef_spec f n = Some d) (vf_nts f) defs /\
    let P := n_parse_type_param nm in let tenum := vt_name (vf_tenum f) in
    text = pre ++ attributes_src (vt_attrs (vf_tenum f)) ++ S_ "pub enum " ++ tenum ++ S_ " {
" ++ indent 1 (terminal_enum_variants_src f) ++ S_ "
}

" ++ join (nl ++ nl) defs ++ c ++ S_ "pub fn parse<" ++ P ++ S_ ">(src: " ++ P ++ S_ ") -> Result<" ++ vf_start f ++ S_ ", Option<" ++ tenum ++ S_ ">>
where " ++ P ++ S_ ": IntoIterator<Item = " ++ tenum ++ S_ "> {" ++ rest.
Proof.
  unfold table_to_rust. intros H. apply bind_ok in H as (nm & Hnm & H). apply bind_ok in H as (env & Henv & H).
  destruct (module_shape _ _ _ current_template_decls_ok H) as (pre & attrs & tenum & tvars & typedefs & c & P & start & rest & Ea & En & Ev & Ed & Ep & Es & ->).
  unfold hole_env in Henv. apply bind_ok in Henv as (count & _ & Henv). apply bind_ok in Henv as (tds & Htds & Henv).
  apply bind_ok in Henv as (rf & _ & Henv). apply bind_ok in Henv as (ar & _ & Henv). apply bind_ok in Henv as (gr & _ & Henv).
  apply bind_ok in Henv as (tf & _ & Henv). injection Henv as <-.
  cbn in Ea, En, Ev, Ed, Ep, Es. injection Ea as <-. injection En as <-. injection Ev as <-. injection Ed as <-. injection Ep as <-. injection Es as <-.
  destruct (typedefs_src_spec f tds Htds) as (defs & -> & Hdefs).
  exists nm, defs, pre, c, rest. split; [exact Hnm|]. split; [exact Hdefs|]. reflexivity.
Qed.
