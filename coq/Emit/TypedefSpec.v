(* Emit/TypedefSpec.v — C06 on the emitter model: the text of a type definition, stated in the
   property's own terms.  The fields printed are exactly the used (non-`_`) fields, in declaration
   order; a nonterminal-typed field has type `Box<N>`, a terminal-typed field the payload type
   declared for that terminal; struct fields are `pub`; an enum prints its variants in
   declaration order; the definitions follow one another in declaration order. *)
From Coq Require Import List Arith Lia Bool.
From Kiki Require Import Base.Ord Base.Chars Data DataProofs Emit.Emit Emit.EmitProofs.
Import ListNotations.

Section Spec.
  Variable f : vfile.
  Notation tvariants := (vt_variants (vf_tenum f)).

  (* the type the property prescribes for a field *)
  Definition field_type_spec (s : ident_or_tident) : option str :=
    match s with
    | IOTIdent i => Some (S_ "Box<" ++ id_name i ++ S_ ">")
    | IOTTerminal t => option_map tvr_type (find (fun v => str_eqb (ti_name t) (tvr_name v)) tvariants)
    end.

  Lemma get_type_find vs k : get_type vs k = option_map tvr_type (find (fun v => str_eqb k (tvr_name v)) vs).
  Proof. induction vs as [|v vs IH]; [reflexivity|]. cbn [get_type find]. destruct (str_eqb k (tvr_name v)); [reflexivity|exact IH]. Qed.

  Lemma field_type_src_spec s ty : field_type_src f s = Ok ty <-> field_type_spec s = Some ty.
  Proof.
    destruct s as [i|t]; cbn [field_type_src field_type_spec].
    - split; intros H; injection H as <-; reflexivity.
    - rewrite get_type_find. destruct (option_map _ _); cbn; split; intros H; try discriminate; injection H as <-; reflexivity.
  Qed.

  Definition named_is_used (x : named_field) : bool := match nf_name x with IOUIdent _ => true | IOUUnderscore _ => false end.
  Definition tuple_is_used (x : tuple_field) : bool := match x with TFUsed _ => true | TFSkipped _ => false end.
  Definition named_field_name (x : named_field) : str := match nf_name x with IOUIdent i => id_name i | IOUUnderscore _ => [] end.
  Definition tuple_field_sym (x : tuple_field) : ident_or_tident := match x with TFUsed s | TFSkipped s => s end.

  (* one printed line per used field *)
  Definition named_line (pub_ : bool) (x : named_field) (ty : str) : str :=
    (if pub_ then S_ "pub " else (@nil char)) ++ named_field_name x ++ S_ ": " ++ ty ++ S_ ",".
  Definition tuple_line (pub_ : bool) (ty : str) : str := (if pub_ then S_ "pub " else (@nil char)) ++ ty ++ S_ ",".

  (* the lines of the used fields, in order; None if some used field's terminal is not declared *)
  Fixpoint named_lines (pub_ : bool) (l : list named_field) : option (list str) :=
    match l with
    | [] => Some []
    | x :: r =>
        if named_is_used x
        then match field_type_spec (nf_symbol x), named_lines pub_ r with
             | Some ty, Some ls => Some (named_line pub_ x ty :: ls)
             | _, _ => None
             end
        else named_lines pub_ r
    end.
  Fixpoint tuple_lines (pub_ : bool) (l : list tuple_field) : option (list str) :=
    match l with
    | [] => Some []
    | x :: r =>
        if tuple_is_used x
        then match field_type_spec (tuple_field_sym x), tuple_lines pub_ r with
             | Some ty, Some ls => Some (tuple_line pub_ ty :: ls)
             | _, _ => None
             end
        else tuple_lines pub_ r
    end.

  (* the lines are those of `filter used`, one each, in order *)
  Lemma named_lines_filter pub_ l ls : named_lines pub_ l = Some ls ->
    length ls = length (filter named_is_used l) /\
    Forall2 (fun x line => exists ty, field_type_spec (nf_symbol x) = Some ty /\ line = named_line pub_ x ty) (filter named_is_used l) ls.
  Proof.
    revert ls. induction l as [|x r IH]; intros ls H; cbn [named_lines filter] in *.
    - injection H as <-. split; [reflexivity|constructor].
    - destruct (named_is_used x).
      + destruct (field_type_spec (nf_symbol x)) as [ty|] eqn:Ety; [|discriminate]. destruct (named_lines pub_ r) as [ls'|]; [|discriminate].
        injection H as <-. destruct (IH ls' eq_refl) as (Hl & Hf). split; [cbn [length]; lia|]. constructor; [exists ty; split; [exact Ety|reflexivity]|exact Hf].
      + apply IH, H.
  Qed.

  Lemma tuple_lines_filter pub_ l ls : tuple_lines pub_ l = Some ls ->
    length ls = length (filter tuple_is_used l) /\
    Forall2 (fun x line => exists ty, field_type_spec (tuple_field_sym x) = Some ty /\ line = tuple_line pub_ ty) (filter tuple_is_used l) ls.
  Proof.
    revert ls. induction l as [|x r IH]; intros ls H; cbn [tuple_lines filter] in *.
    - injection H as <-. split; [reflexivity|constructor].
    - destruct (tuple_is_used x).
      + destruct (field_type_spec (tuple_field_sym x)) as [ty|] eqn:Ety; [|discriminate]. destruct (tuple_lines pub_ r) as [ls'|]; [|discriminate].
        injection H as <-. destruct (IH ls' eq_refl) as (Hl & Hf). split; [cbn [length]; lia|]. constructor; [exists ty; split; [exact Ety|reflexivity]|exact Hf].
      + apply IH, H.
  Qed.

  (* map_res over the fields = the lines *)
  Lemma named_map_res (pub_ : bool) l fields :
    map_res (fun x => match nf_name x with
                      | IOUUnderscore _ => Ok (@nil str)
                      | IOUIdent i => do ty <- field_type_src f (nf_symbol x);
                                      Ok [(if pub_ then S_ "pub " else (@nil char)) ++ id_name i ++ S_ ": " ++ ty ++ S_ ","]
                      end) l = Ok fields ->
    named_lines pub_ l = Some (concat fields).
  Proof.
    revert fields. induction l as [|x r IH]; intros fields H; cbn [map_res] in H.
    - injection H as <-. reflexivity.
    - cbn [named_lines]. unfold named_is_used, named_line, named_field_name. destruct (nf_name x) as [i|p]; cbn [bind] in H.
      + destruct (field_type_src f (nf_symbol x)) as [ty| | |] eqn:Et; cbn [bind] in H; try discriminate.
        apply field_type_src_spec in Et. rewrite Et.
        destruct (map_res _ r) as [fr| | |] eqn:Er; cbn [bind] in H; try discriminate. injection H as <-.
        rewrite (IH fr eq_refl). reflexivity.
      + destruct (map_res _ r) as [fr| | |] eqn:Er; cbn [bind] in H; try discriminate. injection H as <-.
        rewrite (IH fr eq_refl). reflexivity.
  Qed.

  Lemma tuple_map_res (pub_ : bool) l fields :
    map_res (fun x => match x with
                      | TFSkipped _ => Ok (@nil str)
                      | TFUsed s => do ty <- field_type_src f s; Ok [(if pub_ then S_ "pub " else (@nil char)) ++ ty ++ S_ ","]
                      end) l = Ok fields ->
    tuple_lines pub_ l = Some (concat fields).
  Proof.
    revert fields. induction l as [|x r IH]; intros fields H; cbn [map_res] in H.
    - injection H as <-. reflexivity.
    - cbn [tuple_lines]. unfold tuple_is_used, tuple_line, tuple_field_sym. destruct x as [s|s]; cbn [bind] in H.
      + destruct (field_type_src f s) as [ty| | |] eqn:Et; cbn [bind] in H; try discriminate.
        apply field_type_src_spec in Et. rewrite Et.
        destruct (map_res _ r) as [fr| | |] eqn:Er; cbn [bind] in H; try discriminate. injection H as <-.
        rewrite (IH fr eq_refl). reflexivity.
      + destruct (map_res _ r) as [fr| | |] eqn:Er; cbn [bind] in H; try discriminate. injection H as <-.
        rewrite (IH fr eq_refl). reflexivity.
  Qed.

  (* ---------- fieldsets ---------- *)
  Definition fieldset_spec (fs : fieldset) (semi pub_ : bool) : option str :=
    match fs with
    | FEmpty => Some (empty_fieldset_src semi)
    | FNamed l =>
        if existsb named_is_used l
        then option_map (fun ls => S_ " {" ++ nl ++ indent 1 (join nl ls) ++ nl ++ S_ "}") (named_lines pub_ l)
        else Some (empty_fieldset_src semi)
    | FTuple l =>
        if existsb tuple_is_used l
        then option_map (fun ls => S_ "(" ++ nl ++ indent 1 (join nl ls) ++ nl ++ S_ ")" ++ (if semi then S_ ";" else [])) (tuple_lines pub_ l)
        else Some (empty_fieldset_src semi)
    end.

  Theorem fieldset_src_spec fs semi pub_ s : fieldset_src f fs semi pub_ = Ok s -> fieldset_spec fs semi pub_ = Some s.
  Proof.
    destruct fs as [|l|l]; cbn [fieldset_src fieldset_spec].
    - intros H; injection H as <-. reflexivity.
    - unfold named_fieldset_src, named_used. change (fun x : named_field => match nf_name x with IOUIdent _ => true | IOUUnderscore _ => false end) with named_is_used.
      destruct (existsb named_is_used l); cbn [negb]; [|intros H; injection H as <-; reflexivity].
      destruct (map_res _ l) as [fields| | |] eqn:E; cbn [bind]; try discriminate. intros H; injection H as <-.
      rewrite (named_map_res pub_ l fields E). reflexivity.
    - unfold tuple_fieldset_src, tuple_used. change (fun x : tuple_field => match x with TFUsed _ => true | TFSkipped _ => false end) with tuple_is_used.
      destruct (existsb tuple_is_used l); cbn [negb]; [|intros H; injection H as <-; reflexivity].
      destruct (map_res _ l) as [fields| | |] eqn:E; cbn [bind]; try discriminate. intros H; injection H as <-.
      rewrite (tuple_map_res pub_ l fields E). reflexivity.
  Qed.

  (* ---------- whole definitions ---------- *)
  Fixpoint variants_spec (vs : list enum_variant) : option (list str) :=
    match vs with
    | [] => Some []
    | v :: r => match fieldset_spec (ev_fieldset v) false false, variants_spec r with
                | Some fs, Some ls => Some ((id_name (ev_name v) ++ fs ++ S_ ",") :: ls)
                | _, _ => None
                end
    end.

  Lemma variants_length vs ls : variants_spec vs = Some ls -> length ls = length vs.
  Proof.
    revert ls. induction vs as [|v r IH]; intros ls H; cbn [variants_spec] in H; [injection H as <-; reflexivity|].
    destruct (fieldset_spec _ false false); [|discriminate]. destruct (variants_spec r) as [ls'|]; [|discriminate].
    injection H as <-. cbn. rewrite (IH ls' eq_refl). reflexivity.
  Qed.

  Definition typedef_spec (n : nonterminal) : option str :=
    match n with
    | NStruct s => option_map (fun fs => attributes_src (sd_attrs s) ++ S_ "pub struct " ++ id_name (sd_name s) ++ fs)
                              (fieldset_spec (sd_fieldset s) true true)
    | NEnum e => option_map (fun vs => attributes_src (ed_attrs e) ++ S_ "pub enum " ++ id_name (ed_name e) ++ S_ " {" ++ nl
                                       ++ indent 1 (join nl vs) ++ nl ++ S_ "}")
                            (variants_spec (ed_variants e))
    end.

  Theorem typedef_src_spec n s : nonterminal_type_def_src f n = Ok s -> typedef_spec n = Some s.
  Proof.
    destruct n as [d|e]; cbn [nonterminal_type_def_src typedef_spec].
    - destruct (fieldset_src f (sd_fieldset d) true true) as [fs| | |] eqn:E; cbn [bind]; try discriminate.
      intros H; injection H as <-. rewrite (fieldset_src_spec _ _ _ _ E). reflexivity.
    - destruct (map_res _ (ed_variants e)) as [vs| | |] eqn:E; cbn [bind]; try discriminate. intros H; injection H as <-.
      assert (Hv : variants_spec (ed_variants e) = Some vs).
      { clear -E. revert vs E. induction (ed_variants e) as [|v r IH]; intros vs E; cbn [map_res] in E; [injection E as <-; reflexivity|].
        cbn [variants_spec]. destruct (fieldset_src f (ev_fieldset v) false false) as [fs| | |] eqn:Ef; cbn [bind] in E; try discriminate.
        rewrite (fieldset_src_spec _ _ _ _ Ef).
        destruct (map_res _ r) as [vr| | |] eqn:Er; cbn [bind] in E; try discriminate. injection E as <-. rewrite (IH vr eq_refl). reflexivity. }
      rewrite Hv. reflexivity.
  Qed.

  (* all definitions, in declaration order, separated by an empty line *)
  Theorem typedefs_src_spec s : nonterminal_type_defs_src f = Ok s ->
    exists defs, s = join (nl ++ nl) defs /\ Forall2 (fun n d => typedef_spec n = Some d) (vf_nts f) defs.
  Proof.
    unfold nonterminal_type_defs_src. destruct (map_res _ (vf_nts f)) as [l| | |] eqn:E; cbn [bind]; try discriminate.
    intros H; injection H as <-. exists l. split; [reflexivity|].
    revert l E. induction (vf_nts f) as [|n r IH]; intros l E; cbn [map_res] in E; [injection E as <-; constructor|].
    destruct (nonterminal_type_def_src f n) as [d| | |] eqn:Ed; cbn [bind] in E; try discriminate.
    destruct (map_res _ r) as [lr| | |] eqn:Er; cbn [bind] in E; try discriminate. injection E as <-.
    constructor; [apply typedef_src_spec, Ed|apply IH; reflexivity].
  Qed.
End Spec.
