(* Emit/PosMap.v — C16, the position map.  `pm_* f` applies a function f to every byte position
   stored in a value (Emit/Positions.v is the special case f = fun _ => 0).  Erasing after
   mapping is erasing, so everything the later stages were shown to compute from the erased
   file (the automaton, the table, the emitted text) they compute equally from the mapped file. *)
From Coq Require Import List Arith NArith Lia Bool.
From Kiki Require Import Base.Ord Base.Chars Data DataProofs Ast.ValidateProofs Oset.Model
  Build.Machine Build.Table Build.TableProofs Emit.Emit Emit.Positions.
Import ListNotations.
Open Scope nat_scope.

Section PosMap.
  Variable f : N -> N.

  Definition pm_ident (i : ident) : ident := {| id_name := id_name i; id_pos := f (id_pos i) |}.
  Definition pm_tident (t : tident) : tident := {| ti_name := ti_name t; ti_dpos := f (ti_dpos t) |}.
  Definition pm_attr (a : attribute) : attribute := {| at_src := at_src a; at_pos := f (at_pos a) |}.
  Definition pm_iot (s : ident_or_tident) : ident_or_tident :=
    match s with IOTIdent i => IOTIdent (pm_ident i) | IOTTerminal t => IOTTerminal (pm_tident t) end.
  Definition pm_iou (s : ident_or_underscore) : ident_or_underscore :=
    match s with IOUIdent i => IOUIdent (pm_ident i) | IOUUnderscore p => IOUUnderscore (f p) end.
  Definition pm_nf (x : named_field) : named_field :=
    {| nf_name := pm_iou (nf_name x); nf_symbol := pm_iot (nf_symbol x) |}.
  Definition pm_tf (x : tuple_field) : tuple_field :=
    match x with TFUsed s => TFUsed (pm_iot s) | TFSkipped s => TFSkipped (pm_iot s) end.
  Definition pm_fs (fs : fieldset) : fieldset :=
    match fs with FEmpty => FEmpty | FNamed l => FNamed (map pm_nf l) | FTuple l => FTuple (map pm_tf l) end.
  Definition pm_ev (v : enum_variant) : enum_variant :=
    {| ev_name := pm_ident (ev_name v); ev_fieldset := pm_fs (ev_fieldset v) |}.
  Definition pm_sd (s : struct_def) : struct_def :=
    {| sd_attrs := map pm_attr (sd_attrs s); sd_name := pm_ident (sd_name s); sd_fieldset := pm_fs (sd_fieldset s) |}.
  Definition pm_ed (e : enum_def) : enum_def :=
    {| ed_attrs := map pm_attr (ed_attrs e); ed_name := pm_ident (ed_name e); ed_variants := map pm_ev (ed_variants e) |}.
  Definition pm_nt (n : nonterminal) : nonterminal :=
    match n with NStruct s => NStruct (pm_sd s) | NEnum e => NEnum (pm_ed e) end.
  Definition pm_te (t : vtenum) : vtenum :=
    {| vt_attrs := map pm_attr (vt_attrs t); vt_name := vt_name t; vt_variants := vt_variants t |}.
  Definition pm_v (v : vfile) : vfile :=
    {| vf_start := vf_start v; vf_tenum := pm_te (vf_tenum v); vf_nts := map pm_nt (vf_nts v) |}.

  (* the positions an error value carries; a syntax error is treated apart (PosMapProofs.v) *)
  Definition pm_err (e : kiki_err) : kiki_err :=
    match e with
    | ELex p c => ELex (f p) c
    | EParse s content e => EParse (f s) content (f e)
    | ENoStartSymbol => ENoStartSymbol
    | EMultipleStartSymbols l => EMultipleStartSymbols (map f l)
    | ENoTerminalEnum => ENoTerminalEnum
    | EMultipleTerminalEnums l => EMultipleTerminalEnums (map f l)
    | ESymbolNotUppercase p => ESymbolNotUppercase (f p)
    | EFieldNotLowercase p => EFieldNotLowercase (f p)
    | ENameClash n p q => ENameClash n (f p) (f q)
    | EVariantNameClash n p q => EVariantNameClash n (f p) (f q)
    | EVariantSeqClash s p q => EVariantSeqClash s (f p) (f q)
    | EUndefinedNonterminal n p => EUndefinedNonterminal n (f p)
    | EUndefinedTerminal n p => EUndefinedTerminal n (f p)
    | ETableConflict c => ETableConflict {| cf_state := cf_state c; cf_item1 := cf_item1 c; cf_item2 := cf_item2 c;
                                            cf_file := pm_v (cf_file c); cf_machine := cf_machine c |}
    end.

  Definition rpm {A} (g : A -> A) (r : res A) : res A :=
    match r with Ok a => Ok (g a) | Err e => Err (pm_err e) | Panic s => Panic s | OutOfFuel s => OutOfFuel s end.

  (* ---------- erasing after mapping is erasing ---------- *)
  Lemma erase_pm_iot s : erase_iot (pm_iot s) = erase_iot s.
  Proof. destruct s; reflexivity. Qed.
  Lemma erase_pm_iou s : erase_iou (pm_iou s) = erase_iou s.
  Proof. destruct s; reflexivity. Qed.
  Lemma erase_pm_nf x : erase_nf (pm_nf x) = erase_nf x.
  Proof. unfold erase_nf, pm_nf. cbn. rewrite erase_pm_iou, erase_pm_iot. reflexivity. Qed.
  Lemma erase_pm_tf x : erase_tf (pm_tf x) = erase_tf x.
  Proof. destruct x; cbn; rewrite erase_pm_iot; reflexivity. Qed.
  Lemma map_erase_pm {A} (e p : A -> A) l : (forall x, e (p x) = e x) -> map e (map p l) = map e l.
  Proof. intros H. rewrite map_map. apply map_ext, H. Qed.
  Lemma erase_pm_fs fs : erase_fs (pm_fs fs) = erase_fs fs.
  Proof. destruct fs; cbn; [reflexivity| |]; f_equal; apply map_erase_pm; [apply erase_pm_nf|apply erase_pm_tf]. Qed.
  Lemma erase_pm_attr a : erase_attr (pm_attr a) = erase_attr a.
  Proof. reflexivity. Qed.
  Lemma erase_pm_ev x : erase_ev (pm_ev x) = erase_ev x.
  Proof. unfold erase_ev, pm_ev. cbn. rewrite erase_pm_fs. reflexivity. Qed.
  Lemma erase_pm_nt n : erase_nt (pm_nt n) = erase_nt n.
  Proof.
    destruct n as [s|e]; cbn; f_equal.
    - unfold erase_sd, pm_sd. cbn. rewrite erase_pm_fs, (map_erase_pm erase_attr pm_attr _ erase_pm_attr). reflexivity.
    - unfold erase_ed, pm_ed. cbn. rewrite (map_erase_pm erase_attr pm_attr _ erase_pm_attr), (map_erase_pm erase_ev pm_ev _ erase_pm_ev). reflexivity.
  Qed.
  Lemma erase_pm_v v : erase_v (pm_v v) = erase_v v.
  Proof.
    unfold erase_v, pm_v. cbn. f_equal; [|apply map_erase_pm, erase_pm_nt].
    unfold erase_te, pm_te. cbn. rewrite (map_erase_pm erase_attr pm_attr _ erase_pm_attr). reflexivity.
  Qed.

  Lemma field_symbols_pm fs : field_symbols (pm_fs fs) = field_symbols fs.
  Proof. rewrite <- (field_symbols_erase (pm_fs fs)), erase_pm_fs. apply field_symbols_erase. Qed.
  Lemma nt_name_pm n : nt_name (pm_nt n) = nt_name n.
  Proof. destruct n; reflexivity. Qed.

  (* ---------- the later stages on the mapped file ---------- *)
  Theorem validated_ast_to_machine_pm ho fu v : validated_ast_to_machine ho fu (pm_v v) = validated_ast_to_machine ho fu v.
  Proof.
    rewrite <- (validated_ast_to_machine_erase ho fu (pm_v v)), erase_pm_v. apply validated_ast_to_machine_erase.
  Qed.

  Theorem table_to_rust_pm fuel tpl consts t v digest :
    table_to_rust fuel tpl consts t (pm_v v) digest = table_to_rust fuel tpl consts t v digest.
  Proof. rewrite <- (table_to_rust_erase fuel tpl consts t (pm_v v)), erase_pm_v. apply table_to_rust_erase. Qed.

  Theorem machine_to_table_pm ho m v : machine_to_table ho m (pm_v v) = rpm same (machine_to_table ho m v).
  Proof.
    pose proof (machine_to_table_erase ho m (pm_v v)) as H1. rewrite erase_pm_v, machine_to_table_erase in H1.
    destruct (machine_to_table ho m (pm_v v)) as [t1|e1|s1|s1] eqn:E1;
      destruct (machine_to_table ho m v) as [t2|e2|s2|s2] eqn:E2; cbn [rerase rpm same] in *; try discriminate; unfold same in *; try congruence.
    destruct (conflict_is_genuine m (pm_v v) ho e1 E1) as (c1 & -> & Hf1 & _).
    destruct (conflict_is_genuine m v ho e2 E2) as (c2 & -> & Hf2 & _).
    injection H1 as Hs Hi1 Hi2 _ _ _ _ _ Hm. cbn [pm_err].
    destruct c1 as [a1 b1 c1 d1 g1], c2 as [a2 b2 c2 d2 g2]. cbn in *. subst. reflexivity.
  Qed.

  Lemma get_rules_len_pm v : length (get_rules (pm_v v)) = length (get_rules v).
  Proof.
    rewrite <- (map_length erase_rule (get_rules (pm_v v))), <- get_rules_erase, erase_pm_v, get_rules_erase. apply map_length.
  Qed.
End PosMap.
