(* Emit/Emit.v — executable model of kiki/src/pipeline/table_to_rust.rs.
   The big `format!` template of `file_src` is not written here: it is
   regenerated from the source on every run (Gen/Template.v) and instantiated
   by `fill`.  The small templates are written out after the source.
   `used_identifiers` (HashSet) is a list; node_to_terminal_method_names
   (HashMap, lookup only; `collect()` of pairs = last one wins) is an
   association list searched from the end.  No proofs. *)
From Kiki Require Import Base.Ord Base.Chars Data Oset.Model Build.Machine Build.Table.
Open Scope nat_scope. Open Scope string_scope. Open Scope list_scope.

Inductive tseg := TLit (s : string) | THole (name : string).

Definition nl : str := [10%N].
Definition S_ (s : string) : str := s2l s.

(* impl Indent for str *)
Fixpoint indent_go (ind : str) (s : str) (at_line_start : bool) : str :=
  match s with
  | [] => []
  | c :: r =>
      (if at_line_start && negb (N.eqb c 10) then ind else []) ++ c :: indent_go ind r (N.eqb c 10)
  end.
Definition indent (level : nat) (s : str) : str :=
  indent_go (concat (repeat (S_ "    ") level)) s true.

(* pascal_to_snake_case; names are ASCII, so char::is_uppercase is is_ascii_uppercase *)
Definition pascal_to_snake_case (s : str) : str :=
  match s with
  | [] => []
  | c :: r => to_ascii_lowercase c ::
              flat_map (fun c => (if is_ascii_uppercase c then [ch "_"] else []) ++ [to_ascii_lowercase c]) r
  end.

(* create_unique_identifier: returns the name and the extended used-set *)
Fixpoint unique_loop (fuel : nat) (pref : str) (used : list str) (i : nat) : res str :=
  match fuel with
  | O => OutOfFuel "create_unique_identifier"
  | S f => let name := pref ++ dec_nat i in
           if mem_str name used then unique_loop f pref used (S i) else Ok name
  end.

Definition create_unique_identifier (fuel : nat) (pref : str) (used : list str) : res (str * list str) :=
  if mem_str pref used then do n <- unique_loop fuel pref used 2; Ok (n, n :: used)
  else Ok (pref, pref :: used).

(* File::get_defined_identifiers *)
Definition get_defined_identifiers (f : vfile) : list str :=
  map nt_name (vf_nts f) ++ map tvr_name (vt_variants (vf_tenum f)) ++ [vt_name (vf_tenum f)].

Record names := {
  n_eof : str; n_quasiterminal : str; n_quasiterminal_kind : str; n_nonterminal_kind : str;
  n_state : str; n_node : str; n_action : str; n_rule_kind : str; n_reduce : str;
  n_action_table : str; n_goto_table : str; n_parse_type_param : str;
  n_methods : list (str * str)
}.

Definition make_names (fuel : nat) (f : vfile) : res names :=
  let u0 := get_defined_identifiers f in
  do '(eof, u1) <- create_unique_identifier fuel (S_ "Eof") u0;
  do '(q, u2) <- create_unique_identifier fuel (S_ "Quasiterminal") u1;
  do '(qk, u3) <- create_unique_identifier fuel (S_ "QuasiterminalKind") u2;
  do '(nk, u4) <- create_unique_identifier fuel (S_ "NonterminalKind") u3;
  do '(st, u5) <- create_unique_identifier fuel (S_ "State") u4;
  do '(nd, u6) <- create_unique_identifier fuel (S_ "Node") u5;
  do '(ac, u7) <- create_unique_identifier fuel (S_ "Action") u6;
  do '(rk, u8) <- create_unique_identifier fuel (S_ "RuleKind") u7;
  do '(rd, u9) <- create_unique_identifier fuel (S_ "reduce") u8;
  do '(at_, u10) <- create_unique_identifier fuel (S_ "ACTION_TABLE") u9;
  do '(gt, u11) <- create_unique_identifier fuel (S_ "GOTO_TABLE") u10;
  do '(tp, _) <- create_unique_identifier fuel (S_ "S") u11;
  Ok {| n_eof := eof; n_quasiterminal := q; n_quasiterminal_kind := qk; n_nonterminal_kind := nk;
        n_state := st; n_node := nd; n_action := ac; n_rule_kind := rk; n_reduce := rd;
        n_action_table := at_; n_goto_table := gt; n_parse_type_param := tp;
        n_methods := map (fun '(i, v) => (tvr_name v,
                            S_ "try_into_" ++ pascal_to_snake_case (tvr_name v) ++ S_ "_" ++ dec_nat i))
                         (enumerate (vt_variants (vf_tenum f))) |}.

(* HashMap::get on a map collected from pairs: the last pair with that key *)
Fixpoint method_get (l : list (str * str)) (k : str) (found : option str) : option str :=
  match l with
  | [] => found
  | (k', v) :: r => method_get r k (if str_eqb k k' then Some v else found)
  end.

(* TerminalEnum::get_type: first variant with that name *)
Fixpoint get_type (vs : list tvariant) (k : str) : option str :=
  match vs with
  | [] => None
  | v :: r => if str_eqb k (tvr_name v) then Some (tvr_type v) else get_type r k
  end.

Definition attributes_src (attrs : list attribute) : str :=
  flat_map (fun a => at_src a ++ nl) attrs.

Section WithFile.
  Variable f : vfile.
  Variable nm : names.
  Variable t : table.

  Definition tvariants := vt_variants (vf_tenum f).

  Definition terminal_enum_variants_src : str :=
    join nl (map (fun v => tvr_name v ++ S_ "(" ++ tvr_type v ++ S_ "),") tvariants).

  (* ----- type definitions ----- *)

  Definition empty_fieldset_src (semi : bool) : str := if semi then S_ ";" else [].

  Definition named_used (l : list named_field) : bool :=
    existsb (fun x => match nf_name x with IOUIdent _ => true | IOUUnderscore _ => false end) l.
  Definition tuple_used (l : list tuple_field) : bool :=
    existsb (fun x => match x with TFUsed _ => true | TFSkipped _ => false end) l.

  Definition field_type_src (s : ident_or_tident) : res str :=
    match s with
    | IOTIdent i => Ok (S_ "Box<" ++ id_name i ++ S_ ">")
    | IOTTerminal ti => unwrap "get_type(..).unwrap()" (get_type tvariants (ti_name ti))
    end.

  Definition named_fieldset_src (l : list named_field) (semi pub_ : bool) : res str :=
    if negb (named_used l) then Ok (empty_fieldset_src semi)
    else
      do fields <- map_res (fun x => match nf_name x with
                                     | IOUUnderscore _ => Ok []
                                     | IOUIdent i =>
                                         do ty <- field_type_src (nf_symbol x);
                                         Ok [(if pub_ then S_ "pub " else []) ++ id_name i ++ S_ ": " ++ ty ++ S_ ","]
                                     end) l;
      Ok (S_ " {" ++ nl ++ indent 1 (join nl (concat fields)) ++ nl ++ S_ "}").

  (* repaired (F9): the fields of a tuple struct are `pub` like those of a named struct *)
  Definition tuple_fieldset_src (l : list tuple_field) (semi pub_ : bool) : res str :=
    if negb (tuple_used l) then Ok (empty_fieldset_src semi)
    else
      do fields <- map_res (fun x => match x with
                                     | TFSkipped _ => Ok []
                                     | TFUsed s => do ty <- field_type_src s;
                                                   Ok [(if pub_ then S_ "pub " else []) ++ ty ++ S_ ","]
                                     end) l;
      Ok (S_ "(" ++ nl ++ indent 1 (join nl (concat fields)) ++ nl ++ S_ ")" ++ (if semi then S_ ";" else [])).

  Definition fieldset_src (fs : fieldset) (semi pub_ : bool) : res str :=
    match fs with
    | FEmpty => Ok (empty_fieldset_src semi)
    | FNamed l => named_fieldset_src l semi pub_
    | FTuple l => tuple_fieldset_src l semi pub_
    end.

  Definition nonterminal_type_def_src (n : nonterminal) : res str :=
    match n with
    | NStruct s =>
        do fs <- fieldset_src (sd_fieldset s) true true;
        Ok (attributes_src (sd_attrs s) ++ S_ "pub struct " ++ id_name (sd_name s) ++ fs)
    | NEnum e =>
        do vs <- map_res (fun v => do fs <- fieldset_src (ev_fieldset v) false false;
                                   Ok (id_name (ev_name v) ++ fs ++ S_ ",")) (ed_variants e);
        Ok (attributes_src (ed_attrs e) ++ S_ "pub enum " ++ id_name (ed_name e) ++ S_ " {" ++ nl
            ++ indent 1 (join nl vs) ++ nl ++ S_ "}")
    end.

  Definition nonterminal_type_defs_src : res str :=
    do l <- map_res nonterminal_type_def_src (vf_nts f);
    Ok (join (nl ++ nl) l).

  (* ----- helper enums ----- *)

  Definition terminal_kind_enum_variants_src : str :=
    join nl (map (fun '(i, v) => tvr_name v ++ S_ " = " ++ dec_nat i ++ S_ ",") (enumerate tvariants)).

  Definition nonterminal_kind_enum_variants_src : str :=
    join nl (map (fun '(i, n) => nt_name n ++ S_ " = " ++ dec_nat i ++ S_ ",") (enumerate (vf_nts f))).

  Definition state_enum_variants_src (count : nat) (prefix : str) : str :=
    join nl (map (fun i => prefix ++ dec_nat i ++ S_ " = " ++ dec_nat i ++ S_ ",") (List.seq 0 count)).

  Definition node_enum_variants_src : str :=
    join nl (map (fun n => nt_name n ++ S_ "(" ++ nt_name n ++ S_ "),") (vf_nts f)
             ++ map (fun v => tvr_name v ++ S_ "(" ++ tvr_type v ++ S_ "),") tvariants).

  Definition number_of_rule_kinds : nat :=
    list_sum (map (fun n => match n with NStruct _ => 1 | NEnum e => length (ed_variants e) end) (vf_nts f)).

  Definition rule_kind_enum_variants_src (prefix : str) : str :=
    join nl (map (fun i => prefix ++ dec_nat i ++ S_ " = " ++ dec_nat i ++ S_ ",")
                 (List.seq 0 number_of_rule_kinds)).

  Definition reduce_fn_name (i : nat) : str := n_reduce nm ++ S_ "_r" ++ dec_nat i.

  Definition pop_and_reduce_match_arms_src (rprefix : str) : str :=
    join nl (map (fun '(i, _) => n_rule_kind nm ++ S_ "::" ++ rprefix ++ dec_nat i ++ S_ " => "
                                 ++ reduce_fn_name i ++ S_ "(states, nodes),")
                 (enumerate (get_rules f))).

  (* ----- reduce functions ----- *)

  Definition constructor_src (r : rule) : str :=
    match ru_variant r with
    | None => ru_type r
    | Some v => ru_type r ++ S_ "::" ++ v
    end.

  Definition reduction_tail (r : rule) (ctor_args : str) : str :=
    S_ "(" ++ nl ++ S_ "    " ++ n_node nm ++ S_ "::" ++ ru_type r ++ S_ "(" ++ constructor_src r ++ ctor_args ++ S_ ")," ++ nl
    ++ S_ "    " ++ n_nonterminal_kind nm ++ S_ "::" ++ ru_type r ++ S_ "," ++ nl ++ S_ ")".

  Definition child_var_src (var : str) (s : ident_or_tident) : res str :=
    match s with
    | IOTIdent i =>
        Ok (S_ "let " ++ var ++ S_ " = Box::new(" ++ id_name i
            ++ S_ "::try_from(nodes.pop().unwrap()).ok().unwrap());" ++ nl)
    | IOTTerminal ti =>
        do m <- unwrap "node_to_terminal_method_names.get(..).unwrap()" (method_get (n_methods nm) (ti_name ti) None);
        Ok (S_ "let " ++ var ++ S_ " = nodes.pop().unwrap()." ++ m ++ S_ "().ok().unwrap();" ++ nl)
    end.

  Definition pop_only : str := S_ "nodes.pop().unwrap();" ++ nl.

  Definition named_reduction_src (r : rule) (fields : list named_field) : res str :=
    do vars <- map_res (fun '(i, x) => match nf_name x with
                                      | IOUUnderscore _ => Ok pop_only
                                      | IOUIdent n => child_var_src (id_name n ++ S_ "_" ++ dec_nat i) (nf_symbol x)
                                      end) (rev (enumerate fields));
    let parent_fields := join nl (flat_map (fun '(i, x) => match nf_name x with
                                                         | IOUUnderscore _ => []
                                                         | IOUIdent n => [id_name n ++ S_ ": " ++ id_name n ++ S_ "_" ++ dec_nat i ++ S_ ","]
                                                         end) (enumerate fields)) in
    let args := if named_used fields
                then S_ " {" ++ nl ++ indent 2 parent_fields ++ nl ++ S_ "    }" else [] in
    Ok (concat vars ++ nl ++ S_ "states.truncate(states.len() - " ++ dec_nat (length fields) ++ S_ ");" ++ nl ++ nl
        ++ reduction_tail r args).

  Definition tuple_reduction_src (r : rule) (fields : list tuple_field) : res str :=
    do vars <- map_res (fun '(i, x) => match x with
                                      | TFSkipped _ => Ok pop_only
                                      | TFUsed s => child_var_src (S_ "t" ++ dec_nat i) s
                                      end) (rev (enumerate fields));
    let parent_fields := join nl (flat_map (fun '(i, x) => match x with
                                                         | TFSkipped _ => []
                                                         | TFUsed _ => [S_ "t" ++ dec_nat i ++ S_ ","]
                                                         end) (enumerate fields)) in
    let args := if tuple_used fields
                then S_ "(" ++ nl ++ indent 2 parent_fields ++ nl ++ S_ "    )" else [] in
    Ok (concat vars ++ nl ++ S_ "states.truncate(states.len() - " ++ dec_nat (length fields) ++ S_ ");" ++ nl ++ nl
        ++ reduction_tail r args).

  Definition reduce_fn_src (i : nat) (r : rule) : res str :=
    do body <- match ru_fieldset r with
               | FEmpty => Ok (reduction_tail r [])
               | FNamed l => named_reduction_src r l
               | FTuple l => tuple_reduction_src r l
               end;
    let '(sp, np) := match ru_fieldset r with
                     | FEmpty => (S_ "_states", S_ "_nodes")
                     | _ => (S_ "states", S_ "nodes")
                     end in
    Ok (S_ "fn " ++ reduce_fn_name i ++ S_ "(" ++ sp ++ S_ ": &mut Vec<" ++ n_state nm ++ S_ ">, " ++ np
        ++ S_ ": &mut Vec<" ++ n_node nm ++ S_ ">) -> (" ++ n_node nm ++ S_ ", " ++ n_nonterminal_kind nm ++ S_ ") {" ++ nl
        ++ indent 1 body ++ nl ++ S_ "}").

  Definition reduce_fns_src : res str :=
    do l <- map_res (fun '(i, r) => reduce_fn_src i r) (enumerate (get_rules f));
    Ok (join (nl ++ nl) l).

  (* ----- match arms over the terminal enum ----- *)

  Definition quasiterminal_kind_from_terminal_match_arms_src : str :=
    join nl (map (fun v => vt_name (vf_tenum f) ++ S_ "::" ++ tvr_name v ++ S_ "(_) => Self::" ++ tvr_name v ++ S_ ",")
                 tvariants).

  Definition node_from_terminal_match_arms_src : str :=
    join nl (map (fun v => vt_name (vf_tenum f) ++ S_ "::" ++ tvr_name v ++ S_ "(t) => Self::" ++ tvr_name v ++ S_ "(t),")
                 tvariants).

  (* ----- tables ----- *)

  Definition action_variant_src (a : action) (consts : string -> str) : str :=
    match a with
    | AShift s => consts "ACTION_SHIFT_VARIANT_NAME" ++ S_ "(" ++ n_state nm ++ S_ "::"
                  ++ consts "STATE_VARIANT_PREFIX" ++ dec_nat s ++ S_ ")"
    | AReduce r => consts "ACTION_REDUCE_VARIANT_NAME" ++ S_ "(" ++ n_rule_kind nm ++ S_ "::"
                   ++ consts "RULE_KIND_VARIANT_PREFIX" ++ dec_nat r ++ S_ ")"
    | AAccept => consts "ACTION_ACCEPT_VARIANT_NAME"
    | AErr => consts "ACTION_ERR_VARIANT_NAME"
    end.

  Definition action_table_row_src (consts : string -> str) (s : nat) : res str :=
    do cells <- map_res (fun q => do a <- table_action t s q;
                                  Ok (n_action nm ++ S_ "::" ++ action_variant_src a consts ++ S_ ","))
                        (map Some (tb_terminals t) ++ [None]);
    Ok (S_ "[" ++ nl ++ indent 1 (join nl cells) ++ nl ++ S_ "],").

  Definition goto_variant_src (g : goto) (consts : string -> str) : str :=
    match g with
    | GState s => S_ "Some(" ++ n_state nm ++ S_ "::" ++ consts "STATE_VARIANT_PREFIX" ++ dec_nat s ++ S_ ")"
    | GErr => S_ "None"
    end.

  Definition goto_table_row_src (consts : string -> str) (s : nat) : res str :=
    do cells <- map_res (fun n => do g <- table_goto t s n; Ok (goto_variant_src g consts ++ S_ ","))
                        (tb_nonterminals t);
    Ok (S_ "[" ++ nl ++ indent 1 (join nl cells) ++ nl ++ S_ "],").

  (* ----- impls ----- *)

  Definition impl_try_from_src (n : nonterminal) : str :=
    let name := nt_name n in
    let nd := n_node nm in
    S_ "impl TryFrom<" ++ nd ++ S_ "> for " ++ name ++ S_ " {" ++ nl
    ++ S_ "    type Error = " ++ nd ++ S_ ";" ++ nl ++ nl
    ++ S_ "    fn try_from(node: " ++ nd ++ S_ ") -> Result<Self, Self::Error> {" ++ nl
    ++ S_ "        match node {" ++ nl
    ++ S_ "            " ++ nd ++ S_ "::" ++ name ++ S_ "(n) => Ok(n)," ++ nl
    ++ S_ "            _ => Err(node)," ++ nl
    ++ S_ "        }" ++ nl
    ++ S_ "    }" ++ nl
    ++ S_ "}".

  Definition try_into_fn_src (v : tvariant) : res str :=
    do m <- unwrap "node_to_terminal_method_names.get(..).unwrap()" (method_get (n_methods nm) (tvr_name v) None);
    Ok (S_ "fn " ++ m ++ S_ "(self) -> Result<" ++ tvr_type v ++ S_ ", Self> {" ++ nl
        ++ S_ "    match self {" ++ nl
        ++ S_ "        Self::" ++ tvr_name v ++ S_ "(t) => Ok(t)," ++ nl
        ++ S_ "        _ => Err(self)," ++ nl
        ++ S_ "    }" ++ nl
        ++ S_ "}").

  (* ----- the environment of the big template ----- *)

  Definition hole_env (consts : list (string * string)) (digest : str) : res (list (string * str)) :=
    let cst := fun k => match find (fun p => String.eqb (fst p) k) consts with
                        | Some p => S_ (snd p) | None => [] end in
    do count <- state_count t;
    do typedefs <- nonterminal_type_defs_src;
    do reduce_fns <- reduce_fns_src;
    do arows <- map_res (action_table_row_src cst) (List.seq 0 count);
    do grows <- map_res (goto_table_row_src cst) (List.seq 0 count);
    do tryfns <- map_res try_into_fn_src tvariants;
    Ok ([ ("grammar_sha256", digest);
          ("terminal_enum_attributes", attributes_src (vt_attrs (vf_tenum f)));
          ("terminal_enum_name", vt_name (vf_tenum f));
          ("terminal_enum_variants_indent_1", indent 1 terminal_enum_variants_src);
          ("nonterminal_type_defs", typedefs);
          ("start_type_name", vf_start f);
          ("eof_variant_name", n_eof nm);
          ("quasiterminal_enum_name", n_quasiterminal nm);
          ("quasiterminal_kind_enum_name", n_quasiterminal_kind nm);
          ("nonterminal_kind_enum_name", n_nonterminal_kind nm);
          ("state_enum_name", n_state nm);
          ("node_enum_name", n_node nm);
          ("action_enum_name", n_action nm);
          ("rule_kind_enum_name", n_rule_kind nm);
          ("action_table_name", n_action_table nm);
          ("goto_table_name", n_goto_table nm);
          ("parse_type_param_name", n_parse_type_param nm);
          ("start_state_index", dec_nat (tb_start t));
          ("terminal_kind_enum_variants_indent_1", indent 1 terminal_kind_enum_variants_src);
          ("num_of_terminal_variants", dec_nat (length tvariants));
          ("nonterminal_kind_enum_variants_indent_1", indent 1 nonterminal_kind_enum_variants_src);
          ("state_enum_variants_indent_1", indent 1 (state_enum_variants_src count (cst "STATE_VARIANT_PREFIX")));
          ("node_enum_variants_indent_1", indent 1 node_enum_variants_src);
          ("rule_kind_enum_variants_indent_1", indent 1 (rule_kind_enum_variants_src (cst "RULE_KIND_VARIANT_PREFIX")));
          ("pop_and_reduce_match_arms_indent_2", indent 2 (pop_and_reduce_match_arms_src (cst "RULE_KIND_VARIANT_PREFIX")));
          ("reduce_fns", reduce_fns);
          ("quasiterminal_kind_from_terminal_match_arms_indent_3", indent 3 quasiterminal_kind_from_terminal_match_arms_src);
          ("node_from_terminal_match_arms_indent_3", indent 3 node_from_terminal_match_arms_src);
          ("action_table_rows_indent_1", indent 1 (join nl arows));
          ("goto_table_rows_indent_1", indent 1 (join nl grows));
          ("impl_try_from_node_for_each_nonterminal", join (nl ++ nl) (map impl_try_from_src (vf_nts f)));
          ("node_try_into_terminal_variant_name_variant_index_fns_indent_1", indent 1 (join (nl ++ nl) tryfns));
          ("num_of_quasiterminal_kind_variants", dec_nat (S (length tvariants)));
          ("num_of_nonterminal_kind_variants", dec_nat (length (vf_nts f)));
          ("num_of_state_variants", dec_nat count) ]
        ++ map (fun p => (fst p, S_ (snd p))) consts).
End WithFile.

Fixpoint env_get (env : list (string * str)) (k : string) : option str :=
  match env with
  | [] => None
  | (k', v) :: r => if String.eqb k k' then Some v else env_get r k
  end.

Fixpoint fill (env : list (string * str)) (tpl : list tseg) : res str :=
  match tpl with
  | [] => Ok []
  | TLit s :: r => do rest <- fill env r; Ok (S_ s ++ rest)
  | THole h :: r =>
      do v <- unwrap "template hole without a value" (env_get env h);
      do rest <- fill env r; Ok (v ++ rest)
  end.

Definition table_to_rust (fuel : nat) (tpl : list tseg) (consts : list (string * string))
           (t : table) (f : vfile) (digest : str) : res str :=
  do nm <- make_names fuel f;
  do env <- hole_env f nm t consts digest;
  fill env tpl.
