(* Emit/EmitProofs.v — theorems about the text emitter model (C05, C06, C12, C13). *)
From Coq Require Import List Arith Lia Bool.
From Kiki Require Import Base.Ord Base.OrdProofs Base.Chars Data DataProofs Oset.Model Build.Machine Build.Table
  Ast.Validate Ast.ValidateProofs Emit.Emit.
Import ListNotations.

(* ---------- C05: generated helper names are fresh ---------- *)

Lemma unique_loop_fresh fuel pref used : forall i n, unique_loop fuel pref used i = Ok n -> ~ In n used.
Proof.
  induction fuel as [|f IH]; intros i n H; cbn [unique_loop] in H; [discriminate|].
  destruct (mem_str (pref ++ dec_nat i) used) eqn:E.
  - eapply IH; eauto.
  - injection H as <-. intros Hin. apply mem_str_In in Hin. congruence.
Qed.

Lemma create_unique_identifier_fresh fuel pref used n used' :
  create_unique_identifier fuel pref used = Ok (n, used') -> ~ In n used /\ used' = n :: used.
Proof.
  unfold create_unique_identifier. destruct (mem_str pref used) eqn:E.
  - intros H. apply bind_ok in H as (m & Hm & H). injection H as <- <-.
    split; [eapply unique_loop_fresh; eauto|reflexivity].
  - intros H. injection H as <- <-. split; [|reflexivity]. intros Hin. apply mem_str_In in Hin. congruence.
Qed.

Definition helper_names (nm : names) : list str :=
  [n_parse_type_param nm; n_goto_table nm; n_action_table nm; n_reduce nm; n_rule_kind nm; n_action nm;
   n_node nm; n_state nm; n_nonterminal_kind nm; n_quasiterminal_kind nm; n_quasiterminal nm; n_eof nm].

(* the user's identifiers themselves are distinct for validated files (C10), so we state
   freshness as: no helper name is a user identifier, and helper names are pairwise distinct *)
Theorem helper_names_fresh fuel f nm : make_names fuel f = Ok nm ->
  NoDup (helper_names nm) /\ forall n, In n (helper_names nm) -> ~ In n (get_defined_identifiers f).
Proof.
  unfold make_names. intros H.
  repeat match type of H with
         | bind (create_unique_identifier _ _ _) _ = Ok _ =>
             let p := fresh "p" in let Hp := fresh "Hp" in
             apply bind_ok in H as (p & Hp & H); destruct p as [? ?];
             apply create_unique_identifier_fresh in Hp as (? & ->)
         end.
  injection H as <-. unfold helper_names. cbn [n_parse_type_param n_goto_table n_action_table n_reduce n_rule_kind
    n_action n_node n_state n_nonterminal_kind n_quasiterminal_kind n_quasiterminal n_eof].
  split.
  - repeat (constructor; [cbn [In] in *; tauto|]). constructor.
  - intros n Hn. cbn [In] in *. intuition (subst; tauto).
Qed.

(* ---------- C12: attributes go verbatim in front of their own type definition ---------- *)

Lemma attributes_src_concat attrs : attributes_src attrs = concat (map (fun a => at_src a ++ nl) attrs).
Proof. unfold attributes_src. apply flat_map_concat_map. Qed.

Theorem typedef_starts_with_its_attributes f n s : nonterminal_type_def_src f n = Ok s ->
  exists rest,
    s = attributes_src (match n with NStruct d => sd_attrs d | NEnum e => ed_attrs e end)
          ++ (match n with NStruct _ => S_ "pub struct " | NEnum _ => S_ "pub enum " end) ++ nt_name n ++ rest.
Proof.
  destruct n as [d|e]; cbn [nonterminal_type_def_src]; intros H.
  - apply bind_ok in H as (fs & _ & H). injection H as <-. exists fs. reflexivity.
  - apply bind_ok in H as (vs & _ & H). injection H as <-. eexists. reflexivity.
Qed.

(* ---------- C06: only-underscore fieldsets become unit-like ---------- *)

Theorem unused_named_fieldset_is_unit_like f l semi pub_ :
  named_used l = false -> named_fieldset_src f l semi pub_ = Ok (empty_fieldset_src semi).
Proof. unfold named_fieldset_src. intros ->. reflexivity. Qed.

Theorem unused_tuple_fieldset_is_unit_like f l semi pub_ :
  tuple_used l = false -> tuple_fieldset_src f l semi pub_ = Ok (empty_fieldset_src semi).
Proof. unfold tuple_fieldset_src. intros ->. reflexivity. Qed.

(* ---------- C13: the type text stored for a terminal is type_to_string of the declaration ---------- *)

Theorem terminal_types_are_type_to_string d te : validate_terminal_def d = Ok te ->
  map tvr_type (vt_variants te) = map (fun v => type_to_string (tv_type v)) (td_variants d).
Proof.
  unfold validate_terminal_def. intros H. apply bind_ok in H as ([] & _ & H). apply bind_ok in H as (vs & Hvs & H).
  injection H as <-. cbn [vt_variants]. apply map_res_ok in Hvs.
  induction Hvs as [|v y l l' Hy _ IH]; [reflexivity|]. cbn [map]. rewrite IH. f_equal.
  unfold validate_variant_capitalization in Hy. apply bind_ok in Hy as ([] & _ & Hy). injection Hy as <-. reflexivity.
Qed.
