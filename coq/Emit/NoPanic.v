(* Emit/NoPanic.v — table_to_rust never panics for a well-formed validated file and a
   table of the right shape: every `get_type(..).unwrap()`, method-name lookup, table
   read and template hole is defined (C07).  The hole check is re-run by vm_compute on
   the template regenerated from table_to_rust.rs. *)
From Coq Require Import List Arith Lia Bool String.
From Kiki Require Import Base.Ord Base.Chars Data DataProofs Ast.ValidateProofs Ast.WF Ast.VWF
  Build.Machine Build.Table Build.FillProofs Build.ClosureProofs Np Build.NoPanic Emit.Emit.
From Kiki Require Gen.Template.
Import ListNotations.
Open Scope nat_scope.

Lemma get_type_some vs k : In k (map tvr_name vs) -> get_type vs k <> None.
Proof.
  induction vs as [|v vs IH]; [intros []|]. cbn. destruct (str_eqb k (tvr_name v)) eqn:E; [discriminate|].
  intros [H|H]; [subst; rewrite str_eqb_refl in E; discriminate|apply IH, H].
Qed.

Lemma method_get_some l k : forall found, In k (map fst l) \/ found <> None -> method_get l k found <> None.
Proof.
  induction l as [|[k' v] l IH]; intros found H; cbn [method_get].
  - destruct H as [[]|H]; exact H.
  - apply IH. cbn in H. destruct H as [[H|H]|H].
    + subst. right. rewrite str_eqb_refl. discriminate.
    + left. exact H.
    + right. destruct (str_eqb k k'); [discriminate|exact H].
Qed.

Definition iot_declared (f : vfile) (s : ident_or_tident) : Prop :=
  match s with IOTTerminal ti => In (ti_name ti) (v_tnames f) | IOTIdent _ => True end.

Definition fs_declared (f : vfile) (fs : fieldset) : Prop := forall s, In s (fieldset_symbols fs) -> iot_declared f s.

Lemma rule_fs_declared f ru : VWF f -> In ru (get_rules f) -> fs_declared f (ru_fieldset ru).
Proof.
  intros HV Hru s Hs. assert (Hd : sym_declared f (symbol_of s)).
  { apply (vw_refs f HV ru); [exact Hru|]. rewrite field_symbols_fieldset_symbols. apply in_map, Hs. }
  destruct s; cbn in *; [exact I|exact Hd].
Qed.

Lemma nt_fs_declared f n : VWF f -> In n (vf_nts f) ->
  match n with
  | NStruct s => fs_declared f (sd_fieldset s)
  | NEnum e => forall v, In v (ed_variants e) -> fs_declared f (ev_fieldset v)
  end.
Proof.
  intros HV Hn. destruct n as [s|e].
  - apply (rule_fs_declared f {| ru_type := id_name (sd_name s); ru_variant := None; ru_fieldset := sd_fieldset s |} HV).
    unfold get_rules. apply in_flat_map. exists (NStruct s). split; [exact Hn|left; reflexivity].
  - intros v Hv.
    apply (rule_fs_declared f {| ru_type := id_name (ed_name e); ru_variant := Some (id_name (ev_name v)); ru_fieldset := ev_fieldset v |} HV).
    unfold get_rules. apply in_flat_map. exists (NEnum e). split; [exact Hn|]. cbn. apply in_map_iff. exists v. auto.
Qed.

Section Emit.
  Variable f : vfile.
  Variable nm : names.
  Variable t : table.
  Variable ns : nat.
  Hypothesis HV : VWF f.
  Hypothesis Hmethods : map fst (n_methods nm) = v_tnames f.
  Hypothesis Hshape : tshape t ns.
  Hypothesis Hterms : tb_terminals t = v_tnames f.
  Hypothesis Hnts : tb_nonterminals t = v_nnames f.

  Lemma np_field_type_src s : iot_declared f s -> np (field_type_src f s).
  Proof. destruct s as [i|ti]; cbn; [intros _; apply np_ok|]. intros H. apply np_unwrap, get_type_some, H. Qed.

  Lemma np_fieldset_src fs semi pub_ : fs_declared f fs -> np (fieldset_src f fs semi pub_).
  Proof.
    intros Hd. destruct fs as [|l|l]; cbn [fieldset_src]; [apply np_ok| |].
    - unfold named_fieldset_src. destruct (negb (named_used l)); [apply np_ok|]. apply np_bind; [|intros; apply np_ok].
      apply np_map_res. intros x Hx. destruct (nf_name x); [|apply np_ok]. apply np_bind; [|intros; apply np_ok].
      apply np_field_type_src, Hd. cbn. apply in_map, Hx.
    - unfold tuple_fieldset_src. destruct (negb (tuple_used l)); [apply np_ok|]. apply np_bind; [|intros; apply np_ok].
      apply np_map_res. intros x Hx. destruct x as [s|s]; [|apply np_ok]. apply np_bind; [|intros; apply np_ok].
      apply np_field_type_src, Hd. cbn. apply in_map_iff. exists (TFUsed s). auto.
  Qed.

  Lemma np_typedefs : np (nonterminal_type_defs_src f).
  Proof.
    unfold nonterminal_type_defs_src. apply np_bind; [|intros; apply np_ok]. apply np_map_res. intros n Hn.
    pose proof (nt_fs_declared f n HV Hn) as Hd. destruct n as [s|e]; cbn [nonterminal_type_def_src].
    - apply np_bind; [apply np_fieldset_src, Hd|intros; apply np_ok].
    - apply np_bind; [|intros; apply np_ok]. apply np_map_res. intros v Hv.
      apply np_bind; [apply np_fieldset_src, Hd, Hv|intros; apply np_ok].
  Qed.

  Lemma np_child_var_src var s : iot_declared f s -> np (child_var_src nm var s).
  Proof.
    destruct s as [i|ti]; cbn; [intros _; apply np_ok|]. intros H. apply np_bind; [|intros; apply np_ok].
    apply np_unwrap, method_get_some. left. rewrite Hmethods. exact H.
  Qed.

  Lemma In_rev_enumerate {A} (l : list A) i x : In (i, x) (rev (enumerate l)) -> In x l.
  Proof. intros H. apply in_rev in H. apply In_enumerate_iff in H. eapply nth_error_In; eauto. Qed.

  Lemma np_reduce_fns : np (reduce_fns_src f nm).
  Proof.
    unfold reduce_fns_src. apply np_bind; [|intros; apply np_ok]. apply np_map_res. intros [i r] Hir.
    apply In_enumerate_iff in Hir. apply nth_error_In in Hir. pose proof (rule_fs_declared f r HV Hir) as Hd.
    unfold reduce_fn_src. apply np_bind.
    - destruct (ru_fieldset r) as [|l|l]; [apply np_ok| |].
      + unfold named_reduction_src. apply np_bind; [|intros; apply np_ok]. apply np_map_res. intros [j x] Hx.
        apply In_rev_enumerate in Hx. destruct (nf_name x); [|apply np_ok]. apply np_child_var_src, Hd. cbn. apply in_map, Hx.
      + unfold tuple_reduction_src. apply np_bind; [|intros; apply np_ok]. apply np_map_res. intros [j x] Hx.
        apply In_rev_enumerate in Hx. destruct x as [s|s]; [|apply np_ok]. apply np_child_var_src, Hd. cbn.
        apply in_map_iff. exists (TFUsed s). auto.
    - intros body _. destruct (ru_fieldset r); apply np_ok.
  Qed.

  Lemma np_table_action s q : s < ns -> (q = None \/ exists u, q = Some u /\ In u (tb_terminals t)) -> np (table_action t s q).
  Proof.
    intros Hs Hq. unfold table_action. rewrite (action_index_spec t ns s q Hshape).
    assert (Hc : exists i, acell (tb_terminals t) s q = Some i).
    { unfold acell. destruct Hq as [->|(u & -> & Hu)]; cbn; [eauto|]. apply position_str_In in Hu as (c & ->). cbn. eauto. }
    destruct Hc as (i & Hi). rewrite Hi. replace (Nat.leb ns s) with false by (symmetry; apply Nat.leb_gt; exact Hs). cbn [bind].
    apply np_unwrap. apply nth_error_Some. destruct Hshape as (Hl & _). rewrite Hl.
    unfold acell in Hi. destruct (qcol (tb_terminals t) q) as [c|] eqn:Ec; [|discriminate]. cbn in Hi. injection Hi as <-.
    pose proof (qcol_lt _ _ _ Ec). nia.
  Qed.

  Lemma np_table_goto s n : s < ns -> In n (tb_nonterminals t) -> np (table_goto t s n).
  Proof.
    intros Hs Hn. unfold table_goto. rewrite (goto_index_spec t ns s n Hshape). unfold gcell.
    apply position_str_In in Hn as (c & Hc). rewrite Hc. cbn [option_map].
    replace (Nat.leb ns s) with false by (symmetry; apply Nat.leb_gt; exact Hs). cbn [bind].
    apply np_unwrap. apply nth_error_Some. destruct Hshape as (_ & Hl). rewrite Hl. apply position_str_lt in Hc. nia.
  Qed.

  Lemma np_hole_env consts digest : np (hole_env f nm t consts digest).
  Proof.
    unfold hole_env. rewrite (state_count_shape t ns Hshape). cbn [bind].
    apply np_bind; [apply np_typedefs|intros typedefs _]. apply np_bind; [apply np_reduce_fns|intros rf _].
    apply np_bind.
    { apply np_map_res. intros s Hs. apply in_seq in Hs. unfold action_table_row_src. apply np_bind; [|intros; apply np_ok].
      apply np_map_res. intros q Hq. apply np_bind; [|intros; apply np_ok]. apply np_table_action; [lia|].
      apply in_app_or in Hq as [Hq|[<-|[]]]; [|left; reflexivity]. apply in_map_iff in Hq as (u & <- & Hu). right. eauto. }
    intros arows _. apply np_bind.
    { apply np_map_res. intros s Hs. apply in_seq in Hs. unfold goto_table_row_src. apply np_bind; [|intros; apply np_ok].
      apply np_map_res. intros n Hn. apply np_bind; [|intros; apply np_ok]. apply np_table_goto; [lia|exact Hn]. }
    intros grows _. apply np_bind; [|intros; apply np_ok].
    apply np_map_res. intros v Hv. unfold try_into_fn_src. apply np_bind; [|intros; apply np_ok].
    apply np_unwrap, method_get_some. left. rewrite Hmethods. apply in_map, Hv.
  Qed.
End Emit.

(* ---------- the template ---------- *)

Definition fixed_keys : list string :=
  [ "grammar_sha256"; "terminal_enum_attributes"; "terminal_enum_name"; "terminal_enum_variants_indent_1";
    "nonterminal_type_defs"; "start_type_name"; "eof_variant_name"; "quasiterminal_enum_name";
    "quasiterminal_kind_enum_name"; "nonterminal_kind_enum_name"; "state_enum_name"; "node_enum_name";
    "action_enum_name"; "rule_kind_enum_name"; "action_table_name"; "goto_table_name"; "parse_type_param_name";
    "start_state_index"; "terminal_kind_enum_variants_indent_1"; "num_of_terminal_variants";
    "nonterminal_kind_enum_variants_indent_1"; "state_enum_variants_indent_1"; "node_enum_variants_indent_1";
    "rule_kind_enum_variants_indent_1"; "pop_and_reduce_match_arms_indent_2"; "reduce_fns";
    "quasiterminal_kind_from_terminal_match_arms_indent_3"; "node_from_terminal_match_arms_indent_3";
    "action_table_rows_indent_1"; "goto_table_rows_indent_1"; "impl_try_from_node_for_each_nonterminal";
    "node_try_into_terminal_variant_name_variant_index_fns_indent_1"; "num_of_quasiterminal_kind_variants";
    "num_of_nonterminal_kind_variants"; "num_of_state_variants" ]%string.

Definition mem_string (k : string) (l : list string) : bool := existsb (String.eqb k) l.

Definition holes (tpl : list tseg) : list string := flat_map (fun s => match s with THole h => [h] | TLit _ => [] end) tpl.

Definition template_holes_ok (tpl : list tseg) (consts : list (string * string)) : bool :=
  forallb (fun h => mem_string h fixed_keys || mem_string h (map fst consts)) (holes tpl).

Lemma env_get_app env1 env2 k : env_get (env1 ++ env2) k = match env_get env1 k with Some v => Some v | None => env_get env2 k end.
Proof. induction env1 as [|[k' v] env1 IH]; cbn; [reflexivity|]. destruct (String.eqb k k'); [reflexivity|exact IH]. Qed.

Lemma env_get_consts (consts : list (string * string)) k : mem_string k (map fst consts) = true ->
  env_get (map (fun p => (fst p, s2l (snd p))) consts) k <> None.
Proof.
  induction consts as [|[k' v] consts IH]; cbn; [discriminate|]. destruct (String.eqb k k'); [discriminate|]. cbn. exact IH.
Qed.

Lemma hole_env_keys f nm t consts digest env : hole_env f nm t consts digest = Ok env ->
  forall h, mem_string h fixed_keys = true \/ mem_string h (map fst consts) = true -> env_get env h <> None.
Proof.
  intros H h Hh. unfold hole_env in H.
  apply bind_ok in H as (count & _ & H). apply bind_ok in H as (typedefs & _ & H). apply bind_ok in H as (rf & _ & H).
  apply bind_ok in H as (arows & _ & H). apply bind_ok in H as (grows & _ & H). apply bind_ok in H as (tryfns & _ & H).
  injection H as <-. cbn [app env_get].
  destruct Hh as [Hh|Hh].
  - unfold mem_string, fixed_keys in Hh. cbn [existsb] in Hh.
    repeat (match goal with |- context [if String.eqb h ?k then _ else _] => destruct (String.eqb h k); [discriminate|] end).
    cbn in Hh. discriminate.
  - repeat (match goal with |- context [if String.eqb h ?k then _ else _] => destruct (String.eqb h k); [discriminate|] end).
    apply env_get_consts, Hh.
Qed.

Lemma np_fill env tpl : (forall h, In h (holes tpl) -> env_get env h <> None) -> np (fill env tpl).
Proof.
  induction tpl as [|[s|h] tpl IH]; intros H; cbn [fill]; [apply np_ok| |].
  - apply np_bind; [apply IH; intros h Hh; apply H; exact Hh|intros; apply np_ok].
  - apply np_bind; [apply np_unwrap, H; left; reflexivity|]. intros v _.
    apply np_bind; [apply IH; intros h' Hh; apply H; right; exact Hh|intros; apply np_ok].
Qed.

(* the template regenerated from table_to_rust.rs on this run has no unbound hole *)
Theorem regenerated_template_holes_ok : template_holes_ok Gen.Template.file_template Gen.Template.template_consts = true.
Proof. vm_compute. reflexivity. Qed.

Lemma make_names_methods fuel f nm : make_names fuel f = Ok nm -> map fst (n_methods nm) = v_tnames f.
Proof.
  unfold make_names. intros H.
  repeat (apply bind_ok in H as ([? ?] & _ & H)). injection H as <-. cbn [n_methods].
  unfold v_tnames, enumerate. generalize 0. induction (vt_variants (vf_tenum f)) as [|v vs IH]; intros k; cbn; [reflexivity|].
  rewrite IH. reflexivity.
Qed.

Lemma np_create_unique fuel p used : np (create_unique_identifier fuel p used).
Proof.
  unfold create_unique_identifier. destruct (mem_str p used); [|apply np_ok]. apply np_bind; [|intros; apply np_ok].
  generalize 2. induction fuel as [|fu IH]; intros i; cbn [unique_loop]; [apply np_oof|].
  destruct (mem_str (p ++ dec_nat i) used); [apply IH|apply np_ok].
Qed.

Lemma np_make_names fuel f : np (make_names fuel f).
Proof.
  unfold make_names.
  repeat (apply np_bind; [apply np_create_unique|intros [? ?] _]). apply np_ok.
Qed.

Theorem np_table_to_rust fuel tpl consts t f ns digest :
  VWF f -> tshape t ns -> tb_terminals t = v_tnames f -> tb_nonterminals t = v_nnames f ->
  template_holes_ok tpl consts = true ->
  np (table_to_rust fuel tpl consts t f digest).
Proof.
  intros HV Hs Ht Hn Hh. unfold table_to_rust. apply np_bind; [apply np_make_names|]. intros nm Hnm.
  apply np_bind; [apply np_hole_env with (ns := ns); [exact HV|apply (make_names_methods _ _ _ Hnm)|exact Hs]|].
  intros env Henv. apply np_fill. intros h Hin. apply (hole_env_keys _ _ _ _ _ _ Henv).
  unfold template_holes_ok in Hh. rewrite forallb_forall in Hh. apply orb_true_iff, Hh, Hin.
Qed.
