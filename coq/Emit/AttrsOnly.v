(* Emit/AttrsOnly.v — C12 "and nowhere else", on the emitter model: take the attributes away from
   every declaration (`strip_v`) and the emitted text loses exactly the attribute lines in front
   of the terminal enum and in front of each nonterminal's definition; every other byte is the
   same.  So the attributes of the source reach the output at those places only. *)
From Coq Require Import List Arith Lia Bool String.
From Kiki Require Import Base.Ord Base.Chars Data DataProofs Ast.ValidateProofs Build.Table Emit.Emit Emit.EmitProofs Emit.Positions Emit.ModuleShape.
From Kiki Require Gen.Template.
Import ListNotations.
Local Open Scope string_scope.
Local Open Scope list_scope.

Definition nt_attrs (n : nonterminal) : list attribute := match n with NStruct s => sd_attrs s | NEnum e => ed_attrs e end.
Definition strip_nt (n : nonterminal) : nonterminal :=
  match n with
  | NStruct s => NStruct {| sd_attrs := []; sd_name := sd_name s; sd_fieldset := sd_fieldset s |}
  | NEnum e => NEnum {| ed_attrs := []; ed_name := ed_name e; ed_variants := ed_variants e |}
  end.
Definition strip_v (v : vfile) : vfile :=
  {| vf_start := vf_start v;
     vf_tenum := {| vt_attrs := []; vt_name := vt_name (vf_tenum v); vt_variants := vt_variants (vf_tenum v) |};
     vf_nts := map strip_nt (vf_nts v) |}.

Lemma nt_name_strip n : nt_name (strip_nt n) = nt_name n.
Proof. destruct n; reflexivity. Qed.

Lemma rules_of_nt_strip n : rules_of_nt (strip_nt n) = rules_of_nt n.
Proof. destruct n; reflexivity. Qed.

Lemma get_rules_strip v : get_rules (strip_v v) = get_rules v.
Proof.
  unfold get_rules. cbn [strip_v vf_nts]. induction (vf_nts v) as [|n l IH]; [reflexivity|].
  cbn [map flat_map]. rewrite IH, rules_of_nt_strip. reflexivity.
Qed.

Lemma make_names_strip fuel v : make_names fuel (strip_v v) = make_names fuel v.
Proof.
  unfold make_names, get_defined_identifiers. cbn [strip_v vf_nts vf_tenum vt_variants vt_name].
  rewrite map_map. rewrite (map_ext _ nt_name nt_name_strip). reflexivity.
Qed.

(* ---------- the type definitions: attribute lines ++ body ---------- *)
Lemma typedef_strip v n s : nonterminal_type_def_src v n = Ok s ->
  exists b, s = attributes_src (nt_attrs n) ++ b /\ nonterminal_type_def_src (strip_v v) (strip_nt n) = Ok b.
Proof.
  destruct n as [d|e]; cbn [nonterminal_type_def_src strip_nt nt_attrs sd_attrs sd_name sd_fieldset ed_attrs ed_name ed_variants].
  - change (fieldset_src (strip_v v)) with (fieldset_src v).
    destruct (fieldset_src v (sd_fieldset d) true true) as [fs| | |]; cbn [bind]; try discriminate.
    intros H; injection H as <-. eexists. split; reflexivity.
  - change (fieldset_src (strip_v v)) with (fieldset_src v).
    destruct (map_res _ (ed_variants e)) as [vs| | |]; cbn [bind]; try discriminate.
    intros H; injection H as <-. eexists. split; reflexivity.
Qed.

Fixpoint zip_attrs (nts : list nonterminal) (bodies : list str) : list str :=
  match nts, bodies with
  | n :: r, b :: bs => (attributes_src (nt_attrs n) ++ b) :: zip_attrs r bs
  | _, _ => []
  end.

Lemma typedefs_strip v s : nonterminal_type_defs_src v = Ok s ->
  exists bodies, length bodies = length (vf_nts v) /\ s = join (nl ++ nl) (zip_attrs (vf_nts v) bodies) /\
                 nonterminal_type_defs_src (strip_v v) = Ok (join (nl ++ nl) bodies).
Proof.
  unfold nonterminal_type_defs_src. cbn [strip_v vf_nts].
  destruct (map_res (nonterminal_type_def_src v) (vf_nts v)) as [l| | |] eqn:E; cbn [bind]; try discriminate.
  intros H; injection H as <-.
  assert (Hb : exists bodies, length bodies = length (vf_nts v) /\ l = zip_attrs (vf_nts v) bodies /\
                              map_res (nonterminal_type_def_src (strip_v v)) (map strip_nt (vf_nts v)) = Ok bodies).
  { revert l E. induction (vf_nts v) as [|n r IH]; intros l E; cbn [map_res map] in *.
    - injection E as <-. exists []. repeat split; reflexivity.
    - destruct (nonterminal_type_def_src v n) as [d| | |] eqn:Ed; cbn [bind] in E; try discriminate.
      destruct (map_res (nonterminal_type_def_src v) r) as [lr| | |] eqn:Er; cbn [bind] in E; try discriminate. injection E as <-.
      destruct (typedef_strip v n d Ed) as (b & -> & Hb). destruct (IH lr eq_refl) as (bs & Hl & -> & Hbs).
      exists (b :: bs). split; [cbn; lia|]. split; [reflexivity|]. rewrite Hb, Hbs. reflexivity. }
  destruct Hb as (bodies & Hl & -> & Hm). exists bodies. split; [exact Hl|]. split; [reflexivity|]. rewrite Hm. reflexivity.
Qed.

(* ---------- the other holes do not see the attributes ---------- *)
Definition attr_keys (k : string) : bool := String.eqb k "terminal_enum_attributes" || String.eqb k "nonterminal_type_defs".

Definition entry_agrees (p p' : string * str) : Prop := fst p = fst p' /\ (attr_keys (fst p) = false -> snd p = snd p').

Lemma env_get_agree l l' k : Forall2 entry_agrees l l' -> attr_keys k = false -> env_get l' k = env_get l k.
Proof.
  intros H Hk. induction H as [|[a x] [b y] l l' (Hab & Hv) _ IH]; [reflexivity|]. cbn [fst snd] in *. subst b. cbn [env_get].
  destruct (String.eqb k a) eqn:E; [|exact IH]. apply String.eqb_eq in E. subst a. rewrite (Hv Hk). reflexivity.
Qed.

Lemma entry_agrees_refl l : Forall2 entry_agrees l l.
Proof. induction l; constructor; [split; auto|assumption]. Qed.

Section Env.
  Variable v : vfile.
  Variable nm : names.
  Variable t : table.

  Lemma reduce_fns_src_strip : reduce_fns_src (strip_v v) nm = reduce_fns_src v nm.
  Proof. unfold reduce_fns_src. rewrite get_rules_strip. reflexivity. Qed.

  Lemma hole_env_strip consts digest env : hole_env v nm t consts digest = Ok env ->
    exists env', hole_env (strip_v v) nm t consts digest = Ok env' /\
      (forall k, attr_keys k = false -> env_get env' k = env_get env k) /\
      env_get env "terminal_enum_attributes" = Some (attributes_src (vt_attrs (vf_tenum v))) /\
      env_get env' "terminal_enum_attributes" = Some [] /\
      exists bodies, length bodies = length (vf_nts v) /\
        env_get env "nonterminal_type_defs" = Some (join (nl ++ nl) (zip_attrs (vf_nts v) bodies)) /\
        env_get env' "nonterminal_type_defs" = Some (join (nl ++ nl) bodies).
  Proof.
    unfold hole_env. intros H.
    apply bind_ok in H as (count & Hc & H). apply bind_ok in H as (tds & Htds & H). apply bind_ok in H as (rf & Hrf & H).
    apply bind_ok in H as (ar & Har & H). apply bind_ok in H as (gr & Hgr & H). apply bind_ok in H as (tf & Htf & H). injection H as <-.
    destruct (typedefs_strip v tds Htds) as (bodies & Hl & -> & Hs).
    rewrite Hc. cbn [bind]. rewrite Hs. cbn [bind]. rewrite reduce_fns_src_strip, Hrf. cbn [bind].
    unfold action_table_row_src, goto_table_row_src in *. rewrite Har. cbn [bind]. rewrite Hgr. cbn [bind].
    change (tvariants (strip_v v)) with (tvariants v). unfold try_into_fn_src in *. rewrite Htf. cbn [bind].
    eexists. split; [reflexivity|].
    unfold terminal_enum_variants_src, terminal_kind_enum_variants_src, nonterminal_kind_enum_variants_src, node_enum_variants_src,
      rule_kind_enum_variants_src, number_of_rule_kinds, pop_and_reduce_match_arms_src, quasiterminal_kind_from_terminal_match_arms_src,
      node_from_terminal_match_arms_src.
    rewrite get_rules_strip. cbn [strip_v vf_nts vf_tenum vf_start vt_attrs vt_name vt_variants tvariants]. rewrite !map_length.
    assert (E1 : forall k, map (fun '(i, n) => nt_name n ++ S_ " = " ++ dec_nat i ++ S_ ",") (enumerate_from k (map strip_nt (vf_nts v))) =
                           map (fun '(i, n) => nt_name n ++ S_ " = " ++ dec_nat i ++ S_ ",") (enumerate_from k (vf_nts v))).
    { intros k. rewrite enumerate_from_map, map_map. apply map_ext. intros [i n]. rewrite nt_name_strip. reflexivity. }
    unfold enumerate. rewrite E1.
    assert (E2 : map (fun n => nt_name n ++ S_ "(" ++ nt_name n ++ S_ "),") (map strip_nt (vf_nts v)) =
                 map (fun n => nt_name n ++ S_ "(" ++ nt_name n ++ S_ "),") (vf_nts v)).
    { rewrite map_map. apply map_ext. intros n. rewrite nt_name_strip. reflexivity. }
    rewrite E2.
    assert (E5 : map (impl_try_from_src nm) (map strip_nt (vf_nts v)) = map (impl_try_from_src nm) (vf_nts v)).
    { rewrite map_map. apply map_ext. intros n. unfold impl_try_from_src. rewrite nt_name_strip. reflexivity. }
    rewrite E5.
    assert (E3 : list_sum (map (fun n => match n with NStruct _ => 1 | NEnum e => length (ed_variants e) end) (map strip_nt (vf_nts v))) =
                 list_sum (map (fun n => match n with NStruct _ => 1 | NEnum e => length (ed_variants e) end) (vf_nts v))).
    { rewrite map_map. f_equal. apply map_ext. intros [d|e]; reflexivity. }
    rewrite E3.
    split.
    - intros k Hk. apply env_get_agree; [|exact Hk].
      repeat (apply Forall2_cons; [split; [reflexivity|intros Hq; first [reflexivity|discriminate Hq]]|]). apply entry_agrees_refl.
    - split; [reflexivity|]. split; [reflexivity|]. exists bodies. split; [exact Hl|]. split; reflexivity.
  Qed.
End Env.

(* ---------- filling a template ---------- *)
Lemma fill_app env x y : fill env (x ++ y) = do a <- fill env x; do b <- fill env y; Ok (a ++ b).
Proof.
  induction x as [|[s|h] x IH]; cbn [app fill].
  - destruct (fill env y); reflexivity.
  - rewrite IH. destruct (fill env x); cbn [bind]; try reflexivity. destruct (fill env y); cbn [bind]; try reflexivity. rewrite app_assoc. reflexivity.
  - destruct (env_get env h); cbn [unwrap bind]; [|reflexivity].
    rewrite IH. destruct (fill env x); cbn [bind]; try reflexivity. destruct (fill env y); cbn [bind]; try reflexivity. rewrite app_assoc. reflexivity.
Qed.

Definition seg_free (s : tseg) : bool := match s with TLit _ => true | THole h => negb (attr_keys h) end.

Lemma fill_ext env env' tpl : (forall k, attr_keys k = false -> env_get env' k = env_get env k) ->
  forallb seg_free tpl = true -> fill env' tpl = fill env tpl.
Proof.
  intros He. induction tpl as [|[s|h] r IH]; cbn [forallb fill seg_free]; intros H; [reflexivity| |].
  - rewrite IH; [reflexivity|exact H].
  - apply andb_true_iff in H as (Hh & Hr). apply negb_true_iff in Hh. rewrite (He h Hh), (IH Hr). reflexivity.
Qed.

(* the two holes occur once each, at positions 3 and 9 *)
Definition attr_holes_ok (tpl : list tseg) : bool :=
  match skipn 3 tpl with
  | a :: r1 => is_hole a "terminal_enum_attributes" &&
               match skipn 5 r1 with
               | d :: r2 => is_hole d "nonterminal_type_defs" && forallb seg_free (firstn 3 tpl) && forallb seg_free (firstn 5 r1) && forallb seg_free r2
               | [] => false
               end
  | [] => false
  end.

Theorem current_template_attr_holes_ok : attr_holes_ok Gen.Template.file_template = true.
Proof. vm_compute. reflexivity. Qed.

Theorem fill_two_holes tpl env env' text :
  attr_holes_ok tpl = true -> (forall k, attr_keys k = false -> env_get env' k = env_get env k) ->
  fill env tpl = Ok text ->
  exists pre mid post A D,
    env_get env "terminal_enum_attributes" = Some A /\ env_get env "nonterminal_type_defs" = Some D /\
    text = pre ++ A ++ mid ++ D ++ post /\
    forall A' D', env_get env' "terminal_enum_attributes" = Some A' -> env_get env' "nonterminal_type_defs" = Some D' ->
                  fill env' tpl = Ok (pre ++ A' ++ mid ++ D' ++ post).
Proof.
  unfold attr_holes_ok. intros Hok He Hf.
  destruct (skipn 3 tpl) as [|a r1] eqn:E1; [discriminate|]. apply andb_true_iff in Hok as (Ha & Hok).
  destruct (skipn 5 r1) as [|d r2] eqn:E2; [discriminate|].
  repeat rewrite andb_true_iff in Hok. destruct Hok as (((Hd & H1) & H2) & H3).
  apply is_hole_eq in Ha, Hd. subst a d.
  assert (Ht : tpl = firstn 3 tpl ++ [THole "terminal_enum_attributes"] ++ firstn 5 r1 ++ [THole "nonterminal_type_defs"] ++ r2).
  { rewrite <- (firstn_skipn 3 tpl) at 1. rewrite E1. f_equal. cbn [app]. f_equal. rewrite <- (firstn_skipn 5 r1) at 1. rewrite E2. reflexivity. }
  set (s1 := firstn 3 tpl) in *. set (s2 := firstn 5 r1) in *.
  rewrite Ht in Hf. rewrite !fill_app in Hf.
  apply bind_ok in Hf as (t1 & Ht1 & Hf). apply bind_ok in Hf as (x & Hx & Hf). injection Hf as <-.
  apply bind_ok in Hx as (ta & Hta & Hx). apply bind_ok in Hx as (y & Hy & Hx). injection Hx as <-.
  apply bind_ok in Hy as (t2 & Ht2 & Hy). apply bind_ok in Hy as (z & Hz & Hy). injection Hy as <-.
  apply bind_ok in Hz as (td & Htd & Hz). apply bind_ok in Hz as (t3 & Ht3 & Hz). injection Hz as <-.
  cbn [fill] in Hta, Htd.
  destruct (env_get env "terminal_enum_attributes") as [A|] eqn:EA; [|discriminate]. cbn [unwrap bind] in Hta. injection Hta as <-.
  destruct (env_get env "nonterminal_type_defs") as [D|] eqn:ED; [|discriminate]. cbn [unwrap bind] in Htd. injection Htd as <-.
  exists t1, t2, t3, A, D. split; [reflexivity|]. split; [reflexivity|]. split; [rewrite !app_nil_r; reflexivity|].
  intros A' D' EA' ED'. rewrite Ht, !fill_app.
  rewrite (fill_ext env env' s1 He H1), Ht1. cbn [bind]. cbn [fill]. rewrite EA'. cbn [unwrap bind].
  rewrite (fill_ext env env' s2 He H2), Ht2. cbn [bind]. rewrite ED'. cbn [unwrap bind].
  rewrite (fill_ext env env' r2 He H3), Ht3. cbn [bind]. rewrite !app_nil_r. reflexivity.
Qed.

(* ---------- the theorem ---------- *)
Theorem attributes_and_nowhere_else fuel consts t v digest text :
  table_to_rust fuel Gen.Template.file_template consts t v digest = Ok text ->
  exists pre mid post bodies,
    length bodies = length (vf_nts v) /\
    text = pre ++ attributes_src (vt_attrs (vf_tenum v)) ++ mid ++ join (nl ++ nl) (zip_attrs (vf_nts v) bodies) ++ post /\
    table_to_rust fuel Gen.Template.file_template consts t (strip_v v) digest = Ok (pre ++ mid ++ join (nl ++ nl) bodies ++ post).
Proof.
  unfold table_to_rust. rewrite make_names_strip. intros H.
  apply bind_ok in H as (nm & Hnm & H). apply bind_ok in H as (env & Henv & Hfill). rewrite Hnm. cbn [bind].
  destruct (hole_env_strip v nm t consts digest env Henv) as (env' & Henv' & Hsame & EA & EA' & bodies & Hl & ED & ED').
  rewrite Henv'. cbn [bind].
  destruct (fill_two_holes _ env env' text current_template_attr_holes_ok Hsame Hfill) as (pre & mid & post & A & D & HA & HD & -> & Hother).
  rewrite EA in HA. injection HA as <-. rewrite ED in HD. injection HD as <-.
  exists pre, mid, post, bodies. split; [exact Hl|]. split; [reflexivity|].
  rewrite (Hother [] _ EA' ED'). reflexivity.
Qed.
