(* Emit/Parser.v — what the emitted text means: the driver tables, the rule
   shapes and the values built by the emitted reduce functions, read off the
   validated file and the table exactly as table_to_rust.rs prints them
   (state i = `S<i>`, rule i = `R<i>` = reduce function i, terminal i = i-th
   variant of the terminal enum, nonterminal i = i-th declaration).
   Also the `{:?}` rendering of the values (derive(Debug); Box is transparent),
   which is how the compiled parsers' results are compared.  No proofs. *)
From Kiki Require Import Base.Ord Base.Chars Data LR.Driver Build.Machine Build.Table.
Open Scope nat_scope.

Fixpoint chunks {A} (fuel w : nat) (l : list A) : list (list A) :=
  match fuel with
  | O => []
  | S f => match l with
           | [] => []
           | _ => firstn w l :: chunks f w (skipn w l)
           end
  end.

Definition psym_of (f : vfile) (s : symbol) : option psym :=
  match s with
  | SymT t => option_map PT (position_str t (map tvr_name (vt_variants (vf_tenum f))))
  | SymN n => option_map PN (position_str n (map nt_name (vf_nts f)))
  end.

Definition field_used (fs : fieldset) : list bool :=
  match fs with
  | FEmpty => []
  | FNamed l => map (fun x => match nf_name x with IOUIdent _ => true | IOUUnderscore _ => false end) l
  | FTuple l => map (fun x => match x with TFUsed _ => true | TFSkipped _ => false end) l
  end.

Fixpoint all_some {A} (l : list (option A)) : option (list A) :=
  match l with
  | [] => Some []
  | Some a :: r => option_map (cons a) (all_some r)
  | None :: _ => None
  end.

Definition prule_of (f : vfile) (r : rule) : option prule :=
  match position_str (ru_type r) (map nt_name (vf_nts f)),
        all_some (map (psym_of f) (field_symbols (ru_fieldset r))) with
  | Some lhs, Some rhs => Some {| pr_lhs := lhs; pr_rhs := rhs; pr_used := field_used (ru_fieldset r) |}
  | _, _ => None
  end.

Definition paction_of (a : action) : action := a.
Definition pgoto_of (g : goto) : option nat := match g with GState s => Some s | GErr => None end.

Definition ptable_of (f : vfile) (t : table) : option ptable :=
  let nt := length (tb_terminals t) in
  let nn := length (tb_nonterminals t) in
  let ns := Nat.div (length (tb_actions t)) (S nt) in
  match position_str (vf_start f) (map nt_name (vf_nts f)), all_some (map (prule_of f) (get_rules f)) with
  | Some start_nt, Some rules =>
      Some {| pt_start := tb_start t;
              pt_start_nt := start_nt;
              pt_nterm := nt;
              pt_action := chunks ns (S nt) (tb_actions t);
              pt_goto := if Nat.eqb nn 0 then repeat [] ns
                         else chunks ns nn (map pgoto_of (tb_gotos t));
              pt_rules := rules |}
  | _, _ => None
  end.

(* ---------- values and their Debug rendering ---------- *)

(* a token of an emitted parser, as the harness builds it: kind and input position *)
Definition ptok := (nat * N)%type.

Definition payload_debug (f : vfile) (p : ptok) : str :=
  match nth_error (vt_variants (vf_tenum f)) (fst p) with
  | Some v => if str_eqb (tvr_type v) (s2l "()") then s2l "()" else dec_N (snd p)
  | None => s2l "?"
  end.

Definition token_debug (f : vfile) (p : ptok) : str :=
  match nth_error (vt_variants (vf_tenum f)) (fst p) with
  | Some v => tvr_name v ++ s2l "(" ++ payload_debug f p ++ s2l ")"
  | None => s2l "?"
  end.

Definition ctor_debug_name (r : rule) : str :=
  match ru_variant r with Some v => v | None => ru_type r end.

Definition zip_used {A B} (l : list A) (vals : list B) (used : list bool) : list (A * B) :=
  flat_map (fun '(x, (v, u)) => if u : bool then [(x, v)] else []) (combine l (combine vals used)).

Definition node_debug (r : rule) (children : list str) : str :=
  let name := ctor_debug_name r in
  match ru_fieldset r with
  | FEmpty => name
  | FNamed l =>
      let fields := zip_used l children (field_used (ru_fieldset r)) in
      match fields with
      | [] => name
      | _ => name ++ s2l " { " ++ join (s2l ", ")
               (map (fun '(x, v) => match nf_name x with
                                   | IOUIdent i => id_name i ++ s2l ": " ++ v
                                   | IOUUnderscore _ => v
                                   end) fields) ++ s2l " }"
      end
  | FTuple l =>
      let fields := zip_used l children (field_used (ru_fieldset r)) in
      match fields with
      | [] => name
      | _ => name ++ s2l "(" ++ join (s2l ", ") (map snd fields) ++ s2l ")"
      end
  end.

Fixpoint tree_debug (f : vfile) (rules : list rule) (t : tree (P := ptok)) : str :=
  match t with
  | Leaf p => payload_debug f p
  | Node r ch =>
      match nth_error rules r with
      | Some ru => node_debug ru (map (tree_debug f rules) ch)
      | None => s2l "?"
      end
  end.
