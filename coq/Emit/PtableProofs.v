(* Emit/PtableProofs.v — how the driver tables the emitted parser reads (ptable_of)
   relate to the table the generator built: rows are consecutive chunks, rules and
   symbols are translated name by name to positions. *)
From Coq Require Import List Arith Lia Bool.
From Kiki Require Import Base.Ord Base.Chars Data DataProofs Ast.ValidateProofs Ast.VWF LR.Driver
  Build.Machine Build.Table Build.FillProofs Emit.Parser.
Import ListNotations.
Open Scope nat_scope.

(* ---------- all_some ---------- *)

Lemma pall_some_Forall2 {A} (l : list (option A)) l' : Parser.all_some l = Some l' -> Forall2 (fun o a => o = Some a) l l'.
Proof.
  revert l'; induction l as [|[a|] l IH]; intros l' H; cbn in H; [injection H as <-; constructor| |discriminate].
  destruct (Parser.all_some l) as [r|]; [|discriminate]. injection H as <-. constructor; auto.
Qed.

Lemma Forall2_nth_l {A B} (R : A -> B -> Prop) l l' : Forall2 R l l' ->
  forall i a, nth_error l i = Some a -> exists b, nth_error l' i = Some b /\ R a b.
Proof. induction 1 as [|x y l l' Hxy _ IH]; intros [|i] a H; cbn in *; try discriminate; [injection H as <-; eauto|eauto]. Qed.

Lemma Forall2_nth_r {A B} (R : A -> B -> Prop) l l' : Forall2 R l l' ->
  forall i b, nth_error l' i = Some b -> exists a, nth_error l i = Some a /\ R a b.
Proof. induction 1 as [|x y l l' Hxy _ IH]; intros [|i] b H; cbn in *; try discriminate; [injection H as <-; eauto|eauto]. Qed.

Lemma Forall2_length {A B} (R : A -> B -> Prop) l l' : Forall2 R l l' -> length l = length l'.
Proof. induction 1; cbn; auto. Qed.

Lemma Forall2_skipn {A B} (R : A -> B -> Prop) n : forall l l', Forall2 R l l' -> Forall2 R (skipn n l) (skipn n l').
Proof. induction n as [|n IH]; intros l l' H; [exact H|]. destruct H; cbn; [constructor|apply IH; assumption]. Qed.

Lemma Forall2_map_l {A B C} (f : A -> C) (R : C -> B -> Prop) l l' : Forall2 R (map f l) l' <-> Forall2 (fun a b => R (f a) b) l l'.
Proof.
  revert l'; induction l as [|x l IH]; intros l'; cbn; split; intros H; inversion H; subst; constructor; auto; apply IH; auto.
Qed.

(* ---------- chunks ---------- *)

Lemma skipn_add {A} a : forall b (l : list A), skipn a (skipn b l) = skipn (b + a) l.
Proof. induction b as [|b IH]; intros l; [reflexivity|]. destruct l; cbn [skipn plus]; [destruct a; reflexivity|apply IH]. Qed.

Lemma chunks_nth {A} w (Hw : 0 < w) : forall fuel (l : list A) s,
    length l = fuel * w -> s < fuel ->
    nth_error (chunks fuel w l) s = Some (firstn w (skipn (s * w) l)).
Proof.
  induction fuel as [|f IH]; intros l s Hl Hs; [lia|]. cbn [chunks].
  destruct l as [|x l']; [cbn in Hl; lia|]. set (l := x :: l') in *.
  destruct s as [|s]; [reflexivity|]. cbn [nth_error].
  rewrite IH; [|rewrite skipn_length; lia|lia]. rewrite skipn_add. reflexivity.
Qed.

Lemma chunks_length {A} w (Hw : 0 < w) : forall fuel (l : list A), length l = fuel * w -> length (chunks fuel w l) = fuel.
Proof.
  induction fuel as [|f IH]; intros l Hl; [reflexivity|]. cbn [chunks].
  destruct l as [|x l']; [cbn in Hl; lia|]. cbn [length]. rewrite IH; [reflexivity|]. rewrite skipn_length. cbn [length] in *. lia.
Qed.

Lemma nth_error_firstn_skipn {A} (l : list A) k w c : c < w -> nth_error (firstn w (skipn k l)) c = nth_error l (k + c).
Proof.
  intros Hc. revert l; induction k as [|k IH]; intros l.
  - cbn [skipn plus]. revert w l Hc. induction c as [|c IHc]; intros [|w] [|x l] Hc; cbn; try lia; auto. apply IHc. lia.
  - destruct l as [|x l]; cbn [skipn plus nth_error]; [destruct c; destruct w; reflexivity|apply IH].
Qed.

Lemma chunks_cell {A} w (Hw : 0 < w) fuel (l : list A) s c : length l = fuel * w -> s < fuel -> c < w ->
  match nth_error (chunks fuel w l) s with Some row => nth_error row c | None => None end = nth_error l (s * w + c).
Proof. intros Hl Hs Hc. rewrite (chunks_nth w Hw fuel l s Hl Hs). apply nth_error_firstn_skipn, Hc. Qed.

(* ---------- the tables ---------- *)

Section Ptable.
  Variable v : vfile.
  Variable t : table.
  Variable pt : ptable.
  Variable ns : nat.
  Hypothesis Hshape : tshape t ns.
  Hypothesis Hterms : tb_terminals t = v_tnames v.
  Hypothesis Hnts : tb_nonterminals t = v_nnames v.
  Hypothesis Hnn : v_nnames v <> [].
  Hypothesis HP : ptable_of v t = Some pt.

  Notation ntm := (length (v_tnames v)).
  Notation nnt := (length (v_nnames v)).

  Lemma ptable_fields :
    pt_start pt = tb_start t /\ position_str (vf_start v) (v_nnames v) = Some (pt_start_nt pt) /\
    pt_nterm pt = ntm /\ pt_action pt = chunks ns (S ntm) (tb_actions t) /\
    pt_goto pt = chunks ns nnt (map pgoto_of (tb_gotos t)) /\
    Parser.all_some (map (prule_of v) (get_rules v)) = Some (pt_rules pt).
  Proof.
    unfold ptable_of in HP. fold (v_nnames v) in HP.
    destruct (position_str (vf_start v) (v_nnames v)) as [snt|]; [|discriminate].
    destruct (Parser.all_some (map (prule_of v) (get_rules v))) as [rules|]; [|discriminate].
    injection HP as <-. cbn [pt_start pt_start_nt pt_nterm pt_action pt_goto pt_rules].
    destruct Hshape as (Ha & Hg). rewrite Hterms in Ha. rewrite Hnts in Hg.
    assert (Hns : length (tb_actions t) / S (length (tb_terminals t)) = ns) by (rewrite Ha, Hterms; apply Nat.div_mul; lia).
    unfold Nat.div in Hns. rewrite Hns, Hterms, Hnts. repeat split; try reflexivity.
    destruct (Nat.eqb_spec nnt 0) as [E|_]; [|reflexivity]. destruct (v_nnames v); [contradiction|discriminate].
  Qed.

  Lemma get_action_cell s c : s < ns -> c <= ntm -> get_action pt s c = nth_error (tb_actions t) (s * S ntm + c).
  Proof.
    intros Hs Hc. destruct ptable_fields as (_ & _ & _ & Ha & _). unfold get_action. rewrite Ha.
    apply chunks_cell; [lia| |exact Hs|lia]. destruct Hshape as (H & _). rewrite Hterms in H. exact H.
  Qed.

  Lemma get_action_row s c a : get_action pt s c = Some a -> s < ns /\ c <= ntm.
  Proof.
    destruct ptable_fields as (_ & _ & _ & Ha & _). unfold get_action. rewrite Ha.
    assert (Hl : length (tb_actions t) = ns * S ntm) by (destruct Hshape as (H & _); rewrite Hterms in H; exact H).
    destruct (Nat.lt_ge_cases s ns) as [Hs|Hs].
    - rewrite (chunks_nth (S ntm) ltac:(lia) ns _ s Hl Hs). intros H. split; [exact Hs|].
      assert (c < length (firstn (S ntm) (skipn (s * S ntm) (tb_actions t)))) by (apply nth_error_Some; congruence).
      rewrite firstn_length in *. lia.
    - replace (nth_error (chunks ns (S ntm) (tb_actions t)) s) with (@None (list action)); [discriminate|].
      symmetry. apply nth_error_None. rewrite (chunks_length (S ntm) ltac:(lia) ns _ Hl). exact Hs.
  Qed.

  Lemma nnt_pos : 0 < nnt.
  Proof. destruct (v_nnames v); [contradiction|cbn; lia]. Qed.

  Lemma get_goto_cell s n : s < ns -> n < nnt -> get_goto pt s n = option_map pgoto_of (nth_error (tb_gotos t) (s * nnt + n)).
  Proof.
    intros Hs Hn. destruct ptable_fields as (_ & _ & _ & _ & Hg & _). unfold get_goto. rewrite Hg.
    rewrite chunks_cell; [apply nth_error_map|apply nnt_pos| |exact Hs|exact Hn].
    rewrite map_length. destruct Hshape as (_ & H). rewrite Hnts in H. exact H.
  Qed.

  Lemma get_goto_row s n g : get_goto pt s n = Some g -> s < ns /\ n < nnt.
  Proof.
    destruct ptable_fields as (_ & _ & _ & _ & Hg & _). unfold get_goto. rewrite Hg.
    assert (Hl : length (map pgoto_of (tb_gotos t)) = ns * nnt) by (rewrite map_length; destruct Hshape as (_ & H); rewrite Hnts in H; exact H).
    destruct (Nat.lt_ge_cases s ns) as [Hs|Hs].
    - rewrite (chunks_nth nnt nnt_pos ns _ s Hl Hs). intros H. split; [exact Hs|].
      assert (n < length (firstn nnt (skipn (s * nnt) (map pgoto_of (tb_gotos t))))) by (apply nth_error_Some; congruence).
      rewrite firstn_length in *. lia.
    - replace (nth_error (chunks ns nnt (map pgoto_of (tb_gotos t))) s) with (@None (list (option nat))); [discriminate|].
      symmetry. apply nth_error_None. rewrite (chunks_length nnt nnt_pos ns _ Hl). exact Hs.
  Qed.

  (* table_action / table_goto read the same cells *)
  Lemma table_action_cell s q a : table_action t s q = Ok a <->
    exists c, qcol (v_tnames v) q = Some c /\ s < ns /\ nth_error (tb_actions t) (s * S ntm + c) = Some a.
  Proof.
    unfold table_action. rewrite (action_index_spec t ns s q Hshape). unfold acell. rewrite Hterms.
    destruct (qcol (v_tnames v) q) as [c|]; cbn [option_map].
    - destruct (Nat.leb_spec ns s) as [Hge|Hlt]; cbn [bind].
      + split; [discriminate|]. intros (c' & _ & Hs & _). lia.
      + destruct (nth_error (tb_actions t) (s * S ntm + c)) as [a'|] eqn:E; cbn [unwrap].
        * split; [intros H; injection H as <-; exists c; auto|]. intros (c' & Hc & _ & H). injection Hc as <-. rewrite E in H. injection H as <-. reflexivity.
        * split; [discriminate|]. intros (c' & Hc & _ & H). injection Hc as <-. rewrite E in H. discriminate.
    - cbn [bind]. split; [discriminate|]. intros (c' & Hc & _). discriminate.
  Qed.

  Lemma table_goto_cell s n g : table_goto t s n = Ok g <->
    exists c, position_str n (v_nnames v) = Some c /\ s < ns /\ nth_error (tb_gotos t) (s * nnt + c) = Some g.
  Proof.
    unfold table_goto. rewrite (goto_index_spec t ns s n Hshape). unfold gcell. rewrite Hnts.
    destruct (position_str n (v_nnames v)) as [c|]; cbn [option_map].
    - destruct (Nat.leb_spec ns s) as [Hge|Hlt]; cbn [bind].
      + split; [discriminate|]. intros (c' & _ & Hs & _). lia.
      + destruct (nth_error (tb_gotos t) (s * nnt + c)) as [g'|] eqn:E; cbn [unwrap].
        * split; [intros H; injection H as <-; exists c; auto|]. intros (c' & Hc & _ & H). injection Hc as <-. rewrite E in H. injection H as <-. reflexivity.
        * split; [discriminate|]. intros (c' & Hc & _ & H). injection Hc as <-. rewrite E in H. discriminate.
    - cbn [bind]. split; [discriminate|]. intros (c' & Hc & _). discriminate.
  Qed.

  Lemma get_action_table s q c a : qcol (v_tnames v) q = Some c -> (get_action pt s c = Some a <-> table_action t s q = Ok a).
  Proof.
    intros Hq. assert (Hc : c <= ntm) by (pose proof (qcol_lt _ _ _ Hq); lia). rewrite table_action_cell. split.
    - intros H. destruct (get_action_row s c a H) as (Hs & _). rewrite (get_action_cell s c Hs Hc) in H. exists c. auto.
    - intros (c' & Hc' & Hs & H). rewrite Hq in Hc'. injection Hc' as <-. rewrite (get_action_cell s c Hs Hc). exact H.
  Qed.

  Lemma get_goto_table s n c g : position_str n (v_nnames v) = Some c ->
    (get_goto pt s c = Some (pgoto_of g) /\ s < ns <-> exists g', table_goto t s n = Ok g' /\ pgoto_of g' = pgoto_of g).
  Proof.
    intros Hn. pose proof (position_str_lt _ _ _ Hn) as Hc. split.
    - intros (H & Hs). rewrite (get_goto_cell s c Hs Hc) in H.
      destruct (nth_error (tb_gotos t) (s * nnt + c)) as [g'|] eqn:E; [|discriminate]. cbn in H. injection H as H.
      exists g'. split; [|exact H]. apply table_goto_cell. exists c. auto.
    - intros (g' & H & Hg). apply table_goto_cell in H as (c' & Hc' & Hs & H). rewrite Hn in Hc'. injection Hc' as <-.
      split; [|exact Hs]. rewrite (get_goto_cell s c Hs Hc), H. cbn. rewrite Hg. reflexivity.
  Qed.
End Ptable.
