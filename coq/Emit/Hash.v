(* Emit/Hash.v — executable model of kiki::get_grammar_hash (kiki/src/lib.rs).
   `str::lines` splits after every '\n' and removes that '\n' and a '\r' just
   before it; a last line without '\n' is kept as it is.  No proofs. *)
From Kiki Require Import Base.Ord Base.Chars Data.
Open Scope N_scope.

Definition strip_cr_rev (line_rev : str) : str :=
  match line_rev with
  | 13 :: r => r
  | _ => line_rev
  end.

Fixpoint lines_go (s : str) (cur_rev : str) : list str :=
  match s with
  | [] => match cur_rev with [] => [] | _ => [rev cur_rev] end
  | 10 :: r => rev (strip_cr_rev cur_rev) :: lines_go r []
  | c :: r => lines_go r (c :: cur_rev)
  end.

Definition lines (s : str) : list str := lines_go s [].

Definition hash_prefix : str := s2l "// @sha256 ".

(* str::strip_prefix *)
Fixpoint strip_prefix (p s : str) : option str :=
  match p, s with
  | [], _ => Some s
  | _ :: _, [] => None
  | a :: p', b :: s' => if a =? b then strip_prefix p' s' else None
  end.

Fixpoint hash_in_lines (ls : list str) : option str :=
  match ls with
  | [] => None
  | l :: r =>
      if negb (starts_with (s2l "//") l) then None
      else match strip_prefix hash_prefix l with     (* repaired (F8): was trim_start_matches *)
           | Some h => Some h
           | None => hash_in_lines r
           end
  end.

Definition get_grammar_hash (text : str) : option str := hash_in_lines (lines text).
