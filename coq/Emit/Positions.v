(* Emit/Positions.v — C16 beyond the tokenizer: the stages after validation read names, never
   byte positions.  `erase_v` sets every position stored in a validated file to 0; the
   automaton, the table and the emitted text of the erased file are those of the file itself. *)
From Coq Require Import List Arith NArith Lia Bool Permutation.
From Kiki Require Import Base.Ord Base.Chars Data DataProofs Ast.ValidateProofs Oset.Model
  Build.Machine Build.Table Emit.Emit.
Import ListNotations.
Open Scope nat_scope.

(* ---------- erasing positions ---------- *)

Definition erase_ident (i : ident) : ident := {| id_name := id_name i; id_pos := 0%N |}.
Definition erase_tident (t : tident) : tident := {| ti_name := ti_name t; ti_dpos := 0%N |}.
Definition erase_attr (a : attribute) : attribute := {| at_src := at_src a; at_pos := 0%N |}.
Definition erase_iot (s : ident_or_tident) : ident_or_tident :=
  match s with IOTIdent i => IOTIdent (erase_ident i) | IOTTerminal t => IOTTerminal (erase_tident t) end.
Definition erase_iou (s : ident_or_underscore) : ident_or_underscore :=
  match s with IOUIdent i => IOUIdent (erase_ident i) | IOUUnderscore _ => IOUUnderscore 0%N end.
Definition erase_nf (x : named_field) : named_field :=
  {| nf_name := erase_iou (nf_name x); nf_symbol := erase_iot (nf_symbol x) |}.
Definition erase_tf (x : tuple_field) : tuple_field :=
  match x with TFUsed s => TFUsed (erase_iot s) | TFSkipped s => TFSkipped (erase_iot s) end.
Definition erase_fs (fs : fieldset) : fieldset :=
  match fs with FEmpty => FEmpty | FNamed l => FNamed (map erase_nf l) | FTuple l => FTuple (map erase_tf l) end.
Definition erase_ev (v : enum_variant) : enum_variant :=
  {| ev_name := erase_ident (ev_name v); ev_fieldset := erase_fs (ev_fieldset v) |}.
Definition erase_sd (s : struct_def) : struct_def :=
  {| sd_attrs := map erase_attr (sd_attrs s); sd_name := erase_ident (sd_name s); sd_fieldset := erase_fs (sd_fieldset s) |}.
Definition erase_ed (e : enum_def) : enum_def :=
  {| ed_attrs := map erase_attr (ed_attrs e); ed_name := erase_ident (ed_name e); ed_variants := map erase_ev (ed_variants e) |}.
Definition erase_nt (n : nonterminal) : nonterminal :=
  match n with NStruct s => NStruct (erase_sd s) | NEnum e => NEnum (erase_ed e) end.
Definition erase_te (t : vtenum) : vtenum :=
  {| vt_attrs := map erase_attr (vt_attrs t); vt_name := vt_name t; vt_variants := vt_variants t |}.
Definition erase_v (v : vfile) : vfile :=
  {| vf_start := vf_start v; vf_tenum := erase_te (vf_tenum v); vf_nts := map erase_nt (vf_nts v) |}.
Definition erase_rule (r : rule) : rule :=
  {| ru_type := ru_type r; ru_variant := ru_variant r; ru_fieldset := erase_fs (ru_fieldset r) |}.

(* ---------- what the later stages look at is unchanged ---------- *)

Lemma symbol_of_erase s : symbol_of (erase_iot s) = symbol_of s.
Proof. destruct s; reflexivity. Qed.

Lemma field_symbols_erase fs : field_symbols (erase_fs fs) = field_symbols fs.
Proof.
  destruct fs as [|l|l]; cbn [erase_fs field_symbols]; [reflexivity| |]; rewrite map_map; apply map_ext.
  - intros x. apply symbol_of_erase.
  - intros [s|s]; apply symbol_of_erase.
Qed.

Lemma fieldset_len_erase fs : fieldset_len (erase_fs fs) = fieldset_len fs.
Proof. destruct fs; cbn; rewrite ?map_length; reflexivity. Qed.

Lemma nt_name_erase n : nt_name (erase_nt n) = nt_name n.
Proof. destruct n; reflexivity. Qed.

Lemma attributes_src_erase l : attributes_src (map erase_attr l) = attributes_src l.
Proof. unfold attributes_src. induction l as [|a l IH]; [reflexivity|]. cbn. rewrite IH. reflexivity. Qed.

Lemma rules_of_nt_erase n : rules_of_nt (erase_nt n) = map erase_rule (rules_of_nt n).
Proof. destruct n as [s|e]; cbn; [reflexivity|]. rewrite !map_map. reflexivity. Qed.

Lemma get_rules_erase v : get_rules (erase_v v) = map erase_rule (get_rules v).
Proof.
  unfold get_rules. cbn [erase_v vf_nts]. induction (vf_nts v) as [|n l IH]; [reflexivity|].
  cbn [map flat_map]. rewrite IH, map_app, rules_of_nt_erase. reflexivity.
Qed.

Lemma map_nt_name_erase l : map nt_name (map erase_nt l) = map nt_name l.
Proof. rewrite map_map. apply map_ext, nt_name_erase. Qed.

(* ---------- the emitter ---------- *)

Section Emit.
  Variable v : vfile.
  Variable nm : names.
  Variable t : table.

  Lemma tvariants_erase : tvariants (erase_v v) = tvariants v.
  Proof. reflexivity. Qed.

  Lemma field_type_src_erase s : field_type_src (erase_v v) (erase_iot s) = field_type_src v s.
  Proof. destruct s; reflexivity. Qed.

  Lemma map_res_ext_map {A B} (g : A -> A) (f f' : A -> res B) l :
    (forall x, f' (g x) = f x) -> map_res f' (map g l) = map_res f l.
  Proof. intros H. induction l as [|x l IH]; [reflexivity|]. cbn [map map_res]. rewrite H, IH. reflexivity. Qed.

  Lemma named_used_erase l : named_used (map erase_nf l) = named_used l.
  Proof. unfold named_used. induction l as [|x l IH]; [reflexivity|]. cbn. rewrite IH. destruct (nf_name x); reflexivity. Qed.

  Lemma tuple_used_erase l : tuple_used (map erase_tf l) = tuple_used l.
  Proof. unfold tuple_used. induction l as [|x l IH]; [reflexivity|]. cbn. rewrite IH. destruct x; reflexivity. Qed.

  Lemma fieldset_src_erase fs semi pub_ : fieldset_src (erase_v v) (erase_fs fs) semi pub_ = fieldset_src v fs semi pub_.
  Proof.
    destruct fs as [|l|l]; cbn [erase_fs fieldset_src]; [reflexivity| |].
    - unfold named_fieldset_src. rewrite named_used_erase. destruct (negb (named_used l)); [reflexivity|].
      rewrite (map_res_ext_map erase_nf (fun x => match nf_name x with
                                                  | IOUUnderscore _ => Ok []
                                                  | IOUIdent i => do ty <- field_type_src v (nf_symbol x);
                                                                  Ok [(if pub_ then S_ "pub " else []) ++ id_name i ++ S_ ": " ++ ty ++ S_ ","]
                                                  end)); [reflexivity|].
      intros x. cbn [erase_nf nf_name nf_symbol]. destruct (nf_name x); cbn [erase_iou]; [|reflexivity].
      rewrite field_type_src_erase. reflexivity.
    - unfold tuple_fieldset_src. rewrite tuple_used_erase. destruct (negb (tuple_used l)); [reflexivity|].
      rewrite (map_res_ext_map erase_tf (fun x => match x with
                                                  | TFSkipped _ => Ok []
                                                  | TFUsed s => do ty <- field_type_src v s; Ok [(if pub_ then S_ "pub " else []) ++ ty ++ S_ ","]
                                                  end)); [reflexivity|].
      intros [s|s]; cbn [erase_tf]; [rewrite field_type_src_erase|]; reflexivity.
  Qed.

  Lemma nonterminal_type_def_src_erase n : nonterminal_type_def_src (erase_v v) (erase_nt n) = nonterminal_type_def_src v n.
  Proof.
    destruct n as [s|e]; cbn [erase_nt nonterminal_type_def_src erase_sd erase_ed sd_attrs sd_name sd_fieldset ed_attrs ed_name ed_variants erase_ident id_name].
    - rewrite fieldset_src_erase, attributes_src_erase. reflexivity.
    - rewrite attributes_src_erase.
      rewrite (map_res_ext_map erase_ev (fun x => do fs <- fieldset_src v (ev_fieldset x) false false; Ok (id_name (ev_name x) ++ fs ++ S_ ","))); [reflexivity|].
      intros x. cbn [erase_ev ev_fieldset ev_name erase_ident id_name]. rewrite fieldset_src_erase. reflexivity.
  Qed.

  Lemma nonterminal_type_defs_src_erase : nonterminal_type_defs_src (erase_v v) = nonterminal_type_defs_src v.
  Proof.
    unfold nonterminal_type_defs_src. cbn [erase_v vf_nts].
    rewrite (map_res_ext_map erase_nt (nonterminal_type_def_src v)); [reflexivity|apply nonterminal_type_def_src_erase].
  Qed.

  Lemma child_var_src_erase var s : child_var_src nm var (erase_iot s) = child_var_src nm var s.
  Proof. destruct s; reflexivity. Qed.

  Lemma enumerate_from_map {A B} (g : A -> B) l : forall k, enumerate_from k (map g l) = map (fun '(i, x) => (i, g x)) (enumerate_from k l).
  Proof. induction l as [|x l IH]; intros k; [reflexivity|]. cbn. rewrite IH. reflexivity. Qed.

  Lemma constructor_src_erase r : constructor_src (erase_rule r) = constructor_src r.
  Proof. reflexivity. Qed.

  Lemma reduction_tail_erase r a : reduction_tail nm (erase_rule r) a = reduction_tail nm r a.
  Proof. reflexivity. Qed.

  Lemma reduce_fn_src_erase i r : reduce_fn_src nm i (erase_rule r) = reduce_fn_src nm i r.
  Proof.
    unfold reduce_fn_src. cbn [erase_rule ru_fieldset]. destruct (ru_fieldset r) as [|l|l]; cbn [erase_fs]; [reflexivity| |].
    - unfold named_reduction_src. rewrite named_used_erase, map_length. unfold enumerate. rewrite enumerate_from_map, <- map_rev.
      rewrite (map_res_ext_map (fun '(i0, x) => (i0, erase_nf x))
                 (fun '(i0, x) => match nf_name x with
                                  | IOUUnderscore _ => Ok pop_only
                                  | IOUIdent n => child_var_src nm (id_name n ++ S_ "_" ++ dec_nat i0) (nf_symbol x)
                                  end)).
      2:{ intros [i0 x]. cbn [erase_nf nf_name nf_symbol]. destruct (nf_name x); cbn [erase_iou erase_ident id_name]; [apply child_var_src_erase|reflexivity]. }
      rewrite flat_map_concat_map, map_map, <- flat_map_concat_map.
      assert (E : forall l0 : list (nat * named_field),
                 flat_map (fun x => let '(i0, x0) := let '(i1, x1) := x in (i1, erase_nf x1) in
                                    match nf_name x0 with
                                    | IOUIdent n => [id_name n ++ S_ ": " ++ id_name n ++ S_ "_" ++ dec_nat i0 ++ S_ ","]
                                    | IOUUnderscore _ => []
                                    end) l0 =
                 flat_map (fun '(i0, x0) => match nf_name x0 with
                                            | IOUIdent n => [id_name n ++ S_ ": " ++ id_name n ++ S_ "_" ++ dec_nat i0 ++ S_ ","]
                                            | IOUUnderscore _ => []
                                            end) l0).
      { induction l0 as [|[i0 x] l0 IH]; [reflexivity|]. cbn [flat_map]. rewrite IH. cbn [erase_nf nf_name]. destruct (nf_name x); reflexivity. }
      rewrite E. reflexivity.
    - unfold tuple_reduction_src. rewrite tuple_used_erase, map_length. unfold enumerate. rewrite enumerate_from_map, <- map_rev.
      rewrite (map_res_ext_map (fun '(i0, x) => (i0, erase_tf x))
                 (fun '(i0, x) => match x with
                                  | TFSkipped _ => Ok pop_only
                                  | TFUsed s => child_var_src nm (S_ "t" ++ dec_nat i0) s
                                  end)).
      2:{ intros [i0 [s|s]]; cbn [erase_tf]; [apply child_var_src_erase|reflexivity]. }
      assert (E : forall l0 : list (nat * tuple_field),
                 flat_map (fun '(i0, x) => match x with TFSkipped _ => [] | TFUsed _ => [S_ "t" ++ dec_nat i0 ++ S_ ","] end)
                          (map (fun '(i0, x) => (i0, erase_tf x)) l0) =
                 flat_map (fun '(i0, x) => match x with TFSkipped _ => [] | TFUsed _ => [S_ "t" ++ dec_nat i0 ++ S_ ","] end) l0).
      { induction l0 as [|[i0 x] l0 IH]; [reflexivity|]. cbn [map flat_map]. rewrite IH. destruct x; reflexivity. }
      rewrite E. reflexivity.
  Qed.

  Lemma reduce_fns_src_erase : reduce_fns_src (erase_v v) nm = reduce_fns_src v nm.
  Proof.
    unfold reduce_fns_src. rewrite get_rules_erase. unfold enumerate. rewrite enumerate_from_map.
    rewrite (map_res_ext_map (fun '(i, x) => (i, erase_rule x)) (fun '(i, r) => reduce_fn_src nm i r)); [reflexivity|].
    intros [i r]. apply reduce_fn_src_erase.
  Qed.

  Lemma hole_env_erase consts digest : hole_env (erase_v v) nm t consts digest = hole_env v nm t consts digest.
  Proof.
    unfold hole_env. rewrite nonterminal_type_defs_src_erase, reduce_fns_src_erase.
    unfold terminal_enum_variants_src, terminal_kind_enum_variants_src, nonterminal_kind_enum_variants_src, node_enum_variants_src,
      rule_kind_enum_variants_src, number_of_rule_kinds, pop_and_reduce_match_arms_src, quasiterminal_kind_from_terminal_match_arms_src,
      node_from_terminal_match_arms_src, try_into_fn_src.
    rewrite get_rules_erase. cbn [erase_v vf_nts vf_tenum vf_start erase_te vt_attrs vt_name vt_variants tvariants].
    rewrite attributes_src_erase, !map_length.
    assert (E1 : forall k, map (fun '(i, n) => nt_name n ++ S_ " = " ++ dec_nat i ++ S_ ",") (enumerate_from k (map erase_nt (vf_nts v))) =
                           map (fun '(i, n) => nt_name n ++ S_ " = " ++ dec_nat i ++ S_ ",") (enumerate_from k (vf_nts v))).
    { intros k. rewrite enumerate_from_map, map_map. apply map_ext. intros [i n]. rewrite nt_name_erase. reflexivity. }
    unfold enumerate. rewrite E1.
    assert (E2 : map (fun n => nt_name n ++ S_ "(" ++ nt_name n ++ S_ "),") (map erase_nt (vf_nts v)) =
                 map (fun n => nt_name n ++ S_ "(" ++ nt_name n ++ S_ "),") (vf_nts v)).
    { rewrite map_map. apply map_ext. intros n. rewrite nt_name_erase. reflexivity. }
    rewrite E2.
    assert (E3 : list_sum (map (fun n => match n with NStruct _ => 1 | NEnum e => length (ed_variants e) end) (map erase_nt (vf_nts v))) =
                 list_sum (map (fun n => match n with NStruct _ => 1 | NEnum e => length (ed_variants e) end) (vf_nts v))).
    { rewrite map_map. f_equal. apply map_ext. intros [s|e]; cbn; [reflexivity|apply map_length]. }
    rewrite E3.
    assert (E4 : forall k, map (fun '(i, _) => n_rule_kind nm ++ S_ "::" ++ (match find (fun p => String.eqb (fst p) "RULE_KIND_VARIANT_PREFIX") consts with
                                                                            | Some p => S_ (snd p) | None => [] end) ++ dec_nat i ++ S_ " => "
                                               ++ reduce_fn_name nm i ++ S_ "(states, nodes),") (enumerate_from k (map erase_rule (get_rules v))) =
                           map (fun '(i, _) => n_rule_kind nm ++ S_ "::" ++ (match find (fun p => String.eqb (fst p) "RULE_KIND_VARIANT_PREFIX") consts with
                                                                            | Some p => S_ (snd p) | None => [] end) ++ dec_nat i ++ S_ " => "
                                               ++ reduce_fn_name nm i ++ S_ "(states, nodes),") (enumerate_from k (get_rules v))).
    { intros k. rewrite enumerate_from_map, map_map. apply map_ext. intros [i r]. reflexivity. }
    rewrite E4.
    assert (E5 : map (impl_try_from_src nm) (map erase_nt (vf_nts v)) = map (impl_try_from_src nm) (vf_nts v)).
    { rewrite map_map. apply map_ext. intros n. unfold impl_try_from_src. rewrite nt_name_erase. reflexivity. }
    rewrite E5. reflexivity.
  Qed.
End Emit.

Lemma make_names_erase fuel v : make_names fuel (erase_v v) = make_names fuel v.
Proof.
  unfold make_names, get_defined_identifiers. cbn [erase_v vf_nts vf_tenum erase_te vt_variants vt_name]. rewrite map_nt_name_erase. reflexivity.
Qed.

Theorem table_to_rust_erase fuel tpl consts t v digest :
  table_to_rust fuel tpl consts t (erase_v v) digest = table_to_rust fuel tpl consts t v digest.
Proof.
  unfold table_to_rust. rewrite make_names_erase. destruct (make_names fuel v) as [nm| | |]; cbn [bind]; try reflexivity.
  rewrite hole_env_erase. reflexivity.
Qed.

(* ---------- the automaton ---------- *)

Lemma nth_error_map_erase rules r : nth_error (map erase_rule rules) r = option_map erase_rule (nth_error rules r).
Proof. apply nth_error_map. Qed.

Lemma expand_rule_erase m r : expand_rule m (erase_rule r) = expand_rule m r.
Proof. unfold expand_rule, get_current_first_set. cbn [erase_rule ru_fieldset ru_type]. rewrite field_symbols_erase. reflexivity. Qed.

Lemma expand_erase rs : forall m ch, expand m (map erase_rule rs) ch = expand m rs ch.
Proof.
  induction rs as [|r rs IH]; intros m ch; [reflexivity|]. cbn [map expand]. rewrite expand_rule_erase.
  destruct (expand_rule m r) as [[m' c]| | |]; cbn [bind]; [apply IH|..]; reflexivity.
Qed.

Lemma first_loop_erase fuel rs : forall m, first_loop fuel (map erase_rule rs) m = first_loop fuel rs m.
Proof.
  induction fuel as [|f IH]; intros m; [reflexivity|]. cbn [first_loop]. rewrite expand_erase.
  destruct (expand m rs false) as [[m' c]| | |]; cbn [bind]; try reflexivity. destruct c; [apply IH|reflexivity].
Qed.

Lemma get_first_sets_erase fuel rs : get_first_sets fuel (map erase_rule rs) = get_first_sets fuel rs.
Proof. unfold get_first_sets. rewrite first_loop_erase, map_map. reflexivity. Qed.

Definition ecx (cx : context) : context :=
  {| cx_start := cx_start cx; cx_rules := map erase_rule (cx_rules cx); cx_first := cx_first cx |}.

Lemma symbol_right_of_dot_erase cx it : symbol_right_of_dot (ecx cx) it = symbol_right_of_dot cx it.
Proof.
  unfold symbol_right_of_dot. cbn [ecx cx_start cx_rules]. destruct (it_rule it) as [r|]; [|reflexivity].
  rewrite nth_error_map_erase. destruct (nth_error (cx_rules cx) r); cbn; [rewrite field_symbols_erase|]; reflexivity.
Qed.

Lemma symbols_after_dot_erase cx it : symbols_after_dot (ecx cx) it = symbols_after_dot cx it.
Proof.
  unfold symbols_after_dot. cbn [ecx cx_start cx_rules]. destruct (it_rule it) as [r|]; [|reflexivity].
  rewrite nth_error_map_erase. destruct (nth_error (cx_rules cx) r); cbn; [rewrite field_symbols_erase|]; reflexivity.
Qed.

Lemma rule_indices_for_erase cx name : rule_indices_for (ecx cx) name = rule_indices_for cx name.
Proof.
  unfold rule_indices_for, enumerate. cbn [ecx cx_rules]. generalize 0. induction (cx_rules cx) as [|r l IH]; intros k; [reflexivity|].
  cbn [map enumerate_from flat_map]. rewrite IH. reflexivity.
Qed.

Lemma closure_implied_items_erase cx it : closure_implied_items (ecx cx) it = closure_implied_items cx it.
Proof.
  unfold closure_implied_items. rewrite symbol_right_of_dot_erase. destruct (symbol_right_of_dot cx it) as [[[u|n]|]| | |]; cbn [bind]; try reflexivity.
  rewrite symbols_after_dot_erase. destruct (symbols_after_dot cx _); cbn [bind]; try reflexivity.
  cbn [ecx cx_first]. f_equal. apply flat_map_ext. intros la. rewrite rule_indices_for_erase. reflexivity.
Qed.

Lemma closure_loop_erase cx fuel : forall q acc, closure_loop fuel (ecx cx) q acc = closure_loop fuel cx q acc.
Proof.
  induction fuel as [|f IH]; intros q acc; [reflexivity|]. cbn [closure_loop]. destruct q as [|next q]; [reflexivity|].
  destruct (ocontains item_cmp next acc); [apply IH|]. rewrite closure_implied_items_erase.
  destruct (closure_implied_items cx next); cbn [bind]; [apply IH|..]; reflexivity.
Qed.

Lemma advance_erase cx x it : advance (ecx cx) x it = advance cx x it.
Proof. unfold advance. rewrite symbol_right_of_dot_erase. reflexivity. Qed.

Lemma map_res_ext' {A B} (f g : A -> res B) l : (forall x, f x = g x) -> map_res f l = map_res g l.
Proof. intros H. induction l as [|x l IH]; [reflexivity|]. cbn [map_res]. rewrite H, IH. reflexivity. Qed.

Lemma enqueue_transition_target_erase cfuel cx b i x :
  enqueue_transition_target cfuel (ecx cx) b i x = enqueue_transition_target cfuel cx b i x.
Proof.
  unfold enqueue_transition_target. destruct (nth_error (b_states b) i); cbn [unwrap bind]; [|reflexivity].
  rewrite (map_res_ext' (advance (ecx cx) x) (advance cx x)) by (intros; apply advance_erase).
  destruct (map_res (advance cx x) s); cbn [bind]; try reflexivity. unfold get_closure. rewrite closure_loop_erase. reflexivity.
Qed.

Lemma enqueue_targets_erase cfuel cx i syms : forall b, enqueue_targets cfuel (ecx cx) b i syms = enqueue_targets cfuel cx b i syms.
Proof.
  induction syms as [|x syms IH]; intros b; [reflexivity|]. cbn [enqueue_targets]. rewrite enqueue_transition_target_erase.
  destruct (enqueue_transition_target cfuel cx b i x); cbn [bind]; [apply IH|..]; reflexivity.
Qed.

Lemma symbols_right_of_dot_erase cx st : symbols_right_of_dot (ecx cx) st = symbols_right_of_dot cx st.
Proof. unfold symbols_right_of_dot. rewrite (map_res_ext' _ (symbol_right_of_dot cx)) by (intros; apply symbol_right_of_dot_erase). reflexivity. Qed.

Lemma build_loop_erase cx cfuel fuel : forall b, build_loop fuel cfuel (ecx cx) b = build_loop fuel cfuel cx b.
Proof.
  induction fuel as [|f IH]; intros b; [reflexivity|]. cbn [build_loop]. destruct (b_queue b) as [|i q]; [reflexivity|].
  cbn [b_states]. destruct (nth_error (b_states b) i); cbn [unwrap bind]; [|reflexivity].
  rewrite symbols_right_of_dot_erase. destruct (symbols_right_of_dot cx s); cbn [bind]; try reflexivity.
  rewrite enqueue_targets_erase. destruct (enqueue_targets cfuel cx _ i a); cbn [bind]; [apply IH|..]; reflexivity.
Qed.

Theorem validated_ast_to_machine_erase ho fu v : validated_ast_to_machine ho fu (erase_v v) = validated_ast_to_machine ho fu v.
Proof.
  unfold validated_ast_to_machine, make_context. rewrite get_rules_erase, get_first_sets_erase. cbn [erase_v vf_start].
  destruct (get_first_sets (fu_first fu) (get_rules v)) as [fm| | |]; cbn [bind]; try reflexivity.
  change {| cx_start := vf_start v; cx_rules := map erase_rule (get_rules v); cx_first := fm |}
    with (ecx {| cx_start := vf_start v; cx_rules := get_rules v; cx_first := fm |}).
  unfold get_closure. rewrite closure_loop_erase.
  destruct (closure_loop (fu_closure fu) _ _ []); cbn [bind]; try reflexivity. rewrite build_loop_erase. reflexivity.
Qed.

(* ---------- results up to positions ---------- *)

Definition erase_err (e : kiki_err) : kiki_err :=
  match e with
  | ELex _ c => ELex 0%N c
  | EParse _ content _ => EParse 0%N content 0%N
  | ENoStartSymbol => ENoStartSymbol
  | EMultipleStartSymbols l => EMultipleStartSymbols (map (fun _ => 0%N) l)
  | ENoTerminalEnum => ENoTerminalEnum
  | EMultipleTerminalEnums l => EMultipleTerminalEnums (map (fun _ => 0%N) l)
  | ESymbolNotUppercase _ => ESymbolNotUppercase 0%N
  | EFieldNotLowercase _ => EFieldNotLowercase 0%N
  | ENameClash n _ _ => ENameClash n 0%N 0%N
  | EVariantNameClash n _ _ => EVariantNameClash n 0%N 0%N
  | EVariantSeqClash s _ _ => EVariantSeqClash s 0%N 0%N
  | EUndefinedNonterminal n _ => EUndefinedNonterminal n 0%N
  | EUndefinedTerminal n _ => EUndefinedTerminal n 0%N
  | ETableConflict c => ETableConflict {| cf_state := cf_state c; cf_item1 := cf_item1 c; cf_item2 := cf_item2 c;
                                          cf_file := erase_v (cf_file c); cf_machine := cf_machine c |}
  end.

Definition rerase {A} (f : A -> A) (r : res A) : res A :=
  match r with Ok a => Ok (f a) | Err e => Err (erase_err e) | Panic s => Panic s | OutOfFuel s => OutOfFuel s end.

Definition same {A} (a : A) : A := a.

(* ---------- the table ---------- *)

Lemma set_action_erase m v b s q it a : set_action m (erase_v v) b s q it a = rerase same (set_action m v b s q it a).
Proof. unfold set_action. destruct (act_get (tb_act b) s q) as [[ei ea]|]; [destruct (action_eqb ea a)|]; reflexivity. Qed.

Lemma add_item_action_erase m v b s it :
  add_item_action m (erase_v v) (get_rules (erase_v v)) b s it = rerase same (add_item_action m v (get_rules v) b s it).
Proof.
  unfold add_item_action. rewrite get_rules_erase. destruct (it_rule it) as [r|].
  - rewrite nth_error_map_erase. destruct (nth_error (get_rules v) r) as [ru|]; cbn [option_map unwrap bind]; [|reflexivity].
    cbn [erase_rule ru_fieldset]. rewrite fieldset_len_erase, field_symbols_erase.
    destruct (Nat.eqb (it_dot it) (fieldset_len (ru_fieldset ru))); [apply set_action_erase|].
    destruct (nth_error (field_symbols (ru_fieldset ru)) (it_dot it)) as [[u|n]|]; cbn [unwrap bind]; try reflexivity.
    destruct (get_shift_dest m s u) as [d|]; cbn [unwrap bind]; [apply set_action_erase|reflexivity].
  - destruct (Nat.eqb (it_dot it) 0); [reflexivity|apply set_action_erase].
Qed.

Lemma add_state_actions_erase m v s items : forall b,
  add_state_actions m (erase_v v) (get_rules (erase_v v)) b s items = rerase same (add_state_actions m v (get_rules v) b s items).
Proof.
  induction items as [|it items IH]; intros b; cbn [add_state_actions]; [reflexivity|]. rewrite add_item_action_erase.
  destruct (add_item_action m v (get_rules v) b s it); cbn [rerase bind same]; [apply IH|..]; reflexivity.
Qed.

Lemma add_actions_erase m v sts : forall b,
  add_actions m (erase_v v) (get_rules (erase_v v)) b sts = rerase same (add_actions m v (get_rules v) b sts).
Proof.
  induction sts as [|[i st] sts IH]; intros b; cbn [add_actions]; [reflexivity|]. rewrite add_state_actions_erase.
  destruct (add_state_actions m v (get_rules v) b i st); cbn [rerase bind same]; [apply IH|..]; reflexivity.
Qed.

Lemma get_empty_table_erase m v : get_empty_table m (erase_v v) = get_empty_table m v.
Proof. unfold get_empty_table. cbn [erase_v vf_tenum vf_nts erase_te vt_variants]. rewrite map_nt_name_erase. reflexivity. Qed.

Lemma rerase_no_err {A} (r : res A) : (forall e, r <> Err e) -> rerase same r = r.
Proof. destruct r; cbn; intros H; try reflexivity. exfalso. apply (H e). reflexivity. Qed.

Lemma add_gotos_no_err ts : forall b e, add_gotos b ts <> Err e.
Proof.
  induction ts as [|t ts IH]; intros b e; cbn [add_gotos]; [discriminate|]. destruct (tr_symbol t); [apply IH|].
  destruct (got_get (tb_got b) (tr_from t) name); [discriminate|apply IH].
Qed.

Ltac no_err H :=
  repeat (match type of H with
          | context [unwrap _ ?o] => destruct o; cbn [bind unwrap] in H
          | context [match ?x with _ => _ end] => destruct x; cbn [bind unwrap] in H
          | context [if ?b then _ else _] => destruct b; cbn [bind unwrap] in H
          end); try discriminate H.

Lemma table_set_no_err : (forall t s q a e, table_set_action t s q a <> Err e) /\ (forall t s n g e, table_set_goto t s n g <> Err e).
Proof.
  split; intros; intros H; unfold table_set_action, table_set_goto, action_index, goto_index, state_count in H; cbn [bind unwrap] in H; no_err H.
Qed.

Lemma fill_actions_no_err l : forall t e, fill_actions t l <> Err e.
Proof.
  induction l as [|[[s q] [it a]] l IH]; intros t e; cbn [fill_actions]; [discriminate|].
  destruct (table_set_action t s q a) eqn:E; cbn [bind]; try discriminate; [apply IH|]. exfalso. apply (proj1 table_set_no_err _ _ _ _ _ E).
Qed.

Lemma fill_gotos_no_err l : forall t e, fill_gotos t l <> Err e.
Proof.
  induction l as [|[[s n] g] l IH]; intros t e; cbn [fill_gotos]; [discriminate|].
  destruct (table_set_goto t s n g) eqn:E; cbn [bind]; try discriminate; [apply IH|]. exfalso. apply (proj2 table_set_no_err _ _ _ _ _ E).
Qed.

Theorem machine_to_table_erase ho m v : machine_to_table ho m (erase_v v) = rerase same (machine_to_table ho m v).
Proof.
  unfold machine_to_table. rewrite add_actions_erase, get_empty_table_erase.
  destruct (add_actions m v (get_rules v) _ _) as [b1| | |]; cbn [rerase bind same]; try reflexivity.
  unfold same. symmetry. apply rerase_no_err. intros e.
  destruct (add_gotos b1 (m_transitions m)) as [b2|e2|s2|s2] eqn:E2; cbn [bind]; try discriminate; [|exfalso; exact (add_gotos_no_err _ _ _ E2)].
  destruct (fill_actions (get_empty_table m v) (ho_actions ho (tb_act b2))) as [t1|e3|s3|s3] eqn:E3; cbn [bind]; try discriminate.
  - apply fill_gotos_no_err.
  - exfalso. exact (fill_actions_no_err _ _ _ E3).
Qed.
