(* Emit/NoFuel.v — the only loop of table_to_rust is the search for a fresh helper name
   (X, X2, X3, ...): it ends within |used| + 1 steps, because the candidate names are pairwise
   distinct (decimal rendering is injective).  Everything else is straight-line code (C07). *)
From Coq Require Import List Arith NArith Lia Bool DecimalN.
From Kiki Require Import Base.Ord Base.OrdProofs Base.Chars Data DataProofs Nf Ast.ValidateProofs Build.Table Emit.Emit.
Import ListNotations.
Open Scope nat_scope.

(* ---------- decimal rendering is injective ---------- *)
Lemma digits_of_uint_inj d : forall e, digits_of_uint d = digits_of_uint e -> d = e.
Proof.
  induction d as [|d IH|d IH|d IH|d IH|d IH|d IH|d IH|d IH|d IH|d IH]; intros e H; destruct e; cbn in H; try discriminate;
    try reflexivity; injection H as H; f_equal; apply IH, H.
Qed.

Lemma dec_nat_inj a b : dec_nat a = dec_nat b -> a = b.
Proof.
  unfold dec_nat, dec_N. intros H. apply digits_of_uint_inj in H.
  apply (f_equal N.of_uint) in H. rewrite !DecimalN.Unsigned.of_to in H. apply Nnat.Nat2N.inj, H.
Qed.

(* ---------- the fresh-name loop ---------- *)
Lemma unique_loop_terminates pref used : forall fuel i,
    (exists j, i <= j /\ j < i + fuel /\ mem_str (pref ++ dec_nat j) used = false) ->
    nf (unique_loop fuel pref used i).
Proof.
  induction fuel as [|f IH]; intros i (j & H1 & H2 & H3); [lia|]. cbn [unique_loop].
  destruct (mem_str (pref ++ dec_nat i) used) eqn:E; [|discriminate 1].
  apply IH. exists j. split; [|split; [lia|exact H3]].
  destruct (Nat.eq_dec i j) as [->|]; [congruence|lia].
Qed.

Lemma some_name_is_free pref used i : exists j, i <= j /\ j < i + S (length used) /\ mem_str (pref ++ dec_nat j) used = false.
Proof.
  set (cands := map (fun j => pref ++ dec_nat j) (seq i (S (length used)))).
  destruct (forallb (fun n => mem_str n used) cands) eqn:E.
  - exfalso. rewrite forallb_forall in E.
    assert (Hnd : NoDup cands).
    { unfold cands. apply FinFun.Injective_map_NoDup; [|apply seq_NoDup]. intros a b H. apply app_inv_head in H. apply dec_nat_inj, H. }
    assert (Hincl : incl cands used) by (intros n Hn; apply mem_str_In, E, Hn).
    pose proof (NoDup_incl_length Hnd Hincl) as Hl. unfold cands in Hl. rewrite map_length, seq_length in Hl. unfold str, char in *. lia.
  - assert (Hex : existsb (fun n => negb (mem_str n used)) cands = true).
    { clear -E. induction cands as [|c l IH]; [discriminate|]. cbn in *. destruct (mem_str c used); cbn in *; [apply IH, E|reflexivity]. }
    apply existsb_exists in Hex as (n & Hn & Hf). apply negb_true_iff in Hf.
    unfold cands in Hn. apply in_map_iff in Hn as (j & <- & Hj). apply in_seq in Hj. exists j. split; [lia|]. split; [lia|exact Hf].
Qed.

Lemma nf_create_unique fuel pref used : length used < fuel -> nf (create_unique_identifier fuel pref used).
Proof.
  intros Hf. unfold create_unique_identifier. destruct (mem_str pref used); [|discriminate 1].
  apply nf_bind; [|intros; discriminate 1]. apply unique_loop_terminates.
  destruct (some_name_is_free pref used 2) as (j & H1 & H2 & H3). exists j. split; [exact H1|]. split; [lia|exact H3].
Qed.

Lemma create_unique_used fuel pref used n used' : create_unique_identifier fuel pref used = Ok (n, used') ->
  length used' = S (length used).
Proof.
  unfold create_unique_identifier. destruct (mem_str pref used).
  - destruct (unique_loop fuel pref used 2); cbn; try discriminate. intros H; injection H as _ <-. reflexivity.
  - intros H; injection H as _ <-. reflexivity.
Qed.

Definition unique_fuel (f : vfile) : nat := length (get_defined_identifiers f) + 13.

Lemma nf_make_names fuel f : unique_fuel f <= fuel -> nf (make_names fuel f).
Proof.
  unfold unique_fuel, make_names. intros Hf. set (u0 := get_defined_identifiers f) in *.
  assert (H0 : length u0 + 12 < fuel) by lia. clearbody u0. revert H0. generalize u0 as u. intros u H0.
  repeat (match goal with
          | |- nf (bind (create_unique_identifier fuel ?p ?used) _) =>
              let Hn := fresh "Hn" in let E := fresh "E" in
              assert (Hn : nf (create_unique_identifier fuel p used)) by (apply nf_create_unique; lia);
              destruct (create_unique_identifier fuel p used) as [[? ?]|?|?|?] eqn:E; cbn [bind];
              [apply create_unique_used in E|discriminate 1|discriminate 1|exfalso; exact (nf_oof _ Hn)]
          end).
  discriminate 1.
Qed.

(* ---------- the rest is straight-line ---------- *)
Lemma nf_state_count t : nf (state_count t).
Proof. unfold state_count. nf_auto. Qed.

Lemma nf_table_action t s q : nf (table_action t s q).
Proof. unfold table_action, action_index. nf_step; [|nf_auto]. nf_step; [destruct q; nf_auto|]. nf_step; [apply nf_state_count|nf_auto]. Qed.

Lemma nf_table_goto t s n : nf (table_goto t s n).
Proof. unfold table_goto, goto_index. nf_step; [|nf_auto]. nf_step; [nf_auto|]. nf_step; [apply nf_state_count|nf_auto]. Qed.

Section Emit.
  Variable f : vfile.
  Variable nm : names.
  Variable t : table.

  Lemma nf_field_type_src s : nf (field_type_src f s).
  Proof. destruct s; cbn; nf_auto. Qed.

  Lemma nf_fieldset_src fs semi pub_ : nf (fieldset_src f fs semi pub_).
  Proof.
    destruct fs as [|l|l]; cbn [fieldset_src]; [nf_auto| |].
    - unfold named_fieldset_src. nf_step; [nf_auto|]. nf_step; [|nf_auto]. nf_step. destruct (nf_name _); [|nf_auto].
      nf_step; [apply nf_field_type_src|nf_auto].
    - unfold tuple_fieldset_src. nf_step; [nf_auto|]. nf_step; [|nf_auto]. nf_step. match goal with x : tuple_field |- _ => destruct x end; [|nf_auto].
      nf_step; [apply nf_field_type_src|nf_auto].
  Qed.

  Lemma nf_typedefs : nf (nonterminal_type_defs_src f).
  Proof.
    unfold nonterminal_type_defs_src. nf_step; [|nf_auto]. nf_step. match goal with n : nonterminal |- _ => destruct n end; cbn [nonterminal_type_def_src].
    - nf_step; [apply nf_fieldset_src|nf_auto].
    - nf_step; [|nf_auto]. nf_step. nf_step; [apply nf_fieldset_src|nf_auto].
  Qed.

  Lemma nf_child_var_src var s : nf (child_var_src nm var s).
  Proof. destruct s; cbn; nf_auto. Qed.

  Lemma nf_reduce_fns : nf (reduce_fns_src f nm).
  Proof.
    unfold reduce_fns_src. nf_step; [|nf_auto]. nf_step. match goal with p : (nat * rule)%type |- _ => destruct p as [i r] end.
    unfold reduce_fn_src. nf_step.
    - destruct (ru_fieldset r) as [|l|l]; [nf_auto| |].
      + unfold named_reduction_src. nf_step; [|nf_auto]. nf_step. match goal with p : (nat * named_field)%type |- _ => destruct p as [j x] end.
        destruct (nf_name x); [apply nf_child_var_src|nf_auto].
      + unfold tuple_reduction_src. nf_step; [|nf_auto]. nf_step. match goal with p : (nat * tuple_field)%type |- _ => destruct p as [j x] end.
        destruct x; [apply nf_child_var_src|nf_auto].
    - destruct (ru_fieldset r); nf_auto.
  Qed.

  Lemma nf_hole_env consts digest : nf (hole_env f nm t consts digest).
  Proof.
    unfold hole_env. nf_step; [apply nf_state_count|]. nf_step; [apply nf_typedefs|]. nf_step; [apply nf_reduce_fns|].
    nf_step.
    { nf_step. unfold action_table_row_src. nf_step; [|nf_auto]. nf_step. nf_step; [apply nf_table_action|nf_auto]. }
    nf_step.
    { nf_step. unfold goto_table_row_src. nf_step; [|nf_auto]. nf_step. nf_step; [apply nf_table_goto|nf_auto]. }
    nf_step; [|nf_auto]. nf_step. unfold try_into_fn_src. nf_auto.
  Qed.
End Emit.

Lemma nf_fill env tpl : nf (fill env tpl).
Proof.
  induction tpl as [|[s|h] r IH]; cbn [fill]; [nf_auto| |].
  - nf_step; [exact IH|nf_auto].
  - nf_step; [nf_auto|]. nf_step; [exact IH|nf_auto].
Qed.

Theorem nf_table_to_rust fuel tpl consts t f digest : unique_fuel f <= fuel ->
  nf (table_to_rust fuel tpl consts t f digest).
Proof.
  intros Hf. unfold table_to_rust. nf_step; [apply nf_make_names, Hf|]. nf_step; [apply nf_hole_env|apply nf_fill].
Qed.
