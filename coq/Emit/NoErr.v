(* Emit/NoErr.v — the emitter returns no error value: table_to_rust never gives Err (it can only
   fail by an internal panic, which Emit/NoPanic.v excludes for generated tables). *)
From Coq Require Import List Arith Lia Bool.
From Kiki Require Import Base.Ord Base.Chars Data DataProofs Build.Machine Build.Table Build.NoErr Emit.Emit.
Import ListNotations.

Lemma ne_unique_loop pref used : forall fuel i, ne (unique_loop fuel pref used i).
Proof. induction fuel as [|f IH]; intros i; cbn [unique_loop]; [ne_auto|]. destruct (mem_str _ used); [apply IH|ne_auto]. Qed.

Lemma ne_create_unique fuel pref used : ne (create_unique_identifier fuel pref used).
Proof. unfold create_unique_identifier. destruct (mem_str pref used); [|ne_auto]. ne_step; [apply ne_unique_loop|ne_auto]. Qed.

Lemma ne_make_names fuel f : ne (make_names fuel f).
Proof.
  unfold make_names.
  repeat (apply ne_bind; [apply ne_create_unique|]; intros [? ?]).
  discriminate 1.
Qed.

(* ---------- the rest is straight-line ---------- *)
Lemma ne_state_count t : ne (state_count t).
Proof. unfold state_count. ne_auto. Qed.

Lemma ne_table_action t s q : ne (table_action t s q).
Proof. unfold table_action, action_index. ne_step; [|ne_auto]. ne_step; [destruct q; ne_auto|]. ne_step; [apply ne_state_count|ne_auto]. Qed.

Lemma ne_table_goto t s n : ne (table_goto t s n).
Proof. unfold table_goto, goto_index. ne_step; [|ne_auto]. ne_step; [ne_auto|]. ne_step; [apply ne_state_count|ne_auto]. Qed.

Section Emit.
  Variable f : vfile.
  Variable nm : names.
  Variable t : table.

  Lemma ne_field_type_src s : ne (field_type_src f s).
  Proof. destruct s; cbn; ne_auto. Qed.

  Lemma ne_fieldset_src fs semi pub_ : ne (fieldset_src f fs semi pub_).
  Proof.
    destruct fs as [|l|l]; cbn [fieldset_src]; [ne_auto| |].
    - unfold named_fieldset_src. ne_step; [ne_auto|]. ne_step; [|ne_auto]. ne_step. destruct (nf_name _); [|ne_auto].
      ne_step; [apply ne_field_type_src|ne_auto].
    - unfold tuple_fieldset_src. ne_step; [ne_auto|]. ne_step; [|ne_auto]. ne_step. match goal with x : tuple_field |- _ => destruct x end; [|ne_auto].
      ne_step; [apply ne_field_type_src|ne_auto].
  Qed.

  Lemma ne_typedefs : ne (nonterminal_type_defs_src f).
  Proof.
    unfold nonterminal_type_defs_src. ne_step; [|ne_auto]. ne_step. match goal with n : nonterminal |- _ => destruct n end; cbn [nonterminal_type_def_src].
    - ne_step; [apply ne_fieldset_src|ne_auto].
    - ne_step; [|ne_auto]. ne_step. ne_step; [apply ne_fieldset_src|ne_auto].
  Qed.

  Lemma ne_child_var_src var s : ne (child_var_src nm var s).
  Proof. destruct s; cbn; ne_auto. Qed.

  Lemma ne_reduce_fns : ne (reduce_fns_src f nm).
  Proof.
    unfold reduce_fns_src. ne_step; [|ne_auto]. ne_step. match goal with p : (nat * rule)%type |- _ => destruct p as [i r] end.
    unfold reduce_fn_src. ne_step.
    - destruct (ru_fieldset r) as [|l|l]; [ne_auto| |].
      + unfold named_reduction_src. ne_step; [|ne_auto]. ne_step. match goal with p : (nat * named_field)%type |- _ => destruct p as [j x] end.
        destruct (nf_name x); [apply ne_child_var_src|ne_auto].
      + unfold tuple_reduction_src. ne_step; [|ne_auto]. ne_step. match goal with p : (nat * tuple_field)%type |- _ => destruct p as [j x] end.
        destruct x; [apply ne_child_var_src|ne_auto].
    - destruct (ru_fieldset r); ne_auto.
  Qed.

  Lemma ne_hole_env consts digest : ne (hole_env f nm t consts digest).
  Proof.
    unfold hole_env. ne_step; [apply ne_state_count|]. ne_step; [apply ne_typedefs|]. ne_step; [apply ne_reduce_fns|].
    ne_step.
    { ne_step. unfold action_table_row_src. ne_step; [|ne_auto]. ne_step. ne_step; [apply ne_table_action|ne_auto]. }
    ne_step.
    { ne_step. unfold goto_table_row_src. ne_step; [|ne_auto]. ne_step. ne_step; [apply ne_table_goto|ne_auto]. }
    ne_step; [|ne_auto]. ne_step. unfold try_into_fn_src. ne_auto.
  Qed.
End Emit.

Lemma ne_fill env tpl : ne (fill env tpl).
Proof.
  induction tpl as [|[s|h] r IH]; cbn [fill]; [ne_auto| |].
  - ne_step; [exact IH|ne_auto].
  - ne_step; [ne_auto|]. ne_step; [exact IH|ne_auto].
Qed.


Theorem table_to_rust_no_err fuel tpl consts t f digest e : table_to_rust fuel tpl consts t f digest <> Err e.
Proof.
  revert e. change (ne (table_to_rust fuel tpl consts t f digest)).
  unfold table_to_rust. ne_step; [apply ne_make_names|]. ne_step; [apply ne_hole_env|apply ne_fill].
Qed.
