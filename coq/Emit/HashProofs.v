(* Emit/HashProofs.v — get_grammar_hash reads back the digest that the emitter
   writes into the header (C15), for the template regenerated from the source. *)
From Coq Require Import List Arith NArith Lia Bool.
From Kiki Require Import Base.Ord Base.Chars Data Ast.ValidateProofs Emit.Emit Emit.Hash.
From Kiki Require Gen.Template.
Import ListNotations.
Open Scope N_scope.

Definition no_line_break (s : str) : Prop := Forall (fun c => c <> 10 /\ c <> 13) s.

Lemma lines_go_cons c r cur :
  lines_go (c :: r) cur = if c =? 10 then rev (strip_cr_rev cur) :: lines_go r [] else lines_go r (c :: cur).
Proof.
  destruct (N.eqb_spec c 10) as [->|Hne]; [reflexivity|].
  destruct c as [|p]; [reflexivity|].
  destruct p as [p|p|]; [reflexivity| |reflexivity].
  destruct p as [p|p|]; [|reflexivity|reflexivity].
  destruct p as [p|p|]; [reflexivity| |reflexivity].
  destruct p as [p|p|]; [reflexivity|reflexivity|].
  exfalso; apply Hne; reflexivity.
Qed.

Lemma strip_cr_rev_cons c r : strip_cr_rev (c :: r) = if c =? 13 then r else c :: r.
Proof.
  destruct (N.eqb_spec c 13) as [->|Hne]; [reflexivity|].
  destruct c as [|p]; [reflexivity|].
  destruct p as [p|p|]; [|reflexivity|reflexivity].
  destruct p as [p|p|]; [reflexivity| |reflexivity].
  destruct p as [p|p|]; [|reflexivity|reflexivity].
  destruct p as [p|p|]; [reflexivity|reflexivity|].
  exfalso; apply Hne; reflexivity.
Qed.

Lemma lines_go_no_nl a : forall b cur, Forall (fun c => c <> 10) a -> lines_go (a ++ b) cur = lines_go b (rev a ++ cur).
Proof.
  induction a as [|c a IH]; intros b cur H; [reflexivity|]. inversion H as [|? ? Hc Ha]; subst.
  cbn [app rev]. rewrite lines_go_cons. destruct (N.eqb_spec c 10) as [->|_]; [contradiction|].
  rewrite IH by assumption. rewrite <- app_assoc. reflexivity.
Qed.

(* a complete line without line breaks *)
Lemma lines_line l rest : no_line_break l -> lines (l ++ 10 :: rest) = l :: lines rest.
Proof.
  intros H. unfold lines. rewrite lines_go_no_nl.
  - rewrite lines_go_cons, N.eqb_refl, app_nil_r. f_equal. unfold str, char in *.
    destruct (rev l) as [|c r] eqn:E; [apply (f_equal (@rev _)) in E; rewrite rev_involutive in E; subst; reflexivity|].
    assert (Hc : c <> 13).
    { assert (In c l) by (apply in_rev; rewrite E; left; reflexivity).
      unfold no_line_break in H. rewrite Forall_forall in H. apply (H c); assumption. }
    rewrite strip_cr_rev_cons. destruct (N.eqb_spec c 13) as [->|_]; [contradiction|].
    apply (f_equal (@rev _)) in E. rewrite rev_involutive in E. symmetry. exact E.
  - eapply Forall_impl; [|exact H]. cbn. tauto.
Qed.

Lemma strip_prefix_app p s : strip_prefix p (p ++ s) = Some s.
Proof. induction p as [|c p IH]; cbn; [reflexivity|]. rewrite N.eqb_refl. exact IH. Qed.

Lemma starts_with_app p s : starts_with p (p ++ s) = true.
Proof. induction p as [|c p IH]; cbn; [reflexivity|]. rewrite N.eqb_refl. exact IH. Qed.

(* the hash line itself *)
Theorem hash_line_found d rest : no_line_break d ->
  get_grammar_hash (hash_prefix ++ d ++ 10 :: rest) = Some d.
Proof.
  intros Hd. unfold get_grammar_hash. rewrite app_assoc. rewrite lines_line.
  - cbn [hash_in_lines].
    replace (starts_with (s2l "//") (hash_prefix ++ d)) with true by reflexivity.
    cbn [negb]. rewrite strip_prefix_app. reflexivity.
  - apply Forall_app. split; [|exact Hd]. unfold hash_prefix. cbn.
    repeat (constructor; [split; discriminate|]). constructor.
Qed.

(* a comment line before it that is not a hash line is skipped *)
Theorem comment_line_skipped l rest : no_line_break l ->
  starts_with (s2l "//") l = true -> strip_prefix hash_prefix l = None ->
  get_grammar_hash (l ++ 10 :: rest) = get_grammar_hash rest.
Proof.
  intros Hl Hs Hp. unfold get_grammar_hash. rewrite lines_line by assumption.
  cbn [hash_in_lines]. rewrite Hs, Hp. reflexivity.
Qed.

(* a line that is not a comment ends the header *)
Theorem non_comment_line_stops l rest : no_line_break l ->
  starts_with (s2l "//") l = false -> get_grammar_hash (l ++ 10 :: rest) = None.
Proof.
  intros Hl Hs. unfold get_grammar_hash. rewrite lines_line by assumption.
  cbn [hash_in_lines]. rewrite Hs. reflexivity.
Qed.

(* ---------- the header of the emitted text ---------- *)

(* split a literal into its complete lines and the unterminated rest *)
Fixpoint split_lines_lit (s : str) (cur_rev : str) : list str * str :=
  match s with
  | [] => ([], rev cur_rev)
  | c :: r => if c =? 10 then let '(ls, last) := split_lines_lit r [] in (rev cur_rev :: ls, last)
              else split_lines_lit r (c :: cur_rev)
  end.

Definition line_ok (l : str) : bool :=
  forallb (fun c => negb (c =? 10) && negb (c =? 13)) l && starts_with (s2l "//") l
  && match strip_prefix hash_prefix l with None => true | Some _ => false end.

(* the template starts: literal made of comment lines that are not hash lines, then
   "// @sha256 ", then the hole for the digest, then a literal starting with a newline *)
Definition template_header_ok (tpl : list tseg) : bool :=
  match tpl with
  | TLit h :: THole g :: TLit t :: _ =>
      let '(ls, last) := split_lines_lit (s2l h) [] in
      forallb line_ok ls && str_eqb last hash_prefix && String.eqb g "grammar_sha256"
      && match s2l t with 10 :: _ => true | _ => false end
  | _ => false
  end.

(* get_grammar_hash over a literal header followed by anything: skip the complete comment lines *)
Lemma skip_header s : forall cur ls last X,
    split_lines_lit s cur = (ls, last) ->
    match ls with
    | [] => True
    | l0 :: ls' => line_ok l0 = true /\ forallb line_ok ls' = true
    end ->
    get_grammar_hash (rev cur ++ s ++ X) = get_grammar_hash (last ++ X).
Proof.
  induction s as [|c r IH]; intros cur ls last X Hs Hok; cbn [split_lines_lit] in Hs.
  - injection Hs as <- <-. rewrite app_nil_l. reflexivity.
  - destruct (c =? 10) eqn:Ec.
    + apply N.eqb_eq in Ec. subst c.
      destruct (split_lines_lit r []) as [ls0 last0] eqn:E0. injection Hs as <- <-.
      destruct Hok as (H0 & Hrest). unfold line_ok in H0. repeat rewrite andb_true_iff in H0.
      destruct H0 as ((Hchars & Hstart) & Hnohash).
      cbn [app]. rewrite comment_line_skipped.
      * apply (IH [] ls0 last0 X E0). destruct ls0 as [|l1 ls1]; [exact I|].
        cbn [forallb] in Hrest. apply andb_true_iff in Hrest. exact Hrest.
      * unfold no_line_break. apply Forall_forall. intros x Hx. rewrite forallb_forall in Hchars.
        specialize (Hchars x Hx). apply andb_true_iff in Hchars as (A & B).
        apply negb_true_iff in A, B. apply N.eqb_neq in A, B. auto.
      * exact Hstart.
      * destruct (strip_prefix hash_prefix (rev cur)); [discriminate|reflexivity].
    + specialize (IH (c :: cur) ls last X Hs Hok). cbn [rev] in IH. rewrite <- app_assoc in IH. exact IH.
Qed.

Theorem template_roundtrip tpl env text d :
  template_header_ok tpl = true -> fill env tpl = Ok text -> env_get env "grammar_sha256" = Some d ->
  no_line_break d -> get_grammar_hash text = Some d.
Proof.
  unfold template_header_ok. destruct tpl as [|[h|?] [|[?|g] [|[t|?] rest]]]; try discriminate.
  destruct (split_lines_lit (s2l h) []) as [ls last] eqn:E. intros Hok Hfill Henv Hd.
  repeat rewrite andb_true_iff in Hok. destruct Hok as (((Hls & Hlast) & Hg) & Ht).
  apply String.eqb_eq in Hg. subst g. apply DataProofs.str_eqb_eq in Hlast. subst last.
  cbn [fill] in Hfill. apply bind_ok in Hfill as (r1 & Hr1 & Hfill). injection Hfill as <-.
  rewrite Henv in Hr1. cbn [unwrap] in Hr1. apply bind_ok in Hr1 as (d' & Hd' & Hr1). injection Hd' as <-.
  apply bind_ok in Hr1 as (r2 & Hr2 & Hr1). injection Hr1 as <-.
  apply bind_ok in Hr2 as (r3 & _ & Hr2). injection Hr2 as <-.
  destruct (s2l t) as [|c t'] eqn:Et; [discriminate|]. destruct c as [|p]; try discriminate.
  destruct p as [p|p|]; try discriminate; destruct p as [p|p|]; try discriminate;
    destruct p as [p|p|]; try discriminate; destruct p as [p|p|]; try discriminate.
  unfold S_. rewrite Et.
  assert (Hprem : match ls with [] => True | l0 :: ls' => line_ok l0 = true /\ forallb line_ok ls' = true end).
  { destruct ls as [|l0 ls']; [exact I|]. cbn [forallb] in Hls. apply andb_true_iff in Hls. exact Hls. }
  pose proof (skip_header (s2l h) [] ls hash_prefix (d ++ (10 :: t') ++ r3) E Hprem) as Hskip.
  change (get_grammar_hash (s2l h ++ d ++ (10 :: t') ++ r3) = get_grammar_hash (hash_prefix ++ d ++ (10 :: t') ++ r3)) in Hskip.
  etransitivity; [exact Hskip|]. cbn [app]. apply hash_line_found, Hd.
Qed.

(* the template of the current source has that shape *)
Theorem current_template_header_ok : template_header_ok Gen.Template.file_template = true.
Proof. vm_compute. reflexivity. Qed.
