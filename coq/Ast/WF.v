(* Ast/WF.v — specification of static well-formedness of a syntactically valid
   file (property C10), written against the AST, not against the validator. *)
From Coq Require Import List.
From Kiki Require Import Base.Ord Base.Chars Data.
Import ListNotations.

Definition start_idents (f : ast_file) : list ident :=
  flat_map (fun it => match it with IStart i => [i] | _ => [] end) f.
Definition terminal_decls (f : ast_file) : list tenum_def :=
  flat_map (fun it => match it with ITerminal t => [t] | _ => [] end) f.
Definition nonterminal_idents (f : ast_file) : list ident :=
  flat_map (fun it => match it with IStruct s => [sd_name s] | IEnum e => [ed_name e] | _ => [] end) f.
Definition terminal_variant_idents (f : ast_file) : list tident :=
  flat_map (fun t => map tv_name (td_variants t)) (terminal_decls f).
Definition enum_decls (f : ast_file) : list enum_def :=
  flat_map (fun it => match it with IEnum e => [e] | _ => [] end) f.
Definition fieldsets (f : ast_file) : list fieldset :=
  flat_map (fun it => match it with
                      | IStruct s => [sd_fieldset s]
                      | IEnum e => map ev_fieldset (ed_variants e)
                      | _ => []
                      end) f.
Definition fieldset_symbols (fs : fieldset) : list ident_or_tident :=
  match fs with
  | FEmpty => []
  | FNamed l => map nf_symbol l
  | FTuple l => map tuple_field_symbol l
  end.
Definition fieldset_field_idents (fs : fieldset) : list ident :=
  match fs with
  | FNamed l => flat_map (fun x => match nf_name x with IOUIdent i => [i] | IOUUnderscore _ => [] end) l
  | _ => []
  end.

Definition nt_names (f : ast_file) : list str := map id_name (nonterminal_idents f).
Definition t_names (f : ast_file) : list str := map ti_name (terminal_variant_idents f).
Definition tenum_names (f : ast_file) : list str := map (fun t => id_name (td_name t)) (terminal_decls f).

(* "if the name contains a letter, the first letter is upper (lower) case" *)
Definition first_letter (s : str) : option char := find is_ascii_alphabetic s.
Definition upper_ok (s : str) : Prop := forall c, first_letter s = Some c -> is_ascii_uppercase c = true.
Definition lower_ok (s : str) : Prop := forall c, first_letter s = Some c -> is_ascii_lowercase c = true.

Record WF (f : ast_file) : Prop := {
  (* exactly one start declaration, naming a defined nonterminal *)
  wf_start : exists s, start_idents f = [s] /\ In (id_name s) (nt_names f);
  (* exactly one terminal declaration *)
  wf_terminal : exists t, terminal_decls f = [t];
  (* every referenced nonterminal is a defined nonterminal, every referenced terminal a defined terminal *)
  wf_refs : forall fs sym, In fs (fieldsets f) -> In sym (fieldset_symbols fs) ->
                           match sym with
                           | IOTIdent i => In (id_name i) (nt_names f)
                           | IOTTerminal t => In (ti_name t) (t_names f)
                           end;
  (* nonterminals, terminal variants and the terminal enum: pairwise distinct names *)
  wf_top_level_distinct : NoDup (nt_names f ++ t_names f ++ tenum_names f);
  (* per enum: distinct variant names and distinct field-symbol sequences *)
  wf_variant_names : forall e, In e (enum_decls f) -> NoDup (map (fun v => id_name (ev_name v)) (ed_variants e));
  wf_variant_sequences : forall e, In e (enum_decls f) ->
                                   NoDup (map (fun v => field_symbols (ev_fieldset v)) (ed_variants e));
  (* capitalisation *)
  wf_upper_nonterminals : forall i, In i (nonterminal_idents f) -> upper_ok (id_name i);
  wf_upper_variants : forall e v, In e (enum_decls f) -> In v (ed_variants e) -> upper_ok (id_name (ev_name v));
  wf_upper_terminals : forall t, In t (terminal_variant_idents f) -> upper_ok (ti_name t);
  wf_upper_tenum : forall t, In t (terminal_decls f) -> upper_ok (id_name (td_name t));
  wf_lower_fields : forall fs i, In fs (fieldsets f) -> In i (fieldset_field_idents fs) -> lower_ok (id_name i)
}.
