(* Ast/Truthful.v — the second half of C10: when validate_ast rejects, the error it returns
   describes a violation that is really present in the file, at the positions it names.
   `truthful f e` is written against the AST (Ast/WF.v vocabulary), not against the validator. *)
From Coq Require Import List Arith NArith Lia Bool.
From Kiki Require Import Base.Ord Base.Chars Data DataProofs Ast.Validate Ast.WF Ast.ValidateProofs.
Import ListNotations.

(* ---------- what an error claims ---------- *)

(* top-level declarations in the order the validator meets them *)
Definition nt_decls (f : ast_file) : list (str * N) := map (fun i => (id_name i, id_pos i)) (nonterminal_idents f).
Definition tv_decls (vs : list tenum_variant) : list (str * N) := map (fun v => (ti_name (tv_name v), ti_dpos (tv_name v))) vs.
Definition tenum_decl (t : tenum_def) : (str * N) := (id_name (td_name t), id_pos (td_name t)).
Definition decls (f : ast_file) : list (str * N) :=
  nt_decls f ++ flat_map (fun t => tv_decls (td_variants t)) (terminal_decls f) ++ map tenum_decl (terminal_decls f).

(* two different occurrences of a key, the first one before the second *)
Definition dups {K V} (l : list (K * V)) (k : K) (v1 v2 : V) : Prop :=
  exists l1 l2 l3, l = l1 ++ (k, v1) :: l2 ++ (k, v2) :: l3.

Definition variant_idents (f : ast_file) : list ident := flat_map (fun e => map ev_name (ed_variants e)) (enum_decls f).

Definition truthful (f : ast_file) (e : kiki_err) : Prop :=
  match e with
  | ENoTerminalEnum => terminal_decls f = []
  | EMultipleTerminalEnums ps => (2 <= length (terminal_decls f))%nat /\ ps = map (fun t => id_pos (td_name t)) (terminal_decls f)
  | ENoStartSymbol => start_idents f = []
  | EMultipleStartSymbols ps => (2 <= length (start_idents f))%nat /\ ps = map id_pos (start_idents f)
  | EUndefinedNonterminal n p =>
      ~ In n (nt_names f) /\
      ((exists s, In s (start_idents f) /\ id_name s = n /\ id_pos s = p) \/
       (exists fs i, In fs (fieldsets f) /\ In (IOTIdent i) (fieldset_symbols fs) /\ id_name i = n /\ id_pos i = p))
  | EUndefinedTerminal n p =>
      ~ In n (t_names f) /\
      exists fs t, In fs (fieldsets f) /\ In (IOTTerminal t) (fieldset_symbols fs) /\ ti_name t = n /\ ti_dpos t = p
  | ENameClash n p1 p2 => dups (decls f) n p1 p2
  | ESymbolNotUppercase p =>
      exists n, ~ upper_ok n /\
                (In (n, p) (decls f) \/ exists i, In i (variant_idents f) /\ id_name i = n /\ id_pos i = p)
  | EFieldNotLowercase p =>
      exists fs i, In fs (fieldsets f) /\ In i (fieldset_field_idents fs) /\ id_pos i = p /\ ~ lower_ok (id_name i)
  | EVariantNameClash n p1 p2 =>
      exists e, In e (enum_decls f) /\ dups (map (fun v => (id_name (ev_name v), id_pos (ev_name v))) (ed_variants e)) n p1 p2
  | EVariantSeqClash syms p1 p2 =>
      exists e, In e (enum_decls f) /\ dups (map (fun v => (field_symbols (ev_fieldset v), id_pos (ev_name v))) (ed_variants e)) syms p1 p2
  | ELex _ _ | EParse _ _ _ | ETableConflict _ => False
  end.

(* ---------- helpers ---------- *)

Lemma bind_err {A B} (r : res A) (k : A -> res B) e : bind r k = Err e -> r = Err e \/ exists a, r = Ok a /\ k a = Err e.
Proof. destruct r; cbn; intros H; try discriminate; [right; eauto|left; injection H as ->; reflexivity]. Qed.

Lemma dups_app_r {K V} (l l' : list (K * V)) k v1 v2 : dups l k v1 v2 -> dups (l ++ l') k v1 v2.
Proof. intros (l1 & l2 & l3 & ->). exists l1, l2, (l3 ++ l'). rewrite <- !app_assoc. cbn. rewrite <- !app_assoc. reflexivity. Qed.

Lemma dups_app_l {K V} (l l' : list (K * V)) k v1 v2 : dups l k v1 v2 -> dups (l' ++ l) k v1 v2.
Proof. intros (l1 & l2 & l3 & ->). exists (l' ++ l1), l2, l3. rewrite <- !app_assoc. reflexivity. Qed.

Lemma dups_snoc {K V} (pre rest : list (K * V)) k v1 v2 : In (k, v1) pre -> dups (pre ++ (k, v2) :: rest) k v1 v2.
Proof. intros H. apply in_split in H as (l1 & l2 & ->). exists l1, l2, rest. rewrite <- app_assoc. reflexivity. Qed.

Lemma upper_err name pos e : validate_uppercase_start name pos = Err e -> e = ESymbolNotUppercase pos /\ ~ upper_ok name.
Proof.
  unfold validate_uppercase_start, upper_ok, first_letter. destruct (find is_ascii_alphabetic name) as [c|]; [|discriminate].
  destruct (is_ascii_uppercase c) eqn:E; [discriminate|]. intros H; injection H as <-. split; [reflexivity|].
  intros H. specialize (H c eq_refl). congruence.
Qed.

Lemma lower_err name pos e : assert_lowercase_start name pos = Err e -> e = EFieldNotLowercase pos /\ ~ lower_ok name.
Proof.
  unfold assert_lowercase_start, lower_ok, first_letter. destruct (find is_ascii_alphabetic name) as [c|]; [|discriminate].
  destruct (is_ascii_lowercase c) eqn:E; [discriminate|]. intros H; injection H as <-. split; [reflexivity|].
  intros H. specialize (H c eq_refl). congruence.
Qed.

Lemma seen_get_some m k p : seen_get m k = Some p -> In (k, p) m.
Proof.
  induction m as [|[k' v] m IH]; cbn; [discriminate|]. destruct (str_eqb k k') eqn:E.
  - apply str_eqb_eq in E. subst. intros H; injection H as ->. left. reflexivity.
  - intros H. right. apply IH, H.
Qed.

(* a run of define_name over a list of declarations *)
Fixpoint define_all (seen : seen_map) (l : list (str * N)) : res seen_map :=
  match l with
  | [] => Ok seen
  | (n, p) :: r => do seen' <- define_name seen n p; define_all seen' r
  end.

Lemma define_all_spec l : forall pre,
  match define_all (rev pre) l with
  | Ok seen' => seen' = rev (pre ++ l)
  | Err e => exists n p0 p, e = ENameClash n p0 p /\ dups (pre ++ l) n p0 p
  | _ => False
  end.
Proof.
  induction l as [|[n p] l IH]; intros pre; cbn [define_all].
  - rewrite app_nil_r. reflexivity.
  - unfold define_name. destruct (seen_get (rev pre) n) as [p0|] eqn:E; cbn [bind].
    + exists n, p0, p. split; [reflexivity|]. apply dups_snoc. apply in_rev. apply seen_get_some, E.
    + specialize (IH (pre ++ [(n, p)])). rewrite rev_app_distr in IH. cbn [rev app] in IH.
      rewrite <- app_assoc in IH. exact IH.
Qed.

Lemma define_nonterminals_all f : forall seen, define_nonterminals seen f = define_all seen (nt_decls f).
Proof.
  induction f as [|it f IH]; intros seen; [reflexivity|].
  destruct it as [i|s|e|t]; cbn [define_nonterminals]; unfold nt_decls, nonterminal_idents; cbn [flat_map map app define_all];
    fold (nonterminal_idents f); fold (nt_decls f); try apply IH.
  - destruct (define_name seen (id_name (sd_name s)) (id_pos (sd_name s))); cbn [bind]; auto.
  - destruct (define_name seen (id_name (ed_name e)) (id_pos (ed_name e))); cbn [bind]; auto.
Qed.

Lemma define_terminal_variants_all vs : forall seen, define_terminal_variants seen vs = define_all seen (tv_decls vs).
Proof.
  induction vs as [|v vs IH]; intros seen; [reflexivity|]. cbn [define_terminal_variants tv_decls map define_all].
  destruct (define_name seen _ _); cbn [bind]; auto.
Qed.

Lemma define_all_app l1 l2 seen : define_all seen (l1 ++ l2) = bind (define_all seen l1) (fun s => define_all s l2).
Proof.
  revert seen; induction l1 as [|[n p] l1 IH]; intros seen; [reflexivity|]. cbn [app define_all].
  destruct (define_name seen n p); cbn [bind]; auto.
Qed.

(* ---------- terminal enum / start ---------- *)

Lemma get_unvalidated_terminal_enum_err f e : get_unvalidated_terminal_enum f = Err e -> truthful f e.
Proof.
  unfold get_unvalidated_terminal_enum. change (terminal_defs f) with (terminal_decls f).
  destruct (terminal_decls f) as [|t0 [|t1 l]] eqn:E; intros H; try discriminate; injection H as <-; cbn [truthful].
  - exact E.
  - rewrite E. split; [cbn; lia|reflexivity].
Qed.

Lemma decls_single f t : terminal_decls f = [t] -> decls f = nt_decls f ++ tv_decls (td_variants t) ++ [tenum_decl t].
Proof. intros H. unfold decls. rewrite H. cbn [flat_map map]. rewrite app_nil_r. reflexivity. Qed.

Lemma get_terminal_enum_err f e : get_terminal_enum f = Err e -> truthful f e.
Proof.
  unfold get_terminal_enum. intros H. apply bind_err in H as [H|(d & Hd & H)]; [apply get_unvalidated_terminal_enum_err, H|].
  pose proof (get_unvalidated_terminal_enum_ok f d Hd) as Htd.
  unfold validate_terminal_def, validate_ident_uppercase_start in H. apply bind_err in H as [H|([] & _ & H)].
  - apply upper_err in H as (-> & Hn). cbn [truthful]. exists (id_name (td_name d)). split; [exact Hn|]. left.
    rewrite (decls_single f d Htd). apply in_or_app. right. apply in_or_app. right. left. reflexivity.
  - apply bind_err in H as [H|(vs & _ & H)]; [|discriminate].
    assert (Hv : exists v, In v (td_variants d) /\ validate_variant_capitalization v = Err e).
    { revert H. induction (td_variants d) as [|v l IH]; cbn [map_res]; [discriminate|]. intros H.
      apply bind_err in H as [H|(y & _ & H)]; [exists v; split; [left; reflexivity|exact H]|].
      apply bind_err in H as [H|(ys & _ & H)]; [|discriminate]. destruct (IH H) as (v' & Hin & Hv'). exists v'. split; [right; exact Hin|exact Hv']. }
    destruct Hv as (v & Hin & Hv). unfold validate_variant_capitalization in Hv. apply bind_err in Hv as [Hv|([] & _ & Hv)]; [|discriminate].
    apply upper_err in Hv as (-> & Hn). cbn [truthful]. exists (ti_name (tv_name v)). split; [exact Hn|]. left.
    rewrite (decls_single f d Htd). apply in_or_app. right. apply in_or_app. left. unfold tv_decls.
    apply in_map_iff. exists v. auto.
Qed.

Lemma get_start_symbol_name_err f nts e : map nt_name nts = nt_names f -> get_start_symbol_name f nts = Err e -> truthful f e.
Proof.
  intros Hn. unfold get_start_symbol_name. change (starts_of f) with (start_idents f).
  destruct (start_idents f) as [|s [|s' l]] eqn:E; intros H.
  - injection H as <-. exact E.
  - destruct (existsb (fun n => str_eqb (nt_name n) (id_name s)) nts) eqn:Ex; [discriminate|]. injection H as <-.
    cbn [truthful]. split.
    + intros Hin. rewrite <- Hn in Hin. apply in_map_iff in Hin as (n & Hnn & Hin).
      assert (existsb (fun n => str_eqb (nt_name n) (id_name s)) nts = true).
      { apply existsb_exists. exists n. split; [exact Hin|]. rewrite Hnn. apply str_eqb_refl. }
      congruence.
    + left. exists s. rewrite E. split; [left; reflexivity|auto].
  - injection H as <-. cbn [truthful]. rewrite E. split; [cbn; lia|reflexivity].
Qed.

(* ---------- names ---------- *)

Lemma get_defined_symbol_positions_spec f :
  match get_defined_symbol_positions f with
  | Ok seen => exists t, terminal_decls f = [t] /\ seen = rev (nt_decls f ++ tv_decls (td_variants t))
  | Err e => truthful f e
  | _ => False
  end.
Proof.
  unfold get_defined_symbol_positions. rewrite define_nonterminals_all.
  pose proof (define_all_spec (nt_decls f) []) as H1. cbn [rev app] in H1.
  destruct (define_all [] (nt_decls f)) as [seen|e|?|?]; cbn [bind]; try contradiction.
  - subst seen. destruct (get_unvalidated_terminal_enum f) as [t|e|?|?] eqn:Et; cbn [bind].
    + pose proof (get_unvalidated_terminal_enum_ok f t Et) as Htd. rewrite define_terminal_variants_all.
      pose proof (define_all_spec (tv_decls (td_variants t)) (nt_decls f)) as H2.
      destruct (define_all (rev (nt_decls f)) (tv_decls (td_variants t))) as [seen|e|?|?]; try contradiction.
      * exists t. auto.
      * destruct H2 as (n & p0 & p & -> & Hd). cbn [truthful]. rewrite (decls_single f t Htd). rewrite app_assoc. apply dups_app_r, Hd.
    + apply get_unvalidated_terminal_enum_err, Et.
    + clear -Et. unfold get_unvalidated_terminal_enum in Et. destruct (terminal_defs f) as [|? [|? ?]]; discriminate.
    + clear -Et. unfold get_unvalidated_terminal_enum in Et. destruct (terminal_defs f) as [|? [|? ?]]; discriminate.
  - destruct H1 as (n & p0 & p & -> & Hd). cbn [truthful]. unfold decls. apply dups_app_r, Hd.
Qed.

Lemma assert_no_top_level_name_clashes_err f e : assert_no_top_level_name_clashes f = Err e -> truthful f e.
Proof.
  unfold assert_no_top_level_name_clashes. intros H. pose proof (get_defined_symbol_positions_spec f) as Hs.
  destruct (get_defined_symbol_positions f) as [seen|e'|?|?]; cbn [bind] in H; try discriminate.
  - destruct Hs as (t & Htd & ->). apply bind_err in H as [H|(te & Hte & H)]; [apply get_unvalidated_terminal_enum_err, H|].
    apply get_unvalidated_terminal_enum_ok in Hte. rewrite Htd in Hte. injection Hte as <-.
    apply bind_err in H as [H|(? & _ & H)]; [|discriminate]. unfold define_name in H.
    destruct (seen_get _ _) as [p0|] eqn:E; [|discriminate]. injection H as <-. cbn [truthful].
    rewrite (decls_single f t Htd). rewrite app_assoc. apply dups_snoc. apply in_rev. apply seen_get_some, E.
  - injection H as <-. exact Hs.
Qed.

Lemma get_defined_symbols_err f e : get_defined_symbols f = Err e -> truthful f e.
Proof.
  unfold get_defined_symbols. intros H. pose proof (get_defined_symbol_positions_spec f) as Hs.
  destruct (get_defined_symbol_positions f) as [seen|e'|?|?]; cbn [bind] in H; try discriminate.
  - apply bind_err in H as [H|(te & _ & H)]; [apply get_unvalidated_terminal_enum_err, H|discriminate].
  - injection H as <-. exact Hs.
Qed.

(* ---------- fieldsets and variants ---------- *)

Section Items.
  Variable f : ast_file.
  Variable ds : defined_symbols.
  Hypothesis Hdn : ds_nonterminals ds = nt_names f.
  Hypothesis Hdt : ds_terminals ds = t_names f.

  Lemma for_each_err {A} (g : A -> res unit) l e : for_each g l = Err e -> exists x, In x l /\ g x = Err e.
  Proof.
    induction l as [|x l IH]; cbn [for_each]; [discriminate|]. intros H. apply bind_err in H as [H|([] & _ & H)].
    - exists x. split; [left; reflexivity|exact H].
    - destruct (IH H) as (y & Hy & Hg). exists y. split; [right; exact Hy|exact Hg].
  Qed.

  Lemma assert_symbol_is_defined_err fs s e : In fs (fieldsets f) -> In s (fieldset_symbols fs) ->
    assert_symbol_is_defined s ds = Err e -> truthful f e.
  Proof.
    intros Hfs Hs. unfold assert_symbol_is_defined. destruct s as [i|t].
    - destruct (mem_str (id_name i) (ds_nonterminals ds)) eqn:E; [discriminate|]. intros H; injection H as <-. cbn [truthful]. split.
      + intros Hin. rewrite <- Hdn in Hin. apply mem_str_In in Hin. congruence.
      + right. exists fs, i. auto.
    - destruct (mem_str (ti_name t) (ds_terminals ds)) eqn:E; [discriminate|]. intros H; injection H as <-. cbn [truthful]. split.
      + intros Hin. rewrite <- Hdt in Hin. apply mem_str_In in Hin. congruence.
      + exists fs, t. auto.
  Qed.

  Lemma assert_fieldset_is_valid_err fs e : In fs (fieldsets f) -> assert_fieldset_is_valid fs ds = Err e -> truthful f e.
  Proof.
    intros Hfs. unfold assert_fieldset_is_valid. destruct fs as [|l|l]; [discriminate| |]; intros H; apply for_each_err in H as (x & Hx & H).
    - unfold assert_named_field_valid in H. apply bind_err in H as [H|([] & _ & H)].
      + destruct (nf_name x) as [i|p] eqn:En; [|discriminate]. apply lower_err in H as (-> & Hn). cbn [truthful].
        exists (FNamed l), i. split; [exact Hfs|]. split; [|auto]. cbn. apply in_flat_map. exists x. split; [exact Hx|]. rewrite En. left. reflexivity.
      + apply (assert_symbol_is_defined_err (FNamed l) (nf_symbol x)); [exact Hfs|cbn; apply in_map, Hx|exact H].
    - apply (assert_symbol_is_defined_err (FTuple l) (tuple_field_symbol x)); [exact Hfs|cbn; apply in_map, Hx|exact H].
  Qed.

  Lemma variants_unique_names_spec vs : forall pre,
    match variants_unique_names (rev pre) vs with
    | Ok _ => True
    | Err e => exists n p0 p, e = EVariantNameClash n p0 p /\
                              dups (pre ++ map (fun v => (id_name (ev_name v), id_pos (ev_name v))) vs) n p0 p
    | _ => False
    end.
  Proof.
    induction vs as [|v vs IH]; intros pre; cbn [variants_unique_names]; [exact I|].
    destruct (seen_get (rev pre) (id_name (ev_name v))) as [p0|] eqn:E.
    - exists (id_name (ev_name v)), p0, (id_pos (ev_name v)). split; [reflexivity|]. cbn [map]. apply dups_snoc, in_rev, seen_get_some, E.
    - specialize (IH (pre ++ [(id_name (ev_name v), id_pos (ev_name v))])). rewrite rev_app_distr in IH. cbn [rev app] in IH.
      cbn [map]. rewrite <- app_assoc in IH. exact IH.
  Qed.

  Lemma seq_get_some m k p : seq_get m k = Some p -> In (k, p) m.
  Proof.
    induction m as [|[k' v] m IH]; cbn; [discriminate|]. destruct (symseq_eqb k k') eqn:E.
    - apply symseq_eqb_eq in E. subst. intros H; injection H as ->. left. reflexivity.
    - intros H. right. apply IH, H.
  Qed.

  Lemma variants_unique_sequences_spec vs : forall pre,
    match variants_unique_sequences (rev pre) vs with
    | Ok _ => True
    | Err e => exists s p0 p, e = EVariantSeqClash s p0 p /\
                              dups (pre ++ map (fun v => (field_symbols (ev_fieldset v), id_pos (ev_name v))) vs) s p0 p
    | _ => False
    end.
  Proof.
    induction vs as [|v vs IH]; intros pre; cbn [variants_unique_sequences]; [exact I|].
    destruct (seq_get (rev pre) (field_symbols (ev_fieldset v))) as [p0|] eqn:E.
    - exists (field_symbols (ev_fieldset v)), p0, (id_pos (ev_name v)). split; [reflexivity|]. cbn [map]. apply dups_snoc, in_rev, seq_get_some, E.
    - specialize (IH (pre ++ [(field_symbols (ev_fieldset v), id_pos (ev_name v))])). rewrite rev_app_distr in IH. cbn [rev app] in IH.
      cbn [map]. rewrite <- app_assoc in IH. exact IH.
  Qed.

  Lemma In_nt_decls it : In it f ->
    match it with
    | IStruct s => In (id_name (sd_name s), id_pos (sd_name s)) (decls f)
    | IEnum e => In (id_name (ed_name e), id_pos (ed_name e)) (decls f)
    | _ => True
    end.
  Proof.
    intros Hit. destruct it as [i|s|e|t]; try exact I; unfold decls; apply in_or_app; left; unfold nt_decls; apply in_map_iff.
    - exists (sd_name s). split; [reflexivity|]. unfold nonterminal_idents. apply in_flat_map. exists (IStruct s). split; [exact Hit|left; reflexivity].
    - exists (ed_name e). split; [reflexivity|]. unfold nonterminal_idents. apply in_flat_map. exists (IEnum e). split; [exact Hit|left; reflexivity].
  Qed.

  Lemma validate_nonterminal_err it e : In it f -> validate_nonterminal ds it = Err e -> truthful f e.
  Proof.
    intros Hit. pose proof (In_nt_decls it Hit) as Hdecl. destruct it as [i|s|en|t]; cbn [validate_nonterminal]; try discriminate; intros H.
    - unfold validate_ident_uppercase_start in H. apply bind_err in H as [H|([] & _ & H)].
      + apply upper_err in H as (-> & Hn). cbn [truthful]. exists (id_name (sd_name s)). auto.
      + apply bind_err in H as [H|([] & _ & H)]; [|discriminate].
        apply (assert_fieldset_is_valid_err (sd_fieldset s)); [|exact H]. unfold fieldsets. apply in_flat_map. exists (IStruct s). split; [exact Hit|left; reflexivity].
    - unfold validate_ident_uppercase_start in H. apply bind_err in H as [H|([] & _ & H)].
      + apply upper_err in H as (-> & Hn). cbn [truthful]. exists (id_name (ed_name en)). auto.
      + apply bind_err in H as [H|([] & _ & H)]; [|discriminate].
        assert (He : In en (enum_decls f)) by (unfold enum_decls; apply in_flat_map; exists (IEnum en); split; [exact Hit|left; reflexivity]).
        unfold assert_variants_are_valid in H. apply bind_err in H as [H|([] & _ & H)].
        { pose proof (variants_unique_names_spec (ed_variants en) []) as Hs. cbn [rev app] in Hs. rewrite H in Hs.
          destruct Hs as (n & p0 & p & -> & Hd). cbn [truthful]. exists en. auto. }
        apply bind_err in H as [H|([] & _ & H)].
        { pose proof (variants_unique_sequences_spec (ed_variants en) []) as Hs. cbn [rev app] in Hs. rewrite H in Hs.
          destruct Hs as (sq & p0 & p & -> & Hd). cbn [truthful]. exists en. auto. }
        apply for_each_err in H as (v & Hv & H). unfold validate_ident_uppercase_start in H. apply bind_err in H as [H|([] & _ & H)].
        * apply upper_err in H as (-> & Hn). cbn [truthful]. exists (id_name (ev_name v)). split; [exact Hn|]. right.
          exists (ev_name v). split; [|auto]. unfold variant_idents. apply in_flat_map. exists en. split; [exact He|apply in_map, Hv].
        * apply (assert_fieldset_is_valid_err (ev_fieldset v)); [|exact H]. unfold fieldsets. apply in_flat_map. exists (IEnum en).
          split; [exact Hit|apply in_map, Hv].
  Qed.
End Items.

Lemma map_res_err {A B} (g : A -> res B) l e : map_res g l = Err e -> exists x, In x l /\ g x = Err e.
Proof.
  induction l as [|x l IH]; cbn [map_res]; [discriminate|]. intros H. apply bind_err in H as [H|(y & _ & H)].
  - exists x. split; [left; reflexivity|exact H].
  - apply bind_err in H as [H|(ys & _ & H)]; [|discriminate]. destruct (IH H) as (z & Hz & Hg). exists z. split; [right; exact Hz|exact Hg].
Qed.

Lemma get_nonterminals_err f e : get_nonterminals f = Err e -> truthful f e.
Proof.
  unfold get_nonterminals. intros H. apply bind_err in H as [H|(ds & Hds & H)]; [apply get_defined_symbols_err, H|].
  apply get_defined_symbols_ok in Hds as (te & _ & Hdn & Hdt).
  apply bind_err in H as [H|(l & _ & H)]; [|discriminate]. apply map_res_err in H as (it & Hit & H).
  eapply validate_nonterminal_err; eauto.
Qed.

(* ---------- the theorem ---------- *)

Theorem validate_ast_err_truthful f e : validate_ast f = Err e -> truthful f e.
Proof.
  unfold validate_ast. intros H. apply bind_err in H as [H|(te & _ & H)]; [apply get_terminal_enum_err, H|].
  apply bind_err in H as [H|(nts & Hnts & H)]; [apply get_nonterminals_err, H|].
  apply get_nonterminals_ok in Hnts as (ds & _ & _ & ->).
  apply bind_err in H as [H|(start & _ & H)]; [apply (get_start_symbol_name_err f _ e (nts_names f) H)|].
  apply bind_err in H as [H|([] & _ & H)]; [apply assert_no_top_level_name_clashes_err, H|discriminate].
Qed.
