(* Ast/Validate.v — executable model of kiki/src/pipeline/validate_ast/*.rs and
   unexpected_token_or_eof_to_kiki_err.rs.  HashMap `seen` tables that are only
   looked up are association lists.  No proofs. *)
From Kiki Require Import Base.Ord Base.Chars Data.
Open Scope N_scope.

(* ---------- unexpected_token_or_eof_to_kiki_err.rs ---------- *)

Definition token_start (t : token) : res N :=
  match t with
  | TUnderscore p => Ok p
  | TIdent i => Ok (id_pos i)
  | TTerminalIdent i =>
      if ti_dpos i <? 1 then Panic "Token::start: dollarless_position - 1 underflow" else Ok (ti_dpos i - 1)
  | TOuterAttribute a => Ok (at_pos a)
  | TStartKw p | TStructKw p | TEnumKw p | TTerminalKw p
  | TColon p | TDoubleColon p | TComma p
  | TLParen p | TRParen p | TLCurly p | TRCurly p | TLAngle p | TRAngle p => Ok p
  end.

Definition token_content_len (t : token) : N :=
  match t with
  | TUnderscore _ => 1
  | TIdent i => blen (id_name i)
  | TTerminalIdent i => 1 + blen (ti_name i)
  | TOuterAttribute a => blen (at_src a)
  | TStartKw _ => 5 | TStructKw _ => 6 | TEnumKw _ => 4 | TTerminalKw _ => 8
  | TColon _ => 1 | TDoubleColon _ => 2 | TComma _ => 1
  | TLParen _ | TRParen _ | TLCurly _ | TRCurly _ | TLAngle _ | TRAngle _ => 1
  end.

Definition unexpected_to_err (unexpected : option token) (src : str) : res kiki_err :=
  match unexpected with
  | None => Ok (EParse (blen src) [] (blen src))
  | Some t =>
      do s <- token_start t;
      let e := s + token_content_len t in
      do content <- unwrap "unexpected_token: src[start..end]" (slice src s e);
      Ok (EParse s content e)
  end.

(* ---------- validate_ast/mod.rs ---------- *)

Definition validate_uppercase_start (name : str) (pos : N) : res unit :=
  match find is_ascii_alphabetic name with
  | None => Ok tt
  | Some c => if is_ascii_uppercase c then Ok tt else Err (ESymbolNotUppercase pos)
  end.

Definition validate_ident_uppercase_start (i : ident) : res unit :=
  validate_uppercase_start (id_name i) (id_pos i).

(* ---------- validate_ast/type_to_string.rs ---------- *)

Definition path_to_string (p : list ident) : str := join (s2l "::") (map id_name p).

Fixpoint type_to_string (t : type) : str :=
  match t with
  | TyUnit => s2l "()"
  | TyPath p => path_to_string p
  | TyComplex callee args =>
      path_to_string callee ++ s2l "<" ++ join (s2l ", ") (map type_to_string args) ++ s2l ">"
  end.

(* ---------- validate_ast/terminal_enum.rs ---------- *)

Definition terminal_defs (f : ast_file) : list tenum_def :=
  flat_map (fun it => match it with ITerminal t => [t] | _ => [] end) f.

Definition get_unvalidated_terminal_enum (f : ast_file) : res tenum_def :=
  match terminal_defs f with
  | [] => Err ENoTerminalEnum
  | [t] => Ok t
  | ts => Err (EMultipleTerminalEnums (map (fun t => id_pos (td_name t)) ts))
  end.

Definition validate_variant_capitalization (v : tenum_variant) : res tvariant :=
  do _ <- validate_uppercase_start (ti_name (tv_name v)) (ti_dpos (tv_name v));
  Ok {| tvr_name := filter (fun c => negb (c =? ch "$")) (ti_name (tv_name v));
        tvr_type := type_to_string (tv_type v) |}.

Definition validate_terminal_def (d : tenum_def) : res vtenum :=
  do _ <- validate_ident_uppercase_start (td_name d);
  do vs <- map_res validate_variant_capitalization (td_variants d);
  Ok {| vt_attrs := td_attrs d; vt_name := id_name (td_name d); vt_variants := vs |}.

Definition get_terminal_enum (f : ast_file) : res vtenum :=
  do d <- get_unvalidated_terminal_enum f;
  validate_terminal_def d.

(* ---------- validate_ast/defined_identifiers.rs ---------- *)

Definition seen_map := list (str * N).

Fixpoint seen_get (m : seen_map) (k : str) : option N :=
  match m with
  | [] => None
  | (k', v) :: r => if str_eqb k k' then Some v else seen_get r k
  end.

Definition define_name (seen : seen_map) (name : str) (pos : N) : res seen_map :=
  match seen_get seen name with
  | Some p => Err (ENameClash name p pos)
  | None => Ok ((name, pos) :: seen)
  end.

Fixpoint define_nonterminals (seen : seen_map) (f : ast_file) : res seen_map :=
  match f with
  | [] => Ok seen
  | IStruct s :: r => do seen' <- define_name seen (id_name (sd_name s)) (id_pos (sd_name s));
                      define_nonterminals seen' r
  | IEnum e :: r => do seen' <- define_name seen (id_name (ed_name e)) (id_pos (ed_name e));
                    define_nonterminals seen' r
  | _ :: r => define_nonterminals seen r
  end.

Fixpoint define_terminal_variants (seen : seen_map) (vs : list tenum_variant) : res seen_map :=
  match vs with
  | [] => Ok seen
  | v :: r => do seen' <- define_name seen (ti_name (tv_name v)) (ti_dpos (tv_name v));
              define_terminal_variants seen' r
  end.

Definition get_defined_symbol_positions (f : ast_file) : res seen_map :=
  do seen <- define_nonterminals [] f;
  do te <- get_unvalidated_terminal_enum f;
  define_terminal_variants seen (td_variants te).

(* repaired (F4): nonterminal names and terminal names are kept apart *)
Record defined_symbols := { ds_nonterminals : list str; ds_terminals : list str }.

Definition nonterminal_names (f : ast_file) : list str :=
  flat_map (fun it => match it with
                      | IStruct s => [id_name (sd_name s)]
                      | IEnum e => [id_name (ed_name e)]
                      | _ => []
                      end) f.

Definition get_defined_symbols (f : ast_file) : res defined_symbols :=
  do _ <- get_defined_symbol_positions f;
  do te <- get_unvalidated_terminal_enum f;
  Ok {| ds_nonterminals := nonterminal_names f;
        ds_terminals := map (fun v => ti_name (tv_name v)) (td_variants te) |}.

Definition assert_no_top_level_name_clashes (f : ast_file) : res unit :=
  do seen <- get_defined_symbol_positions f;
  do te <- get_unvalidated_terminal_enum f;
  do _ <- define_name seen (id_name (td_name te)) (id_pos (td_name te));
  Ok tt.

(* ---------- validate_ast/nonterminals.rs ---------- *)

Definition assert_lowercase_start (name : str) (pos : N) : res unit :=
  match find is_ascii_alphabetic name with
  | None => Ok tt
  | Some c => if is_ascii_lowercase c then Ok tt else Err (EFieldNotLowercase pos)
  end.

Definition assert_symbol_is_defined (s : ident_or_tident) (ds : defined_symbols) : res unit :=
  match s with
  | IOTIdent i =>
      if mem_str (id_name i) (ds_nonterminals ds) then Ok tt
      else Err (EUndefinedNonterminal (id_name i) (id_pos i))
  | IOTTerminal t =>
      if mem_str (ti_name t) (ds_terminals ds) then Ok tt
      else Err (EUndefinedTerminal (ti_name t) (ti_dpos t))
  end.

Definition assert_named_field_valid (ds : defined_symbols) (f : named_field) : res unit :=
  do _ <- match nf_name f with
          | IOUUnderscore _ => Ok tt
          | IOUIdent i => assert_lowercase_start (id_name i) (id_pos i)
          end;
  assert_symbol_is_defined (nf_symbol f) ds.

Definition assert_fieldset_is_valid (fs : fieldset) (ds : defined_symbols) : res unit :=
  match fs with
  | FEmpty => Ok tt
  | FNamed l => for_each (assert_named_field_valid ds) l
  | FTuple l => for_each (fun f => assert_symbol_is_defined (tuple_field_symbol f) ds) l
  end.

Fixpoint variants_unique_names (seen : seen_map) (vs : list enum_variant) : res unit :=
  match vs with
  | [] => Ok tt
  | v :: r =>
      let name := id_name (ev_name v) in
      let pos := id_pos (ev_name v) in
      match seen_get seen name with
      | Some p => Err (EVariantNameClash name p pos)
      | None => variants_unique_names ((name, pos) :: seen) r
      end
  end.

Definition symseq_eqb (a b : list symbol) : bool := is_eq (lcmp symbol_cmp a b).

Fixpoint seq_get (m : list (list symbol * N)) (k : list symbol) : option N :=
  match m with
  | [] => None
  | (k', v) :: r => if symseq_eqb k k' then Some v else seq_get r k
  end.

Fixpoint variants_unique_sequences (seen : list (list symbol * N)) (vs : list enum_variant) : res unit :=
  match vs with
  | [] => Ok tt
  | v :: r =>
      let seq := field_symbols (ev_fieldset v) in
      let pos := id_pos (ev_name v) in
      match seq_get seen seq with
      | Some p => Err (EVariantSeqClash seq p pos)
      | None => variants_unique_sequences ((seq, pos) :: seen) r
      end
  end.

Definition assert_variants_are_valid (vs : list enum_variant) (ds : defined_symbols) : res unit :=
  do _ <- variants_unique_names [] vs;
  do _ <- variants_unique_sequences [] vs;
  for_each (fun v => do _ <- validate_ident_uppercase_start (ev_name v);
                     assert_fieldset_is_valid (ev_fieldset v) ds) vs.

Definition validate_nonterminal (ds : defined_symbols) (it : file_item) : res (list nonterminal) :=
  match it with
  | IStruct s =>
      do _ <- validate_ident_uppercase_start (sd_name s);
      do _ <- assert_fieldset_is_valid (sd_fieldset s) ds;
      Ok [NStruct s]
  | IEnum e =>
      do _ <- validate_ident_uppercase_start (ed_name e);
      do _ <- assert_variants_are_valid (ed_variants e) ds;
      Ok [NEnum e]
  | _ => Ok []
  end.

Definition get_nonterminals (f : ast_file) : res (list nonterminal) :=
  do ds <- get_defined_symbols f;
  do l <- map_res (validate_nonterminal ds) f;
  Ok (concat l).

(* ---------- validate_ast/start_symbol.rs ---------- *)

Definition starts_of (f : ast_file) : list ident :=
  flat_map (fun it => match it with IStart i => [i] | _ => [] end) f.

Definition get_start_symbol_name (f : ast_file) (nts : list nonterminal) : res str :=
  match starts_of f with
  | [] => Err ENoStartSymbol
  | [s] =>
      if existsb (fun n => str_eqb (nt_name n) (id_name s)) nts then Ok (id_name s)
      else Err (EUndefinedNonterminal (id_name s) (id_pos s))
  | ss => Err (EMultipleStartSymbols (map id_pos ss))
  end.

(* ---------- validate_ast ---------- *)

Definition validate_ast (f : ast_file) : res vfile :=
  do te <- get_terminal_enum f;
  do nts <- get_nonterminals f;
  do start <- get_start_symbol_name f nts;
  do _ <- assert_no_top_level_name_clashes f;
  Ok {| vf_start := start; vf_tenum := te; vf_nts := nts |}.
