(* Ast/ValidateProofs.v — the validator model accepts only well-formed files
   (C10, first half): validate_ast f = Ok v -> WF f, and the validated file is
   the input (same declarations, same order). *)
From Coq Require Import List Arith Lia Bool Permutation.
From Kiki Require Import Base.Ord Base.OrdProofs Base.Chars Data DataProofs Ast.Validate Ast.WF.
Import ListNotations.

Lemma bind_ok {A B} (r : res A) (k : A -> res B) v : bind r k = Ok v -> exists a, r = Ok a /\ k a = Ok v.
Proof. destruct r; cbn; try discriminate. eauto. Qed.

Lemma for_each_ok {A} (f : A -> res unit) l : for_each f l = Ok tt -> forall x, In x l -> f x = Ok tt.
Proof.
  induction l as [|y l IH]; cbn; [contradiction|]. intros H x [->|Hx].
  - apply bind_ok in H as ([] & H1 & _). exact H1.
  - apply bind_ok in H as ([] & _ & H2). apply IH; assumption.
Qed.

Lemma map_res_ok {A B} (f : A -> res B) l ys : map_res f l = Ok ys -> Forall2 (fun x y => f x = Ok y) l ys.
Proof.
  revert ys; induction l as [|x l IH]; cbn; intros ys H.
  - injection H as <-. constructor.
  - apply bind_ok in H as (y & Hy & H). apply bind_ok in H as (ys' & Hys & H). injection H as <-.
    constructor; [exact Hy|apply IH, Hys].
Qed.

Lemma mem_str_In x l : mem_str x l = true <-> In x l.
Proof.
  induction l as [|y l IH]; cbn; [split; [discriminate|contradiction]|].
  rewrite orb_true_iff, IH, str_eqb_eq. split; intros [H|H]; auto.
Qed.

(* ---------- capitalisation ---------- *)

Lemma validate_uppercase_start_ok name pos : validate_uppercase_start name pos = Ok tt -> upper_ok name.
Proof.
  unfold validate_uppercase_start, upper_ok, first_letter. destruct (find is_ascii_alphabetic name) as [c|].
  - destruct (is_ascii_uppercase c) eqn:E; [|discriminate]. intros _ c' H; injection H as <-. exact E.
  - intros _ c H; discriminate.
Qed.

Lemma assert_lowercase_start_ok name pos : assert_lowercase_start name pos = Ok tt -> lower_ok name.
Proof.
  unfold assert_lowercase_start, lower_ok, first_letter. destruct (find is_ascii_alphabetic name) as [c|].
  - destruct (is_ascii_lowercase c) eqn:E; [|discriminate]. intros _ c' H; injection H as <-. exact E.
  - intros _ c H; discriminate.
Qed.

(* ---------- the `seen` tables ---------- *)

Definition keys (m : seen_map) : list str := map fst m.

Lemma seen_get_none m k : seen_get m k = None <-> ~ In k (keys m).
Proof.
  induction m as [|[k' v] m IH]; cbn; [tauto|].
  destruct (str_eqb k k') eqn:E.
  - apply str_eqb_eq in E. subst. split; [discriminate|]. intros H; exfalso; apply H; left; reflexivity.
  - rewrite IH. split.
    + intros H [->|H']; [rewrite str_eqb_refl in E; discriminate|contradiction].
    + intros H H'. apply H. right. exact H'.
Qed.

Lemma define_name_ok seen n p seen' :
  define_name seen n p = Ok seen' -> ~ In n (keys seen) /\ seen' = (n, p) :: seen.
Proof.
  unfold define_name. destruct (seen_get seen n) eqn:E; [discriminate|].
  intros H; injection H as <-. split; [apply seen_get_none, E|reflexivity].
Qed.

Lemma nt_names_cons it f :
  nt_names (it :: f) = match it with
                       | IStruct s => id_name (sd_name s) :: nt_names f
                       | IEnum e => id_name (ed_name e) :: nt_names f
                       | _ => nt_names f
                       end.
Proof. destruct it; reflexivity. Qed.

Lemma define_nonterminals_ok f : forall seen seen',
    define_nonterminals seen f = Ok seen' -> NoDup (keys seen) ->
    NoDup (keys seen') /\ keys seen' = rev (nt_names f) ++ keys seen.
Proof.
  induction f as [|it f IH]; intros seen seen' H Hnd.
  - cbn in H. injection H as <-. split; [exact Hnd|reflexivity].
  - rewrite nt_names_cons. destruct it as [i|s|e|t]; cbn [define_nonterminals] in H.
    + apply IH; assumption.
    + apply bind_ok in H as (s1 & H1 & H). apply define_name_ok in H1 as (Hn & ->).
      destruct (IH _ _ H) as (Hnd' & Hk); [cbn; constructor; assumption|].
      split; [exact Hnd'|]. rewrite Hk. cbn [rev keys map fst]. rewrite <- app_assoc. reflexivity.
    + apply bind_ok in H as (s1 & H1 & H). apply define_name_ok in H1 as (Hn & ->).
      destruct (IH _ _ H) as (Hnd' & Hk); [cbn; constructor; assumption|].
      split; [exact Hnd'|]. rewrite Hk. cbn [rev keys map fst]. rewrite <- app_assoc. reflexivity.
    + apply IH; assumption.
Qed.

Lemma define_terminal_variants_ok vs : forall seen seen',
    define_terminal_variants seen vs = Ok seen' -> NoDup (keys seen) ->
    NoDup (keys seen') /\ keys seen' = rev (map (fun v => ti_name (tv_name v)) vs) ++ keys seen.
Proof.
  induction vs as [|v vs IH]; intros seen seen' H Hnd; cbn [define_terminal_variants] in H.
  - injection H as <-. split; [exact Hnd|reflexivity].
  - apply bind_ok in H as (s1 & H1 & H). apply define_name_ok in H1 as (Hn & ->).
    destruct (IH _ _ H) as (Hnd' & Hk); [cbn; constructor; assumption|].
    split; [exact Hnd'|]. rewrite Hk. cbn [rev keys map fst]. rewrite <- app_assoc. reflexivity.
Qed.

Lemma get_unvalidated_terminal_enum_ok f t : get_unvalidated_terminal_enum f = Ok t -> terminal_decls f = [t].
Proof.
  unfold get_unvalidated_terminal_enum. change (terminal_defs f) with (terminal_decls f).
  destruct (terminal_decls f) as [|t0 [|t1 l]]; try discriminate. intros H; injection H as ->. reflexivity.
Qed.

Lemma t_names_single f t : terminal_decls f = [t] -> t_names f = map (fun v => ti_name (tv_name v)) (td_variants t).
Proof.
  intros H. unfold t_names, terminal_variant_idents. rewrite H. cbn [flat_map]. rewrite app_nil_r, map_map. reflexivity.
Qed.

Lemma nonterminal_names_eq f : nonterminal_names f = nt_names f.
Proof.
  induction f as [|it f IH]; [reflexivity|]. rewrite nt_names_cons.
  destruct it; cbn [nonterminal_names flat_map app]; fold (nonterminal_names f); rewrite IH; reflexivity.
Qed.

Lemma top_level_distinct f : assert_no_top_level_name_clashes f = Ok tt ->
  NoDup (nt_names f ++ t_names f ++ tenum_names f).
Proof.
  unfold assert_no_top_level_name_clashes, get_defined_symbol_positions. intros H.
  apply bind_ok in H as (seen & H1 & H). apply bind_ok in H1 as (s0 & Hn & H1). apply bind_ok in H1 as (te & Hte & Htv).
  apply bind_ok in H as (te' & Hte' & H). rewrite Hte in Hte'. injection Hte' as <-.
  apply bind_ok in H as (s2 & Hd & _). apply define_name_ok in Hd as (Hnot & _).
  destruct (define_nonterminals_ok _ _ _ Hn ltac:(constructor)) as (Hnd0 & Hk0).
  destruct (define_terminal_variants_ok _ _ _ Htv Hnd0) as (Hnd1 & Hk1).
  pose proof (get_unvalidated_terminal_enum_ok _ _ Hte) as Htd.
  rewrite (t_names_single _ _ Htd). unfold tenum_names. rewrite Htd. cbn [map].
  rewrite Hk1, Hk0, app_nil_r in Hnd1, Hnot.
  assert (HP : Permutation (id_name (td_name te) :: rev (map (fun v => ti_name (tv_name v)) (td_variants te)) ++ rev (nt_names f))
                           (nt_names f ++ map (fun v => ti_name (tv_name v)) (td_variants te) ++ [id_name (td_name te)])).
  { set (A := nt_names f). set (B := map (fun v => ti_name (tv_name v)) (td_variants te)). set (x := id_name (td_name te)).
    transitivity (x :: B ++ A).
    - constructor. apply Permutation_app; apply Permutation_sym, Permutation_rev.
    - change (x :: B ++ A) with ([x] ++ (B ++ A)). rewrite Permutation_app_comm.
      rewrite (Permutation_app_comm B A). rewrite <- app_assoc. reflexivity. }
  eapply Permutation_NoDup; [exact HP|]. constructor; assumption.
Qed.

(* ---------- enum variants ---------- *)

Lemma variants_unique_names_ok vs : forall seen,
    variants_unique_names seen vs = Ok tt ->
    NoDup (map (fun v => id_name (ev_name v)) vs) /\
    forall v, In v vs -> ~ In (id_name (ev_name v)) (keys seen).
Proof.
  induction vs as [|v vs IH]; intros seen H; cbn [variants_unique_names] in H.
  - split; [constructor|contradiction].
  - destruct (seen_get seen (id_name (ev_name v))) eqn:E; [discriminate|].
    apply seen_get_none in E. destruct (IH _ H) as (Hnd & Hdis). split.
    + cbn [map]. constructor; [|exact Hnd]. intros Hin. apply in_map_iff in Hin as (v' & Heq & Hv').
      apply (Hdis v' Hv'). cbn. left. exact (eq_sym Heq).
    + intros v' [<-|Hv']; [exact E|]. intros Hin. apply (Hdis v' Hv'). cbn. right. exact Hin.
Qed.

Lemma symseq_eqb_eq a b : symseq_eqb a b = true <-> a = b.
Proof.
  unfold symseq_eqb, is_eq. pose proof (lcmp_laws _ symbol_cmp_laws) as L.
  destruct (lcmp symbol_cmp a b) eqn:E.
  - apply (ol_eq _ L) in E. tauto.
  - split; [discriminate|]. intros ->. rewrite (ol_refl _ L) in E. discriminate.
  - split; [discriminate|]. intros ->. rewrite (ol_refl _ L) in E. discriminate.
Qed.

Lemma seq_get_none m k : seq_get m k = None <-> ~ In k (map fst m).
Proof.
  induction m as [|[k' v] m IH]; cbn; [tauto|].
  destruct (symseq_eqb k k') eqn:E.
  - apply symseq_eqb_eq in E. subst. split; [discriminate|]. intros H; exfalso; apply H; left; reflexivity.
  - rewrite IH. split.
    + intros H [->|H']; [|contradiction].
      assert (symseq_eqb k k = true) by (apply symseq_eqb_eq; reflexivity). congruence.
    + intros H H'. apply H. right. exact H'.
Qed.

Lemma variants_unique_sequences_ok vs : forall seen,
    variants_unique_sequences seen vs = Ok tt ->
    NoDup (map (fun v => field_symbols (ev_fieldset v)) vs) /\
    forall v, In v vs -> ~ In (field_symbols (ev_fieldset v)) (map fst seen).
Proof.
  induction vs as [|v vs IH]; intros seen H; cbn [variants_unique_sequences] in H.
  - split; [constructor|contradiction].
  - destruct (seq_get seen (field_symbols (ev_fieldset v))) eqn:E; [discriminate|].
    apply seq_get_none in E. destruct (IH _ H) as (Hnd & Hdis). split.
    + cbn [map]. constructor; [|exact Hnd]. intros Hin. apply in_map_iff in Hin as (v' & Heq & Hv').
      apply (Hdis v' Hv'). cbn. left. exact (eq_sym Heq).
    + intros v' [<-|Hv']; [exact E|]. intros Hin. apply (Hdis v' Hv'). cbn. right. exact Hin.
Qed.

(* ---------- fieldsets ---------- *)

Definition sym_defined (ds : defined_symbols) (sym : ident_or_tident) : Prop :=
  match sym with
  | IOTIdent i => In (id_name i) (ds_nonterminals ds)
  | IOTTerminal t => In (ti_name t) (ds_terminals ds)
  end.

Lemma assert_symbol_is_defined_ok s ds : assert_symbol_is_defined s ds = Ok tt -> sym_defined ds s.
Proof.
  destruct s as [i|t]; cbn.
  - destruct (mem_str (id_name i) (ds_nonterminals ds)) eqn:E; [|discriminate]. intros _. apply mem_str_In, E.
  - destruct (mem_str (ti_name t) (ds_terminals ds)) eqn:E; [|discriminate]. intros _. apply mem_str_In, E.
Qed.

Definition fieldset_ok (ds : defined_symbols) (fs : fieldset) : Prop :=
  (forall sym, In sym (fieldset_symbols fs) -> sym_defined ds sym) /\
  (forall i, In i (fieldset_field_idents fs) -> lower_ok (id_name i)).

Lemma assert_fieldset_is_valid_ok fs ds : assert_fieldset_is_valid fs ds = Ok tt -> fieldset_ok ds fs.
Proof.
  destruct fs as [|l|l]; cbn [assert_fieldset_is_valid]; intros H.
  - split; intros ? [].
  - pose proof (for_each_ok _ _ H) as Hall. split.
    + intros sym Hin. cbn [fieldset_symbols] in Hin. apply in_map_iff in Hin as (x & <- & Hx).
      specialize (Hall x Hx). unfold assert_named_field_valid in Hall.
      apply bind_ok in Hall as ([] & _ & Hs). apply assert_symbol_is_defined_ok, Hs.
    + intros i Hin. cbn [fieldset_field_idents] in Hin. apply in_flat_map in Hin as (x & Hx & Hi).
      specialize (Hall x Hx). unfold assert_named_field_valid in Hall.
      apply bind_ok in Hall as ([] & Hn & _).
      destruct (nf_name x) as [i'|p]; [|contradiction]. destruct Hi as [<-|[]].
      eapply assert_lowercase_start_ok; eauto.
  - pose proof (for_each_ok _ _ H) as Hall. split.
    + intros sym Hin. cbn [fieldset_symbols] in Hin. apply in_map_iff in Hin as (x & <- & Hx).
      apply assert_symbol_is_defined_ok, (Hall x Hx).
    + intros i [].
Qed.

(* ---------- nonterminals ---------- *)

Definition item_ok (ds : defined_symbols) (it : file_item) : Prop :=
  match it with
  | IStruct s => upper_ok (id_name (sd_name s)) /\ fieldset_ok ds (sd_fieldset s)
  | IEnum e => upper_ok (id_name (ed_name e)) /\
               NoDup (map (fun v => id_name (ev_name v)) (ed_variants e)) /\
               NoDup (map (fun v => field_symbols (ev_fieldset v)) (ed_variants e)) /\
               forall v, In v (ed_variants e) -> upper_ok (id_name (ev_name v)) /\ fieldset_ok ds (ev_fieldset v)
  | _ => True
  end.

Definition item_nts (it : file_item) : list nonterminal :=
  match it with IStruct s => [NStruct s] | IEnum e => [NEnum e] | _ => [] end.

Lemma validate_nonterminal_ok ds it l : validate_nonterminal ds it = Ok l -> item_ok ds it /\ l = item_nts it.
Proof.
  destruct it as [i|s|e|t]; cbn [validate_nonterminal item_ok item_nts]; intros H.
  - injection H as <-. auto.
  - apply bind_ok in H as ([] & H1 & H). apply bind_ok in H as ([] & H2 & H). injection H as <-.
    split; [|reflexivity]. split; [eapply validate_uppercase_start_ok; exact H1|apply assert_fieldset_is_valid_ok, H2].
  - apply bind_ok in H as ([] & H1 & H). apply bind_ok in H as ([] & H2 & H). injection H as <-.
    split; [|reflexivity]. split; [eapply validate_uppercase_start_ok; exact H1|].
    unfold assert_variants_are_valid in H2.
    apply bind_ok in H2 as ([] & Hn & H2). apply bind_ok in H2 as ([] & Hs & H2).
    split; [apply (variants_unique_names_ok _ _ Hn)|]. split; [apply (variants_unique_sequences_ok _ _ Hs)|].
    intros v Hv. pose proof (for_each_ok _ _ H2 v Hv) as Hv'. cbn beta in Hv'.
    apply bind_ok in Hv' as ([] & Hu & Hf).
    split; [eapply validate_uppercase_start_ok; exact Hu|apply assert_fieldset_is_valid_ok, Hf].
  - injection H as <-. auto.
Qed.

Lemma get_nonterminals_ok f nts : get_nonterminals f = Ok nts ->
  exists ds, get_defined_symbols f = Ok ds /\ (forall it, In it f -> item_ok ds it) /\ nts = flat_map item_nts f.
Proof.
  unfold get_nonterminals. intros H. apply bind_ok in H as (ds & Hds & H). apply bind_ok in H as (l & Hl & H).
  injection H as <-. exists ds. split; [exact Hds|]. apply map_res_ok in Hl. clear Hds.
  induction Hl as [|it y f l Hy _ IH]; cbn [concat flat_map].
  - split; [intros ? []|reflexivity].
  - apply validate_nonterminal_ok in Hy as (Hok & ->). destruct IH as (IH1 & IH2).
    split; [intros it' [<-|Hin]; auto|]. rewrite IH2. reflexivity.
Qed.

Lemma nts_names f : map nt_name (flat_map item_nts f) = nt_names f.
Proof.
  induction f as [|it f IH]; [reflexivity|]. rewrite nt_names_cons.
  destruct it; cbn [flat_map item_nts app map nt_name]; rewrite IH; reflexivity.
Qed.

Lemma get_defined_symbols_ok f ds : get_defined_symbols f = Ok ds ->
  exists te, terminal_decls f = [te] /\ ds_nonterminals ds = nt_names f /\ ds_terminals ds = t_names f.
Proof.
  unfold get_defined_symbols. intros H. apply bind_ok in H as (seen & _ & H). apply bind_ok in H as (te & Hte & H).
  injection H as <-. pose proof (get_unvalidated_terminal_enum_ok _ _ Hte) as Htd.
  exists te. split; [exact Htd|]. cbn [ds_nonterminals ds_terminals].
  split; [apply nonterminal_names_eq|]. rewrite (t_names_single _ _ Htd). reflexivity.
Qed.

(* ---------- terminal enum ---------- *)

Lemma validate_terminal_def_ok d te : validate_terminal_def d = Ok te ->
  upper_ok (id_name (td_name d)) /\ (forall v, In v (td_variants d) -> upper_ok (ti_name (tv_name v))) /\
  vt_name te = id_name (td_name d) /\ vt_attrs te = td_attrs d /\
  map tvr_name te.(vt_variants) = map (fun v => filter (fun c => negb (N.eqb c (ch "$"))) (ti_name (tv_name v))) (td_variants d).
Proof.
  unfold validate_terminal_def. intros H. apply bind_ok in H as ([] & Hu & H). apply bind_ok in H as (vs & Hvs & H).
  injection H as <-. cbn [vt_name vt_attrs vt_variants].
  split; [eapply validate_uppercase_start_ok; exact Hu|]. apply map_res_ok in Hvs.
  split; [|split; [reflexivity|split; [reflexivity|]]].
  - induction Hvs as [|v y l l' Hy _ IH]; [intros ? []|]. intros v' [<-|Hin]; [|apply IH, Hin].
    unfold validate_variant_capitalization in Hy. apply bind_ok in Hy as ([] & Hy & _).
    eapply validate_uppercase_start_ok; exact Hy.
  - induction Hvs as [|v y l l' Hy _ IH]; [reflexivity|]. cbn [map]. rewrite IH. f_equal.
    unfold validate_variant_capitalization in Hy. apply bind_ok in Hy as ([] & _ & Hy). injection Hy as <-. reflexivity.
Qed.

(* ---------- start ---------- *)

Lemma get_start_symbol_name_ok f nts start : get_start_symbol_name f nts = Ok start ->
  exists s, start_idents f = [s] /\ start = id_name s /\ In (id_name s) (map nt_name nts).
Proof.
  unfold get_start_symbol_name. change (starts_of f) with (start_idents f).
  destruct (start_idents f) as [|s [|s' l]]; try discriminate.
  destruct (existsb (fun n => str_eqb (nt_name n) (id_name s)) nts) eqn:E; [|discriminate].
  intros H; injection H as <-. exists s. split; [reflexivity|]. split; [reflexivity|].
  apply existsb_exists in E as (n & Hn & He). apply str_eqb_eq in He. rewrite <- He. apply in_map, Hn.
Qed.

(* ---------- the theorem ---------- *)

Lemma In_fieldsets f fs : In fs (fieldsets f) ->
  exists it, In it f /\ match it with
                        | IStruct s => fs = sd_fieldset s
                        | IEnum e => exists v, In v (ed_variants e) /\ fs = ev_fieldset v
                        | _ => False
                        end.
Proof.
  unfold fieldsets. intros H. apply in_flat_map in H as (it & Hit & Hfs). exists it. split; [exact Hit|].
  destruct it as [i|s|e|t]; cbn in Hfs; try contradiction.
  - destruct Hfs as [<-|[]]. reflexivity.
  - apply in_map_iff in Hfs as (v & <- & Hv). eauto.
Qed.

Lemma In_enum_decls f e : In e (enum_decls f) -> In (IEnum e) f.
Proof.
  unfold enum_decls. intros H. apply in_flat_map in H as (it & Hit & He).
  destruct it; cbn in He; try contradiction. destruct He as [<-|[]]. exact Hit.
Qed.

Lemma In_nonterminal_idents f i : In i (nonterminal_idents f) ->
  exists it, In it f /\ match it with IStruct s => i = sd_name s | IEnum e => i = ed_name e | _ => False end.
Proof.
  unfold nonterminal_idents. intros H. apply in_flat_map in H as (it & Hit & Hi). exists it. split; [exact Hit|].
  destruct it; cbn in Hi; try contradiction; destruct Hi as [<-|[]]; reflexivity.
Qed.

Theorem validate_ast_ok_WF f v : validate_ast f = Ok v -> WF f.
Proof.
  unfold validate_ast. intros H.
  apply bind_ok in H as (te & Hte & H). apply bind_ok in H as (nts & Hnts & H).
  apply bind_ok in H as (start & Hst & H). apply bind_ok in H as ([] & Htop & _).
  apply get_nonterminals_ok in Hnts as (ds & Hds & Hitems & ->).
  apply get_defined_symbols_ok in Hds as (ted & Htd & Hdn & Hdt).
  apply get_start_symbol_name_ok in Hst as (s & Hs1 & _ & Hs3). rewrite nts_names in Hs3.
  unfold get_terminal_enum in Hte. apply bind_ok in Hte as (d & Hd & Hte).
  pose proof (get_unvalidated_terminal_enum_ok _ _ Hd) as Htd'. rewrite Htd in Htd'. injection Htd' as <-.
  apply validate_terminal_def_ok in Hte as (Hup_te & Hup_tv & _).
  split.
  - exists s. auto.
  - exists ted. exact Htd.
  - intros fs sym Hfs Hsym. apply In_fieldsets in Hfs as (it & Hit & Hm). specialize (Hitems it Hit).
    assert (Hd' : sym_defined ds sym).
    { destruct it as [i|st|e|t]; try contradiction.
      - subst fs. apply (proj1 (proj2 Hitems)), Hsym.
      - destruct Hm as (v0 & Hv0 & ->). destruct Hitems as (_ & _ & _ & Hall).
        apply (proj1 (proj2 (Hall v0 Hv0))), Hsym. }
    destruct sym; cbn in Hd'; [rewrite <- Hdn|rewrite <- Hdt]; exact Hd'.
  - apply top_level_distinct, Htop.
  - intros e He. apply In_enum_decls in He. apply (Hitems _ He).
  - intros e He. apply In_enum_decls in He. apply (Hitems _ He).
  - intros i Hi. apply In_nonterminal_idents in Hi as (it & Hit & Hm). specialize (Hitems it Hit).
    destruct it; try contradiction; subst i; apply Hitems.
  - intros e v0 He Hv0. apply In_enum_decls in He. destruct (Hitems _ He) as (_ & _ & _ & Hall). apply (Hall v0 Hv0).
  - intros t Ht. unfold terminal_variant_idents in Ht. rewrite Htd in Ht. cbn [flat_map] in Ht. rewrite app_nil_r in Ht.
    apply in_map_iff in Ht as (v0 & <- & Hv0). apply Hup_tv, Hv0.
  - intros t Ht. rewrite Htd in Ht. destruct Ht as [<-|[]]. exact Hup_te.
  - intros fs i Hfs Hi. apply In_fieldsets in Hfs as (it & Hit & Hm). specialize (Hitems it Hit).
    destruct it as [i0|st|e|t]; try contradiction.
    + subst fs. apply (proj2 (proj2 Hitems)), Hi.
    + destruct Hm as (v0 & Hv0 & ->). destruct Hitems as (_ & _ & _ & Hall).
      apply (proj2 (proj2 (Hall v0 Hv0))), Hi.
Qed.

(* the validated file is the input: same start, same nonterminal declarations in order *)
Theorem validate_ast_ok_same_file f v : validate_ast f = Ok v ->
  vf_nts v = flat_map item_nts f /\
  (exists s, start_idents f = [s] /\ vf_start v = id_name s) /\
  (exists d, terminal_decls f = [d] /\ vt_name (vf_tenum v) = id_name (td_name d) /\ vt_attrs (vf_tenum v) = td_attrs d).
Proof.
  unfold validate_ast. intros H.
  apply bind_ok in H as (te & Hte & H). apply bind_ok in H as (nts & Hnts & H).
  apply bind_ok in H as (start & Hst & H). apply bind_ok in H as ([] & _ & H). injection H as <-.
  cbn [vf_nts vf_start vf_tenum].
  apply get_nonterminals_ok in Hnts as (ds & _ & _ & ->).
  apply get_start_symbol_name_ok in Hst as (s & Hs1 & Hs2 & _).
  unfold get_terminal_enum in Hte. apply bind_ok in Hte as (d & Hd & Hte).
  apply get_unvalidated_terminal_enum_ok in Hd. apply validate_terminal_def_ok in Hte as (_ & _ & Hn & Ha & _).
  split; [reflexivity|]. split; [exists s; auto|exists d; auto].
Qed.
