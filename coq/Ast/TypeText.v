(* Ast/TypeText.v — C13: the text written for a payload type (type_to_string) reads back,
   token for token, as the type expression it was made from: re-tokenising it gives exactly
   the identifiers, `::`, `<`, `,`, `>` and `()` of the declared type, in order, nesting and
   argument positions included. *)
From Coq Require Import List Arith NArith Lia Bool.
From Kiki Require Import Base.Ord Base.Chars Data DataProofs Ast.Validate.
Import ListNotations.
Open Scope N_scope.

Inductive tytok := TI (s : str) | TCC | TLt | TGt | TComma | TLP | TRP.

(* the token sequence a type expression stands for *)
Fixpoint path_tokens (names : list str) : list tytok :=
  match names with
  | [] => []
  | [n] => [TI n]
  | n :: r => TI n :: TCC :: path_tokens r
  end.

Fixpoint ty_tokens (t : type) : list tytok :=
  match t with
  | TyUnit => [TLP; TRP]
  | TyPath p => path_tokens (map id_name p)
  | TyComplex c args =>
      path_tokens (map id_name c) ++ [TLt]
      ++ (fix go (l : list type) : list tytok :=
            match l with
            | [] => []
            | [x] => ty_tokens x
            | x :: r => ty_tokens x ++ TComma :: go r
            end) args
      ++ [TGt]
  end.

Fixpoint args_tokens (l : list type) : list tytok :=
  match l with
  | [] => []
  | [x] => ty_tokens x
  | x :: r => ty_tokens x ++ TComma :: args_tokens r
  end.

Lemma ty_tokens_complex c args :
  ty_tokens (TyComplex c args) = path_tokens (map id_name c) ++ [TLt] ++ args_tokens args ++ [TGt].
Proof. reflexivity. Qed.

(* a lexer for type text: identifiers are maximal runs of identifier characters *)
Definition ident_char (c : char) : bool := is_ascii_alphanumeric c || (c =? ch "_").

Definition flush (cur : str) (l : list tytok) : list tytok :=
  match cur with [] => l | _ => TI (rev cur) :: l end.

Fixpoint lex_go (s : str) (cur : str) : option (list tytok) :=
  match s with
  | [] => Some (flush cur [])
  | c :: r =>
      if ident_char c then lex_go r (c :: cur)
      else if c =? 32 then option_map (flush cur) (lex_go r [])
      else if c =? ch ":" then
        match r with
        | c' :: r' => if c' =? ch ":" then option_map (fun l => flush cur (TCC :: l)) (lex_go r' []) else None
        | [] => None
        end
      else if c =? ch "<" then option_map (fun l => flush cur (TLt :: l)) (lex_go r [])
      else if c =? ch ">" then option_map (fun l => flush cur (TGt :: l)) (lex_go r [])
      else if c =? ch "," then option_map (fun l => flush cur (TComma :: l)) (lex_go r [])
      else if c =? ch "(" then option_map (fun l => flush cur (TLP :: l)) (lex_go r [])
      else if c =? ch ")" then option_map (fun l => flush cur (TRP :: l)) (lex_go r [])
      else None
  end.

Definition lex_ty (s : str) : option (list tytok) := lex_go s [].

(* well-formed names and types *)
Definition name_ok (n : str) : Prop := n <> [] /\ forallb ident_char n = true.

Inductive ty_ok : type -> Prop :=
| ok_unit : ty_ok TyUnit
| ok_path p : p <> [] -> Forall name_ok (map id_name p) -> ty_ok (TyPath p)
| ok_complex c args : c <> [] -> Forall name_ok (map id_name c) -> Forall ty_ok args -> ty_ok (TyComplex c args).

(* what may follow a piece of text without gluing to its last identifier *)
Definition sep_start (rest : str) : Prop :=
  match rest with [] => True | c :: _ => ident_char c = false end.

Lemma lex_ident_run n : forall rest cur, forallb ident_char n = true -> lex_go (n ++ rest) cur = lex_go rest (rev n ++ cur).
Proof.
  induction n as [|c n IH]; intros rest cur H; [reflexivity|]. cbn in H. apply andb_true_iff in H as (Hc & Hn).
  cbn [app lex_go]. rewrite Hc. rewrite (IH rest (c :: cur) Hn). cbn [rev]. rewrite <- app_assoc. reflexivity.
Qed.

Lemma lex_after_ident n rest : name_ok n -> sep_start rest ->
  forall (k : list tytok -> list tytok) ,
  (forall cur l, flush cur (k l) = flush cur (k l)) ->
  lex_go (n ++ rest) [] = lex_go rest (rev n).
Proof. intros (_ & H) _ k _. rewrite (lex_ident_run n rest [] H), app_nil_r. reflexivity. Qed.

Lemma flush_name n l : n <> [] -> flush (rev n) l = TI n :: l.
Proof.
  intros H. unfold flush. destruct (rev n) eqn:E.
  - exfalso. apply H. rewrite <- (rev_involutive n), E. reflexivity.
  - rewrite <- E, rev_involutive. reflexivity.
Qed.

(* one step of the lexer on a separator character, with a pending identifier *)
Lemma lex_name_then n rest : name_ok n -> sep_start rest ->
  lex_go (n ++ rest) [] =
  match rest with
  | [] => Some [TI n]
  | _ => option_map (fun l => l) (lex_go rest (rev n))
  end.
Proof.
  intros (Hne & H) Hs. rewrite (lex_ident_run n rest [] H), app_nil_r. destruct rest as [|c r].
  - cbn [lex_go]. rewrite (flush_name n [] Hne). reflexivity.
  - destruct (lex_go (c :: r) (rev n)); reflexivity.
Qed.

Lemma cc_not_ident : ident_char (ch ":") = false.
Proof. reflexivity. Qed.

(* the general composition lemma: a name followed by text that starts with a separator *)
Lemma lex_name n rest : name_ok n -> sep_start rest ->
  lex_go (n ++ rest) [] = option_map (cons (TI n)) (lex_go rest []).
Proof.
  intros Hn Hs. destruct Hn as (Hne & H). rewrite (lex_ident_run n rest [] H), app_nil_r.
  destruct rest as [|c r]; [cbn [lex_go]; rewrite (flush_name n [] Hne); reflexivity|].
  cbn in Hs. cbn [lex_go]. rewrite Hs.
  repeat (match goal with |- context [if ?b then _ else _] => destruct b end);
    try (destruct (lex_go r []); cbn; rewrite ?(flush_name n _ Hne); reflexivity); try reflexivity.
  destruct r as [|c' r']; [reflexivity|]. destruct (c' =? ch ":"); [|reflexivity].
  destruct (lex_go r' []); cbn; rewrite ?(flush_name n _ Hne); reflexivity.
Qed.

Lemma lex_path names : forall rest, names <> [] -> Forall name_ok names -> sep_start rest ->
  lex_go (join (s2l "::") names ++ rest) [] = option_map (app (path_tokens names)) (lex_go rest []).
Proof.
  induction names as [|n names IH]; intros rest Hne Hok Hs; [contradiction|]. inversion Hok as [|? ? Hn Hns]; subst.
  destruct names as [|n2 names'].
  - cbn [join path_tokens]. rewrite (lex_name n rest Hn Hs). destruct (lex_go rest []); reflexivity.
  - change (join (s2l "::") (n :: n2 :: names')) with (n ++ s2l "::" ++ join (s2l "::") (n2 :: names')).
    rewrite <- !app_assoc. rewrite (lex_name n _ Hn) by reflexivity.
    change (s2l "::" ++ join (s2l "::") (n2 :: names') ++ rest) with (ch ":" :: ch ":" :: (join (s2l "::") (n2 :: names') ++ rest)).
    cbn [lex_go]. rewrite cc_not_ident. cbn [N.eqb]. change (ch ":" =? 32) with false. change (ch ":" =? ch ":") with true. cbn [flush].
    rewrite (IH rest ltac:(discriminate) Hns Hs). cbn [path_tokens]. destruct (lex_go rest []); reflexivity.
Qed.

(* the start of a type's text never glues to an identifier before it, and we only need what follows *)
Lemma ty_induction (Q : type -> Prop) :
  Q TyUnit -> (forall p, Q (TyPath p)) ->
  (forall c args, Forall Q args -> Q (TyComplex c args)) -> forall t, Q t.
Proof.
  intros H1 H2 H3. fix IH 1. intros [|p|c args]; [exact H1|apply H2|]. apply H3.
  induction args as [|a args IHa]; constructor; [apply IH|exact IHa].
Qed.

Lemma sep_lt rest : sep_start (ch "<" :: rest). Proof. reflexivity. Qed.
Lemma sep_gt rest : sep_start (ch ">" :: rest). Proof. reflexivity. Qed.
Lemma sep_comma rest : sep_start (ch "," :: rest). Proof. reflexivity. Qed.

Theorem lex_type t : ty_ok t -> forall rest, sep_start rest ->
  lex_go (type_to_string t ++ rest) [] = option_map (app (ty_tokens t)) (lex_go rest []).
Proof.
  induction t as [|p|c args IH] using ty_induction; intros Hok rest Hs.
  - cbn [type_to_string]. change (s2l "()" ++ rest) with (ch "(" :: ch ")" :: rest). cbn [lex_go].
    change (ident_char (ch "(")) with false. change (ident_char (ch ")")) with false. cbn.
    destruct (lex_go rest []); reflexivity.
  - inversion Hok as [|p' Hne Hn|]; subst. cbn [type_to_string ty_tokens]. unfold path_to_string.
    apply lex_path; [destruct p; [contradiction|discriminate]|exact Hn|exact Hs].
  - inversion Hok as [| |c' args' Hne Hn Hargs]; subst. rewrite ty_tokens_complex.
    cbn [type_to_string]. unfold path_to_string. rewrite <- !app_assoc.
    rewrite lex_path; [|destruct c; [contradiction|discriminate]|exact Hn|reflexivity].
    change (s2l "<" ++ join (s2l ", ") (map type_to_string args) ++ s2l ">" ++ rest)
      with (ch "<" :: (join (s2l ", ") (map type_to_string args) ++ ch ">" :: rest)).
    cbn [lex_go]. change (ident_char (ch "<")) with false. cbn [flush].
    assert (Hargs' : forall rest', sep_start rest' ->
              lex_go (join (s2l ", ") (map type_to_string args) ++ rest') [] = option_map (app (args_tokens args)) (lex_go rest' [])).
    { clear Hne Hn Hok. induction args as [|a args IHa]; intros rest' Hs'.
      - cbn. destruct (lex_go rest' []); reflexivity.
      - inversion IH as [|? ? Ha IHr]; subst. inversion Hargs as [|? ? Hoka Hokr]; subst. destruct args as [|a2 args'].
        + cbn [map join args_tokens]. apply Ha; assumption.
        + change (join (s2l ", ") (map type_to_string (a :: a2 :: args')))
            with (type_to_string a ++ s2l ", " ++ join (s2l ", ") (map type_to_string (a2 :: args'))).
          rewrite <- !app_assoc. rewrite (Ha Hoka) by reflexivity.
          change (s2l ", " ++ join (s2l ", ") (map type_to_string (a2 :: args')) ++ rest')
            with (ch "," :: 32 :: (join (s2l ", ") (map type_to_string (a2 :: args')) ++ rest')).
          cbn [lex_go]. change (ident_char (ch ",")) with false. change (ident_char 32) with false. cbn [flush].
          rewrite (IHa IHr Hokr rest' Hs'). cbn [args_tokens]. destruct (lex_go rest' []); cbn; [rewrite <- app_assoc; reflexivity|reflexivity]. }
    rewrite (Hargs' (ch ">" :: rest) (sep_gt rest)). cbn [lex_go]. change (ident_char (ch ">")) with false. cbn [flush].
    destruct (lex_go rest []); cbn; [|reflexivity]. f_equal. repeat (rewrite <- ?app_assoc; cbn [app]). reflexivity.
Qed.

(* C13: the stored text denotes the declared type *)
Theorem type_text_roundtrip t : ty_ok t -> lex_ty (type_to_string t) = Some (ty_tokens t).
Proof.
  intros H. unfold lex_ty. rewrite <- (app_nil_r (type_to_string t)). rewrite (lex_type t H [] I). cbn. rewrite app_nil_r. reflexivity.
Qed.
