(* Ast/VWF.v — what the later stages rely on about a validated file: distinct
   nonterminal names, distinct terminal names, a declared start symbol, every symbol
   of every rule declared.  It follows from validate_ast for every file whose terminal
   identifiers carry no `$` (the tokenizer strips them: Lex/Model.v remove_dollars). *)
From Coq Require Import List Bool.
From Kiki Require Import Base.Ord Base.Chars Data DataProofs Ast.Validate Ast.WF Ast.ValidateProofs.
Import ListNotations.

Definition v_tnames (v : vfile) : list str := map tvr_name (vt_variants (vf_tenum v)).
Definition v_nnames (v : vfile) : list str := map nt_name (vf_nts v).

Definition sym_declared (v : vfile) (s : symbol) : Prop :=
  match s with SymN n => In n (v_nnames v) | SymT t => In t (v_tnames v) end.

Record VWF (v : vfile) : Prop := {
  vw_nts : NoDup (v_nnames v);
  vw_ts : NoDup (v_tnames v);
  vw_start : In (vf_start v) (v_nnames v);
  vw_refs : forall ru s, In ru (get_rules v) -> In s (field_symbols (ru_fieldset ru)) -> sym_declared v s
}.

Definition no_dollar (s : str) : Prop := filter (fun c => negb (N.eqb c (ch "$"))) s = s.

Definition dollar_free (f : ast_file) : Prop :=
  forall t, In t (terminal_variant_idents f) -> no_dollar (ti_name t).

Lemma field_symbols_fieldset_symbols fs : field_symbols fs = map symbol_of (fieldset_symbols fs).
Proof.
  destruct fs as [|l|l]; cbn [field_symbols fieldset_symbols]; [reflexivity| |].
  - rewrite map_map. reflexivity.
  - rewrite map_map. apply map_ext. intros [s|s]; reflexivity.
Qed.

Lemma rule_fieldset_in_file f ru :
  In ru (flat_map rules_of_nt (flat_map item_nts f)) -> In (ru_fieldset ru) (fieldsets f).
Proof.
  intros H. apply in_flat_map in H as (nt & Hnt & Hru). apply in_flat_map in Hnt as (it & Hit & Hnt).
  unfold fieldsets. apply in_flat_map. exists it. split; [exact Hit|].
  destruct it as [i|s|e|t]; cbn [item_nts] in Hnt; try contradiction; destruct Hnt as [<-|[]]; cbn [rules_of_nt] in Hru.
  - destruct Hru as [<-|[]]. left. reflexivity.
  - apply in_map_iff in Hru as (v0 & <- & Hv0). cbn [ru_fieldset]. apply in_map, Hv0.
Qed.

Lemma NoDup_app_l {A} (l1 l2 : list A) : NoDup (l1 ++ l2) -> NoDup l1.
Proof. induction l1 as [|x l1 IH]; cbn; intros H; [constructor|]. inversion H; subst. constructor; [rewrite in_app_iff in *; tauto|auto]. Qed.

Lemma NoDup_app_r {A} (l1 l2 : list A) : NoDup (l1 ++ l2) -> NoDup l2.
Proof. induction l1 as [|x l1 IH]; cbn; intros H; [exact H|]. inversion H; subst. auto. Qed.

Theorem validate_ast_VWF f v : validate_ast f = Ok v -> dollar_free f -> VWF v.
Proof.
  intros H Hdf. pose proof (validate_ast_ok_WF f v H) as HW.
  pose proof (validate_ast_ok_same_file f v H) as (Hnts & (s & Hs1 & Hs2) & _).
  assert (Htn : v_tnames v = t_names f).
  { unfold validate_ast in H. apply bind_ok in H as (te & Hte & H). apply bind_ok in H as (nts & _ & H).
    apply bind_ok in H as (start & _ & H). apply bind_ok in H as ([] & _ & H). injection H as <-.
    unfold v_tnames. cbn [vf_tenum]. unfold get_terminal_enum in Hte. apply bind_ok in Hte as (d & Hd & Hte).
    apply get_unvalidated_terminal_enum_ok in Hd. apply validate_terminal_def_ok in Hte as (_ & _ & _ & _ & Hv).
    rewrite Hv, (t_names_single _ _ Hd). apply map_ext_in. intros v0 Hv0. apply Hdf.
    unfold terminal_variant_idents. rewrite Hd. cbn [flat_map]. rewrite app_nil_r. apply in_map, Hv0. }
  assert (Hnn : v_nnames v = nt_names f) by (unfold v_nnames; rewrite Hnts; apply nts_names).
  pose proof (wf_top_level_distinct f HW) as Hnd.
  split.
  - rewrite Hnn. apply (NoDup_app_l _ _ Hnd).
  - rewrite Htn. apply NoDup_app_r in Hnd. apply (NoDup_app_l _ _ Hnd).
  - rewrite Hnn, Hs2. destruct (wf_start f HW) as (s' & Hs' & Hin). rewrite Hs1 in Hs'. injection Hs' as <-. exact Hin.
  - intros ru sy Hru Hsy. unfold get_rules in Hru. rewrite Hnts in Hru. apply rule_fieldset_in_file in Hru.
    rewrite field_symbols_fieldset_symbols in Hsy. apply in_map_iff in Hsy as (x & <- & Hx).
    pose proof (wf_refs f HW _ _ Hru Hx) as Hr. destruct x as [i|t]; cbn [symbol_of sym_declared]; [rewrite Hnn|rewrite Htn]; exact Hr.
Qed.
