(* Ast/Positions.v — validate_ast reads positions only to put them into error values: on the
   file with every position erased it returns the erased validated file, or the same error with
   erased positions. *)
From Coq Require Import List Arith NArith Lia Bool.
From Kiki Require Import Base.Ord Base.Chars Data DataProofs Ast.Validate Ast.ValidateProofs Build.Machine Build.Table Emit.Emit Emit.Positions.
Import ListNotations.

(* ---------- erasing positions in the AST ---------- *)

Fixpoint erase_ty (t : type) : type :=
  match t with
  | TyUnit => TyUnit
  | TyPath p => TyPath (map erase_ident p)
  | TyComplex c args => TyComplex (map erase_ident c) (map erase_ty args)
  end.
Definition erase_tv (v : tenum_variant) : tenum_variant := {| tv_name := erase_tident (tv_name v); tv_type := erase_ty (tv_type v) |}.
Definition erase_td (d : tenum_def) : tenum_def :=
  {| td_attrs := map erase_attr (td_attrs d); td_name := erase_ident (td_name d); td_variants := map erase_tv (td_variants d) |}.
Definition erase_item (it : file_item) : file_item :=
  match it with
  | IStart i => IStart (erase_ident i)
  | IStruct s => IStruct (erase_sd s)
  | IEnum e => IEnum (erase_ed e)
  | ITerminal d => ITerminal (erase_td d)
  end.
Definition erase_ast (f : ast_file) : ast_file := map erase_item f.

(* ---------- composing results up to positions ---------- *)

Lemma bind_rerase {A B} (fa : A -> A) (fb : B -> B) (r r' : res A) (k k' : A -> res B) :
  r' = rerase fa r -> (forall a, k' (fa a) = rerase fb (k a)) -> bind r' k' = rerase fb (bind r k).
Proof. intros -> Hk. destruct r; cbn; [apply Hk|..]; reflexivity. Qed.

Lemma map_res_rerase {A B} (g : A -> A) (h : B -> B) (f f' : A -> res B) l :
  (forall x, f' (g x) = rerase h (f x)) -> map_res f' (map g l) = rerase (map h) (map_res f l).
Proof.
  intros H. induction l as [|x l IH]; [reflexivity|]. cbn [map map_res]. rewrite H.
  destruct (f x); cbn [rerase bind]; try reflexivity. rewrite IH. destruct (map_res f l); reflexivity.
Qed.

Lemma for_each_rerase {A} (g : A -> A) (f f' : A -> res unit) l :
  (forall x, f' (g x) = rerase same (f x)) -> for_each f' (map g l) = rerase same (for_each f l).
Proof.
  intros H. induction l as [|x l IH]; [reflexivity|]. cbn [map for_each]. rewrite H.
  destruct (f x) as [[]| | |]; cbn [rerase bind same]; try reflexivity. exact IH.
Qed.

(* ---------- pieces ---------- *)

Lemma path_to_string_erase p : path_to_string (map erase_ident p) = path_to_string p.
Proof. unfold path_to_string. rewrite map_map. reflexivity. Qed.

Lemma type_to_string_erase : forall t, type_to_string (erase_ty t) = type_to_string t.
Proof.
  fix IH 1. intros [|p|c args]; cbn [erase_ty type_to_string]; [reflexivity|apply path_to_string_erase|].
  rewrite path_to_string_erase.
  assert (E : map type_to_string (map erase_ty args) = map type_to_string args).
  { induction args as [|a args IHa]; [reflexivity|]. cbn [map]. rewrite IH, IHa. reflexivity. }
  rewrite E. reflexivity.
Qed.

Lemma upper_erase name p : validate_uppercase_start name 0%N = rerase same (validate_uppercase_start name p).
Proof. unfold validate_uppercase_start. destruct (find is_ascii_alphabetic name) as [c|]; [destruct (is_ascii_uppercase c)|]; reflexivity. Qed.

Lemma lower_erase name p : assert_lowercase_start name 0%N = rerase same (assert_lowercase_start name p).
Proof. unfold assert_lowercase_start. destruct (find is_ascii_alphabetic name) as [c|]; [destruct (is_ascii_lowercase c)|]; reflexivity. Qed.

Lemma terminal_defs_erase f : terminal_defs (erase_ast f) = map erase_td (terminal_defs f).
Proof. unfold terminal_defs, erase_ast. induction f as [|it f IH]; [reflexivity|]. cbn [map flat_map]. rewrite IH. destruct it; reflexivity. Qed.

Lemma get_unvalidated_terminal_enum_erase f :
  get_unvalidated_terminal_enum (erase_ast f) = rerase erase_td (get_unvalidated_terminal_enum f).
Proof.
  unfold get_unvalidated_terminal_enum. rewrite terminal_defs_erase. destruct (terminal_defs f) as [|t0 [|t1 l]]; cbn [map rerase]; try reflexivity.
  cbn [erase_err]. do 2 f_equal. cbn [map erase_td td_name erase_ident id_pos]. do 2 f_equal. rewrite !map_map. reflexivity.
Qed.

Lemma validate_variant_capitalization_erase v :
  validate_variant_capitalization (erase_tv v) = rerase same (validate_variant_capitalization v).
Proof.
  unfold validate_variant_capitalization. cbn [erase_tv tv_name tv_type erase_tident ti_name ti_dpos].
  rewrite (upper_erase (ti_name (tv_name v)) (ti_dpos (tv_name v))).
  destruct (validate_uppercase_start _ _) as [[]| | |]; cbn [rerase bind same]; try reflexivity. rewrite type_to_string_erase. reflexivity.
Qed.

Lemma validate_terminal_def_erase d : validate_terminal_def (erase_td d) = rerase erase_te (validate_terminal_def d).
Proof.
  unfold validate_terminal_def, validate_ident_uppercase_start. cbn [erase_td td_name td_attrs td_variants erase_ident id_name id_pos].
  rewrite (upper_erase (id_name (td_name d)) (id_pos (td_name d))).
  destruct (validate_uppercase_start _ _) as [[]| | |]; cbn [rerase bind same]; try reflexivity.
  rewrite (map_res_rerase erase_tv same validate_variant_capitalization validate_variant_capitalization _ validate_variant_capitalization_erase).
  destruct (map_res validate_variant_capitalization (td_variants d)); cbn [rerase bind]; try reflexivity.
  unfold erase_te. cbn. rewrite map_id. reflexivity.
Qed.

Lemma get_terminal_enum_erase f : get_terminal_enum (erase_ast f) = rerase erase_te (get_terminal_enum f).
Proof.
  unfold get_terminal_enum. apply (bind_rerase erase_td erase_te _ _ _ _ (get_unvalidated_terminal_enum_erase f)).
  apply validate_terminal_def_erase.
Qed.

(* the `seen` tables *)
Definition eseen (m : seen_map) : seen_map := map (fun kv => (fst kv, 0%N)) m.

Lemma seen_get_eseen m k : seen_get (eseen m) k = option_map (fun _ => 0%N) (seen_get m k).
Proof. induction m as [|[k' v] m IH]; [reflexivity|]. cbn. destruct (str_eqb k k'); [reflexivity|exact IH]. Qed.

Lemma define_name_erase seen n p : define_name (eseen seen) n 0%N = rerase eseen (define_name seen n p).
Proof. unfold define_name. rewrite seen_get_eseen. destruct (seen_get seen n); reflexivity. Qed.

Lemma define_nonterminals_erase f : forall seen, define_nonterminals (eseen seen) (erase_ast f) = rerase eseen (define_nonterminals seen f).
Proof.
  induction f as [|it f IH]; intros seen; [reflexivity|]. destruct it as [i|s|e|t]; cbn [erase_ast map erase_item define_nonterminals]; try apply IH.
  - cbn [erase_sd sd_name erase_ident id_name id_pos]. apply (bind_rerase eseen eseen _ _ _ _ (define_name_erase seen _ _)). apply IH.
  - cbn [erase_ed ed_name erase_ident id_name id_pos]. apply (bind_rerase eseen eseen _ _ _ _ (define_name_erase seen _ _)). apply IH.
Qed.

Lemma define_terminal_variants_erase vs : forall seen,
  define_terminal_variants (eseen seen) (map erase_tv vs) = rerase eseen (define_terminal_variants seen vs).
Proof.
  induction vs as [|v vs IH]; intros seen; [reflexivity|]. cbn [map define_terminal_variants erase_tv tv_name erase_tident ti_name ti_dpos].
  apply (bind_rerase eseen eseen _ _ _ _ (define_name_erase seen _ _)). apply IH.
Qed.

Lemma get_defined_symbol_positions_erase f :
  get_defined_symbol_positions (erase_ast f) = rerase eseen (get_defined_symbol_positions f).
Proof.
  unfold get_defined_symbol_positions. apply (bind_rerase eseen eseen _ _ _ _ (define_nonterminals_erase f [])).
  intros seen. apply (bind_rerase erase_td eseen _ _ _ _ (get_unvalidated_terminal_enum_erase f)).
  intros te. apply define_terminal_variants_erase.
Qed.

Lemma nonterminal_names_erase f : nonterminal_names (erase_ast f) = nonterminal_names f.
Proof. unfold nonterminal_names, erase_ast. induction f as [|it f IH]; [reflexivity|]. cbn [map flat_map]. rewrite IH. destruct it; reflexivity. Qed.

Lemma get_defined_symbols_erase f : get_defined_symbols (erase_ast f) = rerase same (get_defined_symbols f).
Proof.
  unfold get_defined_symbols. apply (bind_rerase eseen same _ _ _ _ (get_defined_symbol_positions_erase f)). intros _.
  apply (bind_rerase erase_td same _ _ _ _ (get_unvalidated_terminal_enum_erase f)). intros te. cbn [rerase same].
  rewrite nonterminal_names_erase. cbn [erase_td td_variants]. rewrite map_map. reflexivity.
Qed.

Lemma assert_no_top_level_name_clashes_erase f :
  assert_no_top_level_name_clashes (erase_ast f) = rerase same (assert_no_top_level_name_clashes f).
Proof.
  unfold assert_no_top_level_name_clashes. apply (bind_rerase eseen same _ _ _ _ (get_defined_symbol_positions_erase f)). intros seen.
  apply (bind_rerase erase_td same _ _ _ _ (get_unvalidated_terminal_enum_erase f)). intros te.
  cbn [erase_td td_name erase_ident id_name id_pos].
  apply (bind_rerase eseen same _ _ _ _ (define_name_erase seen _ _)). reflexivity.
Qed.

Lemma assert_symbol_is_defined_erase s ds : assert_symbol_is_defined (erase_iot s) ds = rerase same (assert_symbol_is_defined s ds).
Proof. destruct s as [i|t]; cbn; [destruct (mem_str (id_name i) _)|destruct (mem_str (ti_name t) _)]; reflexivity. Qed.

Lemma assert_fieldset_is_valid_erase fs ds : assert_fieldset_is_valid (erase_fs fs) ds = rerase same (assert_fieldset_is_valid fs ds).
Proof.
  destruct fs as [|l|l]; cbn [erase_fs assert_fieldset_is_valid]; [reflexivity| |].
  - apply for_each_rerase. intros x. unfold assert_named_field_valid. cbn [erase_nf nf_name nf_symbol].
    eapply (bind_rerase same same).
    + destruct (nf_name x) as [i|p]; cbn [erase_iou erase_ident id_name id_pos]; [apply lower_erase|reflexivity].
    + intros _. apply assert_symbol_is_defined_erase.
  - apply for_each_rerase. intros [s|s]; cbn [erase_tf tuple_field_symbol]; apply assert_symbol_is_defined_erase.
Qed.

Lemma variants_unique_names_erase vs : forall seen,
  variants_unique_names (eseen seen) (map erase_ev vs) = rerase same (variants_unique_names seen vs).
Proof.
  induction vs as [|v vs IH]; intros seen; [reflexivity|]. cbn [map variants_unique_names erase_ev ev_name erase_ident id_name id_pos].
  rewrite seen_get_eseen. destruct (seen_get seen (id_name (ev_name v))); [reflexivity|]. apply (IH ((id_name (ev_name v), id_pos (ev_name v)) :: seen)).
Qed.

Definition eseq (m : list (list symbol * N)) : list (list symbol * N) := map (fun kv => (fst kv, 0%N)) m.

Lemma seq_get_eseq m k : seq_get (eseq m) k = option_map (fun _ => 0%N) (seq_get m k).
Proof. induction m as [|[k' v] m IH]; [reflexivity|]. cbn. destruct (symseq_eqb k k'); [reflexivity|exact IH]. Qed.

Lemma variants_unique_sequences_erase vs : forall seen,
  variants_unique_sequences (eseq seen) (map erase_ev vs) = rerase same (variants_unique_sequences seen vs).
Proof.
  induction vs as [|v vs IH]; intros seen; [reflexivity|]. cbn [map variants_unique_sequences erase_ev ev_name ev_fieldset erase_ident id_name id_pos].
  rewrite field_symbols_erase, seq_get_eseq. destruct (seq_get seen (field_symbols (ev_fieldset v))); [reflexivity|].
  apply (IH ((field_symbols (ev_fieldset v), id_pos (ev_name v)) :: seen)).
Qed.

Lemma assert_variants_are_valid_erase vs ds : assert_variants_are_valid (map erase_ev vs) ds = rerase same (assert_variants_are_valid vs ds).
Proof.
  unfold assert_variants_are_valid. apply (bind_rerase same same _ _ _ _ (variants_unique_names_erase vs [])). intros _.
  apply (bind_rerase same same _ _ _ _ (variants_unique_sequences_erase vs [])). intros _.
  apply for_each_rerase. intros v. unfold validate_ident_uppercase_start. cbn [erase_ev ev_name ev_fieldset erase_ident id_name id_pos].
  apply (bind_rerase same same _ _ _ _ (upper_erase _ _)). intros _. apply assert_fieldset_is_valid_erase.
Qed.

Lemma validate_nonterminal_erase ds it : validate_nonterminal ds (erase_item it) = rerase (map erase_nt) (validate_nonterminal ds it).
Proof.
  destruct it as [i|s|e|t]; cbn [erase_item validate_nonterminal]; try reflexivity; unfold validate_ident_uppercase_start.
  - cbn [erase_sd sd_name sd_fieldset erase_ident id_name id_pos].
    apply (bind_rerase same (map erase_nt) _ _ _ _ (upper_erase _ _)). intros _.
    apply (bind_rerase same (map erase_nt) _ _ _ _ (assert_fieldset_is_valid_erase _ _)). intros _. reflexivity.
  - cbn [erase_ed ed_name ed_variants erase_ident id_name id_pos].
    apply (bind_rerase same (map erase_nt) _ _ _ _ (upper_erase _ _)). intros _.
    apply (bind_rerase same (map erase_nt) _ _ _ _ (assert_variants_are_valid_erase _ _)). intros _. reflexivity.
Qed.

Lemma get_nonterminals_erase f : get_nonterminals (erase_ast f) = rerase (map erase_nt) (get_nonterminals f).
Proof.
  unfold get_nonterminals. apply (bind_rerase same (map erase_nt) _ _ _ _ (get_defined_symbols_erase f)). intros ds. unfold same.
  unfold erase_ast. rewrite (map_res_rerase erase_item (map erase_nt) (validate_nonterminal ds) (validate_nonterminal ds) f (validate_nonterminal_erase ds)).
  destruct (map_res (validate_nonterminal ds) f) as [l| | |]; cbn [rerase bind]; try reflexivity. rewrite concat_map. reflexivity.
Qed.

Lemma starts_of_erase f : starts_of (erase_ast f) = map erase_ident (starts_of f).
Proof. unfold starts_of, erase_ast. induction f as [|it f IH]; [reflexivity|]. cbn [map flat_map]. rewrite IH. destruct it; reflexivity. Qed.

Lemma get_start_symbol_name_erase f nts :
  get_start_symbol_name (erase_ast f) (map erase_nt nts) = rerase same (get_start_symbol_name f nts).
Proof.
  unfold get_start_symbol_name. rewrite starts_of_erase. destruct (starts_of f) as [|s [|s' l]]; cbn [map rerase same]; try reflexivity.
  - cbn [erase_ident id_name id_pos].
    assert (E : existsb (fun n => str_eqb (nt_name n) (id_name s)) (map erase_nt nts) = existsb (fun n => str_eqb (nt_name n) (id_name s)) nts).
    { induction nts as [|n nts IHn]; [reflexivity|]. cbn [map existsb]. rewrite nt_name_erase, IHn. reflexivity. }
    rewrite E. destruct (existsb _ nts); reflexivity.
  - cbn [erase_err map erase_ident id_pos]. do 4 f_equal. rewrite !map_map. reflexivity.
Qed.

(* ---------- the theorem ---------- *)

Theorem validate_ast_erase f : validate_ast (erase_ast f) = rerase erase_v (validate_ast f).
Proof.
  unfold validate_ast. apply (bind_rerase erase_te erase_v _ _ _ _ (get_terminal_enum_erase f)). intros te.
  apply (bind_rerase (map erase_nt) erase_v _ _ _ _ (get_nonterminals_erase f)). intros nts.
  apply (bind_rerase same erase_v _ _ _ _ (get_start_symbol_name_erase f nts)). intros start.
  apply (bind_rerase same erase_v _ _ _ _ (assert_no_top_level_name_clashes_erase f)). intros _. reflexivity.
Qed.
