(* Ast/NoPanic.v — validate_ast never panics: it is straight-line code over results that are
   Ok or Err (C07). *)
From Coq Require Import List.
From Kiki Require Import Base.Ord Base.Chars Data Np Ast.Validate.
Import ListNotations.

Lemma np_validate_uppercase_start n p : np (validate_uppercase_start n p).
Proof. unfold validate_uppercase_start. np_auto. Qed.

Lemma np_assert_lowercase_start n p : np (assert_lowercase_start n p).
Proof. unfold assert_lowercase_start. np_auto. Qed.

Lemma np_get_unvalidated_terminal_enum f : np (get_unvalidated_terminal_enum f).
Proof. unfold get_unvalidated_terminal_enum. np_auto. Qed.

Lemma np_get_terminal_enum f : np (get_terminal_enum f).
Proof.
  unfold get_terminal_enum. np_step; [apply np_get_unvalidated_terminal_enum|].
  unfold validate_terminal_def, validate_ident_uppercase_start. np_step; [apply np_validate_uppercase_start|].
  np_step; [|np_auto]. np_step. unfold validate_variant_capitalization. np_step; [apply np_validate_uppercase_start|np_auto].
Qed.

Lemma np_define_name s n p : np (define_name s n p).
Proof. unfold define_name. np_auto. Qed.

Lemma np_define_nonterminals f : forall s, np (define_nonterminals s f).
Proof.
  induction f as [|it f IH]; intros s; cbn [define_nonterminals]; [np_auto|].
  destruct it; try apply IH; (np_step; [apply np_define_name|apply IH]).
Qed.

Lemma np_define_terminal_variants vs : forall s, np (define_terminal_variants s vs).
Proof.
  induction vs as [|v vs IH]; intros s; cbn [define_terminal_variants]; [np_auto|]. np_step; [apply np_define_name|apply IH].
Qed.

Lemma np_get_defined_symbol_positions f : np (get_defined_symbol_positions f).
Proof.
  unfold get_defined_symbol_positions. np_step; [apply np_define_nonterminals|]. np_step; [apply np_get_unvalidated_terminal_enum|].
  apply np_define_terminal_variants.
Qed.

Lemma np_get_defined_symbols f : np (get_defined_symbols f).
Proof.
  unfold get_defined_symbols. np_step; [apply np_get_defined_symbol_positions|]. np_step; [apply np_get_unvalidated_terminal_enum|np_auto].
Qed.

Lemma np_assert_no_top_level_name_clashes f : np (assert_no_top_level_name_clashes f).
Proof.
  unfold assert_no_top_level_name_clashes. np_step; [apply np_get_defined_symbol_positions|].
  np_step; [apply np_get_unvalidated_terminal_enum|]. np_step; [apply np_define_name|np_auto].
Qed.

Lemma np_assert_symbol_is_defined s ds : np (assert_symbol_is_defined s ds).
Proof. unfold assert_symbol_is_defined. np_auto. Qed.

Lemma np_assert_fieldset_is_valid fs ds : np (assert_fieldset_is_valid fs ds).
Proof.
  unfold assert_fieldset_is_valid. destruct fs; [np_auto| |].
  - np_step. unfold assert_named_field_valid. np_step; [|apply np_assert_symbol_is_defined].
    destruct (nf_name _); [apply np_assert_lowercase_start|np_auto].
  - np_step. apply np_assert_symbol_is_defined.
Qed.

Lemma np_variants_unique_names vs : forall s, np (variants_unique_names s vs).
Proof. induction vs as [|v vs IH]; intros s; cbn [variants_unique_names]; [np_auto|]. destruct (seen_get _ _); [np_auto|apply IH]. Qed.

Lemma np_variants_unique_sequences vs : forall s, np (variants_unique_sequences s vs).
Proof. induction vs as [|v vs IH]; intros s; cbn [variants_unique_sequences]; [np_auto|]. destruct (seq_get _ _); [np_auto|apply IH]. Qed.

Lemma np_validate_nonterminal ds it : np (validate_nonterminal ds it).
Proof.
  unfold validate_nonterminal, validate_ident_uppercase_start. destruct it; try (np_auto; fail).
  - np_step; [apply np_validate_uppercase_start|]. np_step; [apply np_assert_fieldset_is_valid|np_auto].
  - np_step; [apply np_validate_uppercase_start|]. np_step; [|np_auto]. unfold assert_variants_are_valid.
    np_step; [apply np_variants_unique_names|]. np_step; [apply np_variants_unique_sequences|]. np_step.
    unfold validate_ident_uppercase_start. np_step; [apply np_validate_uppercase_start|apply np_assert_fieldset_is_valid].
Qed.

Lemma np_get_nonterminals f : np (get_nonterminals f).
Proof.
  unfold get_nonterminals. np_step; [apply np_get_defined_symbols|]. np_step; [|np_auto]. np_step. apply np_validate_nonterminal.
Qed.

Lemma np_get_start_symbol_name f nts : np (get_start_symbol_name f nts).
Proof. unfold get_start_symbol_name. np_auto. Qed.

Theorem np_validate_ast f : np (validate_ast f).
Proof.
  unfold validate_ast. np_step; [apply np_get_terminal_enum|]. np_step; [apply np_get_nonterminals|].
  np_step; [apply np_get_start_symbol_name|]. np_step; [apply np_assert_no_top_level_name_clashes|np_auto].
Qed.
