(* Ast/PosMap.v — validate_ast reads positions only to put them into error values: on the file
   with every position p replaced by f p it returns the validated file with f applied to every
   position, or the same error with f applied to the positions it carries (for any f). *)
From Coq Require Import List Arith NArith Lia Bool.
From Kiki Require Import Base.Ord Base.Chars Data DataProofs Ast.Validate Ast.ValidateProofs Build.Machine Build.Table Emit.Emit Emit.Positions Emit.PosMap.
Import ListNotations.

Section PosMap.
  Variable pf : N -> N.
  Notation pm_ident := (pm_ident pf). Notation pm_tident := (pm_tident pf). Notation pm_attr := (pm_attr pf).
  Notation pm_iot := (pm_iot pf). Notation pm_iou := (pm_iou pf). Notation pm_nf := (pm_nf pf). Notation pm_tf := (pm_tf pf).
  Notation pm_fs := (pm_fs pf). Notation pm_ev := (pm_ev pf). Notation pm_sd := (pm_sd pf). Notation pm_ed := (pm_ed pf).
  Notation pm_nt := (pm_nt pf). Notation pm_te := (pm_te pf). Notation pm_v := (pm_v pf). Notation pm_err := (pm_err pf).
  Notation rpm := (rpm pf).

(* ---------- erasing positions in the AST ---------- *)

Fixpoint pm_ty (t : type) : type :=
  match t with
  | TyUnit => TyUnit
  | TyPath p => TyPath (map pm_ident p)
  | TyComplex c args => TyComplex (map pm_ident c) (map pm_ty args)
  end.
Definition pm_tv (v : tenum_variant) : tenum_variant := {| tv_name := pm_tident (tv_name v); tv_type := pm_ty (tv_type v) |}.
Definition pm_td (d : tenum_def) : tenum_def :=
  {| td_attrs := map pm_attr (td_attrs d); td_name := pm_ident (td_name d); td_variants := map pm_tv (td_variants d) |}.
Definition pm_item (it : file_item) : file_item :=
  match it with
  | IStart i => IStart (pm_ident i)
  | IStruct s => IStruct (pm_sd s)
  | IEnum e => IEnum (pm_ed e)
  | ITerminal d => ITerminal (pm_td d)
  end.
Definition pm_ast (f : ast_file) : ast_file := map pm_item f.

(* ---------- composing results up to positions ---------- *)

Lemma bind_rpm {A B} (fa : A -> A) (fb : B -> B) (r r' : res A) (k k' : A -> res B) :
  r' = rpm fa r -> (forall a, k' (fa a) = rpm fb (k a)) -> bind r' k' = rpm fb (bind r k).
Proof. intros -> Hk. destruct r; cbn; [apply Hk|..]; reflexivity. Qed.

Lemma map_res_rpm {A B} (g : A -> A) (h : B -> B) (f f' : A -> res B) l :
  (forall x, f' (g x) = rpm h (f x)) -> map_res f' (map g l) = rpm (map h) (map_res f l).
Proof.
  intros H. induction l as [|x l IH]; [reflexivity|]. cbn [map map_res]. rewrite H.
  destruct (f x); cbn [rpm bind]; try reflexivity. rewrite IH. destruct (map_res f l); reflexivity.
Qed.

Lemma for_each_rpm {A} (g : A -> A) (f f' : A -> res unit) l :
  (forall x, f' (g x) = rpm same (f x)) -> for_each f' (map g l) = rpm same (for_each f l).
Proof.
  intros H. induction l as [|x l IH]; [reflexivity|]. cbn [map for_each]. rewrite H.
  destruct (f x) as [[]| | |]; cbn [rpm bind same]; try reflexivity. exact IH.
Qed.

(* ---------- pieces ---------- *)

Lemma path_to_string_pm p : path_to_string (map pm_ident p) = path_to_string p.
Proof. unfold path_to_string. rewrite map_map. reflexivity. Qed.

Lemma type_to_string_pm : forall t, type_to_string (pm_ty t) = type_to_string t.
Proof.
  fix IH 1. intros [|p|c args]; cbn [pm_ty type_to_string]; [reflexivity|apply path_to_string_pm|].
  rewrite path_to_string_pm.
  assert (E : map type_to_string (map pm_ty args) = map type_to_string args).
  { induction args as [|a args IHa]; [reflexivity|]. cbn [map]. rewrite IH, IHa. reflexivity. }
  rewrite E. reflexivity.
Qed.

Lemma upper_pm name p : validate_uppercase_start name (pf p) = rpm same (validate_uppercase_start name p).
Proof. unfold validate_uppercase_start. destruct (find is_ascii_alphabetic name) as [c|]; [destruct (is_ascii_uppercase c)|]; reflexivity. Qed.

Lemma lower_pm name p : assert_lowercase_start name (pf p) = rpm same (assert_lowercase_start name p).
Proof. unfold assert_lowercase_start. destruct (find is_ascii_alphabetic name) as [c|]; [destruct (is_ascii_lowercase c)|]; reflexivity. Qed.

Lemma terminal_defs_pm f : terminal_defs (pm_ast f) = map pm_td (terminal_defs f).
Proof. unfold terminal_defs, pm_ast. induction f as [|it f IH]; [reflexivity|]. cbn [map flat_map]. rewrite IH. destruct it; reflexivity. Qed.

Lemma get_unvalidated_terminal_enum_pm f :
  get_unvalidated_terminal_enum (pm_ast f) = rpm pm_td (get_unvalidated_terminal_enum f).
Proof.
  unfold get_unvalidated_terminal_enum. rewrite terminal_defs_pm. destruct (terminal_defs f) as [|t0 [|t1 l]]; cbn [map rpm]; try reflexivity.
  cbn [pm_err]. do 2 f_equal. cbn [map pm_td td_name pm_ident id_pos]. do 2 f_equal. rewrite !map_map. reflexivity.
Qed.

Lemma validate_variant_capitalization_pm v :
  validate_variant_capitalization (pm_tv v) = rpm same (validate_variant_capitalization v).
Proof.
  unfold validate_variant_capitalization. cbn [pm_tv tv_name tv_type pm_tident ti_name ti_dpos].
  rewrite (upper_pm (ti_name (tv_name v)) (ti_dpos (tv_name v))).
  destruct (validate_uppercase_start _ _) as [[]| | |]; cbn [rpm bind same]; try reflexivity. rewrite type_to_string_pm. reflexivity.
Qed.

Lemma validate_terminal_def_pm d : validate_terminal_def (pm_td d) = rpm pm_te (validate_terminal_def d).
Proof.
  unfold validate_terminal_def, validate_ident_uppercase_start. cbn [pm_td td_name td_attrs td_variants pm_ident id_name id_pos].
  rewrite (upper_pm (id_name (td_name d)) (id_pos (td_name d))).
  destruct (validate_uppercase_start _ _) as [[]| | |]; cbn [rpm bind same]; try reflexivity.
  rewrite (map_res_rpm pm_tv same validate_variant_capitalization validate_variant_capitalization _ validate_variant_capitalization_pm).
  destruct (map_res validate_variant_capitalization (td_variants d)); cbn [rpm bind]; try reflexivity.
  unfold pm_te. cbn. rewrite map_id. reflexivity.
Qed.

Lemma get_terminal_enum_pm f : get_terminal_enum (pm_ast f) = rpm pm_te (get_terminal_enum f).
Proof.
  unfold get_terminal_enum. apply (bind_rpm pm_td pm_te _ _ _ _ (get_unvalidated_terminal_enum_pm f)).
  apply validate_terminal_def_pm.
Qed.

(* the `seen` tables *)
Definition pseen (m : seen_map) : seen_map := map (fun kv => (fst kv, pf (snd kv))) m.

Lemma seen_get_pseen m k : seen_get (pseen m) k = option_map pf (seen_get m k).
Proof. induction m as [|[k' v] m IH]; [reflexivity|]. cbn. destruct (str_eqb k k'); [reflexivity|exact IH]. Qed.

Lemma define_name_pm seen n p : define_name (pseen seen) n (pf p) = rpm pseen (define_name seen n p).
Proof. unfold define_name. rewrite seen_get_pseen. destruct (seen_get seen n); reflexivity. Qed.

Lemma define_nonterminals_pm f : forall seen, define_nonterminals (pseen seen) (pm_ast f) = rpm pseen (define_nonterminals seen f).
Proof.
  induction f as [|it f IH]; intros seen; [reflexivity|]. destruct it as [i|s|e|t]; cbn [pm_ast map pm_item define_nonterminals]; try apply IH.
  - cbn [pm_sd sd_name pm_ident id_name id_pos]. apply (bind_rpm pseen pseen _ _ _ _ (define_name_pm seen _ _)). apply IH.
  - cbn [pm_ed ed_name pm_ident id_name id_pos]. apply (bind_rpm pseen pseen _ _ _ _ (define_name_pm seen _ _)). apply IH.
Qed.

Lemma define_terminal_variants_pm vs : forall seen,
  define_terminal_variants (pseen seen) (map pm_tv vs) = rpm pseen (define_terminal_variants seen vs).
Proof.
  induction vs as [|v vs IH]; intros seen; [reflexivity|]. cbn [map define_terminal_variants pm_tv tv_name pm_tident ti_name ti_dpos].
  apply (bind_rpm pseen pseen _ _ _ _ (define_name_pm seen _ _)). apply IH.
Qed.

Lemma get_defined_symbol_positions_pm f :
  get_defined_symbol_positions (pm_ast f) = rpm pseen (get_defined_symbol_positions f).
Proof.
  unfold get_defined_symbol_positions. apply (bind_rpm pseen pseen _ _ _ _ (define_nonterminals_pm f [])).
  intros seen. apply (bind_rpm pm_td pseen _ _ _ _ (get_unvalidated_terminal_enum_pm f)).
  intros te. apply define_terminal_variants_pm.
Qed.

Lemma nonterminal_names_pm f : nonterminal_names (pm_ast f) = nonterminal_names f.
Proof. unfold nonterminal_names, pm_ast. induction f as [|it f IH]; [reflexivity|]. cbn [map flat_map]. rewrite IH. destruct it; reflexivity. Qed.

Lemma get_defined_symbols_pm f : get_defined_symbols (pm_ast f) = rpm same (get_defined_symbols f).
Proof.
  unfold get_defined_symbols. apply (bind_rpm pseen same _ _ _ _ (get_defined_symbol_positions_pm f)). intros _.
  apply (bind_rpm pm_td same _ _ _ _ (get_unvalidated_terminal_enum_pm f)). intros te. cbn [rpm same].
  rewrite nonterminal_names_pm. cbn [pm_td td_variants]. rewrite map_map. reflexivity.
Qed.

Lemma assert_no_top_level_name_clashes_pm f :
  assert_no_top_level_name_clashes (pm_ast f) = rpm same (assert_no_top_level_name_clashes f).
Proof.
  unfold assert_no_top_level_name_clashes. apply (bind_rpm pseen same _ _ _ _ (get_defined_symbol_positions_pm f)). intros seen.
  apply (bind_rpm pm_td same _ _ _ _ (get_unvalidated_terminal_enum_pm f)). intros te.
  cbn [pm_td td_name pm_ident id_name id_pos].
  apply (bind_rpm pseen same _ _ _ _ (define_name_pm seen _ _)). reflexivity.
Qed.

Lemma assert_symbol_is_defined_pm s ds : assert_symbol_is_defined (pm_iot s) ds = rpm same (assert_symbol_is_defined s ds).
Proof. destruct s as [i|t]; cbn; [destruct (mem_str (id_name i) _)|destruct (mem_str (ti_name t) _)]; reflexivity. Qed.

Lemma assert_fieldset_is_valid_pm fs ds : assert_fieldset_is_valid (pm_fs fs) ds = rpm same (assert_fieldset_is_valid fs ds).
Proof.
  destruct fs as [|l|l]; cbn [pm_fs assert_fieldset_is_valid]; [reflexivity| |].
  - apply for_each_rpm. intros x. unfold assert_named_field_valid. cbn [pm_nf nf_name nf_symbol].
    eapply (bind_rpm same same).
    + destruct (nf_name x) as [i|p]; cbn [pm_iou pm_ident id_name id_pos]; [apply lower_pm|reflexivity].
    + intros _. apply assert_symbol_is_defined_pm.
  - apply for_each_rpm. intros [s|s]; cbn [pm_tf tuple_field_symbol]; apply assert_symbol_is_defined_pm.
Qed.

Lemma variants_unique_names_pm vs : forall seen,
  variants_unique_names (pseen seen) (map pm_ev vs) = rpm same (variants_unique_names seen vs).
Proof.
  induction vs as [|v vs IH]; intros seen; [reflexivity|]. cbn [map variants_unique_names pm_ev ev_name pm_ident id_name id_pos].
  rewrite seen_get_pseen. destruct (seen_get seen (id_name (ev_name v))); [reflexivity|]. apply (IH ((id_name (ev_name v), id_pos (ev_name v)) :: seen)).
Qed.

Definition pseq (m : list (list symbol * N)) : list (list symbol * N) := map (fun kv => (fst kv, pf (snd kv))) m.

Lemma seq_get_pseq m k : seq_get (pseq m) k = option_map pf (seq_get m k).
Proof. induction m as [|[k' v] m IH]; [reflexivity|]. cbn. destruct (symseq_eqb k k'); [reflexivity|exact IH]. Qed.

Lemma variants_unique_sequences_pm vs : forall seen,
  variants_unique_sequences (pseq seen) (map pm_ev vs) = rpm same (variants_unique_sequences seen vs).
Proof.
  induction vs as [|v vs IH]; intros seen; [reflexivity|]. cbn [map variants_unique_sequences pm_ev ev_name ev_fieldset pm_ident id_name id_pos].
  rewrite field_symbols_pm, seq_get_pseq. destruct (seq_get seen (field_symbols (ev_fieldset v))); [reflexivity|].
  apply (IH ((field_symbols (ev_fieldset v), id_pos (ev_name v)) :: seen)).
Qed.

Lemma assert_variants_are_valid_pm vs ds : assert_variants_are_valid (map pm_ev vs) ds = rpm same (assert_variants_are_valid vs ds).
Proof.
  unfold assert_variants_are_valid. apply (bind_rpm same same _ _ _ _ (variants_unique_names_pm vs [])). intros _.
  apply (bind_rpm same same _ _ _ _ (variants_unique_sequences_pm vs [])). intros _.
  apply for_each_rpm. intros v. unfold validate_ident_uppercase_start. cbn [pm_ev ev_name ev_fieldset pm_ident id_name id_pos].
  apply (bind_rpm same same _ _ _ _ (upper_pm _ _)). intros _. apply assert_fieldset_is_valid_pm.
Qed.

Lemma validate_nonterminal_pm ds it : validate_nonterminal ds (pm_item it) = rpm (map pm_nt) (validate_nonterminal ds it).
Proof.
  destruct it as [i|s|e|t]; cbn [pm_item validate_nonterminal]; try reflexivity; unfold validate_ident_uppercase_start.
  - cbn [pm_sd sd_name sd_fieldset pm_ident id_name id_pos].
    apply (bind_rpm same (map pm_nt) _ _ _ _ (upper_pm _ _)). intros _.
    apply (bind_rpm same (map pm_nt) _ _ _ _ (assert_fieldset_is_valid_pm _ _)). intros _. reflexivity.
  - cbn [pm_ed ed_name ed_variants pm_ident id_name id_pos].
    apply (bind_rpm same (map pm_nt) _ _ _ _ (upper_pm _ _)). intros _.
    apply (bind_rpm same (map pm_nt) _ _ _ _ (assert_variants_are_valid_pm _ _)). intros _. reflexivity.
Qed.

Lemma get_nonterminals_pm f : get_nonterminals (pm_ast f) = rpm (map pm_nt) (get_nonterminals f).
Proof.
  unfold get_nonterminals. apply (bind_rpm same (map pm_nt) _ _ _ _ (get_defined_symbols_pm f)). intros ds. unfold same.
  unfold pm_ast. rewrite (map_res_rpm pm_item (map pm_nt) (validate_nonterminal ds) (validate_nonterminal ds) f (validate_nonterminal_pm ds)).
  destruct (map_res (validate_nonterminal ds) f) as [l| | |]; cbn [rpm bind]; try reflexivity. rewrite concat_map. reflexivity.
Qed.

Lemma starts_of_pm f : starts_of (pm_ast f) = map pm_ident (starts_of f).
Proof. unfold starts_of, pm_ast. induction f as [|it f IH]; [reflexivity|]. cbn [map flat_map]. rewrite IH. destruct it; reflexivity. Qed.

Lemma get_start_symbol_name_pm f nts :
  get_start_symbol_name (pm_ast f) (map pm_nt nts) = rpm same (get_start_symbol_name f nts).
Proof.
  unfold get_start_symbol_name. rewrite starts_of_pm. destruct (starts_of f) as [|s [|s' l]]; cbn [map rpm same]; try reflexivity.
  - cbn [pm_ident id_name id_pos].
    assert (E : existsb (fun n => str_eqb (nt_name n) (id_name s)) (map pm_nt nts) = existsb (fun n => str_eqb (nt_name n) (id_name s)) nts).
    { induction nts as [|n nts IHn]; [reflexivity|]. cbn [map existsb]. rewrite nt_name_pm, IHn. reflexivity. }
    rewrite E. destruct (existsb _ nts); reflexivity.
  - cbn [pm_err map pm_ident id_pos]. do 4 f_equal. rewrite !map_map. reflexivity.
Qed.

(* ---------- the theorem ---------- *)

Theorem validate_ast_pm f : validate_ast (pm_ast f) = rpm pm_v (validate_ast f).
Proof.
  unfold validate_ast. apply (bind_rpm pm_te pm_v _ _ _ _ (get_terminal_enum_pm f)). intros te.
  apply (bind_rpm (map pm_nt) pm_v _ _ _ _ (get_nonterminals_pm f)). intros nts.
  apply (bind_rpm same pm_v _ _ _ _ (get_start_symbol_name_pm f nts)). intros start.
  apply (bind_rpm same pm_v _ _ _ _ (assert_no_top_level_name_clashes_pm f)). intros _. reflexivity.
Qed.
End PosMap.
