(* Ast/NoFuel.v — validate_ast never runs out of fuel: it is straight-line code over results that are
   Ok or Err (C07). *)
From Coq Require Import List.
From Kiki Require Import Base.Ord Base.Chars Data Nf Ast.Validate.
Import ListNotations.

Lemma nf_validate_uppercase_start n p : nf (validate_uppercase_start n p).
Proof. unfold validate_uppercase_start. nf_auto. Qed.

Lemma nf_assert_lowercase_start n p : nf (assert_lowercase_start n p).
Proof. unfold assert_lowercase_start. nf_auto. Qed.

Lemma nf_get_unvalidated_terminal_enum f : nf (get_unvalidated_terminal_enum f).
Proof. unfold get_unvalidated_terminal_enum. nf_auto. Qed.

Lemma nf_get_terminal_enum f : nf (get_terminal_enum f).
Proof.
  unfold get_terminal_enum. nf_step; [apply nf_get_unvalidated_terminal_enum|].
  unfold validate_terminal_def, validate_ident_uppercase_start. nf_step; [apply nf_validate_uppercase_start|].
  nf_step; [|nf_auto]. nf_step. unfold validate_variant_capitalization. nf_step; [apply nf_validate_uppercase_start|nf_auto].
Qed.

Lemma nf_define_name s n p : nf (define_name s n p).
Proof. unfold define_name. nf_auto. Qed.

Lemma nf_define_nonterminals f : forall s, nf (define_nonterminals s f).
Proof.
  induction f as [|it f IH]; intros s; cbn [define_nonterminals]; [nf_auto|].
  destruct it; try apply IH; (nf_step; [apply nf_define_name|apply IH]).
Qed.

Lemma nf_define_terminal_variants vs : forall s, nf (define_terminal_variants s vs).
Proof.
  induction vs as [|v vs IH]; intros s; cbn [define_terminal_variants]; [nf_auto|]. nf_step; [apply nf_define_name|apply IH].
Qed.

Lemma nf_get_defined_symbol_positions f : nf (get_defined_symbol_positions f).
Proof.
  unfold get_defined_symbol_positions. nf_step; [apply nf_define_nonterminals|]. nf_step; [apply nf_get_unvalidated_terminal_enum|].
  apply nf_define_terminal_variants.
Qed.

Lemma nf_get_defined_symbols f : nf (get_defined_symbols f).
Proof.
  unfold get_defined_symbols. nf_step; [apply nf_get_defined_symbol_positions|]. nf_step; [apply nf_get_unvalidated_terminal_enum|nf_auto].
Qed.

Lemma nf_assert_no_top_level_name_clashes f : nf (assert_no_top_level_name_clashes f).
Proof.
  unfold assert_no_top_level_name_clashes. nf_step; [apply nf_get_defined_symbol_positions|].
  nf_step; [apply nf_get_unvalidated_terminal_enum|]. nf_step; [apply nf_define_name|nf_auto].
Qed.

Lemma nf_assert_symbol_is_defined s ds : nf (assert_symbol_is_defined s ds).
Proof. unfold assert_symbol_is_defined. nf_auto. Qed.

Lemma nf_assert_fieldset_is_valid fs ds : nf (assert_fieldset_is_valid fs ds).
Proof.
  unfold assert_fieldset_is_valid. destruct fs; [nf_auto| |].
  - nf_step. unfold assert_named_field_valid. nf_step; [|apply nf_assert_symbol_is_defined].
    destruct (nf_name _); [apply nf_assert_lowercase_start|nf_auto].
  - nf_step. apply nf_assert_symbol_is_defined.
Qed.

Lemma nf_variants_unique_names vs : forall s, nf (variants_unique_names s vs).
Proof. induction vs as [|v vs IH]; intros s; cbn [variants_unique_names]; [nf_auto|]. destruct (seen_get _ _); [nf_auto|apply IH]. Qed.

Lemma nf_variants_unique_sequences vs : forall s, nf (variants_unique_sequences s vs).
Proof. induction vs as [|v vs IH]; intros s; cbn [variants_unique_sequences]; [nf_auto|]. destruct (seq_get _ _); [nf_auto|apply IH]. Qed.

Lemma nf_validate_nonterminal ds it : nf (validate_nonterminal ds it).
Proof.
  unfold validate_nonterminal, validate_ident_uppercase_start. destruct it; try (nf_auto; fail).
  - nf_step; [apply nf_validate_uppercase_start|]. nf_step; [apply nf_assert_fieldset_is_valid|nf_auto].
  - nf_step; [apply nf_validate_uppercase_start|]. nf_step; [|nf_auto]. unfold assert_variants_are_valid.
    nf_step; [apply nf_variants_unique_names|]. nf_step; [apply nf_variants_unique_sequences|]. nf_step.
    unfold validate_ident_uppercase_start. nf_step; [apply nf_validate_uppercase_start|apply nf_assert_fieldset_is_valid].
Qed.

Lemma nf_get_nonterminals f : nf (get_nonterminals f).
Proof.
  unfold get_nonterminals. nf_step; [apply nf_get_defined_symbols|]. nf_step; [|nf_auto]. nf_step. apply nf_validate_nonterminal.
Qed.

Lemma nf_get_start_symbol_name f nts : nf (get_start_symbol_name f nts).
Proof. unfold get_start_symbol_name. nf_auto. Qed.

Theorem nf_validate_ast f : nf (validate_ast f).
Proof.
  unfold validate_ast. nf_step; [apply nf_get_terminal_enum|]. nf_step; [apply nf_get_nonterminals|].
  nf_step; [apply nf_get_start_symbol_name|]. nf_step; [apply nf_assert_no_top_level_name_clashes|nf_auto].
Qed.
