(* LR/Productive.v — a checkable sufficient condition for "every right-hand side derives some token
   sequence" (the hypothesis of LR/Viable.v reject_exact): iterate "a nonterminal is productive if some
   rule for it has only terminals and productive nonterminals on its right-hand side". *)
From Coq Require Import List Arith Lia Bool.
From Kiki Require Import Base.Ord Base.Chars Data LR.Driver LR.Grammar.
Import ListNotations.
Open Scope nat_scope.

Section Productive.
  Context {P : Type} (kind : P -> nat).
  Variable T : ptable.
  Notation rules := (pt_rules T).
  Notation wf := (wf kind T).
  Notation wfs := (wfs kind T).

  (* a token of every kind *)
  Variable tok : nat -> P.
  Hypothesis Htok : forall k, k < pt_nterm T -> kind (tok k) = k.

  Definition sym_ok (set : list nat) (x : psym) : bool :=
    match x with PT k => Nat.ltb k (pt_nterm T) | PN n => existsb (Nat.eqb n) set end.

  Definition step_set (set : list nat) : list nat :=
    set ++ flat_map (fun ru => if forallb (sym_ok set) (pr_rhs ru) then [pr_lhs ru] else []) rules.

  Fixpoint iter (n : nat) (set : list nat) : list nat :=
    match n with O => set | S n' => iter n' (step_set set) end.

  Definition good (set : list nat) : Prop := forall n, In n set -> exists t, wf (PN n) t.

  Lemma sym_ok_wf set x : good set -> sym_ok set x = true -> exists t, wf x t.
  Proof.
    intros Hg. destruct x as [k|n]; cbn [sym_ok]; intros H.
    - apply Nat.ltb_lt in H. exists (Leaf (tok k)). rewrite <- (Htok k H) at 1. constructor.
    - apply existsb_exists in H as (m & Hm & E). apply Nat.eqb_eq in E. subst m. apply Hg, Hm.
  Qed.

  Lemma syms_ok_wfs set xs : good set -> forallb (sym_ok set) xs = true -> exists ts, wfs xs ts.
  Proof.
    intros Hg. induction xs as [|x xs IH]; cbn [forallb]; intros H; [exists []; constructor|].
    apply andb_true_iff in H as (H1 & H2). destruct (sym_ok_wf set x Hg H1) as (t & Ht). destruct (IH H2) as (ts & Hts).
    exists (t :: ts). constructor; assumption.
  Qed.

  Lemma step_good set : good set -> good (step_set set).
  Proof.
    intros Hg n Hn. unfold step_set in Hn. apply in_app_or in Hn as [Hn|Hn]; [apply Hg, Hn|].
    apply in_flat_map in Hn as (ru & Hru & Hn). destruct (forallb (sym_ok set) (pr_rhs ru)) eqn:E; [|destruct Hn].
    destruct Hn as [<-|[]]. destruct (syms_ok_wfs set _ Hg E) as (ts & Hts).
    apply In_nth_error in Hru as (r & Hr). exists (Node r ts). econstructor; eassumption.
  Qed.

  Lemma iter_good n : forall set, good set -> good (iter n set).
  Proof. induction n as [|n IH]; intros set Hg; [exact Hg|]. cbn [iter]. apply IH, step_good, Hg. Qed.

  Definition productive_check (n : nat) : bool :=
    let set := iter n [] in
    forallb (fun ru => forallb (sym_ok set) (pr_rhs ru)) rules && existsb (Nat.eqb (pt_start_nt T)) set.

  Theorem productive_check_sound n : productive_check n = true ->
    (forall r ru, nth_error rules r = Some ru -> exists ts, wfs (pr_rhs ru) ts) /\ (exists t, wf (PN (pt_start_nt T)) t).
  Proof.
    unfold productive_check. intros H. apply andb_true_iff in H as (H1 & H2).
    assert (Hg : good (iter n [])) by (apply iter_good; intros m []).
    split.
    - intros r ru Hr. rewrite forallb_forall in H1. apply (syms_ok_wfs _ _ Hg). apply H1. eapply nth_error_In, Hr.
    - apply existsb_exists in H2 as (m & Hm & E). apply Nat.eqb_eq in E. subst m. apply Hg, Hm.
  Qed.
End Productive.
