(* LR/Term.v — termination of the driver loop from a checked certificate.
   A potential phi on states and a constant K such that every reduce step
   strictly decreases  K * (stack height) + phi(top state):
      phi(s') + K < phi(s) + K * |rhs r|
   for every cell T(s,c) = Reduce r and every s' = goto(p, lhs r), p ranging over
   all states from which |rhs r| transitions lead to s (an over-approximation of
   the state exposed by the pops).  A shift raises the measure by at most
   K + max phi and consumes a token.  Hence the loop stops within
   K + phi(start) + |w| * (K + M + 1) + 1 iterations on every input w. *)
From Coq Require Import List Arith Lia Bool.
From Kiki Require Import Base.Ord Base.Chars Data LR.Driver LR.Grammar LR.Inv LR.Sound LR.Validate.
Import ListNotations.
Open Scope nat_scope.

Section TermCheck.
  Variable T : ptable.
  Variable ann : list (list item).
  Variable K : nat.
  Variable phi : list nat.
  Notation rules := (pt_rules T).
  Notation nstates := (length ann).

  Definition ph (s : nat) : nat := nth s phi 0.
  Definition M : nat := fold_right Nat.max 0 phi.

  Definition ogoto_is (o : option nat) (s : nat) : bool :=
    match o with Some s' => Nat.eqb s' s | None => false end.

  (* states with a transition into s *)
  Definition preds1 (s : nat) : list nat :=
    filter (fun p => existsb (fun x => ogoto_is (goto_sym T p x) s) (all_syms T)) (states ann).

  Fixpoint predsn (n : nat) (s : nat) : list nat :=
    match n with
    | O => [s]
    | S n' => flat_map preds1 (predsn n' s)
    end.

  Definition term_check : bool :=
    Nat.eqb (length phi) nstates &&
    forallb (fun s =>
      forallb (fun c =>
        match get_action T s c with
        | Some (AReduce r) =>
            match nth_error rules r with
            | Some ru =>
                forallb (fun p => match get_goto T p (pr_lhs ru) with
                                  | Some (Some s') => Nat.ltb (ph s' + K) (ph s + K * length (pr_rhs ru))
                                  | _ => true
                                  end) (predsn (length (pr_rhs ru)) s)
            | None => true
            end
        | _ => true
        end) (seq 0 (S (pt_nterm T)))) (states ann).
End TermCheck.

Lemma nth_le_max (l : list nat) : forall s, nth s l 0 <= fold_right Nat.max 0 l.
Proof.
  induction l as [|x l IH]; intros s; cbn.
  - destruct s; lia.
  - destruct s as [|s]; [lia|]. specialize (IH s). lia.
Qed.

Section Term.
  Context {P : Type} (kind : P -> nat).
  Variable T : ptable.
  Variable ann : list (list item).
  Variable ft : first_table.
  Variable K : nat.
  Variable phi : list nat.
  Hypothesis H2 : Inv2 T ann.
  Hypothesis Hrows : forall s c a, get_action T s c = Some a -> s < length ann /\ c <= pt_nterm T.
  Hypothesis Hsyms : forall s x s', goto_sym T s x = Some s' -> s < length ann /\ In x (all_syms T).
  Hypothesis Ht : term_check T ann K phi = true.
  Notation rules := (pt_rules T).
  Notation tree := (@tree P).
  Notation ph := (ph phi).
  Notation M := (M phi).

  Transparent Driver.step Driver.run.

  Lemma ph_le_M s : ph s <= M.
  Proof. apply nth_le_max. Qed.

  (* the stack spells a path of the automaton *)
  Inductive chain : list nat -> Prop :=
  | chain_one s : chain [s]
  | chain_cons s s' sts x : chain (s :: sts) -> goto_sym T s x = Some s' -> chain (s' :: s :: sts).

  Lemma SI_chain sts nodes : SI kind T sts nodes -> chain sts.
  Proof. induction 1; [constructor|econstructor; eauto]. Qed.

  Lemma chain_app_inv l : forall a b r, chain (l ++ a :: b :: r) -> exists x, goto_sym T b x = Some a.
  Proof.
    induction l as [|c l IH]; intros a b r H; cbn [app] in H.
    - inversion H; subst. eauto.
    - apply (IH a b r). remember (c :: l ++ a :: b :: r) as full eqn:Ef.
      destruct H as [s|s s' sts x Hc Hg].
      + destruct l; discriminate.
      + injection Ef as _ E2. rewrite E2 in Hc. exact Hc.
  Qed.

  Lemma In_preds1 p x s : goto_sym T p x = Some s -> In p (preds1 T ann s).
  Proof.
    intros Hg. destruct (Hsyms _ _ _ Hg) as (Hp & Hx). unfold preds1. apply filter_In. split.
    - apply in_seq. lia.
    - apply existsb_exists. exists x. split; [exact Hx|]. rewrite Hg. cbn. apply Nat.eqb_refl.
  Qed.

  Lemma chain_predsn pushed : forall top p0 stk,
      chain (pushed ++ p0 :: stk) -> hd p0 pushed = top -> In p0 (predsn T ann (length pushed) top).
  Proof.
    induction pushed as [|a pushed IH] using rev_ind; intros top p0 stk Hc Hhd.
    - cbn in *. left. auto.
    - rewrite app_length. cbn [length]. replace (length pushed + 1) with (S (length pushed)) by lia.
      cbn [predsn]. apply in_flat_map.
      (* the state just above p0 in the stack is a, reached from p0 by one transition *)
      rewrite <- app_assoc in Hc. cbn [app] in Hc.
      assert (Ha : exists x, goto_sym T p0 x = Some a) by (eapply chain_app_inv; exact Hc).
      destruct Ha as (x & Hx).
      exists a. split.
      + (* a is |pushed| steps below top *)
        assert (Hc' : chain (pushed ++ a :: p0 :: stk)) by exact Hc.
        apply (IH top a (p0 :: stk) Hc').
        destruct pushed as [|b pushed']; cbn [hd app] in *; exact Hhd.
      + eapply In_preds1; eauto.
  Qed.

  Definition mu (sts : list nat) : nat := K * length sts + ph (hd 0 sts).
  Definition budget (sts : list nat) (inp : list P) : nat := mu sts + length inp * (K + M + 1).

  Lemma step_decreases w sts nodes inp sts' nodes' inp' :
    good kind T w sts nodes inp -> step kind T (sts, nodes, inp) = inl (sts', nodes', inp') ->
    good kind T w sts' nodes' inp' /\ budget sts' inp' < budget sts inp.
  Proof.
    intros Hg Hs. pose proof (step_good kind T ann H2 w sts nodes inp Hg) as Hok. rewrite Hs in Hok.
    cbn [step_ok] in Hok. destruct Hok as (Hg' & Hk). split; [exact Hg'|].
    destruct Hk as [(p & s' & -> & ->)|(-> & top & rest & r & ru & pushed & p0 & stk & s' & Hsts & Ha & Hr & Hsplit & Hlen & Hgo & ->)].
    - (* shift *)
      unfold budget, mu. cbn [length hd]. pose proof (ph_le_M s'). nia.
    - (* reduce *)
      unfold budget, mu. subst sts.
      destruct Hg as (HS & _). pose proof (SI_chain _ _ HS) as Hc. rewrite Hsplit in Hc.
      assert (Hhd : hd p0 pushed = top).
      { destruct pushed as [|a pushed']; cbn [app] in Hsplit; injection Hsplit as E1 E2; cbn [hd]; congruence. }
      pose proof (chain_predsn pushed top p0 stk Hc Hhd) as Hin. rewrite Hlen in Hin.
      unfold term_check in Ht. apply andb_true_iff in Ht as (_ & Ht'). rewrite forallb_forall in Ht'.
      destruct (Hrows _ _ _ Ha) as (Htop & Hcol).
      specialize (Ht' top ltac:(apply in_seq; lia)). rewrite forallb_forall in Ht'.
      specialize (Ht' (col T (la_of kind inp)) ltac:(apply in_seq; lia)). rewrite Ha, Hr in Ht'.
      rewrite forallb_forall in Ht'. specialize (Ht' p0 Hin). rewrite Hgo in Ht'. apply Nat.ltb_lt in Ht'.
      rewrite Hsplit. cbn [length hd]. rewrite app_length. cbn [length]. rewrite Hlen.
      replace (hd 0 (pushed ++ p0 :: stk)) with top.
      2:{ destruct pushed as [|a pushed']; cbn [app hd] in *; congruence. }
      nia.
  Qed.

  Lemma run_terminates w : forall fuel sts nodes inp,
      good kind T w sts nodes inp -> budget sts inp < fuel -> run kind T fuel (sts, nodes, inp) <> OOutOfFuel.
  Proof.
    induction fuel as [|f IH]; intros sts nodes inp Hg Hb; [lia|].
    cbn [Driver.run]. destruct (step kind T (sts, nodes, inp)) as [[[sts' nodes'] inp']|o] eqn:E.
    - destruct (step_decreases _ _ _ _ _ _ _ Hg E) as (Hg' & Hlt). apply IH; [exact Hg'|lia].
    - pose proof (step_good kind T ann H2 w sts nodes inp Hg) as Hok. rewrite E in Hok.
      destruct o; cbn [step_ok] in Hok; try discriminate; contradiction.
  Qed.

  Theorem terminates : forall w, Forall (fun p => kind p < pt_nterm T) w ->
    parse kind T (K + ph (pt_start T) + length w * (K + M + 1) + 1) w <> OOutOfFuel.
  Proof.
    intros w Hw. unfold parse, initial. apply (run_terminates w).
    - apply good_initial, Hw.
    - unfold budget, mu. cbn [length hd]. lia.
  Qed.
End Term.
