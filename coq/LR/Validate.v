(* LR/Validate.v — a boolean validator for (tables, item annotation, FIRST table)
   and its soundness: `validate T ann ft = true` implies the invariants Inv and
   Inv2 (hence safe, sound, complete).  The annotation and the FIRST table are
   untrusted hints; everything is checked against the tables the driver reads. *)
From Coq Require Import List Arith Lia Bool.
From Kiki Require Import Base.Ord Base.Chars Data LR.Driver LR.Grammar LR.Inv.
Import ListNotations.
Open Scope nat_scope.

(* ---------- decidable equalities ---------- *)

Definition onat_eqb (a b : option nat) : bool :=
  match a, b with
  | Some x, Some y => Nat.eqb x y
  | None, None => true
  | _, _ => false
  end.

Lemma onat_eqb_eq a b : onat_eqb a b = true <-> a = b.
Proof.
  destruct a, b; cbn; try (split; [discriminate|congruence]); try tauto.
  rewrite Nat.eqb_eq. split; congruence.
Qed.

Definition item_eqb (a b : item) : bool :=
  onat_eqb (irule a) (irule b) && Nat.eqb (idot a) (idot b) && onat_eqb (ila a) (ila b).

Lemma item_eqb_eq a b : item_eqb a b = true <-> a = b.
Proof.
  unfold item_eqb. rewrite !andb_true_iff, !onat_eqb_eq, Nat.eqb_eq.
  destruct a, b; cbn. split; [intros ((-> & ->) & ->); reflexivity|intros H; injection H; auto].
Qed.

Definition mem_item (it : item) (l : list item) : bool := existsb (item_eqb it) l.

Lemma mem_item_In it l : mem_item it l = true <-> In it l.
Proof.
  unfold mem_item. rewrite existsb_exists. split.
  - intros (x & Hx & He). apply item_eqb_eq in He. subst. exact Hx.
  - intros H. exists it. split; [exact H|apply item_eqb_eq; reflexivity].
Qed.

Definition action_eqb' (a b : action) : bool := action_eqb a b.

Lemma action_eqb_eq a b : action_eqb a b = true <-> a = b.
Proof.
  destruct a, b; cbn; try (split; [discriminate|congruence]); try tauto;
    rewrite Nat.eqb_eq; split; congruence.
Qed.

Definition oaction_is (o : option action) (a : action) : bool :=
  match o with Some b => action_eqb b a | None => false end.

Lemma oaction_is_eq o a : oaction_is o a = true <-> o = Some a.
Proof.
  destruct o as [b|]; cbn; [|split; [discriminate|discriminate]].
  rewrite action_eqb_eq. split; congruence.
Qed.

Definition mem_nat (x : nat) (l : list nat) : bool := existsb (Nat.eqb x) l.

Lemma mem_nat_In x l : mem_nat x l = true <-> In x l.
Proof.
  unfold mem_nat. rewrite existsb_exists. split.
  - intros (y & Hy & He). apply Nat.eqb_eq in He. subst. exact Hy.
  - intros H. exists x. split; [exact H|apply Nat.eqb_refl].
Qed.

(* ---------- FIRST table (hint) ---------- *)

Definition first_table := list (list nat * bool).     (* per nonterminal: FIRST terminals, nullable *)

Section First.
  Variable ft : first_table.
  Definition first_of (n : nat) : list nat := fst (nth n ft ([], false)).
  Definition nullable_of (n : nat) : bool := snd (nth n ft ([], false)).

  Definition nullable_sym (x : psym) : bool := match x with PT _ => false | PN n => nullable_of n end.
  Definition nullable_seq (b : list psym) : bool := forallb nullable_sym b.

  Fixpoint first_seq_list (b : list psym) : list nat :=
    match b with
    | [] => []
    | PT t :: _ => [t]
    | PN n :: r => first_of n ++ (if nullable_of n then first_seq_list r else [])
    end.

  (* the candidates for "a in FIRST(b la)" *)
  Definition cands (b : list psym) (la : option nat) : list (option nat) :=
    map Some (first_seq_list b) ++ (if nullable_seq b then [la] else []).

  Definition fseqb (b : list psym) (la a : option nat) : bool := existsb (onat_eqb a) (cands b la).

  Definition rule_closed (ru : prule) : bool :=
    forallb (fun t => mem_nat t (first_of (pr_lhs ru))) (first_seq_list (pr_rhs ru))
    && implb (nullable_seq (pr_rhs ru)) (nullable_of (pr_lhs ru)).

  Definition first_closed (rules : list prule) : bool := forallb rule_closed rules.
End First.

(* ---------- the validator ---------- *)

Section Validate.
  Variable T : ptable.
  Variable ann : list (list item).
  Variable ft : first_table.
  Notation rules := (pt_rules T).
  Notation items := (items ann).
  Notation nstates := (length ann).

  Definition states : list nat := seq 0 nstates.
  Definition nnt : nat := length (nth 0 (pt_goto T) []).

  Definition all_items (f : nat -> item -> bool) : bool :=
    forallb (fun s => forallb (f s) (items s)) states.

  Definition chk_start : bool := mem_item start_item (items (pt_start T)).

  Definition chk_closure : bool :=
    all_items (fun s it =>
      match after_dot T it with
      | Some (PN B :: rest) =>
          forallb (fun '(r, ru) =>
                     if Nat.eqb (pr_lhs ru) B then
                       forallb (fun a => mem_item {| irule := Some r; idot := 0; ila := a |} (items s))
                               (cands ft rest (ila it))
                     else true) (enumerate rules)
      | _ => true
      end).

  Definition chk_goto : bool :=
    all_items (fun s it =>
      match after_dot T it with
      | Some (x :: _) => match goto_sym T s x with
                         | Some s' => mem_item (adv it) (items s')
                         | None => false
                         end
      | _ => true
      end).

  Definition chk_final : bool :=
    all_items (fun s it =>
      match after_dot T it with
      | Some [] => match irule it with
                   | Some r => oaction_is (get_action T s (col T (ila it))) (AReduce r)
                   | None => match ila it with
                             | None => oaction_is (get_action T s (pt_nterm T)) AAccept
                             | Some _ => true
                             end
                   end
      | _ => true
      end).

  Definition chk_used : bool := forallb (fun ru => Nat.eqb (length (pr_used ru)) (length (pr_rhs ru))) rules.

  Definition chk_dims : bool :=
    Nat.ltb (pt_start T) nstates
    && Nat.eqb (length (pt_action T)) nstates
    && Nat.eqb (length (pt_goto T)) nstates
    && forallb (fun row => Nat.eqb (length row) (S (pt_nterm T))) (pt_action T)
    && forallb (fun row => Nat.eqb (length row) nnt) (pt_goto T)
    && forallb (fun ru => Nat.ltb (pr_lhs ru) nnt) rules
    && forallb (fun row => forallb (fun a => match a with AShift s' => Nat.ltb s' nstates | _ => true end) row) (pt_action T)
    && forallb (fun row => forallb (fun g => match g with Some s' => Nat.ltb s' nstates | None => true end) row) (pt_goto T).

  Definition demandsb (it : item) (c : nat) (a : action) : bool :=
    match a with
    | AShift _ => match after_dot T it with
                  | Some (PT t :: _) => Nat.eqb t c && Nat.ltb t (pt_nterm T)
                  | _ => false
                  end
    | AReduce r => onat_eqb (irule it) (Some r)
                   && match after_dot T it with Some [] => true | _ => false end
                   && Nat.eqb (col T (ila it)) c
    | AAccept => onat_eqb (irule it) None
                 && match after_dot T it with Some [] => true | _ => false end
                 && onat_eqb (ila it) None && Nat.eqb c (pt_nterm T)
    | AErr => false
    end.

  Definition chk_table' : bool :=
    forallb (fun s =>
      forallb (fun c =>
        match get_action T s c with
        | Some AErr => true
        | Some a => existsb (fun it => demandsb it c a) (items s)
        | None => true
        end) (seq 0 (S (pt_nterm T)))) states.

  Definition chk_item_wf : bool :=
    all_items (fun _ it => match rhs_of T (irule it) with
                           | Some rhs => Nat.leb (idot it) (length rhs)
                           | None => false
                           end).

  Definition all_syms : list psym := map PT (seq 0 (S (pt_nterm T))) ++ map PN (seq 0 nnt).

  Definition chk_back : bool :=
    forallb (fun s =>
      forallb (fun x =>
        match goto_sym T s x with
        | Some t =>
            negb (Nat.eqb t (pt_start T)) &&
            forallb (fun it =>
              if Nat.eqb (idot it) 0 then true
              else match rhs_of T (irule it) with
                   | Some rhs =>
                       match nth_error rhs (pred (idot it)) with
                       | Some y => psym_eqb y x
                       | None => false
                       end
                       && existsb (fun jt => onat_eqb (irule jt) (irule it) && Nat.eqb (idot jt) (pred (idot it))) (items s)
                   | None => false
                   end) (items t)
        | None => true
        end) all_syms) states.

  Definition chk_dot0 : bool :=
    all_items (fun s it =>
      if Nat.eqb (idot it) 0 then
        match irule it with
        | None => Nat.eqb s (pt_start T)
        | Some r => match nth_error rules r with
                    | Some ru => existsb (fun jt => match after_dot T jt with
                                                    | Some (PN n :: _) => Nat.eqb n (pr_lhs ru)
                                                    | _ => false
                                                    end) (items s)
                    | None => false
                    end
        end
      else true).

  Definition chk_start_dot0 : bool := forallb (fun it => Nat.eqb (idot it) 0) (items (pt_start T)).

  Definition validate : bool :=
    first_closed ft rules && chk_start && chk_closure && chk_goto && chk_final && chk_used
    && chk_dims && chk_table' && chk_item_wf && chk_back && chk_dot0 && chk_start_dot0.
End Validate.
