(* LR/Grammar.v — specification layer: derivation trees of a grammar given as
   productions `prule` (terminals and nonterminals are indices), their yields,
   the language; LR items and the notions the automaton invariants speak about.
   This file does not look at any table-construction code. *)
From Coq Require Import List Arith Lia Bool.
From Kiki Require Import Base.Ord Base.Chars Data LR.Driver.
Import ListNotations.
Open Scope nat_scope.

(* LR(1) items: rule (None = the augmented rule S' -> S), dot, lookahead (None = end of input) *)
Record item := { irule : option nat; idot : nat; ila : option nat }.

Section Grammar.
  Context {P : Type} (kind : P -> nat).
  Variable T : ptable.
  Notation rules := (pt_rules T).
  Notation tree := (@tree P).

  (* derivation trees: `wf X t` — t derives from symbol X *)
  Inductive wf : psym -> tree -> Prop :=
  | wf_leaf p : wf (PT (kind p)) (Leaf p)
  | wf_node r ru ch :
      nth_error rules r = Some ru -> wfs (pr_rhs ru) ch -> wf (PN (pr_lhs ru)) (Node r ch)
  with wfs : list psym -> list tree -> Prop :=
  | wfs_nil : wfs [] []
  | wfs_cons x xs t ts : wf x t -> wfs xs ts -> wfs (x :: xs) (t :: ts).

  Scheme wf_mind := Minimality for wf Sort Prop
    with wfs_mind := Minimality for wfs Sort Prop.
  Combined Scheme wf_wfs_mind from wf_mind, wfs_mind.

  Definition yields (ts : list tree) : list P := flat_map yield ts.

  Fixpoint size (t : tree) : nat :=
    match t with
    | Leaf _ => 1
    | Node _ ch => S ((fix sizes (l : list tree) : nat :=
                         match l with [] => 0 | t :: r => size t + sizes r end) ch)
    end.
  Fixpoint sizes (l : list tree) : nat :=
    match l with [] => 0 | t :: r => size t + sizes r end.

  Lemma size_node r ch : size (Node r ch) = S (sizes ch).
  Proof. reflexivity. Qed.

  Lemma yield_node r ch : yield (Node r ch) = yields ch.
  Proof. reflexivity. Qed.

  Lemma yields_cons t ts : yields (t :: ts) = yield t ++ yields ts.
  Proof. reflexivity. Qed.

  Lemma yields_app a b : yields (a ++ b) = yields a ++ yields b.
  Proof. unfold yields. apply flat_map_app. Qed.

  (* the language: token sequences that are the yield of a tree of the start symbol *)
  Definition sentence (w : list P) : Prop := exists t, wf (PN (pt_start_nt T)) t /\ yield t = w.
  (* acceptance does not depend on payloads: the language of kind sequences *)
  Definition kinds (w : list P) : list nat := map kind w.

  Lemma wfs_length xs ts : wfs xs ts -> length ts = length xs.
  Proof. revert ts; induction xs as [|x xs IH]; intros ts H; inversion H; subst; cbn; auto. Qed.

  Lemma wfs_app xs ys ts us : wfs xs ts -> wfs ys us -> wfs (xs ++ ys) (ts ++ us).
  Proof.
    revert ts; induction xs as [|x xs IH]; intros ts H1 H2; inversion H1; subst; cbn; [assumption|].
    constructor; auto.
  Qed.

  Lemma wf_node_inv r ch x : wf x (Node r ch) ->
    exists ru, nth_error rules r = Some ru /\ x = PN (pr_lhs ru) /\
               wfs (pr_rhs ru) ch /\ length ch = length (pr_rhs ru).
  Proof.
    intros H. inversion H as [|r' ru ch' Hr Hch]; subst.
    exists ru. repeat split; try assumption. eapply wfs_length; eauto.
  Qed.

  (* ---------- LR items ---------- *)

  Definition rhs_of (r : option nat) : option (list psym) :=
    match r with
    | None => Some [PN (pt_start_nt T)]
    | Some r => option_map pr_rhs (nth_error rules r)
    end.

  Definition after_dot (it : item) : option (list psym) :=
    match rhs_of (irule it) with
    | Some rhs => if idot it <=? length rhs then Some (skipn (idot it) rhs) else None
    | None => None
    end.

  Definition adv (it : item) : item := {| irule := irule it; idot := S (idot it); ila := ila it |}.
  Definition retreat (it : item) (la : option nat) : item :=
    {| irule := irule it; idot := pred (idot it); ila := la |}.

  (* lookahead of the remaining input: Some kind, or None at the end (Eof) *)
  Definition la_of (v : list P) : option nat := option_map kind (hd_error v).
  Definition col (la : option nat) : nat := match la with Some t => t | None => pt_nterm T end.

  (* transitions are read off the tables themselves *)
  Definition goto_sym (s : nat) (x : psym) : option nat :=
    match x with
    | PT t => match get_action T s t with Some (AShift s') => Some s' | _ => None end
    | PN n => match get_goto T s n with Some (Some s') => Some s' | _ => None end
    end.

  Lemma skipn_S_cons {A} (n : nat) : forall (l : list A) x r, skipn n l = x :: r -> skipn (S n) l = r.
  Proof.
    induction n as [|n IH]; intros [|y l] x r H; cbn in *; try discriminate.
    - injection H as _ H. subst. destruct r; reflexivity.
    - apply (IH l x r H).
  Qed.

  Lemma skipn_cons_lt {A} (n : nat) (l : list A) x r : skipn n l = x :: r -> n < length l.
  Proof.
    intros H. destruct (Nat.lt_ge_cases n (length l)) as [|Hge]; [assumption|].
    rewrite skipn_all2 in H by assumption. discriminate.
  Qed.

  Lemma after_dot_adv it x rest : after_dot it = Some (x :: rest) -> after_dot (adv it) = Some rest.
  Proof.
    unfold after_dot, adv; cbn [irule idot]. destruct (rhs_of (irule it)) as [rhs|]; [|discriminate].
    destruct (idot it <=? length rhs) eqn:E; [|discriminate]. intros H; injection H as H.
    pose proof (skipn_cons_lt _ _ _ _ H) as Hlen.
    replace (S (idot it) <=? length rhs) with true by (symmetry; apply Nat.leb_le; lia).
    f_equal. apply (skipn_S_cons _ _ _ _ H).
  Qed.
End Grammar.

