(* LR/Complete.v — strong completeness of the driver: every derivation tree of
   the start symbol is returned when its yield is parsed, with fuel `size t + 1`.
   Proof by the combined induction scheme of wf/wfs on two continuation-passing
   statements (DESIGN.md, Appendix A). *)
From Coq Require Import List Arith Lia Bool.
From Kiki Require Import Base.Ord Base.Chars Data LR.Driver LR.Grammar LR.Inv.
Import ListNotations.
Open Scope nat_scope.

Section Complete.
  Context {P : Type} (kind : P -> nat).
  Variable T : ptable.
  Variable ann : list (list item).
  Variable fseq : list psym -> option nat -> option nat -> Prop.
  Hypothesis HF : FirstOK kind T fseq.
  Hypothesis HI : Inv T ann fseq.
  Notation rules := (pt_rules T).
  Notation tree := (@tree P).
  Notation run := (run kind T).
  Notation In_state := (In_state ann).

  Opaque Driver.run Driver.step.

  Definition PTree (x : psym) (t : tree) : Prop :=
    forall it rest s sts nodes v f k,
      In_state it s -> after_dot T it = Some (x :: rest) ->
      fseq rest (ila it) (la_of kind v) ->
      (forall s', goto_sym T s x = Some s' -> In_state (adv it) s' ->
                  run f (s' :: s :: sts, t :: nodes, v) = k) ->
      run (size t + f) (s :: sts, nodes, yield t ++ v) = k.

  Definition PSeq (ys : list psym) (ts : list tree) : Prop :=
    forall c top stk nodes v f k,
      In_state c top -> after_dot T c = Some ys -> ila c = la_of kind v ->
      (forall pushed c', length pushed = length ys -> In_state c' (hd top pushed) ->
                         irule c' = irule c -> ila c' = ila c -> after_dot T c' = Some [] ->
                         run f (pushed ++ top :: stk, rev ts ++ nodes, v) = k) ->
      run (sizes ts + f) (top :: stk, nodes, yields ts ++ v) = k.

  Lemma hd_app_single {A} (l : list A) (a d : A) : hd d (l ++ [a]) = hd a l.
  Proof. destruct l; reflexivity. Qed.

  Lemma after_dot_dot0 r ru la :
    nth_error rules r = Some ru ->
    after_dot T {| irule := Some r; idot := 0; ila := la |} = Some (pr_rhs ru).
  Proof. intros H. unfold after_dot; cbn [irule idot rhs_of]. rewrite H. reflexivity. Qed.

  Lemma complete_gen :
    (forall x t, wf kind T x t -> PTree x t) /\ (forall ys ts, wfs kind T ys ts -> PSeq ys ts).
  Proof.
    apply wf_wfs_mind.
    - (* leaf *)
      intros p it rest s sts nodes v f k Hin Had _ Hk.
      destruct (inv_goto _ _ _ HI _ _ _ _ Hin Had) as (s' & Hg & Hin').
      cbn [size yield app]. change (1 + f) with (S f). rewrite run_S.
      assert (Ha : get_action T s (kind p) = Some (AShift s')).
      { unfold goto_sym in Hg. destruct (get_action T s (kind p)) as [[ | | | ]|]; try discriminate. congruence. }
      rewrite (step_shift kind T _ _ _ _ _ _ Ha). apply Hk; assumption.
    - (* node *)
      intros r ru ch Hr Hch IH it rest s sts nodes v f k Hin Had Hfs Hk.
      rewrite size_node, yield_node.
      set (c := {| irule := Some r; idot := 0; ila := la_of kind v |}).
      assert (Hc : In_state c s) by (eapply (inv_closure _ _ _ HI); eauto).
      replace (S (sizes ch) + f) with (sizes ch + S f) by lia.
      apply (IH c s sts nodes v (S f) k Hc (after_dot_dot0 _ _ _ Hr) eq_refl).
      intros pushed c' Hlen Hin' Hrule Hla Hdone.
      destruct (inv_goto _ _ _ HI _ _ _ _ Hin Had) as (s' & Hg & Hadv).
      rewrite run_S.
      assert (Hred : get_action T (hd s pushed) (col T (la_of kind v)) = Some (AReduce r)).
      { replace (la_of kind v) with (ila c') by (rewrite Hla; reflexivity).
        apply (inv_reduce _ _ _ HI _ _ _ Hin'); [rewrite Hrule; reflexivity|assumption]. }
      assert (Hgoto : get_goto T s (pr_lhs ru) = Some (Some s')).
      { unfold goto_sym in Hg. destruct (get_goto T s (pr_lhs ru)) as [[ | ]|]; try discriminate. congruence. }
      pose proof (wfs_length _ _ _ _ Hch) as Hchl.
      destruct pushed as [|p0 pushed'].
      + cbn [hd app] in *. cbn [length] in Hlen.
        erewrite step_reduce; try eassumption.
        * apply Hk; assumption.
        * apply pop_children_wfs; [assumption|apply (inv_used _ _ _ HI _ _ Hr)].
        * rewrite <- Hlen. cbn; lia.
        * rewrite <- Hlen. reflexivity.
      + cbn [hd app] in *.
        erewrite step_reduce; try eassumption.
        * apply Hk; assumption.
        * apply pop_children_wfs; [assumption|apply (inv_used _ _ _ HI _ _ Hr)].
        * rewrite <- Hlen. cbn [length]. rewrite app_length. cbn [length]. lia.
        * rewrite <- Hlen. change (p0 :: pushed' ++ s :: sts) with ((p0 :: pushed') ++ s :: sts).
          rewrite skipn_app, Nat.sub_diag, skipn_all. reflexivity.
    - (* nil *)
      intros c top stk nodes v f k Hin Had Hla Hk.
      cbn [sizes yields flat_map app plus]. apply (Hk [] c); auto.
    - (* cons *)
      intros x xs t ts Hwf IHt Hwfs IHs c top stk nodes v f k Hin Had Hla Hk.
      cbn [sizes]. rewrite yields_cons, <- app_assoc, <- Nat.add_assoc.
      apply (IHt c xs top stk nodes (yields ts ++ v) (sizes ts + f) k Hin Had).
      + apply (fs_complete _ _ _ HF); [assumption|]. rewrite Hla. apply (fs_nil _ _ _ HF).
      + intros s' Hg Hadv.
        apply (IHs (adv c) s' (top :: stk) (t :: nodes) v f k Hadv (after_dot_adv _ _ _ _ Had) Hla).
        intros pushed c' Hlen Hin' Hrule Hla' Hdone.
        specialize (Hk (pushed ++ [s']) c').
        rewrite hd_app_single in Hk. cbn [rev] in Hk. rewrite <- !app_assoc in Hk. cbn [app] in Hk.
        apply Hk; auto.
        rewrite app_length. cbn [length]. lia.
  Qed.

  Theorem complete : forall t k, wf kind T (PN (pt_start_nt T)) t ->
    run (size t + S k) (initial T (yield t)) = OAccept t.
  Proof.
    intros t k Hwf.
    pose proof (proj1 complete_gen _ _ Hwf) as H.
    unfold PTree in H. unfold initial.
    rewrite <- (app_nil_r (yield t)).
    apply (H start_item [] (pt_start T) [] [] [] (S k) (OAccept t) (inv_start _ _ _ HI)).
    - reflexivity.
    - apply (fs_nil _ _ _ HF).
    - intros s' Hg Hadv. rewrite run_S.
      inversion Hwf as [|r ru ch Hr Hch Heq]; subst.
      erewrite step_accept; [reflexivity| |reflexivity|exact Hr|congruence].
      apply (inv_accept _ _ _ HI _ _ Hadv); reflexivity.
  Qed.
End Complete.
