(* LR/Least.v — leastness of an item annotation: every annotated item is derivable from the
   start item by the closure rule and by following transitions of the tables.  With Inv
   (closedness, LR/Inv.v) the annotation is then exactly the least family of item sets closed
   under the LALR(1) propagation rules over the automaton the tables describe. *)
From Coq Require Import List Arith Lia Bool.
From Kiki Require Import Base.Ord Base.Chars Data LR.Driver LR.Grammar LR.Inv.
Import ListNotations.
Open Scope nat_scope.

Section Least.
  Variable T : ptable.
  Variable ann : list (list item).
  Variable fseq : list psym -> option nat -> option nat -> Prop.
  Notation rules := (pt_rules T).

  Inductive lder : nat -> item -> Prop :=
  | ld_start : lder (pt_start T) start_item
  | ld_closure s jt r ru rest a :
      lder s jt -> after_dot T jt = Some (PN (pr_lhs ru) :: rest) -> nth_error rules r = Some ru ->
      fseq rest (ila jt) a -> lder s {| irule := Some r; idot := 0; ila := a |}
  | ld_goto s it x rest s' :
      lder s it -> after_dot T it = Some (x :: rest) -> goto_sym T s x = Some s' -> lder s' (adv it).

  Definition Least : Prop := forall s it, In_state ann it s -> lder s it.

  (* closed + least = the annotation is exactly the derivable items *)
  Theorem exact_of_closed_and_least : Inv T ann fseq -> Least ->
    forall s it, In_state ann it s <-> lder s it.
  Proof.
    intros HI HL s it. split; [apply HL|]. intros H.
    induction H as [|s jt r ru rest a _ IH Had Hr Hf|s it x rest s' _ IH Had Hg].
    - apply (inv_start _ _ _ HI).
    - apply (inv_closure _ _ _ HI s jt (pr_lhs ru) rest r ru a IH Had Hr eq_refl Hf).
    - destruct (inv_goto _ _ _ HI s it x rest IH Had) as (s2 & Hg2 & Hin). rewrite Hg in Hg2. injection Hg2 as <-. exact Hin.
  Qed.
End Least.
