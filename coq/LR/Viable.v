(* LR/Viable.v — the index a rejection reports is not too early: what the parser has consumed
   when it stops is a prefix of some sentence (C03, for grammars in which every right-hand side
   derives some token sequence).  Needs, beyond Inv/Inv2, that every item of a state is reached
   from the state's kernel by finitely many closure steps (Inv3). *)
From Coq Require Import List Arith Lia Bool.
From Kiki Require Import Base.Ord Base.Chars Data LR.Driver LR.Grammar LR.Inv LR.Complete LR.Sound LR.ErrPos.
Import ListNotations.
Open Scope nat_scope.

Section Viable.
  Context {P : Type} (kind : P -> nat).
  Variable T : ptable.
  Variable ann : list (list item).
  Variable fseq : list psym -> option nat -> option nat -> Prop.
  Hypothesis HF : FirstOK kind T fseq.
  Hypothesis HI : Inv T ann fseq.
  Hypothesis H2 : Inv2 T ann.
  Notation rules := (pt_rules T).
  Notation tree := (@tree P).
  Notation In_state := (In_state ann).
  Notation nstates := (nstates ann).
  Notation wf := (wf kind T).
  Notation wfs := (wfs kind T).
  Notation SI := (SI kind T).
  Notation sentence := (sentence kind T).
  Notation yields := (@yields P).

  (* an item is in its state because of the kernel: finitely many closure steps *)
  Inductive lreach (s : nat) : item -> Prop :=
  | lr_kernel it : In_state it s -> idot it > 0 \/ (irule it = None /\ s = pt_start T) -> lreach s it
  | lr_call jt it r ru rest :
      lreach s jt -> after_dot T jt = Some (PN (pr_lhs ru) :: rest) ->
      irule it = Some r -> nth_error rules r = Some ru -> idot it = 0 -> lreach s it.

  Record Inv3 : Prop := {
    inv_lreach : forall s it, In_state it s -> lreach s it;
    inv_goto_item : forall s n s', s < nstates -> get_goto T s n = Some (Some s') ->
                                   exists it rest, In_state it s /\ after_dot T it = Some (PN n :: rest)
  }.
  Hypothesis H3 : Inv3.

  (* every right-hand side (and the start symbol) derives some token sequence *)
  Hypothesis Hprod : forall r ru, nth_error rules r = Some ru -> exists ts, wfs (pr_rhs ru) ts.
  Hypothesis Hstart : exists t, wf (PN (pt_start_nt T)) t.

  Lemma wfs_skipn n : forall xs ts, wfs xs ts -> wfs (skipn n xs) (skipn n ts).
  Proof. induction n as [|n IH]; intros xs ts H; [exact H|]. inversion H; subst; cbn; [constructor|apply IH; assumption]. Qed.

  Lemma after_dot_prod it rest : after_dot T it = Some rest -> exists us, wfs rest us.
  Proof.
    unfold after_dot, rhs_of. destruct (irule it) as [r|].
    - destruct (nth_error rules r) as [ru|] eqn:E; [|discriminate]. cbn. destruct (idot it <=? length (pr_rhs ru)); [|discriminate].
      intros [= <-]. destruct (Hprod r ru E) as (ts & Hts). exists (skipn (idot it) ts). apply wfs_skipn, Hts.
    - cbn [length]. destruct (idot it <=? 1); [|discriminate]. intros [= <-]. destruct Hstart as (t & Ht).
      exists (skipn (idot it) [t]). apply (wfs_skipn (idot it) [PN (pt_start_nt T)] [t]). constructor; [exact Ht|constructor].
  Qed.

  Lemma yields_cons' t ts : yields (t :: ts) = yield t ++ yields ts.
  Proof. reflexivity. Qed.

  (* what it means for the items of the top state to be completable above the stack *)
  Definition completable (Y : list P) (it : item) : Prop :=
    forall rest us, after_dot T it = Some rest -> wfs rest us -> exists z, sentence (Y ++ yields us ++ z).

  (* from the kernel items to every item of the state *)
  Lemma lreach_completable s Y :
    (forall it, In_state it s -> idot it > 0 \/ (irule it = None /\ s = pt_start T) -> completable Y it) ->
    forall it, lreach s it -> completable Y it.
  Proof.
    intros Hk it H. induction H as [it Hin Hker|jt it r ru rest Hj IH Had Hr Hru Hd]; [apply Hk; assumption|].
    intros rest' us Had' Hus.
    assert (E : rest' = pr_rhs ru).
    { unfold after_dot, rhs_of in Had'. rewrite Hr, Hru in Had'. cbn in Had'. rewrite Hd in Had'. cbn in Had'. injection Had' as <-. reflexivity. }
    subst rest'. destruct (after_dot_prod jt _ Had) as (vs & Hvs). inversion Hvs as [|x xs t ts Ht Hts]; subst.
    destruct (IH (PN (pr_lhs ru) :: rest) (Node r us :: ts) Had) as (z & Hz).
    { constructor; [econstructor; eauto|exact Hts]. }
    rewrite yields_cons', yield_node in Hz. exists (yields ts ++ z). rewrite <- app_assoc in Hz. exact Hz.
  Qed.

  Lemma all_completable : forall sts nodes, SI sts nodes ->
    forall top rest, sts = top :: rest -> forall it, In_state it top -> completable (yields (rev nodes)) it.
  Proof.
    induction 1 as [|s sts nodes x s' t HS IH Hg Hw]; intros top rest E it Hin; injection E as <- <-.
    - (* the start state *)
      apply (lreach_completable (pt_start T)); [|apply (inv_lreach H3), Hin].
      intros kt Hk [Hd|(Hr & _)]; [rewrite (inv_start_dot0 _ _ H2 _ Hk) in Hd; lia|].
      intros rest' us Had Hus. pose proof (inv_start_dot0 _ _ H2 _ Hk) as Hd0.
      unfold after_dot, rhs_of in Had. rewrite Hr, Hd0 in Had. cbn in Had. injection Had as <-.
      inversion Hus as [|? ? t0 ? Ht0 Hnil]; subst. inversion Hnil; subst. exists []. cbn.
      exists t0. split; [exact Ht0|]. rewrite !app_nil_r. reflexivity.
    - (* a state entered by a transition *)
      pose proof (SI_bound kind T ann H2 _ _ HS) as Hb. inversion Hb as [|? ? Hs _]; subst.
      apply (lreach_completable s'); [|apply (inv_lreach H3), Hin].
      intros kt Hk [Hd|(_ & Hst)]; [|exfalso; apply (inv_start_not_target _ _ H2 s x Hs); congruence].
      destruct (inv_back _ _ H2 _ _ _ _ Hs Hg Hk Hd) as ((rhs & Hrhs & Hnth) & la' & Hret).
      intros rest' us Had Hus.
      assert (Had2 : after_dot T (retreat kt la') = Some (x :: rest')).
      { unfold after_dot in *. cbn [retreat irule idot]. rewrite Hrhs in *.
        destruct (idot kt <=? length rhs) eqn:El; [|discriminate]. apply Nat.leb_le in El. injection Had as <-.
        replace (pred (idot kt) <=? length rhs) with true by (symmetry; apply Nat.leb_le; lia). f_equal.
        destruct (idot kt) as [|d]; [lia|]. cbn [pred] in *. clear -Hnth. revert rhs Hnth.
        induction d as [|d IHd]; intros [|y l] H; cbn in *; try discriminate; [congruence|apply IHd, H]. }
      destruct (IH s sts eq_refl (retreat kt la') Hret (x :: rest') (t :: us) Had2) as (z & Hz).
      { constructor; assumption. }
      exists z. cbn [rev]. unfold Grammar.yields in *. rewrite flat_map_app. cbn [flat_map]. rewrite app_nil_r.
      rewrite <- app_assoc. cbn [flat_map] in Hz. rewrite <- app_assoc in Hz. exact Hz.
  Qed.

  (* every state on a stack has an item *)
  Lemma top_has_item sts nodes : SI sts nodes -> forall top rest, sts = top :: rest -> exists it, In_state it top.
  Proof.
    intros HS. destruct HS as [|s sts nodes x s' t HS Hg Hw]; intros top rest E; injection E as <- <-.
    - exists start_item. apply (inv_start _ _ _ HI).
    - pose proof (SI_bound kind T ann H2 _ _ HS) as Hb. inversion Hb as [|? ? Hs _]; subst.
      destruct x as [c|n]; cbn [goto_sym] in Hg.
      + destruct (get_action T s c) as [[d| | |]|] eqn:Ea; try discriminate. injection Hg as ->.
        destruct (inv_table' _ _ H2 s c _ Hs Ea ltac:(discriminate)) as (it & Hit & Hdem).
        inversion Hdem as [t0 rest0 s0 Had Hlt| |]; subst.
        destruct (inv_goto _ _ _ HI s it (PT c) rest0 Hit Had) as (s2 & Hg2 & Hadv).
        cbn [goto_sym] in Hg2. rewrite Ea in Hg2. injection Hg2 as <-. eauto.
      + destruct (get_goto T s n) as [[d|]|] eqn:Eg; try discriminate. injection Hg as ->.
        destruct (inv_goto_item H3 s n s' Hs Eg) as (it & rest0 & Hit & Had).
        destruct (inv_goto _ _ _ HI s it (PN n) rest0 Hit Had) as (s2 & Hg2 & Hadv).
        cbn [goto_sym] in Hg2. rewrite Eg in Hg2. injection Hg2 as <-. eauto.
  Qed.

  (* what is on the stack is a prefix of a sentence *)
  Theorem stack_is_viable sts nodes : SI sts nodes -> exists z, sentence (yields (rev nodes) ++ z).
  Proof.
    intros HS. assert (Hne : exists top rest, sts = top :: rest) by (destruct HS; eauto).
    destruct Hne as (top & rest & ->). destruct (top_has_item _ _ HS top rest eq_refl) as (it & Hit).
    destruct (inv_item_wf _ _ H2 _ _ Hit) as (rhs & Hrhs & Hle).
    assert (Had : after_dot T it = Some (skipn (idot it) rhs)).
    { unfold after_dot. rewrite Hrhs. replace (idot it <=? length rhs) with true by (symmetry; apply Nat.leb_le; exact Hle). reflexivity. }
    destruct (after_dot_prod it _ Had) as (us & Hus).
    destruct (all_completable _ _ HS top rest eq_refl it Hit _ us Had Hus) as (z & Hz). exists (yields us ++ z). exact Hz.
  Qed.

  Transparent Driver.step Driver.run.

  Lemma run_rest_good w : forall fuel sts nodes inp tok rest,
      good kind T w sts nodes inp -> run_rest kind T fuel (sts, nodes, inp) = (OReject tok, rest) ->
      exists sts' nodes', good kind T w sts' nodes' rest.
  Proof.
    induction fuel as [|f IH]; intros sts nodes inp tok rest Hg H; cbn [Driver.run_rest] in H; [discriminate|].
    pose proof (step_good kind T ann H2 _ _ _ _ Hg) as Hs.
    destruct (step kind T (sts, nodes, inp)) as [[[sts' nodes'] inp']|o].
    - destruct Hs as (Hg' & _). eapply IH; eauto.
    - cbn [snd] in H. injection H as -> <-. eauto.
  Qed.

  (* C03, both directions: the reported index is neither too late nor too early *)
  Theorem reject_exact : forall fuel w tok,
      Forall (fun p => kind p < pt_nterm T) w ->
      parse kind T fuel w = OReject tok ->
      exists consumed rest,
        w = consumed ++ rest /\ tok = hd_error rest /\
        pulls kind T fuel w = S (length consumed) /\
        (forall x r z, rest = x :: r -> ~ sentence (consumed ++ x :: z)) /\
        (exists z, sentence (consumed ++ z)).
  Proof.
    intros fuel w tok Hw Hp.
    destruct (reject_position kind T ann fseq HF HI fuel w tok Hp) as (consumed & rest & Hc & Ht & Hpl & Hlate).
    exists consumed, rest. repeat (split; [assumption|]).
    unfold parse, initial in Hp. unfold pulls, initial in Hpl.
    destruct (run_rest kind T fuel ([pt_start T], [], w)) as [o rest'] eqn:E.
    pose proof (run_rest_fst kind T fuel ([pt_start T], [], w)) as Hf. rewrite E in Hf. cbn [fst] in Hf. rewrite Hp in Hf. subst o.
    destruct (run_rest_suffix kind T _ _ _ _ _ _ E) as ((c' & Hc') & _).
    cbn [snd] in Hpl.
    assert (Hrest : rest' = rest).
    { assert (length consumed = length c').
      { rewrite Hc' in Hpl at 1. rewrite app_length in Hpl. injection Hpl as Hpl. lia. }
      rewrite Hc in Hc'. clear -Hc' H. revert c' H Hc'. induction consumed as [|a l IHl]; intros [|b l'] Hl Hc'; cbn in *; try lia; [auto|].
      injection Hc' as _ Hc'. apply (IHl l'); [lia|exact Hc']. }
    subst rest'.
    destruct (run_rest_good w fuel _ _ _ tok rest (good_initial kind T w Hw) E) as (sts' & nodes' & HS & HY & _).
    destruct (stack_is_viable _ _ HS) as (z & Hz). exists z.
    assert (consumed = yields (rev nodes')) by (rewrite Hc in HY; apply app_inv_tail in HY; auto).
    subst consumed. exact Hz.
  Qed.
End Viable.
