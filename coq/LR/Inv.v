(* LR/Inv.v — invariants relating an item annotation of the states to the
   tables, and one-step lemmas about the driver.  The invariants are stated
   about the tables as the driver reads them (transitions = Shift cells and
   GOTO cells), not about any construction. *)
From Coq Require Import List Arith Lia Bool.
From Kiki Require Import Base.Ord Base.Chars Data LR.Driver LR.Grammar.
Import ListNotations.
Open Scope nat_scope.

Section Inv.
  Context {P : Type} (kind : P -> nat).
  Variable T : ptable.
  Variable ann : list (list item).          (* the items of every state *)
  Notation rules := (pt_rules T).
  Notation tree := (@tree P).

  Definition items (s : nat) : list item := nth s ann [].
  Definition In_state (it : item) (s : nat) : Prop := In it (items s).

  (* what the proofs need to know about "a is in FIRST(beta la)" *)
  Record FirstOK (fseq : list psym -> option nat -> option nat -> Prop) : Prop := {
    fs_nil : forall la, fseq [] la la;
    fs_complete : forall beta ts la v,
        wfs kind T beta ts -> fseq [] la (la_of kind v) -> fseq beta la (la_of kind (yields ts ++ v))
  }.

  Definition start_item : item := {| irule := None; idot := 0; ila := None |}.

  (* ---------- the completeness half ---------- *)
  Record Inv (fseq : list psym -> option nat -> option nat -> Prop) : Prop := {
    inv_start : In_state start_item (pt_start T);
    inv_closure : forall s it B rest r ru a,
        In_state it s -> after_dot T it = Some (PN B :: rest) ->
        nth_error rules r = Some ru -> pr_lhs ru = B -> fseq rest (ila it) a ->
        In_state {| irule := Some r; idot := 0; ila := a |} s;
    inv_goto : forall s it x rest,
        In_state it s -> after_dot T it = Some (x :: rest) ->
        exists s', goto_sym T s x = Some s' /\ In_state (adv it) s';
    inv_reduce : forall s it r,
        In_state it s -> irule it = Some r -> after_dot T it = Some [] ->
        get_action T s (col T (ila it)) = Some (AReduce r);
    inv_accept : forall s it,
        In_state it s -> irule it = None -> after_dot T it = Some [] -> ila it = None ->
        get_action T s (pt_nterm T) = Some AAccept;
    inv_used : forall r ru, nth_error rules r = Some ru -> length (pr_used ru) = length (pr_rhs ru)
  }.

  (* ---------- the safety half ---------- *)
  Inductive demands (s : nat) (it : item) : nat -> action -> Prop :=
  | d_shift t rest s' :
      after_dot T it = Some (PT t :: rest) -> t < pt_nterm T -> demands s it t (AShift s')
  | d_reduce r :
      irule it = Some r -> after_dot T it = Some [] -> demands s it (col T (ila it)) (AReduce r)
  | d_accept :
      irule it = None -> after_dot T it = Some [] -> ila it = None -> demands s it (pt_nterm T) AAccept.

  Definition nstates : nat := length ann.

  Record Inv2 : Prop := {
    (* table dimensions *)
    inv_dim_start : pt_start T < nstates;
    inv_dim_action : forall s c, s < nstates -> c <= pt_nterm T -> exists a, get_action T s c = Some a;
    inv_dim_goto : forall s r ru, s < nstates -> nth_error rules r = Some ru ->
                                  exists g, get_goto T s (pr_lhs ru) = Some g;
    inv_dim_target : forall s x s', s < nstates -> goto_sym T s x = Some s' -> s' < nstates;
    inv_used2 : forall r ru, nth_error rules r = Some ru -> length (pr_used ru) = length (pr_rhs ru);
    (* every non-Err cell is demanded by an item of the state *)
    inv_table' : forall s c a, s < nstates -> get_action T s c = Some a -> a <> AErr ->
                               exists it, In_state it s /\ demands s it c a;
    inv_item_wf : forall s it, In_state it s -> exists rhs, rhs_of T (irule it) = Some rhs /\ idot it <= length rhs;
    (* core-level backward consistency along transitions *)
    inv_back : forall s x t it, s < nstates -> goto_sym T s x = Some t -> In_state it t -> idot it > 0 ->
                                (exists rhs, rhs_of T (irule it) = Some rhs /\ nth_error rhs (pred (idot it)) = Some x)
                                /\ exists la', In_state (retreat it la') s;
    inv_back0 : forall s x t it, s < nstates -> goto_sym T s x = Some t -> In_state it t -> idot it = 0 ->
                                 irule it <> None;
    (* every dot-0 item is the start item or is called for by an item of the same state *)
    inv_dot0 : forall s it, In_state it s -> idot it = 0 ->
                            (irule it = None /\ s = pt_start T) \/
                            (exists r ru jt rest, irule it = Some r /\ nth_error rules r = Some ru /\
                                                  In_state jt s /\ after_dot T jt = Some (PN (pr_lhs ru) :: rest));
    inv_goto2 : forall s jt n rest, In_state jt s -> after_dot T jt = Some (PN n :: rest) ->
                                    exists s', get_goto T s n = Some (Some s');
    inv_start_dot0 : forall it, In_state it (pt_start T) -> idot it = 0;
    inv_start_not_target : forall s x, s < nstates -> goto_sym T s x <> Some (pt_start T)
  }.

  (* ---------- one-step lemmas about the driver ---------- *)

  Lemma col_la_of (v : list P) :
    match v with [] => pt_nterm T | p :: _ => kind p end = col T (la_of kind v).
  Proof. destruct v; reflexivity. Qed.

  Lemma step_shift s sts nodes p v s' :
    get_action T s (kind p) = Some (AShift s') ->
    step kind T (s :: sts, nodes, p :: v) = inl (s' :: s :: sts, Leaf p :: nodes, v).
  Proof. intros H. unfold step. rewrite H. reflexivity. Qed.

  Lemma step_reduce top sts nodes v r ru ch nodes' temp rest' s' :
    get_action T top (col T (la_of kind v)) = Some (AReduce r) ->
    nth_error rules r = Some ru ->
    pop_children kind T (rev (combine (pr_rhs ru) (pr_used ru))) nodes [] = Some (ch, nodes') ->
    length (pr_rhs ru) <= length (top :: sts) ->
    skipn (length (pr_rhs ru)) (top :: sts) = temp :: rest' ->
    get_goto T temp (pr_lhs ru) = Some (Some s') ->
    step kind T (top :: sts, nodes, v) = inl (s' :: temp :: rest', Node r ch :: nodes', v).
  Proof.
    intros Ha Hr Hp Hlen Hsk Hg. unfold step. rewrite col_la_of, Ha, Hr, Hp.
    replace (length (top :: sts) <? length (pr_rhs ru)) with false
      by (symmetry; apply Nat.ltb_ge; exact Hlen).
    rewrite Hsk, Hg. reflexivity.
  Qed.

  Lemma step_accept top sts t nodes v r ru ch :
    get_action T top (col T (la_of kind v)) = Some AAccept ->
    t = Node r ch -> nth_error rules r = Some ru -> pr_lhs ru = pt_start_nt T ->
    step kind T (top :: sts, t :: nodes, v) = inr (OAccept t).
  Proof.
    intros Ha -> Hr Hl. unfold step. rewrite col_la_of, Ha. cbn [root_sym lhs_of].
    unfold lhs_of. rewrite Hr. cbn [option_map]. rewrite Hl, Nat.eqb_refl. reflexivity.
  Qed.

  Lemma run_S f c : run kind T (S f) c = match step kind T c with inl c' => run kind T f c' | inr o => o end.
  Proof. reflexivity. Qed.

  Lemma psym_eqb_refl x : psym_eqb x x = true.
  Proof. destruct x; cbn; apply Nat.eqb_refl. Qed.

  Lemma psym_eqb_eq x y : psym_eqb x y = true -> x = y.
  Proof. destruct x, y; cbn; try discriminate; intros H; apply Nat.eqb_eq in H; congruence. Qed.

  Lemma root_sym_wf x t : wf kind T x t -> root_sym kind T t = Some x.
  Proof.
    intros H; inversion H; subst; cbn [root_sym]; [reflexivity|].
    unfold lhs_of. match goal with H : nth_error _ _ = Some _ |- _ => rewrite H end. reflexivity.
  Qed.

  (* popping the children of a reduction, on reversed lists *)
  Lemma pop_children_rev xs : forall ts' nodes acc,
      Forall2 (fun (xu : psym * bool) t => wf kind T (fst xu) t) xs ts' ->
      pop_children kind T xs (ts' ++ nodes) acc = Some (rev ts' ++ acc, nodes).
  Proof.
    induction xs as [|[x u] xs IH]; intros ts' nodes acc H; inversion H; subst; cbn [pop_children app rev].
    - reflexivity.
    - match goal with Hw : wf _ _ _ _ |- _ => cbn [fst] in Hw; rewrite (root_sym_wf _ _ Hw) end.
      rewrite psym_eqb_refl. destruct u; rewrite IH by assumption; rewrite <- app_assoc; reflexivity.
  Qed.

  Lemma Forall2_rev {A B} (R : A -> B -> Prop) l1 l2 : Forall2 R l1 l2 -> Forall2 R (rev l1) (rev l2).
  Proof.
    induction 1 as [|a b l1 l2 Hab _ IH]; cbn; [constructor|].
    apply Forall2_app; [exact IH|constructor; [exact Hab|constructor]].
  Qed.

  Lemma wfs_Forall2 rhs : forall used ts, wfs kind T rhs ts -> length used = length rhs ->
      Forall2 (fun (xu : psym * bool) t => wf kind T (fst xu) t) (combine rhs used) ts.
  Proof.
    induction rhs as [|x xs IH]; intros used ts H Hl; inversion H; subst.
    - destruct used; constructor.
    - destruct used as [|u used]; [discriminate|]. cbn [combine]. constructor; [assumption|].
      apply IH; [assumption|]. cbn in Hl; lia.
  Qed.

  Lemma pop_children_wfs ru ts nodes :
    wfs kind T (pr_rhs ru) ts -> length (pr_used ru) = length (pr_rhs ru) ->
    pop_children kind T (rev (combine (pr_rhs ru) (pr_used ru))) (rev ts ++ nodes) [] = Some (ts, nodes).
  Proof.
    intros H Hl. rewrite pop_children_rev with (ts' := rev ts).
    - rewrite rev_involutive, app_nil_r. reflexivity.
    - apply Forall2_rev, wfs_Forall2; assumption.
  Qed.
End Inv.
