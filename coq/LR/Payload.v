(* LR/Payload.v — the driver never looks at payloads: mapping the tokens through
   any kind-preserving function maps the result.  Holds for any tables. *)
From Coq Require Import List Arith Lia Bool.
From Kiki Require Import Base.Ord Base.Chars Data LR.Driver.
Import ListNotations.
Open Scope nat_scope.

Section Payload.
  Context {P Q : Type} (kp : P -> nat) (kq : Q -> nat) (f : P -> Q).
  Hypothesis Hk : forall p, kq (f p) = kp p.
  Variable T : ptable.

  Transparent Driver.step Driver.run.

  Fixpoint tmap (t : @tree P) : @tree Q :=
    match t with
    | Leaf p => Leaf (f p)
    | Node r ch => Node r (map tmap ch)
    end.

  Definition omap (o : @outcome P) : @outcome Q :=
    match o with
    | OAccept t => OAccept (tmap t)
    | OReject tok => OReject (option_map f tok)
    | OPanic s => OPanic s
    | OOutOfFuel => OOutOfFuel
    end.

  Lemma root_sym_tmap t : root_sym kq T (tmap t) = root_sym kp T t.
  Proof. destruct t; cbn [tmap root_sym]; [rewrite Hk|]; reflexivity. Qed.

  Lemma pop_children_tmap l : forall nodes acc,
      pop_children kq T l (map tmap nodes) (map tmap acc) =
      option_map (fun '(a, b) => (map tmap a, map tmap b)) (pop_children kp T l nodes acc).
  Proof.
    induction l as [|[x u] l IH]; intros nodes acc; cbn [pop_children].
    - reflexivity.
    - destruct nodes as [|t nodes]; cbn [map]; [reflexivity|].
      rewrite root_sym_tmap. destruct u.
      + destruct (root_sym kp T t) as [y|]; [|reflexivity].
        destruct (psym_eqb x y); [|reflexivity]. apply (IH nodes (t :: acc)).
      + apply (IH nodes (t :: acc)).
  Qed.

  Lemma step_tmap sts nodes inp :
    step kq T (sts, map tmap nodes, map f inp) =
    match step kp T (sts, nodes, inp) with
    | inl (s, n, i) => inl (s, map tmap n, map f i)
    | inr o => inr (omap o)
    end.
  Proof.
    unfold Driver.step. destruct sts as [|top rest]; [reflexivity|].
    assert (Hcol : match map f inp with [] => pt_nterm T | p :: _ => kq p end =
                   match inp with [] => pt_nterm T | p :: _ => kp p end)
      by (destruct inp; cbn [map]; [reflexivity|apply Hk]).
    rewrite Hcol.
    destruct (get_action T top (match inp with [] => pt_nterm T | p :: _ => kp p end)) as [[s'|r| |]|];
      try reflexivity.
    - destruct inp; reflexivity.
    - destruct (nth_error (pt_rules T) r) as [ru|]; [|reflexivity].
      change (@nil (@tree Q)) with (map tmap []). rewrite pop_children_tmap.
      destruct (pop_children kp T (rev (combine (pr_rhs ru) (pr_used ru))) nodes []) as [[ch nodes']|];
        cbn [option_map]; [|reflexivity].
      destruct (length (top :: rest) <? length (pr_rhs ru)); [reflexivity|].
      destruct (skipn (length (pr_rhs ru)) (top :: rest)) as [|temp rest']; [reflexivity|].
      destruct (get_goto T temp (pr_lhs ru)) as [[s'|]|]; try reflexivity.
      cbn [omap]. destruct inp; reflexivity.
    - destruct nodes as [|t0 nodes0]; cbn [map]; [reflexivity|]. rewrite root_sym_tmap.
      destruct (root_sym kp T t0) as [[t1|n]|]; try reflexivity.
      destruct (n =? pt_start_nt T); reflexivity.
    - cbn [omap]. destruct inp; reflexivity.
  Qed.

  Theorem run_tmap fuel : forall sts nodes inp,
      run kq T fuel (sts, map tmap nodes, map f inp) = omap (run kp T fuel (sts, nodes, inp)).
  Proof.
    induction fuel as [|fuel IH]; intros sts nodes inp; cbn [Driver.run]; [reflexivity|].
    rewrite step_tmap. destruct (step kp T (sts, nodes, inp)) as [[[s n] i]|o]; [apply IH|reflexivity].
  Qed.

  Theorem parse_tmap fuel w : parse kq T fuel (map f w) = omap (parse kp T fuel w).
  Proof. unfold parse, initial. apply (run_tmap fuel [pt_start T] [] w). Qed.
End Payload.

(* acceptance is a function of the sequence of token kinds *)
Definition accepts {P} (kind : P -> nat) (T : ptable) (fuel : nat) (w : list P) : bool :=
  match parse kind T fuel w with OAccept _ => true | _ => false end.

Theorem payloads_never_influence_acceptance {P Q} (kp : P -> nat) (kq : Q -> nat) (T : ptable) fuel
        (w : list P) (w' : list Q) :
  map kp w = map kq w' -> accepts kp T fuel w = accepts kq T fuel w'.
Proof.
  intros H. unfold accepts.
  pose proof (parse_tmap kp (fun k : nat => k) kp (fun _ => eq_refl) T fuel w) as H1.
  pose proof (parse_tmap kq (fun k : nat => k) kq (fun _ => eq_refl) T fuel w') as H2.
  rewrite H in H1. rewrite H1 in H2.
  destruct (parse kp T fuel w), (parse kq T fuel w'); cbn in H2; congruence.
Qed.
