(* LR/Sound.v — safety and soundness of the driver over any tables with an
   annotation satisfying Inv2: no `unwrap`/index of the emitted loop can fail
   (no OPanic), the goto-None branch is dead, and an accepted input comes with
   a derivation tree of the start symbol whose yield is exactly the input. *)
From Coq Require Import List Arith Lia Bool.
From Kiki Require Import Base.Ord Base.Chars Data LR.Driver LR.Grammar LR.Inv.
Import ListNotations.
Open Scope nat_scope.

Section Sound.
  Context {P : Type} (kind : P -> nat).
  Variable T : ptable.
  Variable ann : list (list item).
  Hypothesis H2 : Inv2 T ann.
  Notation rules := (pt_rules T).
  Notation tree := (@tree P).
  Notation In_state := (In_state ann).
  Notation nstates := (nstates ann).
  Notation wf := (wf kind T).
  Notation wfs := (wfs kind T).

  Transparent Driver.step Driver.run.

  (* the stack: states spell a path of the automaton, nodes are trees of the path's symbols *)
  Inductive SI : list nat -> list tree -> Prop :=
  | SI_init : SI [pt_start T] []
  | SI_push s sts nodes x s' t :
      SI (s :: sts) nodes -> goto_sym T s x = Some s' -> wf x t -> SI (s' :: s :: sts) (t :: nodes).

  Lemma SI_bound sts nodes : SI sts nodes -> Forall (fun s => s < nstates) sts.
  Proof.
    induction 1 as [|s sts nodes x s' t HS IH Hg Hw].
    - constructor; [apply (inv_dim_start _ _ H2)|constructor].
    - constructor; [|exact IH]. inversion IH; subst. eapply (inv_dim_target _ _ H2); eauto.
  Qed.

  Lemma SI_length sts nodes : SI sts nodes -> length sts = S (length nodes).
  Proof. induction 1; cbn; auto. Qed.

  Lemma SI_start_bottom stk nodes : SI (pt_start T :: stk) nodes -> stk = [] /\ nodes = [].
  Proof.
    intros H. inversion H as [|s sts nodes' x s' t HS Hg Hw]; subst; [auto|].
    exfalso. pose proof (SI_bound _ _ HS) as Hb. inversion Hb; subst.
    eapply (inv_start_not_target _ _ H2); eauto.
  Qed.

  Lemma after_dot_nil it rhs : rhs_of T (irule it) = Some rhs -> after_dot T it = Some [] -> idot it = length rhs.
  Proof.
    unfold after_dot. intros ->. destruct (idot it <=? length rhs) eqn:E; [|discriminate].
    apply Nat.leb_le in E. intros H; injection H as H.
    destruct (Nat.eq_dec (idot it) (length rhs)) as [|n]; [assumption|].
    assert (Hlt : idot it < length rhs) by lia.
    pose proof (skipn_length (idot it) rhs) as HL. rewrite H in HL. cbn in HL. lia.
  Qed.

  Lemma firstn_S_snoc {A} (l : list A) n x : nth_error l n = Some x -> firstn (S n) l = firstn n l ++ [x].
  Proof.
    revert l; induction n as [|n IH]; intros [|y l] H; cbn in *; try discriminate.
    - congruence.
    - f_equal. apply IH, H.
  Qed.

  (* an item with dot n in the top state splits the stack *)
  Lemma back_n : forall n sts nodes top rest it rhs,
      SI (top :: rest) nodes -> sts = top :: rest ->
      In_state it top -> idot it = n -> rhs_of T (irule it) = Some rhs ->
      exists pushed ts s0 stk nodes' la',
        sts = pushed ++ s0 :: stk /\ nodes = rev ts ++ nodes' /\ length pushed = n /\
        wfs (firstn n rhs) ts /\ SI (s0 :: stk) nodes' /\
        In_state {| irule := irule it; idot := 0; ila := la' |} s0.
  Proof.
    induction n as [|n IH]; intros sts nodes top rest it rhs HS -> Hin Hdot Hrhs.
    - exists [], [], top, rest, nodes, (ila it).
      split; [reflexivity|]. split; [reflexivity|]. split; [reflexivity|]. split; [constructor|].
      split; [exact HS|]. destruct it as [r d l]; cbn in *; subst; assumption.
    - inversion HS as [|s sts' nodes0 x s' t HS' Hg Hw]; subst.
      + (* bottom of the stack: the start state only has dot-0 items *)
        rewrite (inv_start_dot0 _ _ H2 _ Hin) in Hdot. discriminate.
      + pose proof (SI_bound _ _ HS') as Hb. inversion Hb as [|? ? Hs _]; subst.
        destruct (inv_back _ _ H2 _ _ _ _ Hs Hg Hin ltac:(lia)) as ((rhs' & Hr' & Hnth) & la' & Hret).
        rewrite Hrhs in Hr'; injection Hr' as <-. rewrite Hdot in Hnth; cbn [pred] in Hnth.
        destruct (IH (s :: sts') nodes0 s sts' (retreat it la') rhs HS' eq_refl Hret) as
            (pushed & ts & s0 & stk & nodes' & la0 & E1 & E2 & E3 & E4 & E5 & E6).
        { cbn [retreat idot]. rewrite Hdot; reflexivity. }
        { exact Hrhs. }
        exists (top :: pushed), (ts ++ [t]), s0, stk, nodes', la0.
        repeat split.
        * cbn [app]. rewrite E1. reflexivity.
        * rewrite rev_app_distr. cbn [rev app]. rewrite E2. reflexivity.
        * cbn [length]. rewrite E3. reflexivity.
        * rewrite (firstn_S_snoc _ _ _ Hnth). apply wfs_app; [exact E4|]. constructor; [exact Hw|constructor].
        * exact E5.
        * exact E6.
  Qed.

  (* what one step does to a configuration that satisfies the invariant *)
  Definition good (w : list P) (sts : list nat) (nodes : list tree) (inp : list P) : Prop :=
    SI sts nodes /\ yields (rev nodes) ++ inp = w /\ Forall (fun p => kind p < pt_nterm T) inp.

  (* what kind of step was taken: a shift consuming one token, or a reduce by rule r that popped
     |rhs r| states, exposed p0 and pushed goto(p0, lhs r) *)
  Definition step_kind (sts : list nat) (inp : list P) (sts' : list nat) (inp' : list P) : Prop :=
    (exists p s', inp = p :: inp' /\ sts' = s' :: sts) \/
    (inp' = inp /\ exists top rest r ru pushed p0 stk s',
        sts = top :: rest /\
        get_action T top (col T (la_of kind inp)) = Some (AReduce r) /\ nth_error rules r = Some ru /\
        sts = pushed ++ p0 :: stk /\ length pushed = length (pr_rhs ru) /\
        get_goto T p0 (pr_lhs ru) = Some (Some s') /\ sts' = s' :: p0 :: stk).

  Definition step_ok (w : list P) (sts : list nat) (inp : list P) (r : config + outcome) : Prop :=
    match r with
    | inl (sts', nodes', inp') => good w sts' nodes' inp' /\ step_kind sts inp sts' inp'
    | inr (OAccept t) => wf (PN (pt_start_nt T)) t /\ yield t = w /\ inp = []
    | inr (OReject tok) => tok = hd_error inp
    | inr (OPanic _) => False
    | inr OOutOfFuel => False
    end.

  Lemma col_lt inp : Forall (fun p => kind p < pt_nterm T) inp -> col T (la_of kind inp) <= pt_nterm T.
  Proof. intros H. destruct inp as [|p v]; cbn; [lia|]. inversion H; subst; lia. Qed.

  Lemma step_good w sts nodes inp : good w sts nodes inp -> step_ok w sts inp (step kind T (sts, nodes, inp)).
  Proof.
    intros (HS & HY & HK). subst w.
    pose proof (SI_bound _ _ HS) as Hb.
    destruct sts as [|top rest]; [inversion HS|].
    inversion Hb as [|? ? Htop Hrest]; subst.
    unfold step. rewrite col_la_of.
    destruct (inv_dim_action _ _ H2 top (col T (la_of kind inp)) Htop (col_lt _ HK)) as (a & Ha).
    rewrite Ha.
    destruct a as [s'|r| |].
    - (* shift *)
      destruct (inv_table' _ _ H2 _ _ _ Htop Ha ltac:(discriminate)) as (it & Hin & Hd).
      inversion Hd as [t rest' s'' Had Hlt Hc| |]; subst.
      destruct inp as [|p v].
      + cbn [la_of hd_error option_map col] in *. lia.
      + cbn [la_of hd_error option_map col] in *. subst.
        cbn [step_ok]. split; [|left; eauto]. repeat split.
        * eapply SI_push; [exact HS| |constructor]. unfold goto_sym. rewrite Ha. reflexivity.
        * cbn [rev]. rewrite yields_app, <- app_assoc. reflexivity.
        * inversion HK; assumption.
    - (* reduce *)
      destruct (inv_table' _ _ H2 _ _ _ Htop Ha ltac:(discriminate)) as (it & Hin & Hd).
      inversion Hd as [|r' Hrule Had Hc|]; subst.
      destruct (inv_item_wf _ _ H2 _ _ Hin) as (rhs & Hrhs & Hle).
      pose proof (after_dot_nil _ _ Hrhs Had) as Hdot.
      assert (Hru : exists ru, nth_error rules r = Some ru /\ rhs = pr_rhs ru).
      { rewrite Hrule in Hrhs. cbn [rhs_of] in Hrhs. destruct (nth_error rules r) as [ru|]; [|discriminate].
        injection Hrhs as <-. eauto. }
      destruct Hru as (ru & Hr & ->). rewrite Hr.
      destruct (back_n (length (pr_rhs ru)) (top :: rest) nodes top rest it (pr_rhs ru) HS eq_refl Hin Hdot Hrhs)
        as (pushed & ts & s0 & stk & nodes' & la' & E1 & E2 & E3 & E4 & E5 & E6).
      rewrite firstn_all in E4.
      rewrite E2, (pop_children_wfs kind T ru ts nodes' E4 (inv_used2 _ _ H2 _ _ Hr)).
      replace (length (top :: rest) <? length (pr_rhs ru)) with false.
      2:{ symmetry; apply Nat.ltb_ge. rewrite E1, app_length, E3. lia. }
      assert (Hsk : skipn (length (pr_rhs ru)) (pushed ++ s0 :: stk) = s0 :: stk)
        by (rewrite <- E3, skipn_app, Nat.sub_diag, skipn_all; reflexivity).
      rewrite E1, Hsk.
      pose proof (SI_bound _ _ E5) as Hb0. inversion Hb0 as [|? ? Hs0 _]; subst.
      destruct (inv_dot0 _ _ H2 _ _ E6 eq_refl) as [(Hnone & _)|(r0 & ru0 & jt & rest0 & Hr0 & Hru0 & Hjt & Hjad)].
      { cbn [irule] in Hnone. congruence. }
      cbn [irule] in Hr0. rewrite Hrule in Hr0. injection Hr0 as <-. rewrite Hr in Hru0. injection Hru0 as <-.
      destruct (inv_goto2 _ _ H2 _ _ _ _ Hjt Hjad) as (s' & Hg).
      rewrite Hg. cbn [step_ok]. split.
      2:{ right. split; [reflexivity|]. exists top, rest, r, ru, pushed, s0, stk, s'. repeat split; auto. }
      repeat split.
      + eapply SI_push; [exact E5| |econstructor; eassumption]. unfold goto_sym. rewrite Hg. reflexivity.
      + cbn [rev]. rewrite yields_app. cbn [yields flat_map app]. rewrite app_nil_r.
        rewrite rev_app_distr, rev_involutive, yields_app. reflexivity.
      + exact HK.
    - (* accept *)
      destruct (inv_table' _ _ H2 _ _ _ Htop Ha ltac:(discriminate)) as (it & Hin & Hd).
      inversion Hd as [| |Hrule Had Hla Hc]; subst.
      assert (Hinp : inp = []).
      { destruct inp as [|p v]; [reflexivity|]. cbn [la_of hd_error option_map col] in Hc.
        inversion HK; subst. lia. }
      subst inp.
      assert (Hrhs : rhs_of T (irule it) = Some [PN (pt_start_nt T)]) by (rewrite Hrule; reflexivity).
      pose proof (after_dot_nil _ _ Hrhs Had) as Hdot. cbn [length] in Hdot.
      destruct (back_n 1 (top :: rest) nodes top rest it _ HS eq_refl Hin Hdot Hrhs)
        as (pushed & ts & s0 & stk & nodes' & la' & E1 & E2 & E3 & E4 & E5 & E6).
      cbn [firstn] in E4. inversion E4 as [|x xs t ts' Hwt Hnil]; subst. inversion Hnil; subst.
      destruct (inv_dot0 _ _ H2 _ _ E6 eq_refl) as [(_ & Hs0)|(r0 & ru0 & jt & rest0 & Hr0 & _)].
      2:{ cbn [irule] in Hr0. congruence. }
      subst s0. destruct (SI_start_bottom _ _ E5) as (-> & ->).
      cbn [rev app]. rewrite (root_sym_wf kind T _ _ Hwt), Nat.eqb_refl.
      cbn [step_ok]. repeat split; [exact Hwt|].
      cbn [rev app yields flat_map]. rewrite !app_nil_r. reflexivity.
    - (* error cell *)
      cbn [step_ok]. reflexivity.
  Qed.

  Lemma good_initial w : Forall (fun p => kind p < pt_nterm T) w -> good w [pt_start T] [] w.
  Proof. intros H. repeat split; [constructor|exact H]. Qed.

  Lemma run_good w : forall fuel sts nodes inp, good w sts nodes inp ->
    match run kind T fuel (sts, nodes, inp) with
    | OAccept t => wf (PN (pt_start_nt T)) t /\ yield t = w
    | OReject tok => exists consumed rest, w = consumed ++ rest /\ tok = hd_error rest
    | OPanic _ => False
    | OOutOfFuel => True
    end.
  Proof.
    induction fuel as [|f IH]; intros sts nodes inp Hg; [exact I|].
    cbn [run]. pose proof (step_good _ _ _ _ Hg) as Hs.
    destruct (step kind T (sts, nodes, inp)) as [[[sts' nodes'] inp']|o].
    - destruct Hs as (Hg' & _). apply IH, Hg'.
    - destruct o as [t|tok|site|]; cbn [step_ok] in Hs; try contradiction.
      + tauto.
      + destruct Hg as (_ & HY & _). exists (yields (rev nodes)), inp. split; [symmetry; exact HY|exact Hs].
  Qed.

  (* ---------- the theorems ---------- *)

  Theorem safe : forall fuel w site, Forall (fun p => kind p < pt_nterm T) w ->
    parse kind T fuel w <> OPanic site.
  Proof.
    intros fuel w site Hw Hp. pose proof (run_good w fuel _ _ _ (good_initial w Hw)) as H.
    unfold parse, initial in Hp. rewrite Hp in H. exact H.
  Qed.

  Theorem sound : forall fuel w t, Forall (fun p => kind p < pt_nterm T) w ->
    parse kind T fuel w = OAccept t -> wf (PN (pt_start_nt T)) t /\ yield t = w.
  Proof.
    intros fuel w t Hw Hp. pose proof (run_good w fuel _ _ _ (good_initial w Hw)) as H.
    unfold parse, initial in Hp. rewrite Hp in H. exact H.
  Qed.

  (* a rejection hands back a token of the input (the one at the head of what was not consumed), or None at the end *)
  Theorem reject_is_input_token : forall fuel w tok, Forall (fun p => kind p < pt_nterm T) w ->
    parse kind T fuel w = OReject tok -> exists consumed rest, w = consumed ++ rest /\ tok = hd_error rest.
  Proof.
    intros fuel w tok Hw Hp. pose proof (run_good w fuel _ _ _ (good_initial w Hw)) as H.
    unfold parse, initial in Hp. rewrite Hp in H. exact H.
  Qed.
End Sound.
