(* LR/ValidateProofs.v — soundness of the validator: validate = true gives the
   invariants, hence the three theorems for the validated tables. *)
From Coq Require Import List Arith Lia Bool.
From Kiki Require Import Base.Ord Base.Chars Data LR.Driver LR.Grammar LR.Inv LR.Complete LR.Sound LR.Validate LR.Term.
Import ListNotations.
Open Scope nat_scope.

Lemma In_enumerate_from {A} (l : list A) : forall k i x, nth_error l i = Some x -> In (k + i, x) (enumerate_from k l).
Proof.
  induction l as [|y l IH]; intros k [|i] x H; cbn in *; try discriminate.
  - injection H as ->. left. f_equal. lia.
  - right. replace (k + S i) with (S k + i) by lia. apply IH, H.
Qed.

Lemma In_enumerate {A} (l : list A) i x : nth_error l i = Some x -> In (i, x) (enumerate l).
Proof. intros H. apply (In_enumerate_from l 0 i x H). Qed.

Section VP.
  Context {P : Type} (kind : P -> nat).
  Variable T : ptable.
  Variable ann : list (list item).
  Variable ft : first_table.
  Notation rules := (pt_rules T).
  Notation items := (items ann).
  Notation In_state := (In_state ann).
  Notation nstates := (length ann).

  Definition fseq (b : list psym) (la a : option nat) : Prop := fseqb ft b la a = true.

  (* ---------- FIRST table ---------- *)

  Definition first_sym_list (x : psym) : list nat := match x with PT t => [t] | PN n => first_of ft n end.

  Lemma first_seq_list_cons x r :
    first_seq_list ft (x :: r) = match x with
                                 | PT t => [t]
                                 | PN n => first_of ft n ++ (if nullable_of ft n then first_seq_list ft r else [])
                                 end.
  Proof. destruct x; reflexivity. Qed.

  Lemma first_lemma : first_closed ft rules = true ->
    (forall x t, wf kind T x t ->
       (yield t = [] -> nullable_sym ft x = true) /\
       (forall p v, yield t = p :: v -> In (kind p) (first_sym_list x))) /\
    (forall ys ts, wfs kind T ys ts ->
       (yields ts = [] -> nullable_seq ft ys = true) /\
       (forall p v, yields ts = p :: v -> In (kind p) (first_seq_list ft ys))).
  Proof.
    intros Hc. unfold first_closed in Hc. rewrite forallb_forall in Hc.
    apply wf_wfs_mind.
    - intros p. split; [discriminate|]. intros q v H. injection H as -> _. left; reflexivity.
    - intros r ru ch Hr _ (IHn & IHf). rewrite yield_node.
      specialize (Hc ru (nth_error_In _ _ Hr)). unfold rule_closed in Hc.
      apply andb_true_iff in Hc as (Hc1 & Hc2). rewrite forallb_forall in Hc1.
      split.
      + intros Hy. specialize (IHn Hy). rewrite IHn in Hc2. exact Hc2.
      + intros p v Hy. specialize (IHf p v Hy). apply Hc1 in IHf. apply mem_nat_In in IHf. exact IHf.
    - split; [reflexivity|discriminate].
    - intros x xs t ts _ (IHtn & IHtf) _ (IHsn & IHsf). rewrite yields_cons. split.
      + intros Hy. apply app_eq_nil in Hy as (Hy1 & Hy2). cbn [nullable_seq forallb].
        rewrite (IHtn Hy1). apply IHsn, Hy2.
      + intros p v Hy. rewrite first_seq_list_cons.
        destruct (yield t) as [|q v'] eqn:Ey.
        * cbn [app] in Hy. specialize (IHtn eq_refl). specialize (IHsf _ _ Hy).
          destruct x as [t0|n]; cbn [nullable_sym] in IHtn; [discriminate|].
          rewrite IHtn. apply in_or_app. right. exact IHsf.
        * cbn [app] in Hy. injection Hy as -> _. specialize (IHtf _ _ eq_refl).
          destruct x as [t0|n]; cbn [first_sym_list] in IHtf; [exact IHtf|].
          apply in_or_app. left. exact IHtf.
  Qed.

  Lemma fseq_nil_iff la a : fseq [] la a <-> a = la.
  Proof.
    unfold fseq, fseqb, cands. cbn. rewrite orb_false_r. apply onat_eqb_eq.
  Qed.

  Lemma fseq_intro b la a : In a (cands ft b la) -> fseq b la a.
  Proof.
    intros H. unfold fseq, fseqb. apply existsb_exists. exists a. split; [exact H|apply onat_eqb_eq; reflexivity].
  Qed.

  Lemma fseq_elim b la a : fseq b la a -> In a (cands ft b la).
  Proof.
    unfold fseq, fseqb. intros H. apply existsb_exists in H as (x & Hx & He). apply onat_eqb_eq in He. subst. exact Hx.
  Qed.

  Lemma FirstOK_of_closed : first_closed ft rules = true -> FirstOK kind T fseq.
  Proof.
    intros Hc. destruct (first_lemma Hc) as (_ & Hs). split.
    - intros la. apply fseq_nil_iff. reflexivity.
    - intros beta ts la v Hw Hnil. apply fseq_nil_iff in Hnil.
      destruct (Hs _ _ Hw) as (Hn & Hf). apply fseq_intro. unfold cands.
      destruct (yields ts) as [|p v'] eqn:Ey.
      + cbn [app]. rewrite Hnil. rewrite (Hn eq_refl). apply in_or_app. right. left. reflexivity.
      + cbn [app la_of hd_error option_map]. apply in_or_app. left. apply in_map. apply (Hf _ _ eq_refl).
  Qed.

  (* ---------- generic helpers ---------- *)

  Lemma items_bound s it : In it (items s) -> s < nstates.
  Proof.
    unfold Inv.items. intros H. destruct (Nat.lt_ge_cases s (length ann)) as [|Hge]; [assumption|].
    rewrite nth_overflow in H by assumption. contradiction.
  Qed.

  Lemma all_items_spec f : all_items ann f = true -> forall s it, In it (items s) -> f s it = true.
  Proof.
    unfold all_items. rewrite forallb_forall. intros H s it Hin.
    specialize (H s). rewrite forallb_forall in H. apply H; [|exact Hin].
    apply in_seq. pose proof (items_bound _ _ Hin). lia.
  Qed.

  Hypothesis Hv : validate T ann ft = true.

  Ltac split_validate :=
    unfold validate in Hv;
    repeat match type of Hv with
           | _ && _ = true => let H := fresh "Hchk" in apply andb_true_iff in Hv as (Hv & H)
           end.

  Lemma validate_parts :
    first_closed ft rules = true /\ chk_start T ann = true /\ chk_closure T ann ft = true /\
    chk_goto T ann = true /\ chk_final T ann = true /\ chk_used T = true /\ chk_dims T ann = true /\
    chk_table' T ann = true /\ chk_item_wf T ann = true /\ chk_back T ann = true /\
    chk_dot0 T ann = true /\ chk_start_dot0 T ann = true.
  Proof.
    unfold validate in Hv. repeat rewrite andb_true_iff in Hv. tauto.
  Qed.

  Lemma used_ok r ru : nth_error rules r = Some ru -> length (pr_used ru) = length (pr_rhs ru).
  Proof.
    intros Hr. destruct validate_parts as (_ & _ & _ & _ & _ & Hu & _).
    unfold chk_used in Hu. rewrite forallb_forall in Hu.
    apply Nat.eqb_eq. apply Hu. eapply nth_error_In; eauto.
  Qed.

  Theorem validate_Inv : Inv T ann fseq.
  Proof.
    destruct validate_parts as (Hfc & Hst & Hcl & Hgo & Hfi & Hu & _).
    split.
    - apply mem_item_In. exact Hst.
    - intros s it B rest r ru a Hin Had Hr Hl Hfs.
      pose proof (all_items_spec _ Hcl s it Hin) as H. cbn beta in H. rewrite Had in H.
      rewrite forallb_forall in H. specialize (H (r, ru) (In_enumerate _ _ _ Hr)). cbn beta iota in H.
      rewrite Hl, Nat.eqb_refl in H. rewrite forallb_forall in H.
      apply mem_item_In. apply H. apply fseq_elim. exact Hfs.
    - intros s it x rest Hin Had.
      pose proof (all_items_spec _ Hgo s it Hin) as H. cbn beta in H. rewrite Had in H.
      destruct (goto_sym T s x) as [s'|]; [|discriminate]. exists s'. split; [reflexivity|].
      apply mem_item_In. exact H.
    - intros s it r Hin Hrule Had.
      pose proof (all_items_spec _ Hfi s it Hin) as H. cbn beta in H. rewrite Had, Hrule in H.
      apply oaction_is_eq. exact H.
    - intros s it Hin Hrule Had Hla.
      pose proof (all_items_spec _ Hfi s it Hin) as H. cbn beta in H. rewrite Had, Hrule, Hla in H.
      apply oaction_is_eq. exact H.
    - apply used_ok.
  Qed.

  (* table dimensions *)
  Lemma dims :
    pt_start T < nstates /\ length (pt_action T) = nstates /\ length (pt_goto T) = nstates /\
    (forall row, In row (pt_action T) -> length row = S (pt_nterm T)) /\
    (forall row, In row (pt_goto T) -> length row = nnt T) /\
    (forall ru, In ru rules -> pr_lhs ru < nnt T) /\
    (forall row a, In row (pt_action T) -> In a row -> match a with AShift s' => s' < nstates | _ => True end) /\
    (forall row g, In row (pt_goto T) -> In g row -> match g with Some s' => s' < nstates | None => True end).
  Proof.
    destruct validate_parts as (_ & _ & _ & _ & _ & _ & Hd & _).
    unfold chk_dims in Hd. repeat rewrite andb_true_iff in Hd.
    destruct Hd as (((((((H1 & H2) & H3) & H4) & H5) & H6) & H7) & H8).
    rewrite forallb_forall in H4, H5, H6, H7, H8.
    repeat split.
    - apply Nat.ltb_lt, H1.
    - apply Nat.eqb_eq, H2.
    - apply Nat.eqb_eq, H3.
    - intros row Hr. apply Nat.eqb_eq, H4, Hr.
    - intros row Hr. apply Nat.eqb_eq, H5, Hr.
    - intros ru Hr. apply Nat.ltb_lt, H6, Hr.
    - intros row a Hr Ha. specialize (H7 row Hr). rewrite forallb_forall in H7. specialize (H7 a Ha).
      destruct a; try exact I. apply Nat.ltb_lt, H7.
    - intros row g Hr Hg. specialize (H8 row Hr). rewrite forallb_forall in H8. specialize (H8 g Hg).
      destruct g; try exact I. apply Nat.ltb_lt, H8.
  Qed.

  Lemma get_action_some s c : s < nstates -> c <= pt_nterm T -> exists a, get_action T s c = Some a.
  Proof.
    destruct dims as (_ & Hla & _ & Hrow & _). intros Hs Hc. unfold get_action.
    destruct (nth_error (pt_action T) s) as [row|] eqn:E.
    - specialize (Hrow row (nth_error_In _ _ E)).
      destruct (nth_error row c) as [a|] eqn:E2; [eauto|].
      apply nth_error_None in E2. lia.
    - apply nth_error_None in E. lia.
  Qed.

  Lemma get_action_col s c a : get_action T s c = Some a -> s < nstates /\ c <= pt_nterm T.
  Proof.
    destruct dims as (_ & Hla & _ & Hrow & _). unfold get_action.
    destruct (nth_error (pt_action T) s) as [row|] eqn:E; [|discriminate]. intros H.
    pose proof (nth_error_In _ _ E) as Hin. specialize (Hrow row Hin).
    assert (c < length row) by (apply nth_error_Some; congruence).
    assert (s < length (pt_action T)) by (apply nth_error_Some; congruence). lia.
  Qed.

  Lemma goto_sym_target s x s' : goto_sym T s x = Some s' -> s' < nstates.
  Proof.
    destruct dims as (_ & _ & _ & _ & _ & _ & Ha & Hg). destruct x as [t|n]; cbn [goto_sym].
    - unfold get_action. destruct (nth_error (pt_action T) s) as [row|] eqn:E; [|discriminate].
      destruct (nth_error row t) as [[s''| | | ]|] eqn:E2; try discriminate. intros H; injection H as <-.
      apply (Ha row (AShift s'') (nth_error_In _ _ E) (nth_error_In _ _ E2)).
    - unfold get_goto. destruct (nth_error (pt_goto T) s) as [row|] eqn:E; [|discriminate].
      destruct (nth_error row n) as [[s''|]|] eqn:E2; try discriminate. intros H; injection H as <-.
      apply (Hg row (Some s'') (nth_error_In _ _ E) (nth_error_In _ _ E2)).
  Qed.

  Lemma goto_sym_in_all_syms s x s' : goto_sym T s x = Some s' -> s < nstates /\ In x (all_syms T).
  Proof.
    destruct dims as (_ & Hla & Hlg & Hrow & Hgrow & _). unfold all_syms. destruct x as [t|n]; cbn [goto_sym].
    - destruct (get_action T s t) as [a|] eqn:E; [|discriminate]. intros _.
      destruct (get_action_col _ _ _ E) as (Hs & Hc). split; [exact Hs|].
      apply in_or_app. left. apply in_map. apply in_seq. lia.
    - unfold get_goto. destruct (nth_error (pt_goto T) s) as [row|] eqn:E; [|discriminate].
      destruct (nth_error row n) as [g|] eqn:E2; [|discriminate]. intros _.
      assert (s < length (pt_goto T)) by (apply nth_error_Some; congruence).
      assert (n < length row) by (apply nth_error_Some; congruence).
      rewrite (Hgrow row (nth_error_In _ _ E)) in *.
      split; [lia|]. apply in_or_app. right. apply in_map. apply in_seq. lia.
  Qed.

  Lemma psym_eqb_true x y : psym_eqb x y = true -> x = y.
  Proof. destruct x, y; cbn; try discriminate; intros H; apply Nat.eqb_eq in H; congruence. Qed.

  Theorem validate_Inv2 : Inv2 T ann.
  Proof.
    destruct validate_parts as (_ & _ & _ & Hgo & _ & _ & _ & Htb & Hwf & Hbk & Hd0 & Hsd0).
    destruct dims as (Hstart & Hla & Hlg & Hrow & Hgrow & Hlhs & _).
    split; unfold Inv.nstates.
    - exact Hstart.
    - intros s c Hs Hc. apply get_action_some; assumption.
    - intros s r ru Hs Hr. unfold get_goto.
      destruct (nth_error (pt_goto T) s) as [row|] eqn:E.
      + specialize (Hgrow row (nth_error_In _ _ E)). specialize (Hlhs ru (nth_error_In _ _ Hr)).
        destruct (nth_error row (pr_lhs ru)) as [g|] eqn:E2; [eauto|]. apply nth_error_None in E2. lia.
      + apply nth_error_None in E. lia.
    - intros s x s' _ Hg. eapply goto_sym_target; eauto.
    - apply used_ok.
    - (* inv_table' *)
      intros s c a Hs Ha Hne. unfold chk_table' in Htb. rewrite forallb_forall in Htb.
      specialize (Htb s ltac:(apply in_seq; lia)). rewrite forallb_forall in Htb.
      destruct (get_action_col _ _ _ Ha) as (_ & Hc).
      specialize (Htb c ltac:(apply in_seq; lia)). rewrite Ha in Htb.
      destruct a as [s'|r| |]; try congruence;
        apply existsb_exists in Htb as (it & Hin & Hd); exists it; (split; [exact Hin|]); unfold demandsb in Hd.
      + destruct (after_dot T it) as [[|[t|n] rest]|] eqn:Ead; try discriminate.
        apply andb_true_iff in Hd as (H1 & H2). apply Nat.eqb_eq in H1. apply Nat.ltb_lt in H2. subst c.
        eapply d_shift; eauto.
      + repeat rewrite andb_true_iff in Hd. destruct Hd as ((H1 & H2) & H3).
        apply onat_eqb_eq in H1. apply Nat.eqb_eq in H3. subst c.
        destruct (after_dot T it) as [[|]|] eqn:Ead; try discriminate. apply d_reduce; assumption.
      + repeat rewrite andb_true_iff in Hd. destruct Hd as (((H1 & H2) & H3) & H4).
        apply onat_eqb_eq in H1, H3. apply Nat.eqb_eq in H4. subst c.
        destruct (after_dot T it) as [[|]|] eqn:Ead; try discriminate. apply d_accept; assumption.
    - (* inv_item_wf *)
      intros s it Hin. pose proof (all_items_spec _ Hwf s it Hin) as H. cbn beta in H.
      destruct (rhs_of T (irule it)) as [rhs|]; [|discriminate]. exists rhs. split; [reflexivity|].
      apply Nat.leb_le, H.
    - (* inv_back *)
      intros s x t it Hs Hg Hin Hdot.
      destruct (goto_sym_in_all_syms _ _ _ Hg) as (_ & Hx).
      unfold chk_back in Hbk. rewrite forallb_forall in Hbk.
      specialize (Hbk s ltac:(apply in_seq; lia)). rewrite forallb_forall in Hbk.
      specialize (Hbk x Hx). rewrite Hg in Hbk. apply andb_true_iff in Hbk as (_ & Hbk).
      rewrite forallb_forall in Hbk. specialize (Hbk it Hin).
      destruct (Nat.eqb (idot it) 0) eqn:E0; [apply Nat.eqb_eq in E0; lia|].
      destruct (rhs_of T (irule it)) as [rhs|]; [|discriminate].
      apply andb_true_iff in Hbk as (H1 & H2).
      destruct (nth_error rhs (pred (idot it))) as [y|] eqn:En; [|discriminate].
      apply psym_eqb_true in H1. subst y. split; [exists rhs; split; [reflexivity|exact En]|].
      apply existsb_exists in H2 as (jt & Hjt & Hc). apply andb_true_iff in Hc as (Hc1 & Hc2).
      apply onat_eqb_eq in Hc1. apply Nat.eqb_eq in Hc2.
      exists (ila jt). unfold Inv.In_state. replace (retreat it (ila jt)) with jt; [exact Hjt|].
      destruct jt as [r d l]; cbn in *. unfold retreat. subst. reflexivity.
    - (* inv_back0: not used by the proofs; holds vacuously from item well-formedness? keep simple *)
      intros s x t it Hs Hg Hin Hdot Hnone.
      destruct (goto_sym_in_all_syms _ _ _ Hg) as (_ & Hx).
      unfold chk_back in Hbk. rewrite forallb_forall in Hbk.
      specialize (Hbk s ltac:(apply in_seq; lia)). rewrite forallb_forall in Hbk.
      specialize (Hbk x Hx). rewrite Hg in Hbk. apply andb_true_iff in Hbk as (Hns & _).
      pose proof (all_items_spec _ Hd0 t it Hin) as H. cbn beta in H.
      rewrite Hdot, Nat.eqb_refl, Hnone in H. rewrite H in Hns. discriminate.
    - (* inv_dot0 *)
      intros s it Hin Hdot. pose proof (all_items_spec _ Hd0 s it Hin) as H. cbn beta in H.
      rewrite Hdot, Nat.eqb_refl in H. destruct (irule it) as [r|] eqn:Er.
      + right. destruct (nth_error rules r) as [ru|] eqn:Eru; [|discriminate].
        apply existsb_exists in H as (jt & Hjt & Hc).
        destruct (after_dot T jt) as [[|[t0|n] rest]|] eqn:Ead; try discriminate.
        apply Nat.eqb_eq in Hc. subst n. exists r, ru, jt, rest. auto.
      + left. split; [reflexivity|]. apply Nat.eqb_eq, H.
    - (* inv_goto2 *)
      intros s jt n rest Hin Had.
      pose proof (all_items_spec _ Hgo s jt Hin) as H. cbn beta in H. rewrite Had in H.
      cbn [goto_sym] in H. destruct (get_goto T s n) as [[s'|]|]; try discriminate. eauto.
    - (* inv_start_dot0 *)
      intros it Hin. unfold chk_start_dot0 in Hsd0. rewrite forallb_forall in Hsd0.
      apply Nat.eqb_eq, Hsd0, Hin.
    - (* inv_start_not_target *)
      intros s x Hs Hg.
      destruct (goto_sym_in_all_syms _ _ _ Hg) as (_ & Hx).
      unfold chk_back in Hbk. rewrite forallb_forall in Hbk.
      specialize (Hbk s ltac:(apply in_seq; lia)). rewrite forallb_forall in Hbk.
      specialize (Hbk x Hx). rewrite Hg in Hbk. apply andb_true_iff in Hbk as (Hns & _).
      rewrite Nat.eqb_refl in Hns. discriminate.
  Qed.

  (* ---------- the theorems for validated tables ---------- *)

  Theorem validated_complete : forall t k, wf kind T (PN (pt_start_nt T)) t ->
    parse kind T (size t + S k) (yield t) = OAccept t.
  Proof.
    destruct validate_parts as (Hfc & _).
    intros t k Hw. apply (complete kind T ann fseq (FirstOK_of_closed Hfc) validate_Inv t k Hw).
  Qed.

  (* two derivations of the start symbol with the same yield are the same tree *)
  Theorem validated_unambiguous : forall t1 t2,
    wf kind T (PN (pt_start_nt T)) t1 -> wf kind T (PN (pt_start_nt T)) t2 ->
    yield t1 = yield t2 -> t1 = t2.
  Proof.
    intros t1 t2 H1 H2 Hy.
    pose proof (validated_complete t1 (size t2) H1) as E1.
    pose proof (validated_complete t2 (size t1) H2) as E2.
    rewrite Hy in E1. replace (size t1 + S (size t2)) with (size t2 + S (size t1)) in E1 by lia.
    rewrite E1 in E2. congruence.
  Qed.

  Theorem validated_safe : forall fuel w site, Forall (fun p => kind p < pt_nterm T) w ->
    parse kind T fuel w <> OPanic site.
  Proof. apply (safe kind T ann validate_Inv2). Qed.

  (* with a checked termination certificate the loop stops on every input *)
  Theorem validated_terminates : forall K phi, term_check T ann K phi = true ->
    forall w, Forall (fun p => kind p < pt_nterm T) w ->
    parse kind T (K + ph phi (pt_start T) + length w * (K + M phi + 1) + 1) w <> OOutOfFuel.
  Proof.
    intros K phi Ht. apply (terminates kind T ann K phi validate_Inv2).
    - intros s c a H. apply (get_action_col s c a H).
    - intros s x s' H. apply (goto_sym_in_all_syms s x s' H).
    - exact Ht.
  Qed.

  Theorem validated_sound : forall fuel w t, Forall (fun p => kind p < pt_nterm T) w ->
    parse kind T fuel w = OAccept t -> wf kind T (PN (pt_start_nt T)) t /\ yield t = w.
  Proof. apply (sound kind T ann validate_Inv2). Qed.
End VP.
