(* LR/CanonAgree.v — C03 for grammars with unproductive nonterminals: the emitted (LALR) parser
   stops at exactly the input position at which the canonical LR(1) parser of the grammar stops.

   The canonical parser is defined from the canonical collection I(g) = { it | valid1 g it }
   (LR/CanonLR1.v): in the configuration (g, input) it shifts the next token t when some item of
   I(g) has t after the dot, reduces by A -> alpha when [A -> alpha ., a] is in I(g) for the
   lookahead a, accepts with [S' -> S ., $] at the end of the input, and is stuck otherwise.

   lockstep : while the canonical parser has a move, the LALR driver makes the same move
              (I(g) is contained in the item set of the state the driver is in);
   no_shift_after_stuck : where the canonical parser is stuck, the LALR driver may still reduce,
              but can never shift or accept: a chain of LALR reductions ending in a shift of t would
              put t into FIRST(beta a) for a kernel item of I(delta A), hence [A -> alpha ., t] into
              I(delta alpha) — the canonical parser was not stuck. *)
From Coq Require Import List Arith Lia Bool.
From Kiki Require Import Base.Ord Base.Chars Data LR.Driver LR.Grammar LR.Inv LR.Sound LR.Least LR.CanonLR1
  LR.ErrPos LR.Validate LR.ValidateProofs.
Import ListNotations.
Open Scope nat_scope.

Section CanonAgree.
  Context {P : Type} (kind : P -> nat).
  Variable T : ptable.
  Variable ann : list (list item).
  Variable ft : first_table.
  Notation rules := (pt_rules T).
  Notation fseq := (fseq ft).
  Notation In_state := (In_state ann).
  Notation nstates := (nstates ann).
  Notation valid1 := (valid1 T fseq).
  Notation path := (path T).
  Hypothesis HI : Inv T ann fseq.
  Hypothesis H2 : Inv2 T ann.
  Hypothesis HL : Least T ann fseq.
  Hypothesis Hfc : first_closed ft rules = true.

  (* ---------- the symbols spelled by the state stack ---------- *)
  Inductive SP : list nat -> list psym -> Prop :=
  | SP_init : SP [pt_start T] []
  | SP_push s sts g x s' : SP (s :: sts) g -> goto_sym T s x = Some s' -> SP (s' :: s :: sts) (g ++ [x]).

  Lemma SP_path sts g : SP sts g -> exists top rest, sts = top :: rest /\ path g top.
  Proof.
    induction 1 as [|s sts g x s' _ (top & rest & E & Hp) Hg].
    - exists (pt_start T), []. split; [reflexivity|constructor].
    - injection E as -> ->. exists s', (top :: rest). split; [reflexivity|]. econstructor; eassumption.
  Qed.

  Lemma SP_top_lt top rest g : SP (top :: rest) g -> top < nstates.
  Proof. intros H. destruct (SP_path _ _ H) as (t & r & E & Hp). injection E as <- <-. exact (path_lt T ann H2 g top Hp). Qed.

  Lemma firstn_S_snoc {A} (l : list A) n x : nth_error l n = Some x -> firstn (S n) l = firstn n l ++ [x].
  Proof.
    revert l. induction n as [|n IH]; intros [|y l] H; cbn in *; try discriminate.
    - injection H as ->. reflexivity.
    - f_equal. apply IH, H.
  Qed.

  Lemma sp_back_n : forall n top rest g it rhs,
      SP (top :: rest) g -> In_state it top -> idot it = n -> rhs_of T (irule it) = Some rhs ->
      exists pushed s0 stk d,
        top :: rest = pushed ++ s0 :: stk /\ length pushed = n /\ g = d ++ firstn n rhs /\ SP (s0 :: stk) d.
  Proof.
    induction n as [|n IH]; intros top rest g it rhs HS Hin Hdot Hrhs.
    - exists [], top, rest, g. split; [reflexivity|]. split; [reflexivity|]. split; [cbn; rewrite app_nil_r; reflexivity|exact HS].
    - inversion HS as [|s sts' g0 x s' HS' Hg]; subst.
      + rewrite (inv_start_dot0 _ _ H2 _ Hin) in Hdot. discriminate.
      + pose proof (SP_top_lt _ _ _ HS') as Hs.
        destruct (inv_back _ _ H2 _ _ _ _ Hs Hg Hin ltac:(lia)) as ((rhs' & Hr' & Hnth) & la' & Hret).
        rewrite Hrhs in Hr'; injection Hr' as <-. rewrite Hdot in Hnth; cbn [pred] in Hnth.
        destruct (IH s sts' g0 (retreat it la') rhs HS' Hret) as (pushed & s0 & stk & d & E1 & E2 & E3 & E4).
        { cbn [retreat idot]. rewrite Hdot; reflexivity. }
        { exact Hrhs. }
        exists (top :: pushed), s0, stk, d. split; [cbn [app]; rewrite E1; reflexivity|].
        split; [cbn [length]; rewrite E2; reflexivity|]. split; [|exact E4].
        rewrite (firstn_S_snoc _ _ _ Hnth), E3, app_assoc. reflexivity.
  Qed.
  (* ---------- "a can follow": a is in FIRST(rest la) of the item ---------- *)
  Definition front (it : item) (a : option nat) : Prop :=
    exists rest, after_dot T it = Some rest /\ fseq rest (ila it) a.

  (* an item that acts directly on a: shift of a, or complete with lookahead a *)
  Definition acts (it : item) (a : option nat) : Prop :=
    (exists t rest, after_dot T it = Some (PT t :: rest) /\ a = Some t) \/ (after_dot T it = Some [] /\ ila it = a).

  Lemma acts_front it a : acts it a -> front it a.
  Proof.
    intros [(t & rest & Had & ->)|(Had & <-)].
    - exists (PT t :: rest). split; [exact Had|]. apply fseq_intro. unfold cands. cbn. left. reflexivity.
    - exists []. split; [exact Had|]. apply fseq_intro. unfold cands. cbn. left. reflexivity.
  Qed.

  Lemma rule_closed_of r ru : nth_error rules r = Some ru -> rule_closed ft ru = true.
  Proof. intros H. unfold first_closed in Hfc. rewrite forallb_forall in Hfc. apply Hfc. eapply nth_error_In, H. Qed.

  (* FIRST is monotone along the closure rule, from the implied item up to the item that calls it *)
  Lemma front_up r ru rest la c a : nth_error rules r = Some ru ->
    fseq rest la c -> fseq (pr_rhs ru) c a -> fseq (PN (pr_lhs ru) :: rest) la a.
  Proof.
    intros Hr Hc Ha. pose proof (rule_closed_of r ru Hr) as Hrc. unfold rule_closed in Hrc.
    apply andb_true_iff in Hrc as (Hf & Hn). rewrite forallb_forall in Hf.
    apply fseq_elim in Ha. apply fseq_elim in Hc. apply fseq_intro. unfold cands in *.
    cbn [first_seq_list nullable_seq forallb nullable_sym].
    apply in_app_or in Ha as [Ha|Ha].
    - apply in_map_iff in Ha as (t & <- & Ht). apply in_or_app. left. apply in_map. apply in_or_app. left.
      apply mem_nat_In, Hf, Ht.
    - destruct (nullable_seq ft (pr_rhs ru)) eqn:En; [|destruct Ha]. destruct Ha as [<-|[]].
      cbn [implb] in Hn. rewrite Hn. cbn [andb].
      apply in_app_or in Hc as [Hc|Hc].
      + apply in_map_iff in Hc as (t & <- & Ht). apply in_or_app. left. apply in_map. apply in_or_app. right. exact Ht.
      + apply in_or_app. right. exact Hc.
  Qed.

  (* every item of I(d ++ [PN A]) that a can follow is there because of a kernel item that a can follow *)
  Lemma front_kernel a : forall g it, valid1 g it -> front it a ->
    forall d A, g = d ++ [PN A] ->
    exists k0 rest, valid1 d k0 /\ after_dot T k0 = Some (PN A :: rest) /\ fseq rest (ila k0) a.
  Proof.
    induction 1 as [|g jt r ru rest c _ IH Had Hr Hf|g it x rest Hv _ Had]; intros Hfr d A E.
    - destruct d; discriminate.
    - apply (IH); [|exact E]. destruct Hfr as (rest' & Had' & Hf').
      unfold after_dot in Had'. cbn [irule idot rhs_of] in Had'. rewrite Hr in Had'. cbn [option_map Nat.leb skipn] in Had'.
      injection Had' as <-. cbn [ila] in Hf'.
      exists (PN (pr_lhs ru) :: rest). split; [exact Had|]. exact (front_up r ru rest (ila jt) c a Hr Hf Hf').
    - apply app_inj_tail in E as (-> & ->). destruct Hfr as (rest' & Had' & Hf').
      exists it, rest. split; [exact Hv|]. split; [exact Had|].
      assert (rest' = rest) by (rewrite (after_dot_adv T it _ rest Had) in Had'; congruence).
      subst rest'. cbn [adv ila] in Hf'. exact Hf'.
  Qed.

  (* reading the right-hand side of a rule from its dot-0 item *)
  Lemma valid1_goto_seq r ru a : nth_error rules r = Some ru ->
    forall n d, n <= length (pr_rhs ru) -> valid1 d {| irule := Some r; idot := 0; ila := a |} ->
    valid1 (d ++ firstn n (pr_rhs ru)) {| irule := Some r; idot := n; ila := a |}.
  Proof.
    intros Hr. induction n as [|n IH]; intros d Hle Hv; [cbn; rewrite app_nil_r; exact Hv|].
    destruct (nth_error (pr_rhs ru) n) as [x|] eqn:En; [|apply nth_error_None in En; lia].
    rewrite (firstn_S_snoc _ _ _ En), app_assoc.
    change {| irule := Some r; idot := S n; ila := a |} with (adv {| irule := Some r; idot := n; ila := a |}).
    apply (v1_goto T fseq _ _ x (skipn (S n) (pr_rhs ru))); [apply IH; [lia|exact Hv]|].
    unfold after_dot. cbn [irule idot rhs_of]. rewrite Hr. cbn [option_map].
    replace (n <=? length (pr_rhs ru)) with true by (symmetry; apply Nat.leb_le; lia).
    f_equal. clear -En. revert En. generalize (pr_rhs ru) as l. induction n as [|n IH]; intros [|y l] H; cbn in *; try discriminate.
    - injection H as ->. reflexivity.
    - apply IH, H.
  Qed.

  Lemma valid1_none_la g it : valid1 g it -> irule it = None -> ila it = None.
  Proof. induction 1 as [| |g it x rest _ IH _]; cbn; intros Hn; [reflexivity|discriminate|apply IH, Hn]. Qed.
  (* ---------- the canonical LR(1) parser ---------- *)
  Notation la_of := (la_of kind).

  Inductive cstep : list psym * list P -> list psym * list P -> Prop :=
  | cs_shift g p v it rest :
      valid1 g it -> after_dot T it = Some (PT (kind p) :: rest) -> cstep (g, p :: v) (g ++ [PT (kind p)], v)
  | cs_reduce d r ru v it :
      valid1 (d ++ pr_rhs ru) it -> irule it = Some r -> nth_error rules r = Some ru ->
      after_dot T it = Some [] -> ila it = la_of v -> cstep (d ++ pr_rhs ru, v) (d ++ [PN (pr_lhs ru)], v).

  Inductive csteps : list psym * list P -> list psym * list P -> Prop :=
  | cs_refl c : csteps c c
  | cs_trans c1 c2 c3 : csteps c1 c2 -> cstep c2 c3 -> csteps c1 c3.

  Lemma csteps_app c1 c2 c3 : csteps c1 c2 -> csteps c2 c3 -> csteps c1 c3.
  Proof. intros Ha Hb. induction Hb as [|c2 c3 c4 _ IH Hs]; [exact Ha|]. eapply cs_trans; [apply IH, Ha|exact Hs]. Qed.

  (* consuming the next token, or accepting at the end of the input *)
  Definition can_consume (g : list psym) (inp : list P) : Prop :=
    match inp with
    | p :: _ => exists it rest, valid1 g it /\ after_dot T it = Some (PT (kind p) :: rest)
    | [] => exists it, valid1 g it /\ irule it = None /\ after_dot T it = Some []
    end.

  Definition cacts (g : list psym) (a : option nat) : Prop := exists it, valid1 g it /\ acts it a.

  (* ---------- the driver, one step ---------- *)
  Notation good := (good kind T).
  Notation step := (step kind T).
  Notation run_rest := (run_rest kind T).
  Transparent Driver.step Driver.run Driver.run_rest.

  Lemma step_reduce_inp top rest nodes inp r sts' nodes' inp' :
    get_action T top (col T (la_of inp)) = Some (AReduce r) ->
    step (top :: rest, nodes, inp) = inl (sts', nodes', inp') -> inp' = inp.
  Proof.
    intros Ha H. unfold Driver.step in H. rewrite col_la_of, Ha in H.
    destruct (nth_error rules r) as [ru|]; [|discriminate].
    destruct (pop_children kind T _ nodes []) as [[ch nd]|]; [|discriminate].
    destruct (length (top :: rest) <? length (pr_rhs ru)); [discriminate|].
    destruct (skipn (length (pr_rhs ru)) (top :: rest)) as [|t tl]; [discriminate|].
    destruct (get_goto T t (pr_lhs ru)) as [[s'|]|]; try discriminate. injection H as _ _ <-. reflexivity.
  Qed.

  Lemma app_eq_len {A} (a1 a2 b1 b2 : list A) : a1 ++ b1 = a2 ++ b2 -> length a1 = length a2 -> a1 = a2 /\ b1 = b2.
  Proof.
    revert a2. induction a1 as [|x a1 IH]; intros [|y a2] H Hl; cbn in *; try discriminate; [auto|].
    injection H as -> H. destruct (IH a2 H ltac:(lia)) as (-> & ->). auto.
  Qed.

  (* L1: a move of the canonical parser is the move of the driver *)
  Lemma follow_shift w top rest nodes g p v it rest' :
    good w (top :: rest) nodes (p :: v) -> SP (top :: rest) g ->
    valid1 g it -> after_dot T it = Some (PT (kind p) :: rest') ->
    exists s', step (top :: rest, nodes, p :: v) = inl (s' :: top :: rest, Leaf p :: nodes, v) /\
               SP (s' :: top :: rest) (g ++ [PT (kind p)]) /\ good w (s' :: top :: rest) (Leaf p :: nodes) v.
  Proof.
    intros Hg HS Hv Had. destruct (SP_path _ _ HS) as (t0 & r0 & E & Hp). injection E as <- <-.
    assert (Hin : In_state it top) by (apply (merged_lookaheads T ann fseq HI HL); eauto).
    destruct (inv_goto _ _ _ HI top it _ _ Hin Had) as (s' & Hgo & _).
    assert (Ha : get_action T top (kind p) = Some (AShift s')).
    { unfold goto_sym in Hgo. destruct (get_action T top (kind p)) as [[s''| | |]|]; try discriminate. congruence. }
    exists s'. pose proof (step_shift kind T top rest nodes p v s' Ha) as Hst. split; [exact Hst|]. split.
    - apply SP_push; assumption.
    - pose proof (step_good kind T ann H2 w _ _ _ Hg) as Hok. rewrite Hst in Hok. exact (proj1 Hok).
  Qed.

  Lemma follow_reduce w top rest nodes d r ru v it :
    good w (top :: rest) nodes v -> SP (top :: rest) (d ++ pr_rhs ru) ->
    valid1 (d ++ pr_rhs ru) it -> irule it = Some r -> nth_error rules r = Some ru ->
    after_dot T it = Some [] -> ila it = la_of v ->
    exists sts' nodes', step (top :: rest, nodes, v) = inl (sts', nodes', v) /\
                        SP sts' (d ++ [PN (pr_lhs ru)]) /\ good w sts' nodes' v.
  Proof.
    intros Hg HS Hv Hrule Hr Had Hla. destruct (SP_path _ _ HS) as (t0 & r0 & E & Hp). injection E as <- <-.
    assert (Hin : In_state it top) by (apply (merged_lookaheads T ann fseq HI HL); eauto).
    pose proof (inv_reduce _ _ _ HI top it r Hin Hrule Had) as Ha. rewrite Hla in Ha.
    pose proof (step_good kind T ann H2 w _ _ _ Hg) as Hok.
    destruct (step (top :: rest, nodes, v)) as [[[sts' nodes'] inp']|o] eqn:Es.
    - pose proof (step_reduce_inp _ _ _ _ _ _ _ _ Ha Es) as ->. destruct Hok as (Hg' & Hk).
      exists sts', nodes'. split; [reflexivity|]. split; [|exact Hg'].
      destruct Hk as [(p & s' & Hinp & _)|(_ & top' & rest0 & r' & ru' & pushed & p0 & stk & s' & E1 & Ha' & Hr' & E2 & E3 & Hgt & E4)].
      { exfalso. apply (f_equal (@length P)) in Hinp. cbn in Hinp. lia. }
      injection E1 as <- <-. rewrite Ha in Ha'. injection Ha' as <-. rewrite Hr in Hr'. injection Hr' as <-.
      assert (Hrhs : rhs_of T (irule it) = Some (pr_rhs ru)) by (rewrite Hrule; cbn; rewrite Hr; reflexivity).
      pose proof (after_dot_nil T _ _ Hrhs Had) as Hdot.
      destruct (sp_back_n (length (pr_rhs ru)) top rest _ it (pr_rhs ru) HS Hin Hdot Hrhs) as (pushed0 & s0 & stk0 & d0 & F1 & F2 & F3 & F4).
      rewrite firstn_all in F3. apply app_inv_tail in F3. subst d0.
      rewrite E2 in F1. destruct (app_eq_len _ _ _ _ F1 ltac:(lia)) as (_ & F5). injection F5 as <- <-.
      subst sts'. apply SP_push; [exact F4|]. unfold goto_sym. rewrite Hgt. reflexivity.
    - exfalso. unfold Driver.step in Es. rewrite col_la_of, Ha in Es. (* a reduce never ends the run for a good configuration *)
      destruct o as [t|tok|site|]; cbn [step_ok] in Hok; try contradiction.
      + (* accept: impossible after a Reduce cell *)
        destruct (nth_error rules r); [|discriminate]. destruct (pop_children kind T _ nodes []) as [[ch nd]|]; [|discriminate].
        destruct (_ <? _); [discriminate|]. destruct (skipn _ _) as [|t1 tl]; [discriminate|].
        destruct (get_goto T t1 _) as [[s'|]|]; discriminate.
      + (* reject through a missing GOTO cell: excluded by inv_goto2, as in step_good *)
        revert Es. rewrite Hr.
        assert (Hrhs : rhs_of T (irule it) = Some (pr_rhs ru)) by (rewrite Hrule; cbn; rewrite Hr; reflexivity).
        pose proof (after_dot_nil T _ _ Hrhs Had) as Hdot.
        destruct Hg as (HSI & _ & _).
        destruct (back_n kind T ann H2 (length (pr_rhs ru)) (top :: rest) nodes top rest it (pr_rhs ru) HSI eq_refl Hin Hdot Hrhs)
          as (pushed & ts & s0 & stk & nodes1 & la' & E1 & E2 & E3 & E4 & E5 & E6).
        rewrite firstn_all in E4.
        rewrite E2, (pop_children_wfs kind T ru ts nodes1 E4 (inv_used2 _ _ H2 _ _ Hr)).
        replace (length (top :: rest) <? length (pr_rhs ru)) with false
          by (symmetry; apply Nat.ltb_ge; rewrite E1, app_length, E3; lia).
        assert (Hsk : skipn (length (pr_rhs ru)) (pushed ++ s0 :: stk) = s0 :: stk)
          by (rewrite <- E3, skipn_app, Nat.sub_diag, skipn_all; reflexivity).
        rewrite E1, Hsk.
        destruct (inv_dot0 _ _ H2 _ _ E6 eq_refl) as [(Hnone & _)|(r0 & ru0 & jt & rest0 & Hr0 & Hru0 & Hjt & Hjad)].
        { cbn [irule] in Hnone. congruence. }
        cbn [irule] in Hr0. rewrite Hrule in Hr0. injection Hr0 as <-. rewrite Hr in Hru0. injection Hru0 as <-.
        destruct (inv_goto2 _ _ H2 _ _ _ _ Hjt Hjad) as (s' & Hgt). rewrite Hgt. discriminate.
  Qed.
  (* the driver follows every run of the canonical parser *)
  Lemma follow w tok rest0 : forall c1 c2, csteps c1 c2 ->
    forall sts nodes f, good w sts nodes (snd c1) -> SP sts (fst c1) ->
      run_rest f (sts, nodes, snd c1) = (OReject tok, rest0) ->
      exists sts' nodes' f', good w sts' nodes' (snd c2) /\ SP sts' (fst c2) /\
                             run_rest f' (sts', nodes', snd c2) = (OReject tok, rest0).
  Proof.
    induction 1 as [c|c1 c2 c3 _ IH Hs]; intros sts nodes f Hg HS Hrun; [exists sts, nodes, f; auto|].
    destruct (IH sts nodes f Hg HS Hrun) as (sts2 & nodes2 & f2 & Hg2 & HS2 & Hrun2). clear IH Hg HS Hrun.
    destruct f2 as [|f2]; [cbn in Hrun2; discriminate|]. cbn [Driver.run_rest] in Hrun2.
    inversion Hs as [g p v it rest' Hv Had|d r ru v it Hv Hrule Hr Had Hla]; subst; cbn [fst snd] in *.
    - destruct sts2 as [|top rest]; [destruct (SP_path _ _ HS2) as (? & ? & E & _); discriminate|].
      destruct (follow_shift w top rest nodes2 g p v it rest' Hg2 HS2 Hv Had) as (s' & Hst & HS3 & Hg3).
      rewrite Hst in Hrun2. eauto 8.
    - destruct sts2 as [|top rest]; [destruct (SP_path _ _ HS2) as (? & ? & E & _); discriminate|].
      destruct (follow_reduce w top rest nodes2 d r ru v it Hg2 HS2 Hv Hrule Hr Had Hla) as (sts3 & nodes3 & Hst & HS3 & Hg3).
      rewrite Hst in Hrun2. eauto 8.
  Qed.

  Lemma run_rest_shorter f : forall sts nodes inp o rest, run_rest f (sts, nodes, inp) = (o, rest) -> length rest <= length inp.
  Proof.
    intros sts nodes inp o rest H. destruct (run_rest_suffix kind T f sts nodes inp o rest H) as ((c & ->) & _).
    rewrite app_length. lia.
  Qed.

  (* (b) the canonical parser never gets past the position at which the driver rejects *)
  Theorem canonical_goes_no_further fuel w tok rest :
    Forall (fun p => kind p < pt_nterm T) w ->
    run_rest fuel (initial T w) = (OReject tok, rest) ->
    forall g, csteps ([], w) (g, rest) -> ~ can_consume g rest.
  Proof.
    intros Hw Hrun g Hc Hcan.
    destruct (follow w tok rest _ _ Hc [pt_start T] [] fuel (good_initial kind T w Hw) SP_init Hrun)
      as (sts & nodes & f & Hg & HS & Hrun'). cbn [fst snd] in *.
    destruct sts as [|top rst]; [destruct (SP_path _ _ HS) as (? & ? & E & _); discriminate|].
    destruct f as [|f]; [cbn in Hrun'; discriminate|]. cbn [Driver.run_rest] in Hrun'.
    destruct rest as [|p v]; cbn [can_consume] in Hcan.
    - (* accept *)
      destruct Hcan as (it & Hv & Hrule & Had).
      destruct (SP_path _ _ HS) as (t0 & r0 & E & Hp). injection E as <- <-.
      assert (Hin : In_state it top) by (apply (merged_lookaheads T ann fseq HI HL); eauto).
      pose proof (inv_accept _ _ _ HI top it Hin Hrule Had (valid1_none_la g it Hv Hrule)) as Ha.
      pose proof (step_good kind T ann H2 w _ _ _ Hg) as Hok.
      unfold Driver.step in Hrun', Hok. cbn [col la_of Grammar.la_of hd_error option_map] in *. rewrite Ha in Hrun', Hok.
      destruct nodes as [|t nodes]; [cbn in Hok; contradiction|].
      destruct (root_sym kind T t) as [[n|n]|]; try (cbn in Hok; contradiction).
      destruct (n =? pt_start_nt T); [discriminate|cbn in Hok; contradiction].
    - destruct Hcan as (it & rest' & Hv & Had).
      destruct (follow_shift w top rst nodes g p v it rest' Hg HS Hv Had) as (s' & Hst & _ & _).
      rewrite Hst in Hrun'. apply run_rest_shorter in Hrun'. cbn in Hrun'. lia.
  Qed.

  (* ---------- (a) the canonical parser gets as far as the driver ---------- *)
  (* reductions the driver has made since the canonical parser was last known to be in step *)
  Inductive chain : list psym -> list psym -> Prop :=
  | ch_nil g : chain g g
  | ch_step d r ru g' : nth_error rules r = Some ru -> chain (d ++ [PN (pr_lhs ru)]) g' -> chain (d ++ pr_rhs ru) g'.

  Lemma chain_snoc g g' d r ru : chain g g' -> g' = d ++ pr_rhs ru -> nth_error rules r = Some ru ->
    chain g (d ++ [PN (pr_lhs ru)]).
  Proof.
    induction 1 as [g|d0 r0 ru0 g' Hr0 _ IH]; intros E Hr.
    - subst g. eapply ch_step; [exact Hr|apply ch_nil].
    - eapply ch_step; [exact Hr0|]. apply IH; assumption.
  Qed.

  (* if the canonical parser can act at the end of the chain it made every reduction of the chain *)
  Lemma chain_follow v : forall g g', chain g g' -> cacts g' (la_of v) ->
    csteps (g, v) (g', v) /\ cacts g (la_of v).
  Proof.
    induction 1 as [g|d r ru g' Hr _ IH]; intros Hact; [split; [apply cs_refl|exact Hact]|].
    destruct (IH Hact) as (Hcs & (it & Hv & Ha)).
    destruct (front_kernel (la_of v) _ it Hv (acts_front it _ Ha) d (pr_lhs ru) eq_refl) as (k0 & rest & Hk0 & Hkad & Hkf).
    assert (Hv0 : valid1 d {| irule := Some r; idot := 0; ila := la_of v |})
      by (eapply (v1_closure T fseq); eassumption).
    pose proof (valid1_goto_seq r ru (la_of v) Hr (length (pr_rhs ru)) d (Nat.le_refl _) Hv0) as Hvn.
    rewrite firstn_all in Hvn.
    assert (Hadn : after_dot T {| irule := Some r; idot := length (pr_rhs ru); ila := la_of v |} = Some []).
    { unfold after_dot. cbn [irule idot rhs_of]. rewrite Hr. cbn [option_map]. rewrite Nat.leb_refl, skipn_all. reflexivity. }
    split.
    - eapply csteps_app; [|exact Hcs]. eapply cs_trans; [apply cs_refl|].
      eapply (cs_reduce d r ru v); [exact Hvn|reflexivity|exact Hr|exact Hadn|reflexivity].
    - exists {| irule := Some r; idot := length (pr_rhs ru); ila := la_of v |}. split; [exact Hvn|]. right. split; [exact Hadn|reflexivity].
  Qed.

  Lemma fseq_any b la a la' : fseq b la a -> exists a', fseq b la' a'.
  Proof.
    intros H. apply fseq_elim in H. unfold cands in H. apply in_app_or in H as [H|H].
    - exists a. apply fseq_intro. unfold cands. apply in_or_app. left. exact H.
    - exists la'. apply fseq_intro. unfold cands. apply in_or_app. right.
      destruct (nullable_seq ft b); [left; reflexivity|contradiction].
  Qed.

  Lemma canonical_gets_as_far w tok rest0 : forall f sts nodes inp g gs,
      good w sts nodes inp -> SP sts g -> csteps ([], w) (gs, inp) -> chain gs g ->
      run_rest f (sts, nodes, inp) = (OReject tok, rest0) ->
      exists g', csteps ([], w) (g', rest0).
  Proof.
    induction f as [|f IH]; intros sts nodes inp g gs Hg HS Hcs Hch Hrun; [cbn in Hrun; discriminate|].
    cbn [Driver.run_rest] in Hrun. pose proof (step_good kind T ann H2 w _ _ _ Hg) as Hok.
    destruct (step (sts, nodes, inp)) as [[[sts' nodes'] inp']|o] eqn:Es.
    2:{ injection Hrun as _ <-. cbn [snd]. eauto. }
    destruct Hok as (Hg' & Hk).
    destruct sts as [|top rst]; [destruct (SP_path _ _ HS) as (? & ? & E & _); discriminate|].
    destruct (SP_path _ _ HS) as (t0 & r0 & E & Hp). injection E as <- <-.
    pose proof (SP_top_lt _ _ _ HS) as Htop.
    destruct Hk as [(p & s' & Hinp & Hsts)|(Hinp & top' & rest1 & r & ru & pushed & p0 & stk & s' & E1 & Ha & Hr & E2 & E3 & Hgt & E4)].
    - (* the driver shifts: the canonical parser made the pending reductions and shifts too *)
      subst inp sts'.
      assert (Ha : get_action T top (kind p) = Some (AShift s')).
      { destruct (get_action T top (kind p)) as [[s''|r| |]|] eqn:Ha.
        - rewrite (step_shift kind T top rst nodes p inp' s'' Ha) in Es. injection Es as <- _. reflexivity.
        - exfalso. pose proof (step_reduce_inp top rst nodes (p :: inp') r _ _ _ Ha Es) as E. apply (f_equal (@length P)) in E. cbn in E. lia.
        - exfalso. unfold Driver.step in Es. rewrite Ha in Es. destruct nodes as [|t nd]; [discriminate|].
          destruct (root_sym kind T t) as [[n|n]|]; try discriminate. destruct (n =? pt_start_nt T); discriminate.
        - exfalso. unfold Driver.step in Es. rewrite Ha in Es. discriminate.
        - exfalso. unfold Driver.step in Es. rewrite Ha in Es. discriminate. }
      destruct (inv_table' _ _ H2 top (kind p) _ Htop Ha ltac:(discriminate)) as (it & Hin & Hd).
      inversion Hd as [t rest' s3 Had Hlt Hc| |]; subst.
      destruct (same_core T ann fseq HI HL H2 fseq_any g top Hp it Hin) as (it' & Hv' & Hsc).
      rewrite <- (after_dot_core T it it' Hsc) in Had.
      assert (Hact : cacts g (la_of (p :: inp'))).
      { exists it'. split; [exact Hv'|]. left. exists (kind p), rest'. split; [exact Had|reflexivity]. }
      destruct (chain_follow (p :: inp') gs g Hch Hact) as (Hcs' & _).
      apply (IH (s' :: top :: rst) nodes' inp' (g ++ [PT (kind p)]) (g ++ [PT (kind p)]) Hg'); [| |apply ch_nil|exact Hrun].
      + apply SP_push; [exact HS|]. unfold goto_sym. rewrite Ha. reflexivity.
      + eapply cs_trans; [eapply csteps_app; [exact Hcs|exact Hcs']|]. eapply cs_shift; eassumption.
    - (* the driver reduces: one more pending reduction *)
      subst inp'. injection E1 as <- <-. subst sts'.
      destruct (inv_table' _ _ H2 top _ _ Htop Ha ltac:(discriminate)) as (it & Hin & Hd).
      inversion Hd as [|r' Hrule Had Hc|]; subst.
      assert (Hrhs : rhs_of T (irule it) = Some (pr_rhs ru)) by (rewrite Hrule; cbn; rewrite Hr; reflexivity).
      pose proof (after_dot_nil T _ _ Hrhs Had) as Hdot.
      destruct (sp_back_n (length (pr_rhs ru)) top rst g it (pr_rhs ru) HS Hin Hdot Hrhs) as (pushed0 & s0 & stk0 & d0 & F1 & F2 & F3 & F4).
      rewrite firstn_all in F3.
      rewrite E2 in F1. destruct (app_eq_len _ _ _ _ F1 ltac:(lia)) as (_ & F5). injection F5 as <- <-.
      apply (IH (s' :: p0 :: stk) nodes' inp (d0 ++ [PN (pr_lhs ru)]) gs Hg'); [|exact Hcs| |exact Hrun].
      + apply SP_push; [exact F4|]. unfold goto_sym. rewrite Hgt. reflexivity.
      + eapply chain_snoc; eassumption.
  Qed.

  (* (a) *)
  Theorem canonical_gets_as_far_as_the_driver fuel w tok rest :
    Forall (fun p => kind p < pt_nterm T) w ->
    run_rest fuel (initial T w) = (OReject tok, rest) ->
    exists g, csteps ([], w) (g, rest).
  Proof.
    intros Hw Hrun. unfold initial in Hrun.
    apply (canonical_gets_as_far w tok rest fuel [pt_start T] [] w [] [] (good_initial kind T w Hw) SP_init (cs_refl _) (ch_nil _) Hrun).
  Qed.

  (* C03, grammars with unproductive nonterminals included: the driver rejects at the position at
     which the canonical LR(1) parser stops — the canonical parser consumes the same tokens, and from
     there it can neither shift the next token nor accept, whatever reductions it still makes *)
  Theorem rejects_where_the_canonical_parser_stops fuel w tok :
    Forall (fun p => kind p < pt_nterm T) w ->
    parse kind T fuel w = OReject tok ->
    exists consumed rest,
      w = consumed ++ rest /\ tok = hd_error rest /\
      (exists g, csteps ([], w) (g, rest)) /\
      (forall g, csteps ([], w) (g, rest) -> ~ can_consume g rest).
  Proof.
    intros Hw Hp. unfold parse in Hp.
    destruct (run_rest fuel (initial T w)) as [o rest] eqn:E.
    pose proof (run_rest_fst kind T fuel (initial T w)) as Hf. rewrite E in Hf. cbn [fst] in Hf. rewrite Hp in Hf. subst o.
    unfold initial in E. destruct (run_rest_suffix kind T _ _ _ _ _ _ E) as ((consumed & Hc) & Hr).
    exists consumed, rest. split; [exact Hc|]. split; [apply Hr; reflexivity|]. split.
    - apply (canonical_gets_as_far_as_the_driver fuel w tok rest Hw E).
    - apply (canonical_goes_no_further fuel w tok rest Hw E).
  Qed.
End CanonAgree.
