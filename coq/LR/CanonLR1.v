(* LR/CanonLR1.v — the textbook definition of LALR(1): merge the item sets of the canonical
   LR(1) collection that have the same core.

   The canonical collection is indexed by viable prefixes: I(g) = { it | valid1 g it } is the
   LR(1) item set reached from the initial set closure({[S' -> . S, $]}) by reading the symbols
   g, i.e. I([]) = closure({start item}), I(g x) = closure(goto(I(g), x)); valid1 is that
   definition written as one inductive predicate (closure rule inside a set, goto rule between
   sets).  The tables define the LR(0) skeleton: `path g s` = reading g from the start state
   ends in state s.

   Proved here, for an annotation that is closed (Inv), safe (Inv2) and least (Least):
     merged_lookaheads : the items of state s are exactly the union of the canonical sets I(g)
                         over all the g that lead to s;
     same_core         : every such I(g) has exactly the core (rule, dot pairs) of state s.
   So state s IS the merge of the canonical LR(1) sets whose core it has: the LALR(1) state. *)
From Coq Require Import List Arith Lia Bool.
From Kiki Require Import Base.Ord Base.Chars Data LR.Driver LR.Grammar LR.Inv LR.Least.
Import ListNotations.
Open Scope nat_scope.

Section CanonLR1.
  Variable T : ptable.
  Variable ann : list (list item).
  Variable fseq : list psym -> option nat -> option nat -> Prop.
  Notation rules := (pt_rules T).
  Notation In_state := (In_state ann).
  Notation nstates := (nstates ann).
  Notation lder := (lder T fseq).

  Inductive valid1 : list psym -> item -> Prop :=
  | v1_start : valid1 [] start_item
  | v1_closure g jt r ru rest a :
      valid1 g jt -> after_dot T jt = Some (PN (pr_lhs ru) :: rest) -> nth_error rules r = Some ru ->
      fseq rest (ila jt) a -> valid1 g {| irule := Some r; idot := 0; ila := a |}
  | v1_goto g it x rest :
      valid1 g it -> after_dot T it = Some (x :: rest) -> valid1 (g ++ [x]) (adv it).

  Inductive path : list psym -> nat -> Prop :=
  | p_nil : path [] (pt_start T)
  | p_snoc g s x s' : path g s -> goto_sym T s x = Some s' -> path (g ++ [x]) s'.

  Lemma path_inv_nil s : path [] s -> s = pt_start T.
  Proof.
    intros H. inversion H as [|g s0 x s' _ _ Hg]; [reflexivity|]. exfalso. destruct g; discriminate.
  Qed.

  Lemma path_inv_snoc g x s' : path (g ++ [x]) s' -> exists s, path g s /\ goto_sym T s x = Some s'.
  Proof.
    intros H. inversion H as [Hg|g0 s0 x0 s1 Hp Hgo Hg]; [exfalso; destruct g; discriminate|].
    apply app_inj_tail in Hg as (-> & ->). subst. exists s0. split; assumption.
  Qed.

  Lemma path_det g : forall s s', path g s -> path g s' -> s = s'.
  Proof.
    induction g as [|x g IH] using rev_ind; intros s s' H1 H2.
    - rewrite (path_inv_nil _ H1), (path_inv_nil _ H2). reflexivity.
    - apply path_inv_snoc in H1 as (p1 & Hp1 & Hg1). apply path_inv_snoc in H2 as (p2 & Hp2 & Hg2).
      rewrite (IH _ _ Hp1 Hp2) in Hg1. congruence.
  Qed.

  (* ---------- derivable items = union of the canonical sets ---------- *)
  Lemma lder_valid1 s it : lder s it -> exists g, path g s /\ valid1 g it.
  Proof.
    induction 1 as [|s jt r ru rest a _ (g & Hp & Hv) Had Hr Hf|s it x rest s' _ (g & Hp & Hv) Had Hg].
    - exists []. split; constructor.
    - exists g. split; [exact Hp|]. eapply v1_closure; eassumption.
    - exists (g ++ [x]). split; [econstructor; eassumption|]. eapply v1_goto; eassumption.
  Qed.

  Lemma valid1_lder g it : valid1 g it -> forall s, path g s -> lder s it.
  Proof.
    induction 1 as [|g jt r ru rest a _ IH Had Hr Hf|g it x rest _ IH Had]; intros s Hp.
    - rewrite (path_inv_nil _ Hp). constructor.
    - eapply ld_closure; [apply IH, Hp|eassumption..].
    - apply path_inv_snoc in Hp as (p & Hp & Hg). eapply ld_goto; [apply IH, Hp|eassumption..].
  Qed.

  Hypothesis HI : Inv T ann fseq.
  Hypothesis HL : Least T ann fseq.

  Theorem merged_lookaheads s it : In_state it s <-> exists g, path g s /\ valid1 g it.
  Proof.
    rewrite (exact_of_closed_and_least T ann fseq HI HL). split.
    - apply lder_valid1.
    - intros (g & Hp & Hv). exact (valid1_lder g it Hv s Hp).
  Qed.

  (* every non-empty state is the merge of at least one canonical set *)
  Corollary state_is_reached s it : In_state it s -> exists g, path g s.
  Proof. intros H. apply merged_lookaheads in H as (g & Hp & _). exists g. exact Hp. Qed.

  (* ---------- every canonical set merged into s has the whole core of s ---------- *)
  Hypothesis H2 : Inv2 T ann.
  (* FIRST(beta a) is empty for one lookahead only if it is empty for all *)
  Hypothesis fseq_any : forall b la a la', fseq b la a -> exists a', fseq b la' a'.

  Definition same_core_item (it it' : item) : Prop := irule it' = irule it /\ idot it' = idot it.

  (* an item is in its state because of the kernel, by closure steps that record the lookahead *)
  Inductive cder (s : nat) : item -> Prop :=
  | cd_kernel it : In_state it s -> idot it > 0 \/ (irule it = None /\ s = pt_start T) -> cder s it
  | cd_call jt r ru rest a :
      cder s jt -> after_dot T jt = Some (PN (pr_lhs ru) :: rest) -> nth_error rules r = Some ru ->
      fseq rest (ila jt) a -> cder s {| irule := Some r; idot := 0; ila := a |}.

  Lemma lder_cder s it : lder s it -> cder s it.
  Proof.
    induction 1 as [|s jt r ru rest a _ IH Had Hr Hf|s it x rest s' Hl _ Had Hg].
    - apply cd_kernel; [apply (inv_start _ _ _ HI)|right; split; reflexivity].
    - eapply cd_call; eassumption.
    - apply cd_kernel; [|left; cbn; lia].
      apply (exact_of_closed_and_least T ann fseq HI HL). eapply ld_goto; eassumption.
  Qed.

  Lemma In_state_lt it s : In_state it s -> s < nstates.
  Proof.
    unfold Inv.In_state, items, Inv.nstates. intros H. destruct (Nat.lt_ge_cases s (length ann)) as [Hlt|Hge]; [exact Hlt|].
    rewrite nth_overflow in H by exact Hge. contradiction.
  Qed.

  Lemma path_lt g s : path g s -> s < nstates.
  Proof.
    induction 1 as [|g s x s' _ IH Hg]; [apply (inv_dim_start _ _ H2)|]. exact (inv_dim_target _ _ H2 s x s' IH Hg).
  Qed.

  Lemma after_dot_core it it' : same_core_item it it' -> after_dot T it' = after_dot T it.
  Proof. intros (Hr & Hd). unfold after_dot. rewrite Hr, Hd. reflexivity. Qed.

  Lemma skipn_nth {A} n : forall (l : list A) x, nth_error l n = Some x -> skipn n l = x :: skipn (S n) l.
  Proof. induction n as [|n IH]; intros [|y l] x H; try discriminate; [injection H as ->; reflexivity|exact (IH l x H)]. Qed.

  Lemma cder_lift g s :
    (forall it, In_state it s -> idot it > 0 \/ (irule it = None /\ s = pt_start T) ->
                exists it', valid1 g it' /\ same_core_item it it') ->
    forall it, cder s it -> exists it', valid1 g it' /\ same_core_item it it'.
  Proof.
    intros HK it Hc. induction Hc as [it Hin Hk|jt r ru rest a _ (jt' & Hv & Hsc) Had Hr Hf]; [apply HK; assumption|].
    destruct (fseq_any rest (ila jt) a (ila jt') Hf) as (a' & Hf').
    exists {| irule := Some r; idot := 0; ila := a' |}. split; [|split; reflexivity].
    eapply v1_closure; [exact Hv|rewrite (after_dot_core _ _ Hsc); exact Had|exact Hr|exact Hf'].
  Qed.

  Theorem same_core g s : path g s -> forall it, In_state it s -> exists it', valid1 g it' /\ same_core_item it it'.
  Proof.
    induction 1 as [|g p x s Hp IHp Hg]; intros it Hin; apply (cder_lift _ _) with (2 := lder_cder _ _ (HL _ _ Hin)); clear it Hin.
    - (* the start state: its only kernel item is the start item *)
      intros it Hin Hk. pose proof (inv_start_dot0 _ _ H2 it Hin) as Hd0. destruct Hk as [Hd|(Hr & _)]; [lia|].
      exists start_item. split; [constructor|]. split; [symmetry; exact Hr|symmetry; exact Hd0].
    - (* a target: a kernel item comes from an item of EVERY predecessor, in particular of p *)
      intros it Hin Hk. pose proof (path_lt _ _ Hp) as Hlt.
      destruct Hk as [Hd|(_ & Hs)]; [|exfalso; subst s; exact (inv_start_not_target _ _ H2 p x Hlt Hg)].
      destruct (inv_back _ _ H2 p x s it Hlt Hg Hin Hd) as ((rhs & Hrhs & Hnth) & la' & Hin').
      destruct (IHp _ Hin') as (jt & Hv & Hr & Hdot). cbn [retreat irule idot] in Hr, Hdot.
      destruct (inv_item_wf _ _ H2 s it Hin) as (rhs' & Hrhs' & Hle). rewrite Hrhs in Hrhs'. injection Hrhs' as <-.
      assert (Had : after_dot T jt = Some (x :: skipn (idot it) rhs)).
      { unfold after_dot. rewrite Hr, Hrhs, Hdot. replace (pred (idot it) <=? length rhs) with true by (symmetry; apply Nat.leb_le; lia).
        rewrite (skipn_nth _ _ _ Hnth). replace (S (pred (idot it))) with (idot it) by lia. reflexivity. }
      exists (adv jt). split; [eapply v1_goto; eassumption|]. split; cbn [adv irule idot]; [exact Hr|lia].
  Qed.
End CanonLR1.
