(* LR/FirstExact.v — FIRST and nullable by their defining rules, over the rules of the tables
   (by position), and what it means for a FIRST table to be exactly that. *)
From Coq Require Import List Arith Lia Bool.
From Kiki Require Import Base.Ord Base.Chars Data LR.Driver LR.Grammar LR.Validate.
Import ListNotations.
Open Scope nat_scope.

Section FirstExact.
  Variable T : ptable.
  Notation rules := (pt_rules T).

  (* A =>* epsilon *)
  Inductive pnull : nat -> Prop :=
  | pn_rule r ru : nth_error rules r = Some ru -> pnulls (pr_rhs ru) -> pnull (pr_lhs ru)
  with pnulls : list psym -> Prop :=
  | pns_nil : pnulls []
  | pns_cons n r : pnull n -> pnulls r -> pnulls (PN n :: r).

  (* A =>* t alpha *)
  Inductive pfirst : nat -> nat -> Prop :=
  | pf_rule r ru t : nth_error rules r = Some ru -> pfirsts (pr_rhs ru) t -> pfirst (pr_lhs ru) t
  with pfirsts : list psym -> nat -> Prop :=
  | pfs_t t r : pfirsts (PT t :: r) t
  | pfs_here n r t : pfirst n t -> pfirsts (PN n :: r) t
  | pfs_skip n r t : pnull n -> pfirsts r t -> pfirsts (PN n :: r) t.

  Scheme pnull_mind := Minimality for pnull Sort Prop
    with pnulls_mind := Minimality for pnulls Sort Prop.
  Combined Scheme pnull_pnulls_mind from pnull_mind, pnulls_mind.
  Scheme pfirst_mind := Minimality for pfirst Sort Prop
    with pfirsts_mind := Minimality for pfirsts Sort Prop.
  Combined Scheme pfirst_pfirsts_mind from pfirst_mind, pfirsts_mind.

  Variable ft : first_table.

  (* every entry of the table is justified by the rules *)
  Definition FirstLeast : Prop :=
    (forall n t, In t (first_of ft n) -> pfirst n t) /\ (forall n, nullable_of ft n = true -> pnull n).

  (* a table closed under the rules contains everything the rules justify *)
  Hypothesis Hc : first_closed ft rules = true.

  Lemma closed_rule r ru : nth_error rules r = Some ru -> rule_closed ft ru = true.
  Proof. intros H. unfold first_closed in Hc. rewrite forallb_forall in Hc. apply Hc. eapply nth_error_In, H. Qed.

  Lemma closed_pnull : (forall n, pnull n -> nullable_of ft n = true) /\ (forall l, pnulls l -> nullable_seq ft l = true).
  Proof.
    apply pnull_pnulls_mind.
    - intros r ru Hr _ IH. pose proof (closed_rule r ru Hr) as H. unfold rule_closed in H.
      apply andb_true_iff in H as (_ & H). rewrite IH in H. exact H.
    - reflexivity.
    - intros n r _ IH1 _ IH2. cbn. rewrite IH1. exact IH2.
  Qed.

  Lemma closed_pfirst : (forall n t, pfirst n t -> In t (first_of ft n)) /\ (forall l t, pfirsts l t -> In t (first_seq_list ft l)).
  Proof.
    apply pfirst_pfirsts_mind.
    - intros r ru t Hr _ IH. pose proof (closed_rule r ru Hr) as H. unfold rule_closed in H.
      apply andb_true_iff in H as (H & _). rewrite forallb_forall in H. apply mem_nat_In, H, IH.
    - intros t r. left. reflexivity.
    - intros n r t _ IH. cbn [first_seq_list]. apply in_or_app. left. exact IH.
    - intros n r t Hn _ IH. cbn [first_seq_list]. apply in_or_app. right.
      rewrite (proj1 closed_pnull n Hn). exact IH.
  Qed.

  Theorem first_table_exact : FirstLeast ->
    (forall n t, In t (first_of ft n) <-> pfirst n t) /\ (forall n, nullable_of ft n = true <-> pnull n).
  Proof.
    intros (H1 & H2). split; intros n; [intros t|]; split; auto.
    - apply (proj1 closed_pfirst).
    - apply (proj1 closed_pnull).
  Qed.
End FirstExact.
