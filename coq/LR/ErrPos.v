(* LR/ErrPos.v — where the driver stops.  Pure facts about the loop (any tables):
   the unconsumed input is a suffix of the input, a rejection returns its head,
   fuel monotonicity, and the one-token-lookahead lockstep lemma.  With the
   completeness invariants: the prefix ending in the rejected token is not a
   prefix of any sentence. *)
From Coq Require Import List Arith Lia Bool.
From Kiki Require Import Base.Ord Base.Chars Data LR.Driver LR.Grammar LR.Inv LR.Complete.
Import ListNotations.
Open Scope nat_scope.

Section ErrPos.
  Context {P : Type} (kind : P -> nat).
  Variable T : ptable.
  Notation tree := (@tree P).
  Notation step := (step kind T).
  Notation run := (run kind T).
  Notation run_rest := (run_rest kind T).

  Transparent Driver.step Driver.run.

  Lemma run_rest_fst f : forall c, fst (run_rest f c) = run f c.
  Proof.
    induction f as [|f IH]; intros c; cbn [Driver.run_rest Driver.run]; [reflexivity|].
    destruct (step c) as [c'|o]; [apply IH|reflexivity].
  Qed.

  (* the shape of a step does not depend on the input behind the lookahead token *)
  Lemma step_cons_cases sts nodes x :
    (exists sts' nodes', forall t, step (sts, nodes, x :: t) = inl (sts', nodes', x :: t)) \/
    (exists sts' nodes', forall t, step (sts, nodes, x :: t) = inl (sts', nodes', t)) \/
    (exists o, (forall t, step (sts, nodes, x :: t) = inr o) /\ (forall tok, o = OReject tok -> tok = Some x)).
  Proof.
    unfold Driver.step.
    destruct sts as [|top rest]; [right; right; eexists; split; [reflexivity|discriminate]|].
    destruct (get_action T top (kind x)) as [[s'|r| |]|].
    - right; left. eauto.
    - destruct (nth_error (pt_rules T) r) as [ru|]; [|right; right; eexists; split; [reflexivity|discriminate]].
      destruct (pop_children kind T (rev (combine (pr_rhs ru) (pr_used ru))) nodes []) as [[ch nodes']|];
        [|right; right; eexists; split; [reflexivity|discriminate]].
      destruct (length (top :: rest) <? length (pr_rhs ru)); [right; right; eexists; split; [reflexivity|discriminate]|].
      destruct (skipn (length (pr_rhs ru)) (top :: rest)) as [|temp rest'];
        [right; right; eexists; split; [reflexivity|discriminate]|].
      destruct (get_goto T temp (pr_lhs ru)) as [[s'|]|].
      + left. eauto.
      + right; right. exists (OReject (Some x)); split; [reflexivity|]. intros tok H; injection H as <-; reflexivity.
      + right; right; eexists; split; [reflexivity|discriminate].
    - destruct nodes as [|t0 nodes0]; [right; right; eexists; split; [reflexivity|discriminate]|].
      destruct (root_sym kind T t0) as [[t1|n]|]; try (right; right; eexists; split; [reflexivity|discriminate]).
      destruct (n =? pt_start_nt T); right; right; eexists; (split; [reflexivity|discriminate]).
    - right; right. exists (OReject (Some x)); split; [reflexivity|]. intros tok H; injection H as <-; reflexivity.
    - right; right; eexists; split; [reflexivity|discriminate].
  Qed.

  Lemma step_nil_cases sts nodes :
    (exists sts' nodes', step (sts, nodes, []) = inl (sts', nodes', [])) \/
    (exists o, step (sts, nodes, []) = inr o /\ (forall tok, o = OReject tok -> tok = None)).
  Proof.
    unfold Driver.step.
    destruct sts as [|top rest]; [right; eexists; split; [reflexivity|discriminate]|].
    destruct (get_action T top (pt_nterm T)) as [[s'|r| |]|].
    - right; eexists; split; [reflexivity|discriminate].
    - destruct (nth_error (pt_rules T) r) as [ru|]; [|right; eexists; split; [reflexivity|discriminate]].
      destruct (pop_children kind T (rev (combine (pr_rhs ru) (pr_used ru))) nodes []) as [[ch nodes']|];
        [|right; eexists; split; [reflexivity|discriminate]].
      destruct (length (top :: rest) <? length (pr_rhs ru)); [right; eexists; split; [reflexivity|discriminate]|].
      destruct (skipn (length (pr_rhs ru)) (top :: rest)) as [|temp rest'];
        [right; eexists; split; [reflexivity|discriminate]|].
      destruct (get_goto T temp (pr_lhs ru)) as [[s'|]|].
      + left. eauto.
      + right. exists (OReject None); split; [reflexivity|]. intros tok H; injection H as <-; reflexivity.
      + right; eexists; split; [reflexivity|discriminate].
    - destruct nodes as [|t0 nodes0]; [right; eexists; split; [reflexivity|discriminate]|].
      destruct (root_sym kind T t0) as [[t1|n]|]; try (right; eexists; split; [reflexivity|discriminate]).
      destruct (n =? pt_start_nt T); right; eexists; (split; [reflexivity|discriminate]).
    - right. exists (OReject None); split; [reflexivity|]. intros tok H; injection H as <-; reflexivity.
    - right; eexists; split; [reflexivity|discriminate].
  Qed.

  (* the unconsumed input is a suffix; a rejection returns its head *)
  Lemma run_rest_suffix f : forall sts nodes inp o rest,
      run_rest f (sts, nodes, inp) = (o, rest) ->
      (exists consumed, inp = consumed ++ rest) /\ (forall tok, o = OReject tok -> tok = hd_error rest).
  Proof.
    induction f as [|f IH]; intros sts nodes inp o rest H; cbn [Driver.run_rest] in H.
    - injection H as <- <-. split; [exists []; reflexivity|discriminate].
    - destruct inp as [|x t].
      + destruct (step_nil_cases sts nodes) as [(sts' & nodes' & E)|(o' & E & Ho)]; rewrite E in H.
        * apply IH in H. exact H.
        * injection H as <- <-. split; [exists []; reflexivity|]. intros tok Hk. rewrite (Ho _ Hk). reflexivity.
      + destruct (step_cons_cases sts nodes x) as [(sts' & nodes' & E)|[(sts' & nodes' & E)|(o' & E & Ho)]];
          rewrite E in H.
        * apply IH in H. exact H.
        * apply IH in H as ((c & Hc) & Hr). split; [exists (x :: c); cbn; congruence|exact Hr].
        * injection H as <- <-. split; [exists []; reflexivity|]. intros tok Hk. rewrite (Ho _ Hk). reflexivity.
  Qed.

  Lemma run_mono f : forall c k o, run f c = o -> o <> OOutOfFuel -> run (f + k) c = o.
  Proof.
    induction f as [|f IH]; intros c k o H Hne; cbn [Driver.run plus] in *; [congruence|].
    destruct (step c) as [c'|o']; [apply IH; assumption|exact H].
  Qed.

  (* lockstep: until the token x is consumed, the run does not depend on what follows x *)
  Lemma lockstep f : forall sts nodes u x r1 r2 o rest,
      run_rest f (sts, nodes, u ++ x :: r1) = (o, rest) -> o <> OOutOfFuel -> length r1 < length rest ->
      run f (sts, nodes, u ++ x :: r2) = o.
  Proof.
    induction f as [|f IH]; intros sts nodes u x r1 r2 o rest H Hne Hlen; cbn [Driver.run_rest] in H.
    - injection H as <- _. congruence.
    - cbn [Driver.run]. destruct u as [|y u'].
      + cbn [app] in *.
        destruct (step_cons_cases sts nodes x) as [(sts' & nodes' & E)|[(sts' & nodes' & E)|(o' & E & Ho)]];
          rewrite E in H; rewrite E.
        * apply (IH sts' nodes' [] x r1 r2 o rest H Hne Hlen).
        * exfalso. destruct (run_rest_suffix _ _ _ _ _ _ H) as ((c & Hc) & _).
          rewrite Hc, app_length in Hlen. lia.
        * injection H as <- _. reflexivity.
      + cbn [app] in *.
        destruct (step_cons_cases sts nodes y) as [(sts' & nodes' & E)|[(sts' & nodes' & E)|(o' & E & Ho)]];
          rewrite E in H; rewrite E.
        * apply (IH sts' nodes' (y :: u') x r1 r2 o rest H Hne Hlen).
        * apply (IH sts' nodes' u' x r1 r2 o rest H Hne Hlen).
        * injection H as <- _. reflexivity.
  Qed.

  (* ---------- with the completeness invariants ---------- *)

  Variable ann : list (list item).
  Variable fseq : list psym -> option nat -> option nat -> Prop.
  Hypothesis HF : FirstOK kind T fseq.
  Hypothesis HI : Inv T ann fseq.

  Theorem reject_position : forall fuel w tok,
      parse kind T fuel w = OReject tok ->
      exists consumed rest,
        w = consumed ++ rest /\ tok = hd_error rest /\
        pulls kind T fuel w = S (length consumed) /\
        (* no sentence starts with the consumed tokens followed by the rejected one *)
        (forall x r z, rest = x :: r -> ~ sentence kind T (consumed ++ x :: z)).
  Proof.
    intros fuel w tok Hp. unfold parse, initial in Hp.
    destruct (run_rest fuel ([pt_start T], [], w)) as [o rest] eqn:E.
    pose proof (run_rest_fst fuel ([pt_start T], [], w)) as Hf. rewrite E in Hf. cbn [fst] in Hf.
    rewrite Hp in Hf. subst o.
    destruct (run_rest_suffix _ _ _ _ _ _ E) as ((consumed & Hc) & Hr).
    exists consumed, rest. split; [exact Hc|]. split; [apply Hr; reflexivity|]. split.
    - unfold pulls, initial. rewrite E. cbn [snd]. rewrite Hc, app_length. f_equal. lia.
    - intros x r z -> (t & Hw & Hy).
      pose proof (complete kind T ann fseq HF HI t 0 Hw) as Hacc. unfold initial in Hacc. rewrite Hy in Hacc.
      rewrite Hc in E.
      assert (Hl : run fuel ([pt_start T], [], consumed ++ x :: z) = OReject tok).
      { eapply lockstep; [exact E|discriminate|cbn; lia]. }
      apply (run_mono _ _ (size t + 1)) in Hl; [|discriminate].
      apply (run_mono _ _ fuel) in Hacc; [|discriminate].
      rewrite (Nat.add_comm fuel) in Hl. rewrite Hl in Hacc. discriminate.
  Qed.
End ErrPos.
