(* LR/Driver.v — the table-driven driver that table_to_rust.rs emits (`parse`,
   `pop_and_reduce`, the reduce functions, `get_action`, `get_goto`), as a
   Gallina function over explicit tables.  The same driver models parser.rs
   (the front end) and every emitted parser.  No proofs.

   Input iterator model: `src.into_iter().map(Terminal).chain(once(Eof)).peekable()`.
   Every loop iteration starts with `peek()`, which pulls from the source only
   when nothing is peeked; `next()` is only called after a peek and hands out
   the peeked element.  Hence when the loop stops having consumed `k` tokens the
   source iterator has been asked exactly `k + 1` times (`pulls`). *)
From Kiki Require Import Base.Ord Base.Chars Data.
Open Scope nat_scope.

Inductive psym := PT (t : nat) | PN (n : nat).

Definition psym_eqb (a b : psym) : bool :=
  match a, b with
  | PT x, PT y => Nat.eqb x y
  | PN x, PN y => Nat.eqb x y
  | _, _ => false
  end.

(* a production as the emitted code sees it: left-hand side, right-hand side,
   and for every position whether the field is used (type-checked on pop) *)
Record prule := { pr_lhs : nat; pr_rhs : list psym; pr_used : list bool }.

Record ptable := {
  pt_start : nat;                          (* start state *)
  pt_start_nt : nat;                       (* index of the start nonterminal *)
  pt_nterm : nat;                          (* number of terminals; column of Eof *)
  pt_action : list (list action);          (* ACTION_TABLE *)
  pt_goto : list (list (option nat));      (* GOTO_TABLE *)
  pt_rules : list prule
}.

Section Driver.
  Context {P : Type} (kind : P -> nat).

  Inductive tree := Leaf (p : P) | Node (r : nat) (ch : list tree).

  Inductive outcome :=
  | OAccept (t : tree)
  | OReject (tok : option P)
  | OPanic (site : string)
  | OOutOfFuel.

  Variable T : ptable.

  Definition lhs_of (r : nat) : option nat := option_map pr_lhs (nth_error (pt_rules T) r).

  Definition root_sym (t : tree) : option psym :=
    match t with
    | Leaf p => Some (PT (kind p))
    | Node r _ => option_map PN (lhs_of r)
    end.

  Definition get_action (s col : nat) : option action :=
    match nth_error (pt_action T) s with
    | Some row => nth_error row col
    | None => None
    end.

  Definition get_goto (s nt : nat) : option (option nat) :=
    match nth_error (pt_goto T) s with
    | Some row => nth_error row nt
    | None => None
    end.

  (* the reduce function of a rule: pop the children right to left, checking the
     kind of every used one; returns the children in left-to-right order *)
  Fixpoint pop_children (rhs_rev : list (psym * bool)) (nodes : list tree) (acc : list tree)
    : option (list tree * list tree) :=
    match rhs_rev with
    | [] => Some (acc, nodes)
    | (x, used) :: r =>
        match nodes with
        | [] => None                                     (* nodes.pop().unwrap() *)
        | t :: nodes' =>
            if used then
              match root_sym t with
              | Some y => if psym_eqb x y then pop_children r nodes' (t :: acc) else None
              | None => None
              end
            else pop_children r nodes' (t :: acc)
        end
    end.

  Definition config := (list nat * list tree * list P)%type.

  Definition step (c : config) : config + outcome :=
    let '(sts, nodes, inp) := c in
    match sts with
    | [] => inr (OPanic "states.last().unwrap()")
    | top :: _ =>
        let col := match inp with [] => pt_nterm T | p :: _ => kind p end in
        match get_action top col with
        | None => inr (OPanic "ACTION_TABLE index")
        | Some (AShift s') =>
            match inp with
            | [] => inr (OPanic "shift: try_into_terminal().unwrap() on Eof")
            | p :: rest => inl (s' :: sts, Leaf p :: nodes, rest)
            end
        | Some (AReduce r) =>
            match nth_error (pt_rules T) r with
            | None => inr (OPanic "RuleKind out of range")
            | Some ru =>
                match pop_children (rev (combine (pr_rhs ru) (pr_used ru))) nodes [] with
                | None => inr (OPanic "reduce: nodes.pop().unwrap() / try_from(..).ok().unwrap()")
                | Some (children, nodes') =>
                    let n := length (pr_rhs ru) in
                    if Nat.ltb (length sts) n then inr (OPanic "reduce: states.len() - n underflow")
                    else
                      let sts' := skipn n sts in
                      match sts' with
                      | [] => inr (OPanic "reduce: states.last().unwrap()")
                      | temp_top :: _ =>
                          match get_goto temp_top (pr_lhs ru) with
                          | None => inr (OPanic "GOTO_TABLE index")
                          | Some None => inr (OReject (hd_error inp))
                          | Some (Some s') => inl (s' :: sts', Node r children :: nodes', inp)
                          end
                      end
                end
            end
        | Some AAccept =>
            match nodes with
            | [] => inr (OPanic "accept: nodes.pop().unwrap()")
            | t :: _ =>
                match root_sym t with
                | Some (PN n) => if Nat.eqb n (pt_start_nt T) then inr (OAccept t)
                                 else inr (OPanic "accept: try_from(..).ok().unwrap()")
                | _ => inr (OPanic "accept: try_from(..).ok().unwrap()")
                end
            end
        | Some AErr => inr (OReject (hd_error inp))
        end
    end.

  Fixpoint run (fuel : nat) (c : config) : outcome :=
    match fuel with
    | O => OOutOfFuel
    | S f => match step c with
             | inl c' => run f c'
             | inr o => o
             end
    end.

  (* same loop, also reporting the input that was not consumed when it stopped *)
  Fixpoint run_rest (fuel : nat) (c : config) : outcome * list P :=
    match fuel with
    | O => (OOutOfFuel, snd c)
    | S f => match step c with
             | inl c' => run_rest f c'
             | inr o => (o, snd c)
             end
    end.

  Definition initial (w : list P) : config := ([pt_start T], [], w).

  Definition parse (fuel : nat) (w : list P) : outcome := run fuel (initial w).

  (* number of `next()` calls made on the source iterator (see the header) *)
  Definition pulls (fuel : nat) (w : list P) : nat :=
    S (length w - length (snd (run_rest fuel (initial w)))).

  Fixpoint yield (t : tree) : list P :=
    match t with
    | Leaf p => [p]
    | Node _ ch => flat_map yield ch
    end.
End Driver.

Arguments Leaf {P}. Arguments Node {P}.
Arguments OAccept {P}. Arguments OReject {P}. Arguments OPanic {P}. Arguments OOutOfFuel {P}.
