(* Totality.v — C07, both halves, for every string: with enough fuel the model of `generate`
   returns Ok or Err — never Panic, never OutOfFuel — and "enough" is an explicit function of the
   input (number of tokens; number of rules, longest right-hand side and terminals of the grammar;
   number of declared identifiers).  Fuel is only a bound: any larger fuel gives the same result
   (Build/FuelMono.v, LR/ErrPos.v run_mono).  The loops of the crate are unbounded, so this is the
   statement that they terminate, with the result the model computes.

   generate_full_gen is generate_full (Pipeline.v) with the fuel left as a parameter;
   generate_full is the instance with the fixed fuel the correspondence check runs the model with. *)
From Coq Require Import List Arith Lia Bool Permutation.
From Kiki Require Import Base.Ord Base.Chars Data DataProofs Np Nf Lex.Model Lex.NoPanic LR.Driver LR.Grammar LR.ErrPos LR.Term LR.ValidateProofs
  Ast.Validate Ast.ValidateProofs Ast.VWF Ast.NoPanic Ast.NoFuel Front.Parse Front.KikiValid Front.FrontProofs
  Build.Machine Build.Table Build.TableProofs Build.FillProofs Build.TableSpec Build.NoPanic Build.FuelMono Build.Terminates
  Emit.Emit Emit.NoPanic Emit.NoFuel Pipeline PipelineProofs.
From Kiki Require Gen.Template Gen.KikiAnn.
Import ListNotations.
Open Scope nat_scope.

Definition front_end_gen (ff : nat -> nat) (src : str) : res vfile :=
  do tokens <- tokenize src;
  do ast <- front_parse (ff (length tokens)) src tokens;
  validate_ast ast.

Definition generate_full_gen (ff : nat -> nat) (fb : vfile -> fuels) (ho : hash_order) (digest src : str)
  : res (gen_out * str) :=
  do v <- front_end_gen ff src;
  do '(m, rt) <- (do m <- validated_ast_to_machine (ho_transitions ho) (fb v) v;
                  Ok (m, machine_to_table (ho_table ho) m v));
  do t <- rt;
  do text <- table_to_rust (fu_unique (fb v)) Gen.Template.file_template Gen.Template.template_consts t v digest;
  Ok ({| go_file := v; go_machine := m; go_table := t |}, text).

Lemma generate_full_is_an_instance ho digest src :
  generate_full ho digest src = generate_full_gen front_fuel (fuels_for 0) ho digest src.
Proof. reflexivity. Qed.

(* ---------- enough fuel ---------- *)
Definition front_enough (ntokens : nat) : nat :=
  Gen.KikiAnn.kiki_K + ph Gen.KikiAnn.kiki_phi (pt_start kiki_ptable)
  + ntokens * (Gen.KikiAnn.kiki_K + M Gen.KikiAnn.kiki_phi + 1) + 1.

Definition fuels_enough (v : vfile) : fuels :=
  {| fu_first := fu_first (machine_fuels v);
     fu_closure := fu_closure (machine_fuels v);
     fu_build := fu_build (machine_fuels v);
     fu_unique := unique_fuel v;
     fu_parse := 0 |}.

(* ---------- the front end ---------- *)
Lemma parse_terminates fuel (w : list token) : front_enough (length w) <= fuel ->
  parse token_kind kiki_ptable fuel w <> OOutOfFuel.
Proof.
  intros Hf. pose proof (validated_terminates token_kind kiki_ptable _ _ kiki_tables_valid _ _ kiki_tables_terminate
                           w (all_tokens_bounded w)) as H0.
  fold (front_enough (length w)) in H0.
  replace fuel with (front_enough (length w) + (fuel - front_enough (length w))) by lia.
  unfold parse in *. rewrite (run_mono token_kind kiki_ptable _ _ _ _ eq_refl H0). exact H0.
Qed.

Lemma nf_unexpected_to_err tok src : nf (unexpected_to_err tok src).
Proof. unfold unexpected_to_err. destruct tok as [t|]; [|nf_auto]. nf_step; [unfold token_start; destruct t; nf_auto|]. nf_auto. Qed.

Lemma nf_front_parse fuel src tokens : front_enough (length tokens) <= fuel -> nf (front_parse fuel src tokens).
Proof.
  intros Hf. pose proof (parse_terminates fuel tokens Hf) as Hp. unfold front_parse.
  destruct (parse token_kind kiki_ptable fuel tokens); [nf_auto| |nf_auto|contradiction].
  nf_step; [apply nf_unexpected_to_err|nf_auto].
Qed.

Lemma nf_front_end_gen ff src : (forall n, front_enough n <= ff n) -> nf (front_end_gen ff src).
Proof.
  intros Hff. unfold front_end_gen. nf_step.
  - intros site. apply (tokenize_never_panics src site).
  - nf_step; [apply nf_front_parse, Hff|apply nf_validate_ast].
Qed.

Lemma np_front_end_gen ff src : np (front_end_gen ff src).
Proof.
  unfold front_end_gen. apply np_bind.
  - intros site. apply (tokenize_never_panics src site).
  - intros tokens Htok. apply np_bind; [apply np_front_parse, Htok|]. intros ast _. apply np_validate_ast.
Qed.

Lemma front_end_gen_VWF ff src v : front_end_gen ff src = Ok v -> VWF v.
Proof.
  unfold front_end_gen. intros H. apply bind_ok in H as (tokens & Htok & H). apply bind_ok in H as (ast & Hast & H).
  apply (validate_ast_VWF ast v H). eapply front_parse_dollar_free; eauto.
Qed.

(* ---------- the whole pipeline ---------- *)
Definition total {A} (r : res A) : Prop := (exists a, r = Ok a) \/ (exists e, r = Err e).

Lemma total_of_np_nf {A} (r : res A) : np r -> nf r -> total r.
Proof. intros H1 H2. destruct r as [a|e|s|s]; [left; eauto|right; eauto|destruct (H1 s eq_refl)|destruct (H2 s eq_refl)]. Qed.

Theorem generate_gen_never_runs_out_of_fuel ff fb ho digest src :
  (forall n, front_enough n <= ff n) -> (forall v, fuels_le (fuels_enough v) (fb v)) ->
  nf (generate_full_gen ff fb ho digest src).
Proof.
  intros Hff Hfb. unfold generate_full_gen.
  pose proof (nf_front_end_gen ff src Hff) as Hn0.
  destruct (front_end_gen ff src) as [v|e|s|s]; cbn [bind]; [|nf_auto|nf_auto|exfalso; exact (nf_oof _ Hn0)].
  destruct (Hfb v) as (H1 & H2 & H3 & H4). cbn [fuels_enough fu_first fu_closure fu_build fu_unique] in H1, H2, H3, H4.
  assert (Hn1 : nf (validated_ast_to_machine (ho_transitions ho) (fb v) v)).
  { apply validated_ast_to_machine_terminates. repeat split; cbn [machine_fuels fu_unique]; try assumption; lia. }
  destruct (validated_ast_to_machine (ho_transitions ho) (fb v) v) as [m|e|s|s]; cbn [bind]; [|nf_auto|nf_auto|exfalso; exact (nf_oof _ Hn1)].
  nf_step; [apply nf_machine_to_table|]. nf_step; [apply nf_table_to_rust, H4|nf_auto].
Qed.

Theorem generate_gen_never_panics ff fb ho digest src : perm_hash_order ho -> np (generate_full_gen ff fb ho digest src).
Proof.
  intros (Hpt & Hpa). unfold generate_full_gen.
  pose proof (np_front_end_gen ff src) as Hf.
  destruct (front_end_gen ff src) as [v|e|s|s] eqn:Ev; cbn [bind]; [|apply np_err|exfalso; apply (Hf s); reflexivity|apply np_oof].
  pose proof (front_end_gen_VWF ff src v Ev) as HV.
  pose proof (np_validated_ast_to_machine (ho_transitions ho) (fb v) v Hpt) as Hnm.
  destruct (validated_ast_to_machine (ho_transitions ho) (fb v) v) as [m|e|s|s] eqn:Em; cbn [bind];
    [|apply np_err|exfalso; apply (Hnm s); reflexivity|apply np_oof].
  pose proof (np_machine_to_table_of_generated _ (ho_table ho) _ v m HV Hpt Hpa Em) as Hnt.
  destruct (machine_to_table (ho_table ho) m v) as [t|e|s|s] eqn:Et; cbn [bind];
    [|apply np_err|exfalso; apply (Hnt s); reflexivity|apply np_oof].
  pose proof (machine_to_table_spec m v (ho_table ho) t Hpa Et) as HT.
  pose proof (np_table_to_rust (fu_unique (fb v)) Gen.Template.file_template Gen.Template.template_consts t v
                (length (m_states m)) digest HV (ts_shape m v t HT) (ts_terminals m v t HT) (ts_nonterminals m v t HT)
                regenerated_template_holes_ok) as Hne.
  destruct (table_to_rust _ _ _ t v digest) as [tx|e|s|s]; cbn [bind];
    [apply np_ok|apply np_err|exfalso; apply (Hne s); reflexivity|apply np_oof].
Qed.

(* C07: generate is total *)
Theorem generate_is_total ff fb ho digest src :
  perm_hash_order ho -> (forall n, front_enough n <= ff n) -> (forall v, fuels_le (fuels_enough v) (fb v)) ->
  total (generate_full_gen ff fb ho digest src).
Proof.
  intros Hho Hff Hfb. apply total_of_np_nf; [apply generate_gen_never_panics, Hho|apply generate_gen_never_runs_out_of_fuel; assumption].
Qed.

(* ---------- fuel is only a bound ---------- *)
Lemma front_parse_mono fuel fuel' src tokens : nf (front_parse fuel src tokens) -> fuel <= fuel' ->
  front_parse fuel' src tokens = front_parse fuel src tokens.
Proof.
  intros H Hle. unfold front_parse in *.
  destruct (parse token_kind kiki_ptable fuel tokens) as [t|tok|site|] eqn:Ep; try (exfalso; exact (nf_oof _ H));
    replace fuel' with (fuel + (fuel' - fuel)) by lia; unfold parse in *;
    rewrite (run_mono token_kind kiki_ptable _ _ _ _ Ep ltac:(discriminate)); reflexivity.
Qed.

Lemma unique_loop_mono pref used : forall f i, nf (unique_loop f pref used i) -> forall f', f <= f' ->
  unique_loop f' pref used i = unique_loop f pref used i.
Proof.
  induction f as [|f IH]; intros i H f' Hle; [exfalso; exact (nf_oof _ H)|]. destruct f' as [|f']; [lia|].
  cbn [unique_loop] in *. destruct (mem_str (pref ++ dec_nat i) used); [apply IH; [exact H|lia]|reflexivity].
Qed.

Lemma create_unique_mono f f' pref used : nf (create_unique_identifier f pref used) -> f <= f' ->
  create_unique_identifier f' pref used = create_unique_identifier f pref used.
Proof.
  unfold create_unique_identifier. intros H Hle. destruct (mem_str pref used); [|reflexivity].
  apply bind_mono; [exact H| |reflexivity]. apply unique_loop_mono; [apply (nf_bind_inv _ _ H)|exact Hle].
Qed.

Lemma make_names_mono f f' v : nf (make_names f v) -> f <= f' -> make_names f' v = make_names f v.
Proof.
  unfold make_names. intros H Hle.
  repeat (match goal with
          | H : nf (bind (create_unique_identifier _ _ _) _) |- _ =>
              apply bind_mono; [exact H|apply create_unique_mono; [apply (nf_bind_inv _ _ H)|exact Hle]|];
              clear H; intros [? ?] _ H; cbv beta iota in H |- *
          end).
  reflexivity.
Qed.

Lemma table_to_rust_mono f f' tpl consts t v digest : nf (table_to_rust f tpl consts t v digest) -> f <= f' ->
  table_to_rust f' tpl consts t v digest = table_to_rust f tpl consts t v digest.
Proof.
  unfold table_to_rust. intros H Hle. apply bind_mono; [exact H| |reflexivity].
  apply make_names_mono; [apply (nf_bind_inv _ _ H)|exact Hle].
Qed.

(* the result does not depend on the fuel once it is not OutOfFuel: more fuel, same result *)
Theorem generate_gen_mono ff ff' fb fb' ho digest src :
  nf (generate_full_gen ff fb ho digest src) ->
  (forall n, ff n <= ff' n) -> (forall v, fuels_le (fb v) (fb' v)) ->
  generate_full_gen ff' fb' ho digest src = generate_full_gen ff fb ho digest src.
Proof.
  intros H Hff Hfb. unfold generate_full_gen in *.
  apply bind_mono; [exact H| |].
  - unfold front_end_gen in *. destruct (nf_bind_inv _ _ H) as (H0 & _).
    apply bind_mono; [exact H0|reflexivity|]. intros tokens _ H1.
    apply bind_mono; [exact H1| |reflexivity]. apply front_parse_mono; [apply (nf_bind_inv _ _ H1)|apply Hff].
  - intros v _ Hv. apply bind_mono; [exact Hv| |].
    + destruct (nf_bind_inv _ _ Hv) as (Hm & _). apply bind_mono; [exact Hm| |reflexivity].
      apply validated_ast_to_machine_mono; [apply (nf_bind_inv _ _ Hm)|apply Hfb].
    + intros [m rt] _ H2. apply bind_mono; [exact H2|reflexivity|]. intros t _ H3.
      apply bind_mono; [exact H3| |reflexivity].
      apply table_to_rust_mono; [apply (nf_bind_inv _ _ H3)|]. destruct (Hfb v) as (_ & _ & _ & Hu). exact Hu.
Qed.

(* hence: whenever the model with its fixed fuel (the one the correspondence check runs) does not
   report OutOfFuel, its result is THE result — the one every sufficient fuel gives *)
Corollary generate_full_is_the_limit ff fb ho digest src :
  nf (generate_full ho digest src) ->
  (forall n, front_fuel n <= ff n) -> (forall v, fuels_le (fuels_for 0 v) (fb v)) ->
  generate_full_gen ff fb ho digest src = generate_full ho digest src.
Proof. intros H Hff Hfb. rewrite generate_full_is_an_instance in *. apply generate_gen_mono; assumption. Qed.
