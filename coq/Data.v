(* Data.v — the data types of kiki/src/data/*.rs as Gallina types.  No proofs. *)
From Kiki Require Import Base.Ord Base.Chars.
Open Scope N_scope.

(* ---------- data/token.rs, parser.rs: Token ---------- *)

Record ident := { id_name : str; id_pos : N }.
Record tident := { ti_name : str; ti_dpos : N }.      (* DollarlessTerminalName, dollarless_position *)
Record attribute := { at_src : str; at_pos : N }.

Inductive token :=
| TUnderscore (p : N)
| TIdent (i : ident)
| TTerminalIdent (t : tident)
| TOuterAttribute (a : attribute)
| TStartKw (p : N) | TStructKw (p : N) | TEnumKw (p : N) | TTerminalKw (p : N)
| TColon (p : N) | TDoubleColon (p : N) | TComma (p : N)
| TLParen (p : N) | TRParen (p : N) | TLCurly (p : N) | TRCurly (p : N)
| TLAngle (p : N) | TRAngle (p : N).

(* index of the variant in `terminal Token { ... }` of parser.kiki *)
Definition token_kind (t : token) : nat :=
  match t with
  | TUnderscore _ => 0 | TIdent _ => 1 | TTerminalIdent _ => 2 | TOuterAttribute _ => 3
  | TStartKw _ => 4 | TStructKw _ => 5 | TEnumKw _ => 6 | TTerminalKw _ => 7
  | TColon _ => 8 | TDoubleColon _ => 9 | TComma _ => 10
  | TLParen _ => 11 | TRParen _ => 12 | TLCurly _ => 13 | TRCurly _ => 14
  | TLAngle _ => 15 | TRAngle _ => 16
  end%nat.

(* ---------- data/ast.rs ---------- *)

Inductive ident_or_tident := IOTIdent (i : ident) | IOTTerminal (t : tident).
Inductive ident_or_underscore := IOUIdent (i : ident) | IOUUnderscore (p : N).

Record named_field := { nf_name : ident_or_underscore; nf_symbol : ident_or_tident }.
Inductive tuple_field := TFUsed (s : ident_or_tident) | TFSkipped (s : ident_or_tident).

Inductive fieldset :=
| FEmpty
| FNamed (l : list named_field)
| FTuple (l : list tuple_field).

Record enum_variant := { ev_name : ident; ev_fieldset : fieldset }.

Inductive type :=
| TyUnit
| TyPath (p : list ident)
| TyComplex (callee : list ident) (args : list type).

Record tenum_variant := { tv_name : tident; tv_type : type }.

Record struct_def := { sd_attrs : list attribute; sd_name : ident; sd_fieldset : fieldset }.
Record enum_def := { ed_attrs : list attribute; ed_name : ident; ed_variants : list enum_variant }.
Record tenum_def := { td_attrs : list attribute; td_name : ident; td_variants : list tenum_variant }.

Inductive file_item :=
| IStart (i : ident)
| IStruct (s : struct_def)
| IEnum (e : enum_def)
| ITerminal (t : tenum_def).

Definition ast_file := list file_item.

(* ---------- data/mod.rs: Symbol ---------- *)

Inductive symbol := SymT (name : str) | SymN (name : str).

Definition symbol_of (s : ident_or_tident) : symbol :=
  match s with
  | IOTIdent i => SymN (id_name i)
  | IOTTerminal t => SymT (ti_name t)
  end.

(* derived Ord: Terminal(_) < Nonterminal(_) *)
Definition symbol_cmp : cmp_t symbol := fun a b =>
  match a, b with
  | SymT x, SymT y => str_cmp x y
  | SymT _, SymN _ => Lt
  | SymN _, SymT _ => Gt
  | SymN x, SymN y => str_cmp x y
  end.

Definition symbol_eqb (a b : symbol) : bool := is_eq (symbol_cmp a b).

(* ---------- data/validated_file.rs ---------- *)

Record tvariant := { tvr_name : str; tvr_type : str }.
Record vtenum := { vt_attrs : list attribute; vt_name : str; vt_variants : list tvariant }.
Inductive nonterminal := NStruct (s : struct_def) | NEnum (e : enum_def).
Record vfile := { vf_start : str; vf_tenum : vtenum; vf_nts : list nonterminal }.

Definition nt_name (n : nonterminal) : str :=
  match n with NStruct s => id_name (sd_name s) | NEnum e => id_name (ed_name e) end.

(* Rule: constructor name (type name, optional variant name) and fieldset *)
Record rule := { ru_type : str; ru_variant : option str; ru_fieldset : fieldset }.

Definition rules_of_nt (n : nonterminal) : list rule :=
  match n with
  | NStruct s => [ {| ru_type := id_name (sd_name s); ru_variant := None; ru_fieldset := sd_fieldset s |} ]
  | NEnum e => map (fun v => {| ru_type := id_name (ed_name e);
                                ru_variant := Some (id_name (ev_name v));
                                ru_fieldset := ev_fieldset v |}) (ed_variants e)
  end.

(* File::get_rules *)
Definition get_rules (f : vfile) : list rule := flat_map rules_of_nt (vf_nts f).

Definition field_symbols (fs : fieldset) : list symbol :=
  match fs with
  | FEmpty => []
  | FNamed l => map (fun f => symbol_of (nf_symbol f)) l
  | FTuple l => map (fun f => match f with TFUsed s | TFSkipped s => symbol_of s end) l
  end.

Definition fieldset_len (fs : fieldset) : nat :=
  match fs with FEmpty => 0 | FNamed l => length l | FTuple l => length l end%nat.

Definition tuple_field_symbol (f : tuple_field) : ident_or_tident :=
  match f with TFUsed s | TFSkipped s => s end.

(* ---------- data/machine.rs ---------- *)

(* rule_index: Some n = Original(n), None = Augmented; lookahead: Some t = Terminal(t), None = Eof *)
Record item := { it_rule : option nat; it_la : option str; it_dot : nat }.

Definition rule_index_cmp : cmp_t (option nat) := fun a b =>
  match a, b with
  | Some x, Some y => nat_cmp x y
  | Some _, None => Lt
  | None, Some _ => Gt
  | None, None => Eq
  end.

Definition lookahead_cmp : cmp_t (option str) := fun a b =>
  match a, b with
  | Some x, Some y => str_cmp x y
  | Some _, None => Lt
  | None, Some _ => Gt
  | None, None => Eq
  end.

(* derived Ord on StateItem: rule_index, then lookahead, then dot *)
Definition item_cmp : cmp_t item := fun a b =>
  cthen (rule_index_cmp (it_rule a) (it_rule b))
    (cthen (lookahead_cmp (it_la a) (it_la b)) (nat_cmp (it_dot a) (it_dot b))).

Definition item_eqb (a b : item) : bool := is_eq (item_cmp a b).

Definition state := list item.                    (* State { items: Oset<StateItem> } *)
Definition state_cmp : cmp_t state := lcmp item_cmp.

Record transition := { tr_from : nat; tr_to : nat; tr_symbol : symbol }.

Definition transition_cmp : cmp_t transition := fun a b =>
  cthen (nat_cmp (tr_from a) (tr_from b))
    (cthen (nat_cmp (tr_to a) (tr_to b)) (symbol_cmp (tr_symbol a) (tr_symbol b))).

Record machine := { m_start : nat; m_states : list state; m_transitions : list transition }.

(* ---------- data/table.rs ---------- *)

Inductive action := AShift (s : nat) | AReduce (r : nat) | AAccept | AErr.
Inductive goto := GState (s : nat) | GErr.

Definition action_eqb (a b : action) : bool :=
  match a, b with
  | AShift x, AShift y => Nat.eqb x y
  | AReduce x, AReduce y => Nat.eqb x y
  | AAccept, AAccept => true
  | AErr, AErr => true
  | _, _ => false
  end.

Record table := {
  tb_start : nat;
  tb_terminals : list str;
  tb_nonterminals : list str;
  tb_actions : list action;        (* row-major, (terminals + 1) columns *)
  tb_gotos : list goto             (* row-major, nonterminals columns *)
}.

(* ---------- data/mod.rs: KikiErr ---------- *)

Record conflict := {
  cf_state : nat;
  cf_item1 : item;
  cf_item2 : item;
  cf_file : vfile;
  cf_machine : machine
}.

Inductive kiki_err :=
| ELex (i : N) (c : option char)
| EParse (s : N) (content : str) (e : N)
| ENoStartSymbol
| EMultipleStartSymbols (l : list N)
| ENoTerminalEnum
| EMultipleTerminalEnums (l : list N)
| ESymbolNotUppercase (p : N)
| EFieldNotLowercase (p : N)
| ENameClash (name : str) (p1 p2 : N)
| EVariantNameClash (name : str) (p1 p2 : N)
| EVariantSeqClash (syms : list symbol) (p1 p2 : N)
| EUndefinedNonterminal (name : str) (p : N)
| EUndefinedTerminal (name : str) (p : N)
| ETableConflict (c : conflict).

(* ---------- results: Ok / Err / a Rust panic / the model's fuel ran out ---------- *)

Inductive res (A : Type) :=
| Ok (a : A)
| Err (e : kiki_err)
| Panic (site : string)
| OutOfFuel (site : string).
Arguments Ok {A}. Arguments Err {A}. Arguments Panic {A}. Arguments OutOfFuel {A}.

Definition bind {A B} (r : res A) (f : A -> res B) : res B :=
  match r with
  | Ok a => f a
  | Err e => Err e
  | Panic s => Panic s
  | OutOfFuel s => OutOfFuel s
  end.

Notation "'do' x <- r ; k" := (bind r (fun x => k))
  (at level 200, x name, r at level 100, k at level 200, right associativity).
Notation "'do' ' p <- r ; k" := (bind r (fun x => match x with p => k end))
  (at level 200, p pattern, r at level 100, k at level 200, right associativity).

Definition unwrap {A} (site : string) (o : option A) : res A :=
  match o with Some a => Ok a | None => Panic site end.

(* `for x in l { f(x)?; }` *)
Fixpoint for_each {A} (f : A -> res unit) (l : list A) : res unit :=
  match l with
  | [] => Ok tt
  | x :: r => do _ <- f x; for_each f r
  end.

(* `.map(f).collect::<Result<Vec<_>,_>>()` *)
Fixpoint map_res {A B} (f : A -> res B) (l : list A) : res (list B) :=
  match l with
  | [] => Ok []
  | x :: r => do y <- f x; do ys <- map_res f r; Ok (y :: ys)
  end.
