(* PipelineProofs.v — theorems about kiki::generate as a whole. *)
From Coq Require Import List Arith Lia Bool Permutation.
From Kiki Require Import Base.Ord Base.Chars Data Oset.Model Lex.Model LR.Driver LR.Grammar LR.Inv LR.Complete LR.Sound LR.ErrPos LR.Viable LR.Least LR.CanonLR1 LR.CanonAgree LR.FirstExact
  LR.Validate LR.ValidateProofs Front.Parse Front.FrontProofs Ast.Validate Ast.WF Ast.ValidateProofs Ast.VWF Ast.Truthful
  Build.Machine Build.DetProofs Build.Table Build.TableProofs Build.FillProofs Build.TableSpec Build.GenCorrect Np Build.NoPanic
  Emit.Emit Emit.EmitProofs Emit.TypedefSpec Emit.ModuleShape Emit.AttrsOnly Emit.Hash Emit.HashProofs Emit.Parser Emit.NoPanic Ast.TypeText Front.TypeTokens Front.TypeSource Pipeline.
From Kiki Require Gen.Template.
Import ListNotations.

(* any iteration order of the two hash collections *)
Definition perm_hash_order (ho : hash_order) : Prop :=
  (forall l, Permutation (ho_transitions ho l) l) /\ perm_ho (ho_table ho).

Lemma middle_machine_independent ho1 ho2 v : perm_hash_order ho1 -> perm_hash_order ho2 ->
  validated_ast_to_machine (ho_transitions ho1) (fuels_for 0 v) v =
  validated_ast_to_machine (ho_transitions ho2) (fuels_for 0 v) v.
Proof. intros (H1 & _) (H2 & _). apply machine_order_independent; assumption. Qed.

(* C14: the result of generate does not depend on the hash iteration orders *)
Theorem generate_ok_order_independent ho1 ho2 digest src text :
  perm_hash_order ho1 -> perm_hash_order ho2 ->
  generate_model ho1 digest src = Ok text -> generate_model ho2 digest src = Ok text.
Proof.
  intros Hp1 Hp2 H. unfold generate_model, generate_full, middle in *.
  destruct (front_end src) as [v|e|s|s]; cbn [bind] in *; try discriminate.
  rewrite <- (middle_machine_independent ho1 ho2 v Hp1 Hp2).
  destruct (validated_ast_to_machine (ho_transitions ho1) (fuels_for 0 v) v) as [m|e|s|s]; cbn [bind] in *; try discriminate.
  destruct (machine_to_table (ho_table ho1) m v) as [t|e|s|s] eqn:Et; cbn [bind] in H; try discriminate.
  rewrite (table_order_independent_ok m v (ho_table ho1) (ho_table ho2) t (proj2 Hp1) (proj2 Hp2) Et). cbn [bind]. exact H.
Qed.

Theorem generate_err_order_independent ho1 ho2 digest src e :
  perm_hash_order ho1 -> perm_hash_order ho2 ->
  generate_model ho1 digest src = Err e -> generate_model ho2 digest src = Err e.
Proof.
  intros Hp1 Hp2 H. unfold generate_model, generate_full, middle in *.
  destruct (front_end src) as [v|e'|s|s]; cbn [bind] in *; try discriminate; [|exact H].
  rewrite <- (middle_machine_independent ho1 ho2 v Hp1 Hp2).
  destruct (validated_ast_to_machine (ho_transitions ho1) (fuels_for 0 v) v) as [m|e'|s|s]; cbn [bind] in *; try discriminate; [|exact H].
  destruct (machine_to_table (ho_table ho1) m v) as [t|e'|s|s] eqn:Et; cbn [bind] in H; try discriminate.
  - rewrite (table_order_independent_ok m v (ho_table ho1) (ho_table ho2) t (proj2 Hp1) (proj2 Hp2) Et). cbn [bind]. exact H.
  - rewrite (table_error_order_independent m v (ho_table ho1) (ho_table ho2) e' Et). cbn [bind]. exact H.
Qed.

(* ---------- C01, C02, C03, C04, C17 for every grammar the generator accepts ---------- *)

(* Whatever source text `generate` accepts, under whatever hash iteration orders, the
   tables it emits (read the way the emitted parser reads them) carry the LR invariants. *)
Theorem generate_tables_invariants ho digest src out text :
  perm_hash_order ho -> generate_full ho digest src = Ok (out, text) ->
  exists pt (ann : list (list Grammar.item)) (ft : first_table),
    ptable_of (go_file out) (go_table out) = Some pt /\
    Inv pt ann (fseq ft) /\ Inv2 pt ann /\ (forall P (kind : P -> nat), FirstOK kind pt (fseq ft)) /\ Inv3 pt ann /\
    Least pt ann (fseq ft) /\ (first_closed ft (pt_rules pt) = true /\ FirstLeast pt ft).
Proof.
  intros (Hpt & Hpa) H. unfold generate_full in H.
  destruct (front_end src) as [v|e|s|s] eqn:Ev; cbn [bind] in H; try discriminate.
  pose proof (front_end_VWF src v Ev) as HV.
  unfold middle in H.
  destruct (validated_ast_to_machine (ho_transitions ho) (fuels_for 0 v) v) as [m|e|s|s] eqn:Em; cbn [bind] in H; try discriminate.
  destruct (machine_to_table (ho_table ho) m v) as [t|e|s|s] eqn:Et; cbn [bind] in H; try discriminate.
  destruct (table_to_rust _ _ _ t v digest) as [tx|e|s|s]; cbn [bind] in H; try discriminate.
  injection H as <- <-. cbn [go_file go_table].
  destruct (ptable_of_total v t HV) as (pt & HP). exists pt.
  destruct (generated_tables_invariants _ _ _ v m t pt HV Hpt Hpa Em Et HP) as (ann & ft & A & B & C & D & E & F).
  exists ann, ft. repeat (split; [assumption|]). assumption.
Qed.

Section Emitted.
  Context {P : Type} (kind : P -> nat).
  Variables (ho : hash_order) (digest src : str) (out : gen_out) (text : str) (pt : ptable).
  Hypothesis Hho : perm_hash_order ho.
  Hypothesis Hgen : generate_full ho digest src = Ok (out, text).
  Hypothesis Hpt : ptable_of (go_file out) (go_table out) = Some pt.

  Lemma emitted_invariants : exists ann ft, Inv pt ann (fseq ft) /\ Inv2 pt ann /\ FirstOK kind pt (fseq ft) /\ Inv3 pt ann.
  Proof.
    destruct (generate_tables_invariants ho digest src out text Hho Hgen) as (pt' & ann & ft & HP & A & B & C & D & _ & _).
    rewrite Hpt in HP. injection HP as <-. exists ann, ft. auto.
  Qed.

  (* C01: every sentence of the grammar is accepted, with its own derivation tree *)
  Theorem emitted_parser_complete : forall t k, wf kind pt (PN (pt_start_nt pt)) t ->
    parse kind pt (size t + S k) (yield t) = OAccept t.
  Proof. destruct emitted_invariants as (ann & ft & A & _ & C & _). intros t k Hw. apply (complete kind pt ann (fseq ft) C A t k Hw). Qed.

  (* C02: whatever is accepted is a sentence, and the tree returned is a derivation of the input *)
  Theorem emitted_parser_sound : forall fuel w t, Forall (fun p => kind p < pt_nterm pt) w ->
    parse kind pt fuel w = OAccept t -> wf kind pt (PN (pt_start_nt pt)) t /\ yield t = w.
  Proof. destruct emitted_invariants as (ann & ft & _ & B & _ & _). apply (sound kind pt ann B). Qed.

  (* no table lookup, stack pop or downcast of the emitted parser can panic *)
  Theorem emitted_parser_safe : forall fuel w site, Forall (fun p => kind p < pt_nterm pt) w ->
    parse kind pt fuel w <> OPanic site.
  Proof. destruct emitted_invariants as (ann & ft & _ & B & _ & _). apply (safe kind pt ann B). Qed.

  (* C03: a rejection names the first token that cannot continue any sentence, having read nothing beyond it *)
  Theorem emitted_parser_reject_position : forall fuel w tok,
      parse kind pt fuel w = OReject tok ->
      exists consumed rest,
        w = consumed ++ rest /\ tok = hd_error rest /\
        pulls kind pt fuel w = S (length consumed) /\
        (forall x r z, rest = x :: r -> ~ sentence kind pt (consumed ++ x :: z)).
  Proof. destruct emitted_invariants as (ann & ft & A & _ & C & _). apply (reject_position kind pt ann (fseq ft) C A). Qed.

  (* C03, full statement, for grammars in which every right-hand side derives some token sequence:
     the reported index is neither too late nor too early *)
  Theorem emitted_parser_reject_exact :
    (forall r ru, nth_error (pt_rules pt) r = Some ru -> exists ts, wfs kind pt (pr_rhs ru) ts) ->
    (exists t, wf kind pt (PN (pt_start_nt pt)) t) ->
    forall fuel w tok,
      Forall (fun p => kind p < pt_nterm pt) w ->
      parse kind pt fuel w = OReject tok ->
      exists consumed rest,
        w = consumed ++ rest /\ tok = hd_error rest /\
        pulls kind pt fuel w = S (length consumed) /\
        (forall x r z, rest = x :: r -> ~ sentence kind pt (consumed ++ x :: z)) /\
        (exists z, sentence kind pt (consumed ++ z)).
  Proof.
    intros Hprod Hstart. destruct emitted_invariants as (ann & ft & A & B & C & D).
    apply (reject_exact kind pt ann (fseq ft) C A B D Hprod Hstart).
  Qed.

  (* C03 for every accepted grammar, unproductive nonterminals included: the rejection is at the
     position at which the canonical LR(1) parser of the grammar stops (LR/CanonAgree.v) *)
  Theorem emitted_parser_rejects_where_canonical_stops : exists ft,
    forall fuel w tok,
      Forall (fun p => kind p < pt_nterm pt) w ->
      parse kind pt fuel w = OReject tok ->
      exists consumed rest,
        w = consumed ++ rest /\ tok = hd_error rest /\
        (exists g, csteps kind pt ft ([], w) (g, rest)) /\
        (forall g, csteps kind pt ft ([], w) (g, rest) -> ~ can_consume kind pt ft g rest).
  Proof.
    destruct (generate_tables_invariants ho digest src out text Hho Hgen) as (pt' & ann & ft & HP & A & B & _ & _ & E & Fc & _).
    rewrite Hpt in HP. injection HP as <-. exists ft. intros fuel w tok Hw Hp.
    exact (rejects_where_the_canonical_parser_stops kind pt ann ft A B E Fc fuel w tok Hw Hp).
  Qed.

  (* C04/C17: an accepted grammar is unambiguous *)
  Theorem accepted_grammar_unambiguous : forall t1 t2,
    wf kind pt (PN (pt_start_nt pt)) t1 -> wf kind pt (PN (pt_start_nt pt)) t2 -> yield t1 = yield t2 -> t1 = t2.
  Proof.
    intros t1 t2 H1 H2 Hy.
    pose proof (emitted_parser_complete t1 (size t2) H1) as E1.
    pose proof (emitted_parser_complete t2 (size t1) H2) as E2.
    rewrite Hy in E1. replace (size t1 + S (size t2)) with (size t2 + S (size t1)) in E1 by lia.
    rewrite E1 in E2. congruence.
  Qed.
End Emitted.

(* C17/C04: the lookahead sets are exactly the least solution of the LALR(1) propagation rules
   over the automaton: an item is in the annotation of a state iff it is derivable from the
   start item by the closure rule and by following transitions *)
Theorem emitted_annotation_is_exact ho digest src out text :
  perm_hash_order ho -> generate_full ho digest src = Ok (out, text) ->
  exists pt (ann : list (list Grammar.item)) (ft : first_table),
    ptable_of (go_file out) (go_table out) = Some pt /\
    forall s it, In_state ann it s <-> lder pt (fseq ft) s it.
Proof.
  intros Hho H. destruct (generate_tables_invariants ho digest src out text Hho H) as (pt & ann & ft & HP & A & _ & _ & _ & E & _).
  exists pt, ann, ft. split; [exact HP|]. apply exact_of_closed_and_least; assumption.
Qed.

(* C17/C04: ... and that is the textbook LALR(1) automaton: every state is the merge of the
   canonical LR(1) item sets I(g) (g a viable prefix leading to the state), all of which have
   exactly the state's core (LR/CanonLR1.v) *)
Lemma fseq_any_ft ft b la a la' : fseq ft b la a -> exists a', fseq ft b la' a'.
Proof.
  intros H. apply fseq_elim in H. unfold cands in H. apply in_app_or in H as [H|H].
  - exists a. apply fseq_intro. unfold cands. apply in_or_app. left. exact H.
  - exists la'. apply fseq_intro. unfold cands. apply in_or_app. right.
    destruct (nullable_seq ft b); [left; reflexivity|contradiction].
Qed.

Theorem emitted_states_are_merged_canonical_LR1 ho digest src out text :
  perm_hash_order ho -> generate_full ho digest src = Ok (out, text) ->
  exists pt (ann : list (list Grammar.item)) (ft : first_table),
    ptable_of (go_file out) (go_table out) = Some pt /\
    (forall s it, In_state ann it s <-> exists g, path pt g s /\ valid1 pt (fseq ft) g it) /\
    (forall g s, path pt g s -> forall it, In_state ann it s ->
                 exists it', valid1 pt (fseq ft) g it' /\ same_core_item it it') /\
    (* and FIRST(beta a) in the closure rule is computed from exactly FIRST / nullable of the grammar *)
    (forall n t, In t (first_of ft n) <-> pfirst pt n t) /\ (forall n, nullable_of ft n = true <-> pnull pt n).
Proof.
  intros Hho H. destruct (generate_tables_invariants ho digest src out text Hho H) as (pt & ann & ft & HP & A & B & _ & _ & E & Fc & Fl).
  exists pt, ann, ft. split; [exact HP|]. split; [|split].
  - intros s it. apply merged_lookaheads; assumption.
  - intros g s Hp it Hin. apply (same_core pt ann (fseq ft) A E B (fseq_any_ft ft) g s Hp it Hin).
  - apply first_table_exact; assumption.
Qed.

(* ---------- C13 from the source text to the emitted type text ---------- *)
(* every payload type text the validated file stores (and every use site prints, Emit/EmitProofs.v)
   reads back, with a maximal-munch lexer, as a contiguous segment of the token sequence of the
   source: the identifiers, `::`, `<`, `,`, `>`, `()` the user wrote for that terminal, in order *)
Theorem generate_payload_types_read_back_as_the_source_tokens ho digest src out text :
  generate_full ho digest src = Ok (out, text) ->
  exists toks, tokenize src = Ok toks /\
    forall ty, In ty (map tvr_type (vt_variants (vf_tenum (go_file out)))) ->
      exists pre seg post, toks = pre ++ seg ++ post /\ lex_ty ty = Some (map tytok_of seg).
Proof.
  intros H. unfold generate_full in H. apply bind_ok in H as (v & Hv & H).
  assert (Hout : go_file out = v).
  { apply bind_ok in H as ([m rt] & _ & H). apply bind_ok in H as (t & _ & H). apply bind_ok in H as (tx & _ & H).
    injection H as <- _. reflexivity. }
  rewrite Hout. clear H Hout. unfold front_end in Hv.
  apply bind_ok in Hv as (toks & Htok & Hv). apply bind_ok in Hv as (ast & Hast & Hv). exists toks. split; [exact Htok|].
  unfold validate_ast in Hv. apply bind_ok in Hv as (te & Hte & Hv). apply bind_ok in Hv as (nts & _ & Hv).
  apply bind_ok in Hv as (st & _ & Hv). apply bind_ok in Hv as ([] & _ & Hv). injection Hv as <-. cbn [vf_tenum].
  unfold get_terminal_enum in Hte. apply bind_ok in Hte as (d & Hd & Hte).
  apply get_unvalidated_terminal_enum_ok in Hd.
  assert (Hin : In (ITerminal d) ast).
  { assert (In d (terminal_decls ast)) by (rewrite Hd; left; reflexivity).
    unfold terminal_decls in H. apply in_flat_map in H as (it & Hit & Hd'). destruct it as [i0|s0|e0|t0]; try (destruct Hd'; fail). destruct Hd' as [<-|[]]. exact Hit. }
  rewrite (terminal_types_are_type_to_string d te Hte). intros ty Hty. apply in_map_iff in Hty as (tv & <- & Htv).
  destruct (front_end_types_are_the_source_tokens src toks _ ast Htok Hast d tv Hin Htv) as ((pre & seg & post & E & Hm) & Hl).
  exists pre, seg, post. split; [exact E|]. rewrite Hl, Hm. reflexivity.
Qed.

(* ---------- C07: after the front end, nothing can panic ---------- *)

Theorem back_end_never_panics ho digest src v :
  perm_hash_order ho -> front_end src = Ok v -> np (generate_model ho digest src).
Proof.
  intros (Hpt & Hpa) Hv. pose proof (front_end_VWF src v Hv) as HV.
  unfold generate_model, generate_full. rewrite Hv. cbn [bind]. unfold middle.
  pose proof (np_validated_ast_to_machine (ho_transitions ho) (fuels_for 0 v) v Hpt) as Hnm.
  destruct (validated_ast_to_machine (ho_transitions ho) (fuels_for 0 v) v) as [m|e|s|s] eqn:Em; cbn [bind];
    [|apply np_err|exfalso; apply (Hnm s); reflexivity|apply np_oof].
  pose proof (np_machine_to_table_of_generated _ (ho_table ho) _ v m HV Hpt Hpa Em) as Hnt.
  destruct (machine_to_table (ho_table ho) m v) as [t|e|s|s] eqn:Et; cbn [bind];
    [|apply np_err|exfalso; apply (Hnt s); reflexivity|apply np_oof].
  pose proof (machine_to_table_spec m v (ho_table ho) t Hpa Et) as HT.
  pose proof (np_table_to_rust (fu_unique (fuels_for 0 v)) Gen.Template.file_template Gen.Template.template_consts t v
                (length (m_states m)) digest HV (ts_shape m v t HT) (ts_terminals m v t HT) (ts_nonterminals m v t HT)
                regenerated_template_holes_ok) as Hne.
  destruct (table_to_rust _ _ _ t v digest) as [tx|e|s|s]; cbn [bind];
    [apply np_ok|apply np_err|exfalso; apply (Hne s); reflexivity|apply np_oof].
Qed.

(* C07, the "never panics" half, for every string: no unwrap, index, slice or "impossible"
   arm of the modelled pipeline is reachable — whatever the input text and whatever the
   iteration orders of the hash collections. *)
Theorem generate_never_panics ho digest src : perm_hash_order ho -> np (generate_model ho digest src).
Proof.
  intros Hho. pose proof (np_front_end src) as Hf.
  destruct (front_end src) as [v|e|s|s] eqn:Ev.
  - apply (back_end_never_panics ho digest src v Hho Ev).
  - unfold generate_model, generate_full. rewrite Ev. apply np_err.
  - exfalso. apply (Hf s). reflexivity.
  - unfold generate_model, generate_full. rewrite Ev. apply np_oof.
Qed.

(* ---------- C10 at the level of generate ---------- *)

Theorem generate_ok_only_wf ho digest src text :
  generate_model ho digest src = Ok text ->
  exists tokens ast, tokenize src = Ok tokens /\ front_parse (front_fuel (length tokens)) src tokens = Ok ast /\ WF ast.
Proof.
  unfold generate_model, generate_full. intros H. apply bind_ok in H as ([out tx] & H & _).
  apply bind_ok in H as (v & Hv & _). unfold front_end in Hv.
  apply bind_ok in Hv as (tokens & Ht & Hv). apply bind_ok in Hv as (ast & Ha & Hv).
  exists tokens, ast. split; [exact Ht|]. split; [exact Ha|]. apply (validate_ast_ok_WF ast v Hv).
Qed.

Theorem generate_validation_error_truthful ho digest src tokens ast e :
  tokenize src = Ok tokens -> front_parse (front_fuel (length tokens)) src tokens = Ok ast ->
  validate_ast ast = Err e -> generate_model ho digest src = Err e /\ truthful ast e.
Proof.
  intros Ht Ha Hv. split; [|apply validate_ast_err_truthful, Hv].
  unfold generate_model, generate_full, front_end. rewrite Ht. cbn [bind]. rewrite Ha. cbn [bind]. rewrite Hv. reflexivity.
Qed.

(* ---------- C15 at the level of generate ---------- *)

Lemma hole_env_digest f nm t consts digest env : hole_env f nm t consts digest = Ok env -> env_get env "grammar_sha256" = Some digest.
Proof.
  unfold hole_env. intros H.
  apply bind_ok in H as (count & _ & H). apply bind_ok in H as (typedefs & _ & H). apply bind_ok in H as (rf & _ & H).
  apply bind_ok in H as (arows & _ & H). apply bind_ok in H as (grows & _ & H). apply bind_ok in H as (tryfns & _ & H).
  injection H as <-. reflexivity.
Qed.

Theorem generate_hash_roundtrip ho digest src text :
  generate_model ho digest src = Ok text -> HashProofs.no_line_break digest -> Hash.get_grammar_hash text = Some digest.
Proof.
  unfold generate_model, generate_full. intros H Hd.
  apply bind_ok in H as ([out tx] & H & E). injection E as <-.
  apply bind_ok in H as (v & _ & H). apply bind_ok in H as ([m rt] & _ & H). apply bind_ok in H as (t & _ & H).
  apply bind_ok in H as (text' & Ht & H). injection H as _ <-.
  unfold table_to_rust in Ht. apply bind_ok in Ht as (nm & _ & Ht). apply bind_ok in Ht as (env & Henv & Hfill).
  apply (HashProofs.template_roundtrip _ env text' digest HashProofs.current_template_header_ok Hfill (hole_env_digest _ _ _ _ _ _ Henv) Hd).
Qed.

(* C06: what the module emitted for any accepted source declares, after its header *)
Theorem generate_module_declares ho digest src text :
  generate_model ho digest src = Ok text ->
  exists v nm defs pre c rest,
    front_end src = Ok v /\
    Forall2 (fun n d => typedef_spec v n = Some d) (vf_nts v) defs /\
    let P := n_parse_type_param nm in let tenum := vt_name (vf_tenum v) in
    text = (pre ++ attributes_src (vt_attrs (vf_tenum v)) ++ S_ "pub enum " ++ tenum ++ S_ " {
" ++ indent 1 (terminal_enum_variants_src v) ++ S_ "
}

" ++ join (nl ++ nl) defs ++ c ++ S_ "pub fn parse<" ++ P ++ S_ ">(src: " ++ P ++ S_ ") -> Result<" ++ vf_start v ++ S_ ", Option<" ++ tenum ++ S_ ">>
where " ++ P ++ S_ ": IntoIterator<Item = " ++ tenum ++ S_ "> {" ++ rest)%list.
Proof.
  unfold generate_model, generate_full. intros H.
  apply bind_ok in H as ([out tx] & H & E). injection E as <-.
  apply bind_ok in H as (v & Hv & H). apply bind_ok in H as ([m rt] & _ & H). apply bind_ok in H as (t & _ & H).
  apply bind_ok in H as (text' & Ht & H). injection H as _ <-.
  destruct (emitted_module_declares _ _ _ _ _ _ Ht) as (nm & defs & pre & c & rest & _ & Hd & Htext).
  exists v, nm, defs, pre, c, rest. split; [exact Hv|]. split; [exact Hd|exact Htext].
Qed.

(* C12 "and nowhere else": the emitted text of an accepted source is the text the emitter gives, for the same table, to the
   same declarations WITHOUT their attributes, plus the attribute lines in front of the terminal enum and of each definition *)
Theorem generate_attributes_and_nowhere_else ho digest src text :
  generate_model ho digest src = Ok text ->
  exists v t pre mid post bodies,
    front_end src = Ok v /\ length bodies = length (vf_nts v) /\
    text = (pre ++ attributes_src (vt_attrs (vf_tenum v)) ++ mid ++ join (nl ++ nl) (zip_attrs (vf_nts v) bodies) ++ post)%list /\
    table_to_rust (fu_unique (fuels_for 0 v)) Gen.Template.file_template Gen.Template.template_consts t (strip_v v) digest
      = Ok (pre ++ mid ++ join (nl ++ nl) bodies ++ post)%list.
Proof.
  unfold generate_model, generate_full. intros H.
  apply bind_ok in H as ([out tx] & H & E). injection E as <-.
  apply bind_ok in H as (v & Hv & H). apply bind_ok in H as ([m rt] & _ & H). apply bind_ok in H as (t & _ & H).
  apply bind_ok in H as (text' & Ht & H). injection H as _ <-.
  destruct (attributes_and_nowhere_else _ _ _ _ _ _ Ht) as (pre & mid & post & bodies & Hl & Htext & Hs).
  exists v, t, pre, mid, post, bodies. auto.
Qed.
