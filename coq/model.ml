
(** val fst : ('a1 * 'a2) -> 'a1 **)

let fst = function
| (x, _) -> x

(** val snd : ('a1 * 'a2) -> 'a2 **)

let snd = function
| (_, y) -> y

(** val app : 'a1 list -> 'a1 list -> 'a1 list **)

let rec app l m =
  match l with
  | [] -> m
  | a :: l1 -> a :: (app l1 m)

type comparison =
| Eq
| Lt
| Gt

(** val fold_left : ('a1 -> 'a2 -> 'a1) -> 'a2 list -> 'a1 -> 'a1 **)

let rec fold_left f l a0 =
  match l with
  | [] -> a0
  | b :: t -> fold_left f t (f a0 b)

(** val fold_right : ('a2 -> 'a1 -> 'a1) -> 'a1 -> 'a2 list -> 'a1 **)

let rec fold_right f a0 = function
| [] -> a0
| b :: t -> f b (fold_right f a0 t)

type positive =
| XI of positive
| XO of positive
| XH

type n =
| N0
| Npos of positive

module Pos =
 struct
  (** val compare_cont : comparison -> positive -> positive -> comparison **)

  let rec compare_cont r x y =
    match x with
    | XI p ->
      (match y with
       | XI q -> compare_cont r p q
       | XO q -> compare_cont Gt p q
       | XH -> Gt)
    | XO p ->
      (match y with
       | XI q -> compare_cont Lt p q
       | XO q -> compare_cont r p q
       | XH -> Gt)
    | XH -> (match y with
             | XH -> r
             | _ -> Lt)

  (** val compare : positive -> positive -> comparison **)

  let compare =
    compare_cont Eq
 end

module N =
 struct
  (** val compare : n -> n -> comparison **)

  let compare n0 m =
    match n0 with
    | N0 -> (match m with
             | N0 -> Eq
             | Npos _ -> Lt)
    | Npos n' -> (match m with
                  | N0 -> Gt
                  | Npos m' -> Pos.compare n' m')
 end

type 'a cmp_t = 'a -> 'a -> comparison

(** val is_eq : comparison -> bool **)

let is_eq = function
| Eq -> true
| _ -> false

(** val cthen : comparison -> comparison -> comparison **)

let cthen c1 c2 =
  match c1 with
  | Eq -> c2
  | _ -> c1

(** val lcmp : 'a1 cmp_t -> 'a1 list -> 'a1 list -> comparison **)

let rec lcmp c l1 l2 =
  match l1 with
  | [] -> (match l2 with
           | [] -> Eq
           | _ :: _ -> Lt)
  | x :: xs ->
    (match l2 with
     | [] -> Gt
     | y :: ys -> cthen (c x y) (lcmp c xs ys))

(** val pcmp : 'a1 cmp_t -> 'a2 cmp_t -> ('a1 * 'a2) cmp_t **)

let pcmp ca cb p q =
  cthen (ca (fst p) (fst q)) (cb (snd p) (snd q))

(** val n_cmp : n cmp_t **)

let n_cmp =
  N.compare

type 'a oset = 'a list

(** val onew : 'a1 oset **)

let onew =
  []

(** val oinsert : 'a1 cmp_t -> 'a1 -> 'a1 oset -> 'a1 oset **)

let rec oinsert cmp x l = match l with
| [] -> x :: []
| y :: ys ->
  (match cmp x y with
   | Eq -> l
   | Lt -> x :: l
   | Gt -> y :: (oinsert cmp x ys))

(** val ocontains : 'a1 cmp_t -> 'a1 -> 'a1 oset -> bool **)

let rec ocontains cmp x = function
| [] -> false
| y :: ys ->
  (match cmp x y with
   | Eq -> true
   | Lt -> false
   | Gt -> ocontains cmp x ys)

(** val sinsert : 'a1 cmp_t -> 'a1 -> 'a1 list -> 'a1 list **)

let rec sinsert cmp x l = match l with
| [] -> x :: []
| y :: ys -> (match cmp x y with
              | Gt -> y :: (sinsert cmp x ys)
              | _ -> x :: l)

(** val isort : 'a1 cmp_t -> 'a1 list -> 'a1 list **)

let isort cmp l =
  fold_right (sinsert cmp) [] l

(** val dedup_from : 'a1 cmp_t -> 'a1 -> 'a1 list -> 'a1 list **)

let rec dedup_from cmp p = function
| [] -> p :: []
| y :: ys ->
  if is_eq (cmp p y) then dedup_from cmp p ys else p :: (dedup_from cmp y ys)

(** val dedup : 'a1 cmp_t -> 'a1 list -> 'a1 list **)

let dedup cmp = function
| [] -> []
| x :: xs -> dedup_from cmp x xs

(** val ofrom_iter : 'a1 cmp_t -> 'a1 list -> 'a1 oset **)

let ofrom_iter cmp l =
  dedup cmp (isort cmp l)

(** val oextend : 'a1 cmp_t -> 'a1 oset -> 'a1 list -> 'a1 oset **)

let oextend cmp s l =
  dedup cmp (isort cmp (app s l))

(** val oeq : 'a1 cmp_t -> 'a1 oset -> 'a1 oset -> bool **)

let oeq cmp s1 s2 =
  is_eq (lcmp cmp s1 s2)

(** val ocmp : 'a1 cmp_t -> 'a1 oset -> 'a1 oset -> comparison **)

let ocmp =
  lcmp

type 'a op =
| OInsert of 'a
| OExtend of 'a list
| OFromIter of 'a list

(** val apply_op : 'a1 cmp_t -> 'a1 oset -> 'a1 op -> 'a1 oset **)

let apply_op cmp s = function
| OInsert x -> oinsert cmp x s
| OExtend l -> oextend cmp s l
| OFromIter l -> ofrom_iter cmp l

(** val run_ops : 'a1 cmp_t -> 'a1 op list -> 'a1 oset **)

let run_ops cmp ops =
  fold_left (apply_op cmp) ops onew
