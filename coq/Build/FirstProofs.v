(* Build/FirstProofs.v — the FIRST map computed by get_first_sets is closed under the
   rules (the loop only stops when a whole pass changes nothing), holds only terminals
   that occur in the rules, and has an entry for the type of every rule. *)
From Coq Require Import List Arith Lia Bool Sorting.Sorted.
From Kiki Require Import Base.Ord Base.OrdProofs Base.Chars Data DataProofs Oset.Model Oset.Proofs Ast.ValidateProofs
  Build.Machine.
Import ListNotations.
Open Scope nat_scope.

(* ---------- FIRST of a sequence of symbols, as plain lists ---------- *)

Section Seq.
  Variable m : first_map.

  Definition sym_null (s : symbol) : bool :=
    match s with SymT _ => false | SymN n => fs_eps (fm_get_or_empty m n) end.

  Fixpoint fterms (syms : list symbol) : list str :=
    match syms with
    | [] => []
    | SymT t :: _ => [t]
    | SymN n :: r => fs_terminals (fm_get_or_empty m n) ++ (if fs_eps (fm_get_or_empty m n) then fterms r else [])
    end.

  Definition fnull (syms : list symbol) : bool := forallb sym_null syms.

  Lemma first_of_sequence_spec syms : forall acc,
      (forall t, In t (fs_terminals (first_of_sequence m syms acc)) <-> In t acc \/ In t (fterms syms)) /\
      fs_eps (first_of_sequence m syms acc) = fnull syms.
  Proof.
    induction syms as [|[u|n] syms IH]; intros acc; cbn [first_of_sequence fterms fnull forallb sym_null].
    - split; [intros t; cbn; tauto|reflexivity].
    - split; [|reflexivity]. intros t. cbn [fs_terminals]. rewrite (oinsert_in str_cmp str_cmp_laws). cbn. intuition congruence.
    - destruct (fs_eps (fm_get_or_empty m n)) eqn:E.
      + destruct (IH (oextend str_cmp acc (fs_terminals (fm_get_or_empty m n)))) as (IH1 & IH2). split; [|exact IH2].
        intros t. rewrite IH1, (oextend_in str_cmp str_cmp_laws), in_app_iff. tauto.
      + split; [|reflexivity]. intros t. cbn [fs_terminals]. rewrite (oextend_in str_cmp str_cmp_laws), app_nil_r. tauto.
  Qed.

  Lemma first_of_fields_spec syms : forall acc,
      (forall t, In t (fs_terminals (first_of_fields m syms acc)) <-> In t acc \/ In t (fterms syms)) /\
      fs_eps (first_of_fields m syms acc) = fnull syms.
  Proof.
    induction syms as [|[u|n] syms IH]; intros acc; cbn [first_of_fields fterms fnull forallb sym_null first_of_symbol fs_eps fs_terminals].
    - split; [intros t; cbn; tauto|reflexivity].
    - split; [|reflexivity]. intros t. rewrite (oextend_in str_cmp str_cmp_laws), (ofrom_iter_in str_cmp str_cmp_laws). tauto.
    - destruct (fs_eps (fm_get_or_empty m n)) eqn:E.
      + destruct (IH (oextend str_cmp acc (fs_terminals (fm_get_or_empty m n)))) as (IH1 & IH2). split; [|exact IH2].
        intros t. rewrite IH1, (oextend_in str_cmp str_cmp_laws), in_app_iff. tauto.
      + split; [|reflexivity]. intros t. cbn [fs_terminals]. rewrite (oextend_in str_cmp str_cmp_laws), app_nil_r. tauto.
  Qed.

  Lemma first_of_fields_sorted syms : forall acc, SSorted str_cmp acc -> SSorted str_cmp (fs_terminals (first_of_fields m syms acc)).
  Proof.
    induction syms as [|s syms IH]; intros acc Ha; cbn [first_of_fields fs_terminals]; [exact Ha|].
    destruct (fs_eps (first_of_symbol m s)); [apply IH|cbn [fs_terminals]]; apply (oextend_sorted str_cmp str_cmp_laws).
  Qed.
End Seq.

(* ---------- the map ---------- *)

Lemma fm_get_In m : forall k v, fm_get m k = Some v -> In (k, v) m.
Proof.
  induction m as [|[k' v'] m IH]; intros k v H; cbn in H; [discriminate|].
  destruct (str_eqb k k') eqn:E; [apply str_eqb_eq in E; injection H as ->; subst; left; reflexivity|right; apply IH, H].
Qed.

Lemma fm_get_keys m k : fm_get m k <> None <-> In k (map fst m).
Proof.
  induction m as [|[k' v'] m IH]; cbn; [tauto|]. destruct (str_eqb k k') eqn:E.
  - apply str_eqb_eq in E. subst. split; [auto|discriminate].
  - rewrite IH. split; [auto|]. intros [H|H]; [|exact H]. subst. rewrite str_eqb_refl in E. discriminate.
Qed.

Lemma fm_set_keys m k v : map fst (fm_set m k v) = map fst m.
Proof.
  induction m as [|[k' v'] m IH]; [reflexivity|]. cbn [fm_set]. destruct (str_eqb k k'); cbn [map fst]; [reflexivity|].
  rewrite IH. reflexivity.
Qed.

Lemma fm_get_set m k v k' : fm_get (fm_set m k v) k' =
  if str_eqb k' k then (match fm_get m k with Some _ => Some v | None => None end) else fm_get m k'.
Proof.
  induction m as [|[k0 v0] m IH]; cbn [fm_set fm_get].
  - destruct (str_eqb k' k); reflexivity.
  - destruct (str_eqb k k0) eqn:E; cbn [fm_get].
    + apply str_eqb_eq in E. subst k0. destruct (str_eqb k' k) eqn:E'; [reflexivity|reflexivity].
    + destruct (str_eqb k' k0) eqn:E0.
      * apply str_eqb_eq in E0. subst k0. destruct (str_eqb k' k) eqn:E'; [|reflexivity].
        apply str_eqb_eq in E'. subst. rewrite str_eqb_refl in E. discriminate.
      * exact IH.
Qed.

Lemma fm_set_same m k v : fm_get m k = Some v -> fm_set m k v = m.
Proof.
  induction m as [|[k0 v0] m IH]; cbn [fm_set fm_get]; [reflexivity|]. destruct (str_eqb k k0) eqn:E.
  - intros H; injection H as ->. apply str_eqb_eq in E. subst. reflexivity.
  - intros H. rewrite (IH H). reflexivity.
Qed.

Section First.
  Variable rules : list rule.

  Definition occurs (t : str) : Prop := exists ru, In ru rules /\ In (SymT t) (field_symbols (ru_fieldset ru)).

  Record FInv (m : first_map) : Prop := {
    fi_keys : map fst m = ofrom_iter str_cmp (map ru_type rules);
    fi_sorted : forall n fs, fm_get m n = Some fs -> SSorted str_cmp (fs_terminals fs);
    fi_occurs : forall n fs t, fm_get m n = Some fs -> In t (fs_terminals fs) -> occurs t
  }.

  Definition rule_closed (m : first_map) (ru : rule) : Prop :=
    exists old, fm_get m (ru_type ru) = Some old /\
                incl (fterms m (field_symbols (ru_fieldset ru))) (fs_terminals old) /\
                (fnull m (field_symbols (ru_fieldset ru)) = true -> fs_eps old = true).

  Lemma fterms_occurs m ru t : FInv m -> In ru rules -> In t (fterms m (field_symbols (ru_fieldset ru))) -> occurs t.
  Proof.
    intros HF Hru. assert (Hs : forall u, In (SymT u) (field_symbols (ru_fieldset ru)) -> occurs u) by (intros u Hu; exists ru; auto).
    revert Hs. generalize (field_symbols (ru_fieldset ru)) as syms.
    induction syms as [|[u|n] syms IH]; intros Hs; cbn [fterms]; [intros []| |].
    - intros [<-|[]]. apply Hs. left. reflexivity.
    - intros H. apply in_app_or in H as [H|H].
      + unfold fm_get_or_empty in H. destruct (fm_get m n) as [fs|] eqn:E; [eapply (fi_occurs m HF); eauto|destruct H].
      + destruct (fs_eps (fm_get_or_empty m n)); [|destruct H]. apply IH; [|exact H]. intros u Hu. apply Hs. right. exact Hu.
  Qed.

  Lemma expand_rule_spec m ru m' c : FInv m -> In ru rules -> expand_rule m ru = Ok (m', c) ->
    FInv m' /\ (c = false -> m' = m /\ rule_closed m ru).
  Proof.
    intros HF Hru H. unfold expand_rule in H. destruct (fm_get m (ru_type ru)) as [old|] eqn:Eo; [|discriminate].
    injection H as <- <-. unfold get_current_first_set.
    set (cur := first_of_fields m (field_symbols (ru_fieldset ru)) []).
    destruct (first_of_fields_spec m (field_symbols (ru_fieldset ru)) []) as (Hcur & Hceps). fold cur in Hcur, Hceps.
    set (terms := oextend str_cmp (fs_terminals old) (fs_terminals cur)).
    assert (Hts : SSorted str_cmp terms) by apply (oextend_sorted str_cmp str_cmp_laws).
    split.
    - split.
      + rewrite fm_set_keys. apply (fi_keys m HF).
      + intros n fs. rewrite fm_get_set, Eo. destruct (str_eqb n (ru_type ru)); [|apply (fi_sorted m HF)].
        intros E; injection E as <-. exact Hts.
      + intros n fs t. rewrite fm_get_set, Eo. destruct (str_eqb n (ru_type ru)); [|apply (fi_occurs m HF)].
        intros E; injection E as <-. cbn [fs_terminals]. intros Ht. apply (oextend_in str_cmp str_cmp_laws) in Ht as [Ht|Ht].
        * eapply (fi_occurs m HF); eauto.
        * apply Hcur in Ht as [[]|Ht]. eapply fterms_occurs; eauto.
    - intros Hc. apply orb_false_iff in Hc as (Hlen & Heps).
      apply negb_false_iff, Nat.eqb_eq in Hlen. apply negb_false_iff, eqb_prop in Heps.
      pose proof (fi_sorted m HF _ _ Eo) as Hos.
      assert (Hincl : incl (fs_terminals old) terms) by (intros t Ht; apply (oextend_in str_cmp str_cmp_laws); left; exact Ht).
      assert (Hback : incl terms (fs_terminals old)).
      { apply NoDup_length_incl; [apply (ssorted_nodup str_cmp str_cmp_laws), Hos|fold terms in Hlen; lia|exact Hincl]. }
      assert (Heq : terms = fs_terminals old).
      { apply (ssorted_ext str_cmp str_cmp_laws); [exact Hts|exact Hos|]. intros t. split; [apply Hback|apply Hincl]. }
      fold terms in Heq |- *. split.
      + apply fm_set_same. rewrite Eo. f_equal. destruct old as [ot oe]; cbn [fs_terminals fs_eps] in *. rewrite Heq, Heps. reflexivity.
      + exists old. split; [exact Eo|]. split.
        * intros t Ht. apply Hback. apply (oextend_in str_cmp str_cmp_laws). right. apply Hcur. right. exact Ht.
        * intros Hn. rewrite <- Hceps in Hn. rewrite Hn, orb_true_r in Heps. symmetry. exact Heps.
  Qed.

  Lemma expand_spec rs : forall m ch m' c, FInv m -> incl rs rules -> expand m rs ch = Ok (m', c) ->
    FInv m' /\ (c = false -> ch = false /\ m' = m /\ forall ru, In ru rs -> rule_closed m ru).
  Proof.
    induction rs as [|r rs IH]; intros m ch m' c HF Hin H; cbn [expand] in H.
    - injection H as <- <-. split; [exact HF|]. intros ->. split; [reflexivity|]. split; [reflexivity|intros ? []].
    - apply bind_ok in H as ([m1 c1] & H1 & H).
      destruct (expand_rule_spec m r m1 c1 HF (Hin r (or_introl eq_refl)) H1) as (HF1 & Hc1).
      destruct (IH m1 (ch || c1) m' c HF1 (fun x Hx => Hin x (or_intror Hx)) H) as (HF' & Hc).
      split; [exact HF'|]. intros E. destruct (Hc E) as (Hor & -> & Hrest). apply orb_false_iff in Hor as (-> & ->).
      destruct (Hc1 eq_refl) as (-> & Hr). split; [reflexivity|]. split; [reflexivity|].
      intros ru [<-|Hru]; [exact Hr|apply Hrest, Hru].
  Qed.

  Lemma first_loop_spec fuel : forall m m', FInv m -> first_loop fuel rules m = Ok m' ->
    FInv m' /\ forall ru, In ru rules -> rule_closed m' ru.
  Proof.
    induction fuel as [|f IH]; intros m m' HF H; cbn [first_loop] in H; [discriminate|].
    apply bind_ok in H as ([m1 c] & H1 & H).
    destruct (expand_spec rules m false m1 c HF (fun x Hx => Hx) H1) as (HF1 & Hc).
    destruct c; [apply (IH m1 m' HF1 H)|]. injection H as <-. split; [exact HF1|].
    destruct (Hc eq_refl) as (_ & -> & Hall). exact Hall.
  Qed.

  Theorem get_first_sets_spec fuel fm : get_first_sets fuel rules = Ok fm ->
    FInv fm /\ forall ru, In ru rules -> rule_closed fm ru.
  Proof.
    unfold get_first_sets. apply first_loop_spec. split.
    - rewrite map_map. cbn [fst]. apply map_id.
    - intros n fs H. apply fm_get_In in H. apply in_map_iff in H as (k & E & _). injection E as _ <-. constructor.
    - intros n fs t H. apply fm_get_In in H. apply in_map_iff in H as (k & E & _). injection E as _ <-. intros [].
  Qed.
End First.
