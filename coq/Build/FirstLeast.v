(* Build/FirstLeast.v — the FIRST map computed by get_first_sets is the LEAST one: every terminal
   in an entry, and every nullable flag, is derivable by the defining rules of FIRST / nullable
   (t in FIRST(A) iff some rule A -> X1..Xk has t in FIRST(Xi) with X1..X(i-1) nullable; A
   nullable iff some rule A -> X1..Xk has all Xi nullable).  With closedness
   (Build/FirstProofs.v) the map is exactly FIRST. *)
From Coq Require Import List Arith Lia Bool.
From Kiki Require Import Base.Ord Base.OrdProofs Base.Chars Data DataProofs Oset.Model Oset.Proofs Ast.ValidateProofs
  Build.Machine Build.FirstProofs.
Import ListNotations.
Open Scope nat_scope.

Section FirstLeast.
  Variable rules : list rule.

  Inductive nder : str -> Prop :=
  | nd_rule ru : In ru rules -> nders (field_symbols (ru_fieldset ru)) -> nder (ru_type ru)
  with nders : list symbol -> Prop :=
  | nds_nil : nders []
  | nds_cons n r : nder n -> nders r -> nders (SymN n :: r).

  Inductive fder : str -> str -> Prop :=
  | fd_rule ru t : In ru rules -> fders (field_symbols (ru_fieldset ru)) t -> fder (ru_type ru) t
  with fders : list symbol -> str -> Prop :=
  | fds_t t r : fders (SymT t :: r) t
  | fds_here n r t : fder n t -> fders (SymN n :: r) t
  | fds_skip n r t : nder n -> fders r t -> fders (SymN n :: r) t.

  Scheme nder_mind := Minimality for nder Sort Prop
    with nders_mind := Minimality for nders Sort Prop.
  Combined Scheme nder_nders_mind from nder_mind, nders_mind.
  Scheme fder_mind := Minimality for fder Sort Prop
    with fders_mind := Minimality for fders Sort Prop.
  Combined Scheme fder_fders_mind from fder_mind, fders_mind.

  (* every entry of the map is justified *)
  Definition Just (m : first_map) : Prop :=
    forall n fs, fm_get m n = Some fs ->
      (forall t, In t (fs_terminals fs) -> fder n t) /\ (fs_eps fs = true -> nder n).

  Lemma just_or_empty m n : Just m ->
    (forall t, In t (fs_terminals (fm_get_or_empty m n)) -> fder n t) /\ (fs_eps (fm_get_or_empty m n) = true -> nder n).
  Proof.
    intros HJ. unfold fm_get_or_empty. destruct (fm_get m n) as [fs|] eqn:E; [exact (HJ n fs E)|].
    split; [intros t []|discriminate].
  Qed.

  Lemma fnull_nders m syms : Just m -> fnull m syms = true -> nders syms.
  Proof.
    intros HJ. induction syms as [|[u|n] syms IH]; cbn [fnull forallb sym_null]; intros H; [constructor|discriminate|].
    apply andb_true_iff in H as (H1 & H2). constructor; [apply (just_or_empty m n HJ), H1|apply IH, H2].
  Qed.

  Lemma fterms_fders m syms t : Just m -> In t (fterms m syms) -> fders syms t.
  Proof.
    intros HJ. induction syms as [|[u|n] syms IH]; cbn [fterms]; intros H; [destruct H| |].
    - destruct H as [<-|[]]. constructor.
    - apply in_app_or in H as [H|H].
      + apply fds_here. apply (just_or_empty m n HJ), H.
      + destruct (fs_eps (fm_get_or_empty m n)) eqn:E; [|destruct H].
        apply fds_skip; [apply (just_or_empty m n HJ), E|apply IH, H].
  Qed.

  Lemma expand_rule_just m ru m' c : Just m -> In ru rules -> expand_rule m ru = Ok (m', c) -> Just m'.
  Proof.
    intros HJ Hru H. unfold expand_rule in H. destruct (fm_get m (ru_type ru)) as [old|] eqn:Eo; [|discriminate].
    injection H as <- _. unfold get_current_first_set.
    destruct (first_of_fields_spec m (field_symbols (ru_fieldset ru)) []) as (Hcur & Hceps).
    intros n fs. rewrite fm_get_set, Eo. destruct (str_eqb n (ru_type ru)) eqn:En; [|apply HJ].
    apply str_eqb_eq in En. subst n. intros E. injection E as <-. cbn [fs_terminals fs_eps].
    destruct (HJ _ _ Eo) as (Ho1 & Ho2). split.
    - intros t Ht. apply (oextend_in str_cmp str_cmp_laws) in Ht as [Ht|Ht]; [apply Ho1, Ht|].
      apply Hcur in Ht as [[]|Ht]. apply fd_rule; [exact Hru|]. exact (fterms_fders m _ t HJ Ht).
    - intros He. apply orb_true_iff in He as [He|He]; [apply Ho2, He|].
      rewrite Hceps in He. apply nd_rule; [exact Hru|]. exact (fnull_nders m _ HJ He).
  Qed.

  Lemma expand_just rs : forall m ch m' c, Just m -> incl rs rules -> expand m rs ch = Ok (m', c) -> Just m'.
  Proof.
    induction rs as [|r rs IH]; intros m ch m' c HJ Hin H; cbn [expand] in H.
    - injection H as <- _. exact HJ.
    - apply bind_ok in H as ([m1 c1] & H1 & H).
      apply (IH m1 (ch || c1) m' c); [|intros x Hx; apply Hin; right; exact Hx|exact H].
      apply (expand_rule_just m r m1 c1 HJ); [apply Hin; left; reflexivity|exact H1].
  Qed.

  Lemma first_loop_just fuel : forall m m', Just m -> first_loop fuel rules m = Ok m' -> Just m'.
  Proof.
    induction fuel as [|f IH]; intros m m' HJ H; cbn [first_loop] in H; [discriminate|].
    apply bind_ok in H as ([m1 c] & H1 & H).
    pose proof (expand_just rules m false m1 c HJ (fun x Hx => Hx) H1) as HJ1.
    destruct c; [apply (IH m1 m' HJ1 H)|]. injection H as <-. exact HJ1.
  Qed.

  Theorem get_first_sets_least fuel fm : get_first_sets fuel rules = Ok fm -> Just fm.
  Proof.
    unfold get_first_sets. apply first_loop_just.
    intros n fs H. apply fm_get_In in H. apply in_map_iff in H as (k & E & _). injection E as _ <-.
    split; [intros t []|discriminate].
  Qed.
  (* conversely, a map closed under every rule contains everything the rules justify *)
  Section Closed.
    Variable m : first_map.
    Hypothesis Hc : forall ru, In ru rules -> rule_closed m ru.

    Lemma closed_get ru : In ru rules -> exists old, fm_get m (ru_type ru) = Some old /\
      incl (fterms m (field_symbols (ru_fieldset ru))) (fs_terminals (fm_get_or_empty m (ru_type ru))) /\
      (fnull m (field_symbols (ru_fieldset ru)) = true -> fs_eps (fm_get_or_empty m (ru_type ru)) = true).
    Proof.
      intros H. destruct (Hc ru H) as (old & Ho & H1 & H2). exists old. unfold fm_get_or_empty. rewrite Ho. auto.
    Qed.

    Lemma closed_nder : (forall n, nder n -> fs_eps (fm_get_or_empty m n) = true) /\ (forall syms, nders syms -> fnull m syms = true).
    Proof.
      apply nder_nders_mind.
      - intros ru Hin _ IH. destruct (closed_get ru Hin) as (_ & _ & _ & H). apply H, IH.
      - reflexivity.
      - intros n r _ IH1 _ IH2. cbn [fnull forallb sym_null]. rewrite IH1. exact IH2.
    Qed.

    Lemma closed_fder : (forall n t, fder n t -> In t (fs_terminals (fm_get_or_empty m n))) /\
                        (forall syms t, fders syms t -> In t (fterms m syms)).
    Proof.
      apply fder_fders_mind.
      - intros ru t Hin _ IH. destruct (closed_get ru Hin) as (_ & _ & H & _). apply H, IH.
      - intros t r. left. reflexivity.
      - intros n r t _ IH. cbn [fterms]. apply in_or_app. left. exact IH.
      - intros n r t Hn _ IH. cbn [fterms]. apply in_or_app. right. rewrite (proj1 closed_nder n Hn). exact IH.
    Qed.
  End Closed.

  (* the map the generator computes is exactly FIRST / nullable of the rules *)
  Theorem get_first_sets_exact fuel fm : get_first_sets fuel rules = Ok fm ->
    forall n, (forall t, In t (fs_terminals (fm_get_or_empty fm n)) <-> fder n t) /\
              (fs_eps (fm_get_or_empty fm n) = true <-> nder n).
  Proof.
    intros H n. destruct (get_first_sets_spec _ _ _ H) as (_ & Hc). pose proof (get_first_sets_least _ _ H) as HJ.
    destruct (just_or_empty fm n HJ) as (H1 & H2). split; [intros t|]; split; auto.
    - apply (proj1 (closed_fder fm Hc)).
    - apply (proj1 (closed_nder fm Hc)).
  Qed.
End FirstLeast.
