(* Build/FillProofs.v — writing cells into the flat tables: index arithmetic,
   distinct keys give distinct cells, and therefore the order in which the two
   hash maps of TableBuilder are iterated does not matter (C14); characterisation
   of the filled table (used by the builder-correctness proofs). *)
From Coq Require Import List Arith Lia Bool Permutation.
From Kiki Require Import Base.Ord Base.OrdProofs Base.Chars Data DataProofs Oset.Model Ast.ValidateProofs
  Build.Machine Build.Table Build.TableProofs.
Import ListNotations.
Open Scope nat_scope.

(* ---------- list_set ---------- *)

Lemma list_set_length {A} (l : list A) : forall i x, length (list_set l i x) = length l.
Proof. induction l as [|y l IH]; intros [|i] x; cbn; auto. Qed.

Lemma nth_error_list_set_eq {A} (l : list A) : forall i x, i < length l -> nth_error (list_set l i x) i = Some x.
Proof. induction l as [|y l IH]; intros [|i] x H; cbn in *; try lia; auto. apply IH. lia. Qed.

Lemma nth_error_list_set_neq {A} (l : list A) : forall i j x, i <> j -> nth_error (list_set l i x) j = nth_error l j.
Proof.
  induction l as [|y l IH]; intros [|i] [|j] x H; cbn; try reflexivity; try lia.
  apply IH. lia.
Qed.

(* a sequence of writes at pairwise distinct positions *)
Definition writes {A} (ops : list (nat * A)) (init : list A) : list A :=
  fold_left (fun acc o => list_set acc (fst o) (snd o)) ops init.

Lemma writes_cons {A} (o : nat * A) ops init : writes (o :: ops) init = writes ops (list_set init (fst o) (snd o)).
Proof. reflexivity. Qed.

Lemma writes_length {A} (ops : list (nat * A)) : forall init, length (writes ops init) = length init.
Proof.
  induction ops as [|o ops IH]; intros init; [reflexivity|]. rewrite writes_cons, IH. apply list_set_length.
Qed.

Lemma writes_nth_other {A} (ops : list (nat * A)) : forall init j,
    ~ In j (map fst ops) -> nth_error (writes ops init) j = nth_error init j.
Proof.
  induction ops as [|[i x] ops IH]; intros init j H; [reflexivity|].
  rewrite writes_cons. cbn [fst snd]. rewrite IH.
  - apply nth_error_list_set_neq. intros ->. apply H. left. reflexivity.
  - intros Hin. apply H. right. exact Hin.
Qed.

Lemma writes_nth_in {A} (ops : list (nat * A)) : forall init i x,
    NoDup (map fst ops) -> In (i, x) ops -> i < length init -> nth_error (writes ops init) i = Some x.
Proof.
  induction ops as [|[i0 x0] ops IH]; intros init i x Hnd Hin Hlt; [contradiction|].
  cbn [map fst] in Hnd. inversion Hnd as [|? ? Hnot Hnd']; subst.
  rewrite writes_cons. cbn [fst snd]. destruct Hin as [E|Hin].
  - injection E as -> ->. rewrite (writes_nth_other ops _ i Hnot). apply nth_error_list_set_eq, Hlt.
  - apply IH; [exact Hnd'|exact Hin|rewrite list_set_length; exact Hlt].
Qed.

Lemma nth_error_ext {A} (l1 : list A) : forall l2, (forall i, nth_error l1 i = nth_error l2 i) -> l1 = l2.
Proof.
  induction l1 as [|x l1 IH]; intros [|y l2] H.
  - reflexivity.
  - specialize (H 0). discriminate.
  - specialize (H 0). discriminate.
  - pose proof (H 0) as H0. cbn in H0. injection H0 as ->. f_equal. apply IH. intros i. apply (H (S i)).
Qed.

Theorem writes_perm {A} (ops1 ops2 : list (nat * A)) init :
  Permutation ops1 ops2 -> NoDup (map fst ops1) -> (forall o, In o ops1 -> fst o < length init) ->
  writes ops1 init = writes ops2 init.
Proof.
  intros HP Hnd Hb. apply nth_error_ext. intros i.
  assert (Hnd2 : NoDup (map fst ops2)) by (eapply Permutation_NoDup; [apply Permutation_map, HP|exact Hnd]).
  destruct (in_dec Nat.eq_dec i (map fst ops1)) as [Hin|Hnot].
  - apply in_map_iff in Hin as ([i' x] & E & Hin). cbn in E. subst i'.
    rewrite (writes_nth_in ops1 init i x Hnd Hin (Hb _ Hin)).
    rewrite (writes_nth_in ops2 init i x Hnd2 (Permutation_in _ HP Hin) (Hb _ Hin)). reflexivity.
  - rewrite (writes_nth_other ops1 init i Hnot). rewrite (writes_nth_other ops2 init i); [reflexivity|].
    intros Hin. apply Hnot. eapply Permutation_in; [apply Permutation_sym, Permutation_map, HP|exact Hin].
Qed.

(* ---------- positions ---------- *)

Lemma position_str_lt x l k : position_str x l = Some k -> k < length l.
Proof.
  revert k; induction l as [|y l IH]; intros k H; cbn in *; [discriminate|].
  destruct (str_eqb x y); [injection H as <-; lia|].
  destruct (position_str x l) as [k'|]; [|discriminate]. injection H as <-. specialize (IH k' eq_refl). lia.
Qed.

Lemma position_str_nth x l k : position_str x l = Some k -> nth_error l k = Some x.
Proof.
  revert k; induction l as [|y l IH]; intros k H; cbn in *; [discriminate|].
  destruct (str_eqb x y) eqn:E; [injection H as <-; apply str_eqb_eq in E; subst; reflexivity|].
  destruct (position_str x l) as [k'|]; [|discriminate]. injection H as <-. cbn. apply IH. reflexivity.
Qed.

Lemma position_str_inj x y l k : position_str x l = Some k -> position_str y l = Some k -> x = y.
Proof. intros H1 H2. apply position_str_nth in H1, H2. congruence. Qed.

Lemma position_str_In x l : In x l -> exists k, position_str x l = Some k.
Proof.
  induction l as [|y l IH]; [contradiction|]. intros [->|H]; cbn.
  - rewrite str_eqb_refl. eauto.
  - destruct (str_eqb x y); [eauto|]. destruct (IH H) as (k & Hk). rewrite Hk. cbn. eauto.
Qed.

(* ---------- cells of the ACTION table ---------- *)

Section Cells.
  Variable terms : list str.
  Variable nts : list str.
  Notation w := (S (length terms)).

  Definition qcol (q : qt) : option nat :=
    match q with Some n => position_str n terms | None => Some (length terms) end.

  Lemma qcol_lt q c : qcol q = Some c -> c < w.
  Proof. destruct q; cbn; intros H; [apply position_str_lt in H; lia|injection H as <-; lia]. Qed.

  Lemma qcol_inj q q' c : qcol q = Some c -> qcol q' = Some c -> q = q'.
  Proof.
    destruct q as [n|], q' as [n'|]; cbn; intros H1 H2.
    - f_equal. eapply position_str_inj; eauto.
    - injection H2 as <-. apply position_str_lt in H1. lia.
    - injection H1 as <-. apply position_str_lt in H2. lia.
    - reflexivity.
  Qed.

  Definition acell (s : nat) (q : qt) : option nat := option_map (fun c => s * w + c) (qcol q).

  Lemma acell_inj s q s' q' i : acell s q = Some i -> acell s' q' = Some i -> s = s' /\ q = q'.
  Proof.
    unfold acell. destruct (qcol q) as [c|] eqn:E1; [|discriminate]. destruct (qcol q') as [c'|] eqn:E2; [|discriminate].
    cbn. intros H1 H2. injection H1 as <-. injection H2 as H2.
    pose proof (qcol_lt _ _ E1). pose proof (qcol_lt _ _ E2).
    assert (s = s') by nia. subst s'. assert (c = c') by nia. subst c'. split; [reflexivity|eapply qcol_inj; eauto].
  Qed.

  Definition gcell (s : nat) (n : str) : option nat := option_map (fun c => s * length nts + c) (position_str n nts).

  Lemma gcell_inj s n s' n' i : gcell s n = Some i -> gcell s' n' = Some i -> s = s' /\ n = n'.
  Proof.
    unfold gcell. destruct (position_str n nts) as [c|] eqn:E1; [|discriminate].
    destruct (position_str n' nts) as [c'|] eqn:E2; [|discriminate].
    cbn. intros H1 H2. injection H1 as <-. injection H2 as H2.
    pose proof (position_str_lt _ _ _ E1). pose proof (position_str_lt _ _ _ E2).
    assert (s = s') by nia. subst s'. assert (c = c') by nia. subst c'. split; [reflexivity|eapply position_str_inj; eauto].
  Qed.
End Cells.

(* ---------- the shape of a table under construction ---------- *)

Definition tshape (t : table) (ns : nat) : Prop :=
  length (tb_actions t) = ns * S (length (tb_terminals t)) /\
  length (tb_gotos t) = ns * length (tb_nonterminals t).

Lemma state_count_shape t ns : tshape t ns -> state_count t = Ok ns.
Proof.
  intros (H & _). unfold state_count. rewrite H. f_equal. apply Nat.div_mul. lia.
Qed.

Lemma action_index_spec t ns s q : tshape t ns ->
  action_index t s q = match acell (tb_terminals t) s q with
                       | Some i => if Nat.leb ns s then Panic "State index is too large" else Ok i
                       | None => Panic "Terminal not found in table"
                       end.
Proof.
  intros Hs. unfold action_index, acell, qcol. rewrite (state_count_shape _ _ Hs).
  destruct q as [n|]; cbn [bind unwrap option_map].
  - destruct (position_str n (tb_terminals t)); cbn [bind unwrap option_map]; reflexivity.
  - reflexivity.
Qed.

Lemma table_set_action_ok t ns s q a t' : tshape t ns -> table_set_action t s q a = Ok t' ->
  exists i, acell (tb_terminals t) s q = Some i /\ s < ns /\ i < length (tb_actions t) /\
            tb_actions t' = list_set (tb_actions t) i a /\
            tb_terminals t' = tb_terminals t /\ tb_nonterminals t' = tb_nonterminals t /\
            tb_gotos t' = tb_gotos t /\ tb_start t' = tb_start t /\ tshape t' ns.
Proof.
  intros Hs H. unfold table_set_action in H. rewrite (action_index_spec t ns s q Hs) in H.
  destruct (acell (tb_terminals t) s q) as [i|]; [|discriminate].
  destruct (Nat.leb ns s) eqn:E; [discriminate|]. cbn [bind] in H.
  destruct (Nat.leb (length (tb_actions t)) i) eqn:E2; [discriminate|]. injection H as <-.
  apply Nat.leb_gt in E, E2. exists i. cbn. split; [reflexivity|]. split; [exact E|]. split; [exact E2|].
  repeat (split; [reflexivity|]). unfold tshape; cbn. split; [rewrite list_set_length; apply Hs|apply Hs].
Qed.

Definition aop (terms : list str) (e : (nat * qt) * (item * action)) : option (nat * action) :=
  option_map (fun i => (i, snd (snd e))) (acell terms (fst (fst e)) (snd (fst e))).

Lemma aop_eq terms s q it a : aop terms ((s, q), (it, a)) = option_map (fun i => (i, a)) (acell terms s q).
Proof. reflexivity. Qed.

Fixpoint all_some {A} (l : list (option A)) : option (list A) :=
  match l with
  | [] => Some []
  | Some a :: r => option_map (cons a) (all_some r)
  | None :: _ => None
  end.

Lemma fill_actions_ok l : forall t ns t', tshape t ns -> fill_actions t l = Ok t' ->
  exists ops, all_some (map (aop (tb_terminals t)) l) = Some ops /\
              tb_actions t' = writes ops (tb_actions t) /\
              (forall o, In o ops -> fst o < length (tb_actions t)) /\
              (forall e, In e l -> fst (fst e) < ns) /\
              tb_terminals t' = tb_terminals t /\ tb_nonterminals t' = tb_nonterminals t /\
              tb_gotos t' = tb_gotos t /\ tb_start t' = tb_start t /\ tshape t' ns.
Proof.
  induction l as [|[[s q] [it a]] l IH]; intros t ns t' Hs H; cbn [fill_actions] in H.
  - injection H as <-. exists []. cbn. split; [reflexivity|]. split; [reflexivity|]. split; [intros ? []|].
    split; [intros ? []|]. repeat (split; [reflexivity|]). exact Hs.
  - apply bind_ok in H as (t1 & H1 & H). apply (table_set_action_ok t ns s q a t1 Hs) in H1
      as (i & Hi & Hlt & Hil & Ha & Ht & Hn & Hg & Hst & Hs1).
    destruct (IH t1 ns t' Hs1 H) as (ops & Hops & Hact & Hb & Hss & Ht' & Hn' & Hg' & Hst' & Hs').
    exists ((i, a) :: ops). rewrite Ht in Hops. cbn [map]. rewrite aop_eq, Hi. cbn [option_map all_some].
    rewrite Hops. cbn [option_map]. split; [reflexivity|]. split; [rewrite Hact, Ha; reflexivity|].
    split. { intros o [<-|Ho]; [exact Hil|]. specialize (Hb o Ho). rewrite Ha, list_set_length in Hb. exact Hb. }
    split. { intros e [<-|He]; [exact Hlt|apply Hss, He]. }
    split; [congruence|]. split; [congruence|]. split; [congruence|]. split; [congruence|]. exact Hs'.
Qed.

(* the same for the GOTO table *)

Lemma goto_index_spec t ns s n : tshape t ns ->
  goto_index t s n = match gcell (tb_nonterminals t) s n with
                     | Some i => if Nat.leb ns s then Panic "State index is too large" else Ok i
                     | None => Panic "Nonterminal not found in table"
                     end.
Proof.
  intros Hs. unfold goto_index, gcell. rewrite (state_count_shape _ _ Hs).
  destruct (position_str n (tb_nonterminals t)); cbn [bind unwrap option_map]; reflexivity.
Qed.

Lemma table_set_goto_ok t ns s n g t' : tshape t ns -> table_set_goto t s n g = Ok t' ->
  exists i, gcell (tb_nonterminals t) s n = Some i /\ s < ns /\ i < length (tb_gotos t) /\
            tb_gotos t' = list_set (tb_gotos t) i g /\
            tb_terminals t' = tb_terminals t /\ tb_nonterminals t' = tb_nonterminals t /\
            tb_actions t' = tb_actions t /\ tb_start t' = tb_start t /\ tshape t' ns.
Proof.
  intros Hs H. unfold table_set_goto in H. rewrite (goto_index_spec t ns s n Hs) in H.
  destruct (gcell (tb_nonterminals t) s n) as [i|]; [|discriminate].
  destruct (Nat.leb ns s) eqn:E; [discriminate|]. cbn [bind] in H.
  destruct (Nat.leb (length (tb_gotos t)) i) eqn:E2; [discriminate|]. injection H as <-.
  apply Nat.leb_gt in E, E2. exists i. cbn. split; [reflexivity|]. split; [exact E|]. split; [exact E2|].
  repeat (split; [reflexivity|]). unfold tshape; cbn. split; [apply Hs|rewrite list_set_length; apply Hs].
Qed.

Definition gop (nts : list str) (e : (nat * str) * goto) : option (nat * goto) :=
  option_map (fun i => (i, snd e)) (gcell nts (fst (fst e)) (snd (fst e))).

Lemma gop_eq nts s n g : gop nts ((s, n), g) = option_map (fun i => (i, g)) (gcell nts s n).
Proof. reflexivity. Qed.

Lemma fill_gotos_ok l : forall t ns t', tshape t ns -> fill_gotos t l = Ok t' ->
  exists ops, all_some (map (gop (tb_nonterminals t)) l) = Some ops /\
              tb_gotos t' = writes ops (tb_gotos t) /\
              (forall o, In o ops -> fst o < length (tb_gotos t)) /\
              (forall e, In e l -> fst (fst e) < ns) /\
              tb_terminals t' = tb_terminals t /\ tb_nonterminals t' = tb_nonterminals t /\
              tb_actions t' = tb_actions t /\ tb_start t' = tb_start t /\ tshape t' ns.
Proof.
  induction l as [|[[s n] g] l IH]; intros t ns t' Hs H; cbn [fill_gotos] in H.
  - injection H as <-. exists []. cbn. split; [reflexivity|]. split; [reflexivity|]. split; [intros ? []|].
    split; [intros ? []|]. repeat (split; [reflexivity|]). exact Hs.
  - apply bind_ok in H as (t1 & H1 & H). apply (table_set_goto_ok t ns s n g t1 Hs) in H1
      as (i & Hi & Hlt & Hil & Ha & Ht & Hn & Hg & Hst & Hs1).
    destruct (IH t1 ns t' Hs1 H) as (ops & Hops & Hact & Hb & Hss & Ht' & Hn' & Hg' & Hst' & Hs').
    exists ((i, g) :: ops). rewrite Hn in Hops. cbn [map]. rewrite gop_eq, Hi. cbn [option_map all_some].
    rewrite Hops. cbn [option_map]. split; [reflexivity|]. split; [rewrite Hact, Ha; reflexivity|].
    split. { intros o [<-|Ho]; [exact Hil|]. specialize (Hb o Ho). rewrite Ha, list_set_length in Hb. exact Hb. }
    split. { intros e [<-|He]; [exact Hlt|apply Hss, He]. }
    split; [congruence|]. split; [congruence|]. split; [congruence|]. split; [congruence|]. exact Hs'.
Qed.

Lemma empty_table_shape m f : tshape (get_empty_table m f) (length (m_states m)).
Proof. unfold tshape, get_empty_table; cbn. rewrite !repeat_length. split; reflexivity. Qed.
