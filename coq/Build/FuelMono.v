(* Build/FuelMono.v — fuel is only a bound: once a loop of the model returns something other than
   OutOfFuel, every larger fuel gives the same result.  (C07: the loops of the crate have no bound;
   the model's results with sufficient fuel are the crate's results.) *)
From Coq Require Import List Arith Lia Bool.
From Kiki Require Import Base.Ord Base.Chars Data DataProofs Oset.Model Build.Machine Build.NoPanic Nf.
Import ListNotations.
Open Scope nat_scope.

(* bind is monotone when both parts are *)
Lemma bind_mono {A B} (r r' : res A) (k k' : A -> res B) :
  nf (bind r k) -> r' = r -> (forall a, r = Ok a -> nf (k a) -> k' a = k a) -> bind r' k' = bind r k.
Proof.
  intros H -> Hk. destruct (nf_bind_inv _ _ H) as (_ & Hn). destruct r as [a| | |]; cbn; try reflexivity.
  apply Hk; [reflexivity|apply Hn; reflexivity].
Qed.

(* ---------- FIRST ---------- *)
Lemma first_loop_mono rules : forall f m, nf (first_loop f rules m) ->
  forall f', f <= f' -> first_loop f' rules m = first_loop f rules m.
Proof.
  induction f as [|f IH]; intros m H f' Hle; [exfalso; exact (nf_oof _ H)|].
  destruct f' as [|f']; [lia|]. cbn [first_loop] in *.
  apply bind_mono; [exact H|reflexivity|]. intros [m' c] _ Hn. destruct c; [|reflexivity].
  apply IH; [exact Hn|lia].
Qed.

Lemma get_first_sets_mono rules f f' : nf (get_first_sets f rules) -> f <= f' ->
  get_first_sets f' rules = get_first_sets f rules.
Proof. unfold get_first_sets. intros H Hle. apply first_loop_mono; assumption. Qed.

(* ---------- closure ---------- *)
Lemma closure_loop_mono cx : forall f q items, nf (closure_loop f cx q items) ->
  forall f', f <= f' -> closure_loop f' cx q items = closure_loop f cx q items.
Proof.
  induction f as [|f IH]; intros q items H f' Hle; [exfalso; exact (nf_oof _ H)|].
  destruct f' as [|f']; [lia|]. cbn [closure_loop] in *. destruct q as [|next q]; [reflexivity|].
  destruct (ocontains item_cmp next items); [apply IH; [exact H|lia]|].
  apply bind_mono; [exact H|reflexivity|]. intros implied _ Hn. apply IH; [exact Hn|lia].
Qed.

Lemma get_closure_mono cx f f' items : nf (get_closure f cx items) -> f <= f' ->
  get_closure f' cx items = get_closure f cx items.
Proof. unfold get_closure. intros H Hle. apply closure_loop_mono; assumption. Qed.

(* ---------- the worklist ---------- *)
Lemma enqueue_transition_target_mono cx cf cf' b from sym :
  nf (enqueue_transition_target cf cx b from sym) -> cf <= cf' ->
  enqueue_transition_target cf' cx b from sym = enqueue_transition_target cf cx b from sym.
Proof.
  intros H Hle. unfold enqueue_transition_target in *.
  apply bind_mono; [exact H|reflexivity|]. intros st _ H1.
  apply bind_mono; [exact H1|reflexivity|]. intros adv _ H2.
  apply bind_mono; [exact H2| |reflexivity].
  apply get_closure_mono; [|exact Hle]. apply (nf_bind_inv _ _ H2).
Qed.

Lemma enqueue_targets_mono cx cf cf' from : forall syms b,
  nf (enqueue_targets cf cx b from syms) -> cf <= cf' ->
  enqueue_targets cf' cx b from syms = enqueue_targets cf cx b from syms.
Proof.
  induction syms as [|s syms IH]; intros b H Hle; cbn [enqueue_targets] in *; [reflexivity|].
  apply bind_mono; [exact H| |].
  - apply enqueue_transition_target_mono; [|exact Hle]. apply (nf_bind_inv _ _ H).
  - intros b' _ Hn. apply IH; assumption.
Qed.

Lemma build_loop_mono cx cf cf' : cf <= cf' -> forall f b, nf (build_loop f cf cx b) ->
  forall f', f <= f' -> build_loop f' cf' cx b = build_loop f cf cx b.
Proof.
  intros Hc. induction f as [|f IH]; intros b H f' Hle; [exfalso; exact (nf_oof _ H)|].
  destruct f' as [|f']; [lia|]. cbn [build_loop] in *. destruct (b_queue b) as [|i q]; [reflexivity|].
  apply bind_mono; [exact H|reflexivity|]. intros st _ H1.
  apply bind_mono; [exact H1|reflexivity|]. intros syms _ H2.
  apply bind_mono; [exact H2| |].
  - apply enqueue_targets_mono; [|exact Hc]. apply (nf_bind_inv _ _ H2).
  - intros b' _ Hn. apply IH; [exact Hn|lia].
Qed.

(* ---------- the whole stage ---------- *)
Definition fuels_le (a b : fuels) : Prop :=
  fu_first a <= fu_first b /\ fu_closure a <= fu_closure b /\ fu_build a <= fu_build b /\ fu_unique a <= fu_unique b.

Lemma validated_ast_to_machine_mono ho fu fu' f : nf (validated_ast_to_machine ho fu f) -> fuels_le fu fu' ->
  validated_ast_to_machine ho fu' f = validated_ast_to_machine ho fu f.
Proof.
  intros H (H1 & H2 & H3 & _). unfold validated_ast_to_machine in *.
  apply bind_mono; [exact H| |].
  - unfold make_context in *. destruct (nf_bind_inv _ _ H) as (Hm & _).
    apply bind_mono; [exact Hm| |reflexivity]. apply get_first_sets_mono; [|exact H1]. apply (nf_bind_inv _ _ Hm).
  - intros cx _ Hn. apply bind_mono; [exact Hn| |].
    + apply get_closure_mono; [|exact H2]. apply (nf_bind_inv _ _ Hn).
    + intros start _ Hn2. apply bind_mono; [exact Hn2| |reflexivity].
      apply build_loop_mono; [exact H2| |exact H3]. apply (nf_bind_inv _ _ Hn2).
Qed.
