(* Build/Machine.v — executable model of
     kiki/src/pipeline/validated_ast_to_machine/{first_set_map.rs,mod.rs},
     normalize_machine.rs and sort_and_get_index_updater.rs.
   Loops (`loop {}`, `while let Some(..) = queue.pop_front()`) run on fuel.
   HashMap<String, FirstSet> is an association list (lookup only); the
   HashSet<Transition> is a list that is only ever turned into an Oset, after
   passing through `ho`, an arbitrary reordering standing for the hash
   iteration order (C14).  No proofs. *)
From Kiki Require Import Base.Ord Base.Chars Data Oset.Model.
Open Scope nat_scope.

(* ---------- FIRST sets ---------- *)

Record first_set := { fs_terminals : list str; fs_eps : bool }.     (* Oset<DollarlessTerminalName>, bool *)

Definition first_map := list (str * first_set).

Definition empty_first : first_set := {| fs_terminals := []; fs_eps := false |}.

Fixpoint fm_get (m : first_map) (k : str) : option first_set :=
  match m with
  | [] => None
  | (k', v) :: r => if str_eqb k k' then Some v else fm_get r k
  end.

Fixpoint fm_set (m : first_map) (k : str) (v : first_set) : first_map :=
  match m with
  | [] => []
  | (k', v') :: r => if str_eqb k k' then (k', v) :: r else (k', v') :: fm_set r k v
  end.

(* repaired (F5): a nonterminal without any rule (a variant-less enum) has no
   entry; its FIRST set is empty and it is not nullable *)
Definition fm_get_or_empty (m : first_map) (k : str) : first_set :=
  match fm_get m k with Some v => v | None => empty_first end.

Definition first_of_symbol (m : first_map) (s : symbol) : first_set :=
  match s with
  | SymN n => fm_get_or_empty m n
  | SymT t => {| fs_terminals := ofrom_iter str_cmp [t]; fs_eps := false |}
  end.

(* get_current_first_set_for_{named,tuple}_fieldset: same loop over the field symbols *)
Fixpoint first_of_fields (m : first_map) (syms : list symbol) (acc : list str) : first_set :=
  match syms with
  | [] => {| fs_terminals := acc; fs_eps := true |}
  | s :: r =>
      let f := first_of_symbol m s in
      let acc' := oextend str_cmp acc (fs_terminals f) in
      if fs_eps f then first_of_fields m r acc'
      else {| fs_terminals := acc'; fs_eps := false |}
  end.

Definition get_current_first_set (m : first_map) (fs : fieldset) : first_set :=
  first_of_fields m (field_symbols fs) [].

(* add_all + expand_rule: returns the new map and DidChange; the entry for the
   rule's own type always exists (it was created from the rules) *)
Definition expand_rule (m : first_map) (r : rule) : res (first_map * bool) :=
  let cur := get_current_first_set m (ru_fieldset r) in
  match fm_get m (ru_type r) with
  | None => Panic "expand_rule: out.get_mut(type_name).unwrap()"
  | Some old =>
      let terms := oextend str_cmp (fs_terminals old) (fs_terminals cur) in
      let eps := fs_eps old || fs_eps cur in
      let changed := negb (Nat.eqb (length terms) (length (fs_terminals old)))
                     || negb (Bool.eqb eps (fs_eps old)) in
      Ok (fm_set m (ru_type r) {| fs_terminals := terms; fs_eps := eps |}, changed)
  end.

Fixpoint expand (m : first_map) (rules : list rule) (changed : bool) : res (first_map * bool) :=
  match rules with
  | [] => Ok (m, changed)
  | r :: rest => do '(m', c) <- expand_rule m r; expand m' rest (changed || c)
  end.

Fixpoint first_loop (fuel : nat) (rules : list rule) (m : first_map) : res first_map :=
  match fuel with
  | O => OutOfFuel "get_first_sets"
  | S f => do '(m', changed) <- expand m rules false;
           if changed then first_loop f rules m' else Ok m'
  end.

Definition get_first_sets (fuel : nat) (rules : list rule) : res first_map :=
  let names := ofrom_iter str_cmp (map ru_type rules) in
  first_loop fuel rules (map (fun n => (n, empty_first)) names).

(* ---------- closure ---------- *)

Record context := { cx_start : str; cx_rules : list rule; cx_first : first_map }.

Definition symbol_right_of_dot (cx : context) (it : item) : res (option symbol) :=
  match it_rule it with
  | None => Ok (if Nat.eqb (it_dot it) 0 then Some (SymN (cx_start cx)) else None)
  | Some r =>
      do ru <- unwrap "rules[rule_index]" (nth_error (cx_rules cx) r);
      Ok (nth_error (field_symbols (ru_fieldset ru)) (it_dot it))
  end.

Definition symbols_after_dot (cx : context) (it : item) : res (list symbol) :=
  match it_rule it with
  | None => Ok (if Nat.eqb (it_dot it) 0 then [SymN (cx_start cx)] else [])
  | Some r =>
      do ru <- unwrap "rules[rule_index]" (nth_error (cx_rules cx) r);
      Ok (skipn (it_dot it) (field_symbols (ru_fieldset ru)))
  end.

(* get_first_of_symbol_sequence (repaired (F5): missing entry = empty first set) *)
Fixpoint first_of_sequence (m : first_map) (syms : list symbol) (acc : list str) : first_set :=
  match syms with
  | [] => {| fs_terminals := acc; fs_eps := true |}
  | SymT t :: _ => {| fs_terminals := oinsert str_cmp t acc; fs_eps := false |}
  | SymN n :: r =>
      let f := fm_get_or_empty m n in
      let acc' := oextend str_cmp acc (fs_terminals f) in
      if fs_eps f then first_of_sequence m r acc'
      else {| fs_terminals := acc'; fs_eps := false |}
  end.

(* add_lookahead_if_needed: AugmentedFirstSet as Oset<Lookahead> *)
Definition augmented_first (f : first_set) (la : option str) : list (option str) :=
  if fs_eps f
  then ofrom_iter lookahead_cmp (map Some (fs_terminals f) ++ [la])
  else ofrom_iter lookahead_cmp (map Some (fs_terminals f)).

Definition rule_indices_for (cx : context) (name : str) : list nat :=
  flat_map (fun '(i, r) => if str_eqb (ru_type r) name then [i] else []) (enumerate (cx_rules cx)).

Definition closure_implied_items (cx : context) (it : item) : res (list item) :=
  do sym <- symbol_right_of_dot cx it;
  match sym with
  | Some (SymN name) =>
      let adv := {| it_rule := it_rule it; it_la := it_la it; it_dot := S (it_dot it) |} in
      do after <- symbols_after_dot cx adv;
      let las := augmented_first (first_of_sequence (cx_first cx) after []) (it_la it) in
      Ok (flat_map (fun la => map (fun r => {| it_rule := Some r; it_la := la; it_dot := 0 |})
                                  (rule_indices_for cx name)) las)
  | _ => Ok []
  end.

Fixpoint closure_loop (fuel : nat) (cx : context) (queue : list item) (items : state) : res state :=
  match fuel with
  | O => OutOfFuel "get_closure"
  | S f =>
      match queue with
      | [] => Ok items
      | next :: q =>
          if ocontains item_cmp next items then closure_loop f cx q items
          else do implied <- closure_implied_items cx next;
               closure_loop f cx (q ++ implied) (oinsert item_cmp next items)
      end
  end.

Definition get_closure (fuel : nat) (cx : context) (items : list item) : res state :=
  closure_loop fuel cx items [].

(* ---------- the worklist construction ---------- *)

Record builder := {
  b_states : list state;
  b_transitions : list transition;      (* HashSet<Transition>, insertion order, newest first *)
  b_queue : list nat
}.

Definition core_subset (a b : state) : bool :=
  forallb (fun x => existsb (fun y => is_eq (rule_index_cmp (it_rule x) (it_rule y))
                                      && Nat.eqb (it_dot x) (it_dot y)) b) a.
Definition cores_equal (a b : state) : bool := core_subset a b && core_subset b a.

Fixpoint index_of_mergable (states : list state) (s : state) (i : nat) : option nat :=
  match states with
  | [] => None
  | e :: r => if cores_equal s e then Some i else index_of_mergable r s (S i)
  end.

(* add_items_if_needed *)
Fixpoint add_items (st : state) (items : list item) (added : bool) : state * bool :=
  match items with
  | [] => (st, added)
  | it :: r => if ocontains item_cmp it st then add_items st r added
               else add_items (oinsert item_cmp it st) r true
  end.

Fixpoint list_set {A} (l : list A) (i : nat) (x : A) : list A :=
  match l, i with
  | [], _ => []
  | _ :: r, O => x :: r
  | y :: r, S i' => y :: list_set r i' x
  end.

Definition enqueue_state_if_needed (b : builder) (s : state) : res (builder * nat) :=
  match index_of_mergable (b_states b) s 0 with
  | Some i =>
      do old <- unwrap "state_mut(index)" (nth_error (b_states b) i);
      let '(st', added) := add_items old s false in
      Ok ({| b_states := list_set (b_states b) i st';
             b_transitions := b_transitions b;
             b_queue := if added then b_queue b ++ [i] else b_queue b |}, i)
  | None =>
      let i := length (b_states b) in
      Ok ({| b_states := b_states b ++ [s];
             b_transitions := b_transitions b;
             b_queue := b_queue b ++ [i] |}, i)
  end.

Definition advance (cx : context) (sym : symbol) (it : item) : res (list item) :=
  do right <- symbol_right_of_dot cx it;
  match right with
  | Some s => if symbol_eqb s sym
              then Ok [{| it_rule := it_rule it; it_la := it_la it; it_dot := S (it_dot it) |}]
              else Ok []
  | None => Ok []
  end.

Definition enqueue_transition_target (cfuel : nat) (cx : context) (b : builder) (from : nat) (sym : symbol)
  : res builder :=
  do st <- unwrap "state(index)" (nth_error (b_states b) from);
  do advanced <- map_res (advance cx sym) st;
  do target <- get_closure cfuel cx (concat advanced);
  do '(b', to) <- enqueue_state_if_needed b target;
  Ok {| b_states := b_states b';
        b_transitions := {| tr_from := from; tr_to := to; tr_symbol := sym |} :: b_transitions b';
        b_queue := b_queue b' |}.

Fixpoint enqueue_targets (cfuel : nat) (cx : context) (b : builder) (from : nat) (syms : list symbol)
  : res builder :=
  match syms with
  | [] => Ok b
  | s :: r => do b' <- enqueue_transition_target cfuel cx b from s; enqueue_targets cfuel cx b' from r
  end.

Definition symbols_right_of_dot (cx : context) (st : state) : res (list symbol) :=
  do l <- map_res (symbol_right_of_dot cx) st;
  Ok (ofrom_iter symbol_cmp (flat_map (fun o => match o with Some s => [s] | None => [] end) l)).

Fixpoint build_loop (fuel cfuel : nat) (cx : context) (b : builder) : res builder :=
  match fuel with
  | O => OutOfFuel "UnnormalizedMachineBuilder::build"
  | S f =>
      match b_queue b with
      | [] => Ok b
      | i :: q =>
          let b0 := {| b_states := b_states b; b_transitions := b_transitions b; b_queue := q |} in
          do st <- unwrap "state(index)" (nth_error (b_states b0) i);
          do syms <- symbols_right_of_dot cx st;
          do b' <- enqueue_targets cfuel cx b0 i syms;
          build_loop f cfuel cx b'
      end
  end.

(* ---------- normalisation ---------- *)

Definition indexed_state_cmp : cmp_t (nat * state) := fun a b => state_cmp (snd a) (snd b).

(* get_index_updater: index_map[old] = new *)
Definition index_updater (sorted : list (nat * state)) : list nat :=
  let changes := map (fun '(new, (old, _)) => (old, new)) (enumerate sorted) in
  map snd (isort (fun a b => nat_cmp (fst a) (fst b)) changes).

Definition update_index (upd : list nat) (i : nat) : res nat :=
  unwrap "IndexUpdater::update: index_map[i]" (nth_error upd i).

Definition update_transition (upd : list nat) (t : transition) : res transition :=
  do f <- update_index upd (tr_from t);
  do to <- update_index upd (tr_to t);
  Ok {| tr_from := f; tr_to := to; tr_symbol := tr_symbol t |}.

Definition normalize_machine (ho : list transition -> list transition)
           (states : list state) (transitions : list transition) : res machine :=
  let ts := ofrom_iter transition_cmp (ho transitions) in
  let sorted := isort indexed_state_cmp (enumerate states) in
  let upd := index_updater sorted in
  do ts' <- map_res (update_transition upd) ts;
  do start <- update_index upd 0;
  Ok {| m_start := start;
        m_states := ofrom_iter state_cmp (map snd sorted);
        m_transitions := ofrom_iter transition_cmp ts' |}.

(* ---------- validated_ast_to_machine ---------- *)

Record fuels := { fu_first : nat; fu_closure : nat; fu_build : nat; fu_unique : nat; fu_parse : nat }.

Definition make_context (fu : fuels) (f : vfile) : res context :=
  let rules := get_rules f in
  do fm <- get_first_sets (fu_first fu) rules;
  Ok {| cx_start := vf_start f; cx_rules := rules; cx_first := fm |}.

Definition validated_ast_to_machine (ho : list transition -> list transition) (fu : fuels) (f : vfile)
  : res machine :=
  do cx <- make_context fu f;
  do start <- get_closure (fu_closure fu) cx [{| it_rule := None; it_la := None; it_dot := 0 |}];
  do b <- build_loop (fu_build fu) (fu_closure fu) cx
            {| b_states := [start]; b_transitions := []; b_queue := [0] |};
  normalize_machine ho (b_states b) (b_transitions b).
