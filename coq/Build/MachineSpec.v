(* Build/MachineSpec.v — what validated_ast_to_machine returns: an automaton whose
   states are closed item sets, whose transitions are deterministic and complete for
   every item, whose targets have exactly the kernel the source state gives them. *)
From Coq Require Import List Arith Lia Bool Sorting.Sorted Permutation.
From Kiki Require Import Base.Ord Base.OrdProofs Base.Chars Data DataProofs Oset.Model Oset.Proofs Ast.ValidateProofs
  Build.Machine Build.Table Build.TableProofs Build.FillProofs Build.TableSpec Build.ClosureProofs Build.LoopProofs
  Build.LoopInv Build.NormProofs.
Import ListNotations.
Open Scope nat_scope.

Lemma map_res_In {A B} (f : A -> res B) l l' : map_res f l = Ok l' ->
  forall y, In y l' <-> exists x, In x l /\ f x = Ok y.
Proof.
  intros H. apply map_res_ok in H. induction H as [|x y l l' Hy _ IH]; intros z.
  - split; [intros []|intros (? & [] & _)].
  - cbn [In]. rewrite IH. split.
    + intros [<-|(x0 & Hx & Hf)]; [exists x; auto|exists x0; auto].
    + intros (x0 & [<-|Hx] & Hf); [left; congruence|right; eauto].
Qed.

Section Spec.
  Variable cx : context.
  Notation next_sym := (next_sym cx).
  Notation item_wf := (item_ok cx).
  Hypothesis Hfm : fm_ok cx.
  Notation implied_by := (implied_by cx).

  Record MInv (m : machine) : Prop := {
    mi_start_lt : m_start m < length (m_states m);
    mi_states : forall i st, nth_error (m_states m) i = Some st ->
                             isorted st /\ closed cx st /\ (forall it, In it st -> item_wf it) /\
                             (forall it, In it st -> it_dot it = 0 ->
                                         (it_rule it = None /\ i = m_start m) \/ exists jt, In jt st /\ implied_by jt it);
    mi_start : exists st0, nth_error (m_states m) (m_start m) = Some st0 /\ In start_item st0 /\
                           forall it, In it st0 -> it_dot it = 0;
    mi_trans_bound : forall t, In t (m_transitions m) ->
                               tr_from t < length (m_states m) /\ tr_to t < length (m_states m) /\ tr_to t <> m_start m;
    mi_goto : forall i st it x, nth_error (m_states m) i = Some st -> In it st -> next_sym it = Some x ->
                                exists t st', In t (m_transitions m) /\ tr_from t = i /\ tr_symbol t = x /\
                                              nth_error (m_states m) (tr_to t) = Some st' /\ In (adv it) st';
    mi_det : forall t1 t2, In t1 (m_transitions m) -> In t2 (m_transitions m) ->
                           tr_from t1 = tr_from t2 -> tr_symbol t1 = tr_symbol t2 -> tr_to t1 = tr_to t2;
    mi_back : forall t sf st' it', In t (m_transitions m) ->
                                   nth_error (m_states m) (tr_from t) = Some sf -> nth_error (m_states m) (tr_to t) = Some st' ->
                                   In it' st' -> it_dot it' > 0 ->
                                   exists it, In it sf /\ next_sym it = Some (tr_symbol t) /\
                                              it_rule it = it_rule it' /\ S (it_dot it) = it_dot it';
    mi_nodup : NoDup (m_transitions m);
    mi_sym : forall t, In t (m_transitions m) ->
                       exists sf it, nth_error (m_states m) (tr_from t) = Some sf /\ In it sf /\ next_sym it = Some (tr_symbol t);
    mi_reach : forall i st it, nth_error (m_states m) i = Some st -> In it st -> reach cx (kernel st) it
  }.

  Lemma reach_dot_pos K it : reach cx K it -> it_dot it > 0 -> In it K.
  Proof.
    intros H Hd. destruct H as [it Hin|jt it _ Hi]; [exact Hin|].
    destruct (implied_by_wf cx jt it Hi) as (_ & Hz & _). lia.
  Qed.

  Lemma trans_ok_back b t : trans_ok cx b t ->
    forall sf st' it', sts b (tr_from t) = Some sf -> sts b (tr_to t) = Some st' -> In it' st' -> it_dot it' > 0 ->
    exists it, In it sf /\ next_sym it = Some (tr_symbol t) /\ it_rule it = it_rule it' /\ S (it_dot it) = it_dot it'.
  Proof.
    intros (sf0 & st0 & Hf & Ht & _ & Hc) sf st' it' Hf' Ht' Hin Hd.
    rewrite Hf in Hf'. injection Hf' as <-. rewrite Ht in Ht'. injection Ht' as <-.
    assert (Hcore : tcore cx sf0 (tr_symbol t) (core_of it')) by (apply Hc, in_map, Hin).
    destruct Hcore as (it2 & Hr & Hc2). unfold core_of in Hc2. injection Hc2 as Hrule Hdot.
    assert (Hk : In it2 (advK cx sf0 (tr_symbol t))) by (apply (reach_dot_pos _ _ Hr); lia).
    apply In_advK in Hk as (it & Hit & Hn & ->). exists it. cbn in Hrule, Hdot. auto.
  Qed.

  Theorem normalize_spec ho b m :
    BInv cx b -> Cov cx b [] -> b_queue b = [] -> (forall l, Permutation (ho l) l) ->
    normalize_machine ho (b_states b) (b_transitions b) = Ok m -> MInv m.
  Proof.
    intros HB HC Hq Hperm H.
    assert (Hnd : NoDup (b_states b)).
    { apply NoDup_nth_error. intros i j Hi Hij. destruct (nth_error (b_states b) i) as [si|] eqn:Ei; [|apply nth_error_None in Ei; lia].
      symmetry in Hij. apply (bi_uniq cx b HB i j si si Ei Hij). apply same_cores_refl. }
    unfold normalize_machine in H. fold (sorted (b_states b)) in H. fold (upd (b_states b)) in H.
    set (states := b_states b) in *.
    apply bind_ok in H as (ts' & Hts & H). apply bind_ok in H as (start & Hstart & H). injection H as <-.
    cbn [m_start m_states m_transitions].
    rewrite (new_states states Hnd).
    unfold update_index in Hstart. destruct (nth_error (upd states) 0) as [s0|] eqn:Eu0; [|discriminate]. injection Hstart as <-.
    (* the transitions of the normalised machine *)
    assert (Htrans : forall t', In t' (ofrom_iter transition_cmp ts') <->
                                exists t, In t (b_transitions b) /\ update_transition (upd states) t = Ok t').
    { intros t'. split.
      - intros Hin'. apply (proj1 (ofrom_iter_in transition_cmp transition_cmp_laws _ _)) in Hin'.
        apply (proj1 (map_res_In _ _ _ Hts _)) in Hin' as (t & Hin & Hu).
        apply (proj1 (ofrom_iter_in transition_cmp transition_cmp_laws _ _)) in Hin.
        exists t. split; [eapply Permutation_in; [apply Hperm|exact Hin]|exact Hu].
      - intros (t & Hin & Hu). apply (ofrom_iter_in transition_cmp transition_cmp_laws).
        apply (map_res_In _ _ _ Hts). exists t. split; [|exact Hu].
        apply (ofrom_iter_in transition_cmp transition_cmp_laws).
        eapply Permutation_in; [apply Permutation_sym, Hperm|exact Hin]. }
    assert (Hupd_t : forall t t', update_transition (upd states) t = Ok t' ->
                                  nth_error (upd states) (tr_from t) = Some (tr_from t') /\
                                  nth_error (upd states) (tr_to t) = Some (tr_to t') /\ tr_symbol t' = tr_symbol t).
    { intros t t' Hu. unfold update_transition, update_index in Hu.
      destruct (nth_error (upd states) (tr_from t)) as [f'|]; [|discriminate].
      destruct (nth_error (upd states) (tr_to t)) as [to'|]; [|discriminate]. cbn in Hu. injection Hu as <-. auto. }
    destruct (bi_zero cx b HB) as (st0 & Hs0 & Hst0 & Hdot0). unfold sts in Hs0. fold states in Hs0.
    assert (Hlen : length (map snd (sorted states)) = length states) by (rewrite map_length; apply sorted_length).
    split; cbn [m_start m_states m_transitions].
    - rewrite Hlen. destruct (upd_total states 0 st0 Hs0) as (new & Hu & Hn). rewrite Eu0 in Hu. injection Hu as <-.
      rewrite <- (sorted_length states). apply nth_error_Some. congruence.
    - intros k st Hk. destruct (new_state_old states k st Hk) as (old & Ho & Hu).
      destruct (bi_states cx b HB old st Ho) as (A & B & C & D). split; [exact A|]. split; [exact B|]. split; [exact C|].
      intros it Hit Hd. destruct (D it Hit Hd) as [(Hr & ->)|Hj]; [left|right; exact Hj].
      split; [exact Hr|]. rewrite Eu0 in Hu. congruence.
    - exists st0. split; [eapply upd_new_state; eauto|]. auto.
    - intros t' Ht'. apply Htrans in Ht' as (t & Ht & Hu). destruct (Hupd_t t t' Hu) as (Hf & Hto & _).
      destruct (bi_trans cx b HB t Ht) as (sf & st' & Hsf & Hst' & Hz & _). unfold sts in *. fold states in Hsf, Hst'.
      rewrite Hlen. split; [|split].
      + destruct (upd_total states _ _ Hsf) as (nf & Hu1 & Hn1). rewrite Hf in Hu1. injection Hu1 as <-.
        rewrite <- (sorted_length states). apply nth_error_Some. congruence.
      + destruct (upd_total states _ _ Hst') as (nt & Hu1 & Hn1). rewrite Hto in Hu1. injection Hu1 as <-.
        rewrite <- (sorted_length states). apply nth_error_Some. congruence.
      + intros E. rewrite E in Hto. apply Hz. apply (upd_inj states (tr_to t) 0 s0 st' st0 Hst' Hs0 Hto Eu0).
    - intros k st it x Hk Hit Hn. destruct (new_state_old states k st Hk) as (old & Ho & Hu).
      assert (Hold : old < length (b_states b)) by (apply nth_error_Some; fold states; congruence).
      assert (Hcov : cov_at cx b old) by (apply HC; [exact Hold|rewrite Hq; intros []|intros []]).
      destruct (Hcov st it x Ho Hit Hn) as (t & st' & Ht & Hf & Hs & Hst' & Ha).
      unfold sts in Hst'. fold states in Hst'.
      destruct (upd_total states _ _ Hst') as (nto & Hu2 & Hn2).
      set (t' := {| tr_from := k; tr_to := nto; tr_symbol := tr_symbol t |}).
      exists t', st'. split; [|split; [reflexivity|split; [exact Hs|split]]].
      + apply Htrans. exists t. split; [exact Ht|]. unfold update_transition, update_index. rewrite Hf, Hu, Hu2. reflexivity.
      + cbn [tr_to t']. rewrite nth_error_map, Hn2. reflexivity.
      + exact Ha.
    - intros t1' t2' H1 H2 Hf Hs. apply Htrans in H1 as (t1 & Ht1 & Hu1). apply Htrans in H2 as (t2 & Ht2 & Hu2).
      destruct (Hupd_t _ _ Hu1) as (F1 & T1 & S1). destruct (Hupd_t _ _ Hu2) as (F2 & T2 & S2).
      destruct (bi_trans cx b HB t1 Ht1) as (sf1 & _ & Hsf1 & _). destruct (bi_trans cx b HB t2 Ht2) as (sf2 & _ & Hsf2 & _).
      unfold sts in *. fold states in Hsf1, Hsf2. rewrite Hf in F1.
      assert (Hfrom : tr_from t1 = tr_from t2) by (apply (upd_inj states _ _ _ sf1 sf2 Hsf1 Hsf2 F1 F2)).
      assert (Hto : tr_to t1 = tr_to t2) by (apply (bi_det cx b HB t1 t2 Ht1 Ht2 Hfrom); congruence).
      rewrite Hto in T1. congruence.
    - intros t' sf st' it' Ht' Hsf Hst' Hit' Hd. apply Htrans in Ht' as (t & Ht & Hu). destruct (Hupd_t _ _ Hu) as (F & To & S).
      destruct (bi_trans cx b HB t Ht) as (sf0 & st0' & Hsf0 & Hst0' & Hz & Hc). unfold sts in *. fold states in Hsf0, Hst0'.
      pose proof (upd_new_state states _ _ _ Hsf0 F) as E1. rewrite E1 in Hsf. injection Hsf as <-.
      pose proof (upd_new_state states _ _ _ Hst0' To) as E2. rewrite E2 in Hst'. injection Hst' as <-.
      rewrite S. apply (trans_ok_back b t (bi_trans cx b HB t Ht) sf0 st0' it'); auto.
    - apply (ssorted_nodup transition_cmp transition_cmp_laws), (ofrom_iter_sorted transition_cmp transition_cmp_laws).
    - intros t' Ht'. apply Htrans in Ht' as (t & Ht & Hu). destruct (Hupd_t _ _ Hu) as (F & _ & S).
      destruct (bi_sym cx b HB t Ht) as (sf & it & Hsf & Hit & Hn). unfold sts in Hsf. fold states in Hsf.
      exists sf, it. split; [eapply upd_new_state; eauto|]. split; [exact Hit|]. rewrite S. exact Hn.
    - intros k st it Hk Hit. destruct (new_state_old states k st Hk) as (old & Ho & _). apply (bi_reach cx b HB old st it Ho Hit).
  Qed.

  (* the construction as a whole *)
  Theorem machine_spec ho fuel cfuel m start :
    (forall l, Permutation (ho l) l) ->
    get_closure cfuel cx [start_item] = Ok start ->
    (do b <- build_loop fuel cfuel cx {| b_states := [start]; b_transitions := []; b_queue := [0] |};
     normalize_machine ho (b_states b) (b_transitions b)) = Ok m ->
    MInv m.
  Proof.
    intros Hperm Hs H. apply bind_ok in H as (b & Hb & H).
    destruct (build_spec cx cfuel Hfm fuel start b Hs Hb) as (HB & HC & Hq).
    eapply normalize_spec; eauto.
  Qed.
End Spec.
