(* Build/DetProofs.v — determinism (C14): the result of normalisation does not
   depend on the order in which the hash set of transitions is iterated. *)
From Coq Require Import List Arith Lia Bool Permutation.
From Kiki Require Import Base.Ord Base.OrdProofs Base.Chars Data DataProofs Oset.Model Oset.Proofs Build.Machine.
Import ListNotations.

Theorem normalize_machine_order_independent (ho1 ho2 : list transition -> list transition) states transitions :
  Permutation (ho1 transitions) (ho2 transitions) ->
  normalize_machine ho1 states transitions = normalize_machine ho2 states transitions.
Proof.
  intros HP. unfold normalize_machine.
  rewrite (ofrom_iter_perm transition_cmp transition_cmp_laws _ _ HP). reflexivity.
Qed.

Theorem machine_order_independent (ho1 ho2 : list transition -> list transition) fu f :
  (forall l, Permutation (ho1 l) l) -> (forall l, Permutation (ho2 l) l) ->
  validated_ast_to_machine ho1 fu f = validated_ast_to_machine ho2 fu f.
Proof.
  intros H1 H2. unfold validated_ast_to_machine.
  destruct (make_context fu f) as [cx| | |]; cbn [bind]; try reflexivity.
  destruct (get_closure _ cx _) as [st| | |]; cbn [bind]; try reflexivity.
  destruct (build_loop _ _ cx _) as [b| | |]; cbn [bind]; try reflexivity.
  apply normalize_machine_order_independent.
  rewrite H1, H2. reflexivity.
Qed.
