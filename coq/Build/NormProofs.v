(* Build/NormProofs.v — normalisation (sort the states by content, renumber the
   transitions): the normalised machine is the builder's automaton renamed by a
   bijection of state indices. *)
From Coq Require Import List Arith Lia Bool Sorting.Sorted Permutation.
From Kiki Require Import Base.Ord Base.OrdProofs Base.Chars Data DataProofs Oset.Model Oset.Proofs Ast.ValidateProofs
  Build.Machine Build.Table Build.TableProofs Build.FillProofs Build.TableSpec Build.ClosureProofs Build.LoopProofs.
Import ListNotations.
Open Scope nat_scope.

(* ---------- sorting commutes with a projection the order factors through ---------- *)

Section SortProj.
  Context {A B : Type} (f : A -> B) (cb : cmp_t B).
  Definition ca : cmp_t A := fun x y => cb (f x) (f y).

  Lemma sinsert_map x l : map f (sinsert ca x l) = sinsert cb (f x) (map f l).
  Proof.
    induction l as [|y l IH]; cbn; [reflexivity|]. unfold ca at 1. destruct (cb (f x) (f y)); cbn; try reflexivity.
    rewrite IH. reflexivity.
  Qed.

  Lemma isort_map l : map f (isort ca l) = isort cb (map f l).
  Proof.
    induction l as [|x l IH]; [reflexivity|].
    change (isort ca (x :: l)) with (sinsert ca x (isort ca l)).
    change (isort cb (map f (x :: l))) with (sinsert cb (f x) (isort cb (map f l))).
    rewrite sinsert_map, IH. reflexivity.
  Qed.
End SortProj.

(* ---------- sorted duplicate-free lists ---------- *)

Section Strict.
  Context {A : Type} (cmp : cmp_t A) (L : OrdLaws cmp).

  Lemma wsorted_nodup_ssorted l : WSorted cmp l -> NoDup l -> SSorted cmp l.
  Proof.
    unfold WSorted, SSorted. induction 1 as [|x l Hs IH Hall]; intros Hnd; [constructor|].
    inversion Hnd as [|? ? Hnot Hnd']; subst. constructor; [apply IH, Hnd'|].
    rewrite Forall_forall in *. intros y Hy. specialize (Hall y Hy). unfold le in Hall. unfold lt.
    destruct (cmp x y) eqn:E; [|reflexivity|congruence].
    apply (ol_eq cmp L) in E. subst. contradiction.
  Qed.

  Lemma isort_nodup_ssorted l : NoDup l -> SSorted cmp (isort cmp l).
  Proof.
    intros Hnd. apply wsorted_nodup_ssorted; [apply (isort_sorted cmp L)|].
    eapply Permutation_NoDup; [apply (isort_perm cmp)|exact Hnd].
  Qed.

  Lemma ofrom_iter_of_sorted l : SSorted cmp l -> ofrom_iter cmp l = l.
  Proof.
    intros Hs. apply (ssorted_ext cmp L); [apply (ofrom_iter_sorted cmp L)|exact Hs|].
    intros x. apply (ofrom_iter_in cmp L).
  Qed.
End Strict.

Lemma seq_ssorted k n : SSorted nat_cmp (seq k n).
Proof.
  revert k; induction n as [|n IH]; intros k; cbn; [constructor|]. constructor; [apply IH|].
  apply Forall_forall. intros y Hy. apply in_seq in Hy. unfold lt, nat_cmp. apply Nat.compare_lt_iff. lia.
Qed.

Lemma isort_perm_seq l n : Permutation l (seq 0 n) -> isort nat_cmp l = seq 0 n.
Proof.
  intros HP. apply (ssorted_perm_eq nat_cmp nat_cmp_laws).
  - apply (isort_nodup_ssorted nat_cmp nat_cmp_laws). eapply Permutation_NoDup; [apply Permutation_sym, HP|apply seq_NoDup].
  - apply seq_ssorted.
  - eapply Permutation_trans; [apply Permutation_sym, (isort_perm nat_cmp)|exact HP].
Qed.

(* ---------- enumerate ---------- *)

Lemma enumerate_from_map_fst {A} (l : list A) k : map fst (enumerate_from k l) = seq k (length l).
Proof. revert k; induction l as [|x l IH]; intros k; cbn; [reflexivity|]. rewrite IH. reflexivity. Qed.

Lemma enumerate_from_map_snd {A} (l : list A) k : map snd (enumerate_from k l) = l.
Proof. revert k; induction l as [|x l IH]; intros k; cbn; [reflexivity|]. rewrite IH. reflexivity. Qed.

Lemma enumerate_from_length {A} (l : list A) k : length (enumerate_from k l) = length l.
Proof. revert k; induction l as [|x l IH]; intros k; cbn; [reflexivity|]. rewrite IH. reflexivity. Qed.

(* ---------- the renumbering ---------- *)

Section Norm.
  Variable states : list state.
  Hypothesis Hnd : NoDup states.
  Notation n := (length states).

  Definition sorted : list (nat * state) := isort indexed_state_cmp (enumerate states).
  Definition upd : list nat := index_updater sorted.

  Lemma sorted_perm : Permutation (enumerate states) sorted.
  Proof. apply (isort_perm indexed_state_cmp). Qed.

  Lemma sorted_length : length sorted = n.
  Proof. rewrite <- (Permutation_length sorted_perm). apply enumerate_from_length. Qed.

  Lemma sorted_elem k old st : nth_error sorted k = Some (old, st) -> nth_error states old = Some st.
  Proof.
    intros H. apply nth_error_In in H. apply (Permutation_in _ (Permutation_sym sorted_perm)) in H.
    apply In_enumerate_iff in H. exact H.
  Qed.

  Lemma sorted_olds_perm : Permutation (map fst sorted) (seq 0 n).
  Proof.
    rewrite <- (enumerate_from_map_fst states 0). apply Permutation_map, Permutation_sym, sorted_perm.
  Qed.

  Lemma sorted_states : map snd sorted = isort state_cmp states.
  Proof.
    unfold sorted. change indexed_state_cmp with (ca (@snd nat state) state_cmp).
    rewrite isort_map. unfold enumerate. rewrite enumerate_from_map_snd. reflexivity.
  Qed.

  Lemma sorted_states_strict : SSorted state_cmp (map snd sorted).
  Proof. rewrite sorted_states. apply (isort_nodup_ssorted state_cmp state_cmp_laws), Hnd. Qed.

  Lemma new_states : ofrom_iter state_cmp (map snd sorted) = map snd sorted.
  Proof. apply (ofrom_iter_of_sorted state_cmp state_cmp_laws), sorted_states_strict. Qed.

  (* upd[old] = new *)
  Definition changes : list (nat * nat) := map (fun '(new, (old, _)) => (old, new)) (enumerate sorted).

  Lemma changes_fst : map fst changes = map fst sorted.
  Proof.
    unfold changes, enumerate. generalize 0. induction sorted as [|[old st] l IH]; intros k; cbn; [reflexivity|].
    rewrite IH. reflexivity.
  Qed.

  Lemma In_changes old new : In (old, new) changes <-> exists st, nth_error sorted new = Some (old, st).
  Proof.
    unfold changes. rewrite in_map_iff. split.
    - intros ([k [o st]] & E & Hin). injection E as <- <-. apply In_enumerate_iff in Hin. eauto.
    - intros (st & H). exists (new, (old, st)). split; [reflexivity|apply In_enumerate_iff, H].
  Qed.

  Lemma upd_spec new old st : nth_error sorted new = Some (old, st) -> nth_error upd old = Some new.
  Proof.
    intros H. unfold upd, index_updater. fold changes.
    set (fc := fun a b : nat * nat => nat_cmp (fst a) (fst b)).
    set (Lc := isort fc changes).
    assert (Hfst : map fst Lc = seq 0 n).
    { unfold Lc, fc. change (fun a b : nat * nat => nat_cmp (fst a) (fst b)) with (ca (@fst nat nat) nat_cmp).
      rewrite isort_map, changes_fst. apply isort_perm_seq, sorted_olds_perm. }
    assert (Hin : In (old, new) Lc).
    { eapply Permutation_in; [apply (isort_perm fc)|]. apply In_changes. eauto. }
    apply In_nth_error in Hin as (p & Hp).
    assert (Hpo : p = old).
    { assert (E : nth_error (map fst Lc) p = Some old) by (rewrite nth_error_map, Hp; reflexivity).
      rewrite Hfst in E.
      assert (Hlt : p < length (seq 0 n)) by (apply nth_error_Some; congruence). rewrite seq_length in Hlt.
      rewrite (nth_error_nth' (seq 0 n) 0) in E by (rewrite seq_length; exact Hlt). rewrite seq_nth in E by exact Hlt.
      injection E as E. lia. }
    subst p. rewrite nth_error_map, Hp. reflexivity.
  Qed.

  (* every old index has a new one, and the renaming is injective *)
  Lemma upd_total old st : nth_error states old = Some st ->
    exists new, nth_error upd old = Some new /\ nth_error sorted new = Some (old, st).
  Proof.
    intros H. apply In_enumerate_iff in H. apply (Permutation_in _ sorted_perm) in H.
    apply In_nth_error in H as (new & Hn). exists new. split; [eapply upd_spec; eauto|exact Hn].
  Qed.

  Lemma upd_new_state old new st : nth_error states old = Some st -> nth_error upd old = Some new ->
    nth_error (map snd sorted) new = Some st.
  Proof.
    intros Hs Hu. destruct (upd_total old st Hs) as (new' & Hu' & Hn). rewrite Hu in Hu'. injection Hu' as <-.
    rewrite nth_error_map, Hn. reflexivity.
  Qed.

  Lemma upd_inj o1 o2 new s1 s2 : nth_error states o1 = Some s1 -> nth_error states o2 = Some s2 ->
    nth_error upd o1 = Some new -> nth_error upd o2 = Some new -> o1 = o2.
  Proof.
    intros H1 H2 U1 U2. destruct (upd_total o1 s1 H1) as (n1 & U1' & N1). destruct (upd_total o2 s2 H2) as (n2 & U2' & N2).
    rewrite U1 in U1'. rewrite U2 in U2'. injection U1' as <-. injection U2' as <-. rewrite N1 in N2. congruence.
  Qed.

  Lemma new_state_old new st : nth_error (map snd sorted) new = Some st ->
    exists old, nth_error states old = Some st /\ nth_error upd old = Some new.
  Proof.
    rewrite nth_error_map. destruct (nth_error sorted new) as [[old st']|] eqn:E; [|discriminate].
    cbn. intros H; injection H as <-. exists old. split; [eapply sorted_elem; eauto|eapply upd_spec; eauto].
  Qed.
End Norm.
