(* Build/TableProofs.v — machine_to_table reports only genuine conflicts (C11):
   a TableConflict error names a state of the given machine, two items of that
   state, and the two items demand different actions on the same lookahead;
   the attached file and machine are the arguments. *)
From Coq Require Import List Arith Lia Bool.
From Kiki Require Import Base.Ord Base.OrdProofs Base.Chars Data DataProofs Oset.Model Ast.ValidateProofs
  Build.Machine Build.Table.
Import ListNotations.

Section Conflict.
  Variable m : machine.
  Variable f : vfile.
  Notation rules := (get_rules f).

  (* what action an item asks for, and on which lookahead (None = end of input) *)
  Inductive demands (s : nat) (it : item) : qt -> action -> Prop :=
  | dm_accept : it_rule it = None -> it_dot it <> 0 -> demands s it None AAccept
  | dm_reduce r ru : it_rule it = Some r -> nth_error rules r = Some ru ->
                     it_dot it = fieldset_len (ru_fieldset ru) -> demands s it (it_la it) (AReduce r)
  | dm_shift r ru t dest : it_rule it = Some r -> nth_error rules r = Some ru ->
                           it_dot it <> fieldset_len (ru_fieldset ru) ->
                           nth_error (field_symbols (ru_fieldset ru)) (it_dot it) = Some (SymT t) ->
                           get_shift_dest m s t = Some dest -> demands s it (Some t) (AShift dest).

  Definition in_state (s : nat) (it : item) : Prop :=
    exists st, nth_error (m_states m) s = Some st /\ In it st.

  Definition binv (b : tbuilder) : Prop :=
    forall s q it a, In ((s, q), (it, a)) (tb_act b) -> in_state s it /\ demands s it q a.

  Definition genuine (e : kiki_err) : Prop :=
    exists c, e = ETableConflict c /\ cf_file c = f /\ cf_machine c = m /\
              cf_state c < length (m_states m) /\
              in_state (cf_state c) (cf_item1 c) /\ in_state (cf_state c) (cf_item2 c) /\
              exists q a1 a2, demands (cf_state c) (cf_item1 c) q a1 /\ demands (cf_state c) (cf_item2 c) q a2 /\ a1 <> a2.

  Lemma qt_eqb_eq a b : qt_eqb a b = true -> a = b.
  Proof.
    unfold qt_eqb, is_eq. destruct (lookahead_cmp a b) eqn:E; try discriminate.
    intros _. apply (ol_eq _ lookahead_cmp_laws), E.
  Qed.

  Lemma act_get_In l s q v : act_get l s q = Some v -> In ((s, q), v) l.
  Proof.
    induction l as [|[[s' q'] v'] l IH]; cbn; [discriminate|].
    destruct (Nat.eqb s s' && qt_eqb q q') eqn:E.
    - apply andb_true_iff in E as (E1 & E2). apply Nat.eqb_eq in E1. apply qt_eqb_eq in E2. subst.
      intros H; injection H as <-. left; reflexivity.
    - intros H. right. apply IH, H.
  Qed.

  Lemma action_eqb_false a b : action_eqb a b = false -> a <> b.
  Proof.
    intros H E. subst. destruct b; cbn in H; try discriminate; rewrite Nat.eqb_refl in H; discriminate.
  Qed.

  Lemma in_state_bound s it : in_state s it -> s < length (m_states m).
  Proof. intros (st & H & _). apply nth_error_Some. congruence. Qed.

  Lemma set_action_spec b s q it a :
    binv b -> in_state s it -> demands s it q a ->
    match set_action m f b s q it a with
    | Ok b' => binv b'
    | Err e => genuine e
    | _ => False
    end.
  Proof.
    intros Hb Hin Hd. unfold set_action. destruct (act_get (tb_act b) s q) as [[eit ea]|] eqn:E.
    - destruct (action_eqb ea a) eqn:Ea; [exact Hb|].
      apply act_get_In in E. destruct (Hb _ _ _ _ E) as (Hin' & Hd').
      eexists. split; [reflexivity|]. cbn. repeat split; try assumption.
      + eapply in_state_bound; eauto.
      + exists q, ea, a. repeat split; try assumption. apply action_eqb_false, Ea.
    - intros s' q' it' a' H. cbn [tb_act] in H. apply in_app_or in H as [H|[H|[]]]; [apply Hb, H|].
      injection H as <- <- <- <-. auto.
  Qed.

  Lemma add_item_action_spec b s it :
    binv b -> in_state s it ->
    match add_item_action m f rules b s it with
    | Ok b' => binv b'
    | Err e => genuine e
    | _ => True
    end.
  Proof.
    intros Hb Hin. unfold add_item_action. destruct (it_rule it) as [r|] eqn:Er.
    - destruct (nth_error rules r) as [ru|] eqn:Eru; cbn [unwrap bind]; [|exact I].
      destruct (Nat.eqb (it_dot it) (fieldset_len (ru_fieldset ru))) eqn:Ed.
      + apply Nat.eqb_eq in Ed.
        pose proof (set_action_spec b s (it_la it) it (AReduce r) Hb Hin (dm_reduce s it r ru Er Eru Ed)) as H.
        destruct (set_action m f b s (it_la it) it (AReduce r)); auto.
      + apply Nat.eqb_neq in Ed.
        destruct (nth_error (field_symbols (ru_fieldset ru)) (it_dot it)) as [[t|n]|] eqn:Es; cbn [unwrap bind]; try exact I.
        * destruct (get_shift_dest m s t) as [dest|] eqn:Eg; cbn [unwrap bind]; [|exact I].
          pose proof (set_action_spec b s (Some t) it (AShift dest) Hb Hin (dm_shift s it r ru t dest Er Eru Ed Es Eg)) as H.
          destruct (set_action m f b s (Some t) it (AShift dest)); auto.
        * exact Hb.
    - destruct (Nat.eqb (it_dot it) 0) eqn:Ed; [exact Hb|]. apply Nat.eqb_neq in Ed.
      pose proof (set_action_spec b s None it AAccept Hb Hin (dm_accept s it Er Ed)) as H.
      destruct (set_action m f b s None it AAccept); auto.
  Qed.

  Lemma add_state_actions_spec s items : forall b,
    binv b -> (forall it, In it items -> in_state s it) ->
    match add_state_actions m f rules b s items with
    | Ok b' => binv b'
    | Err e => genuine e
    | _ => True
    end.
  Proof.
    induction items as [|it items IH]; intros b Hb Hall; cbn [add_state_actions]; [exact Hb|].
    pose proof (add_item_action_spec b s it Hb (Hall it (or_introl eq_refl))) as H.
    destruct (add_item_action m f rules b s it) as [b'| | |]; cbn [bind]; auto.
    apply IH; [exact H|]. intros it' Hin. apply Hall. right. exact Hin.
  Qed.

  Lemma nth_error_enumerate_from {A} (l : list A) : forall k i x,
      In (i, x) (enumerate_from k l) -> k <= i /\ nth_error l (i - k) = Some x.
  Proof.
    induction l as [|y l IH]; intros k i x H; cbn in H; [contradiction|].
    destruct H as [H|H].
    - injection H as <- <-. rewrite Nat.sub_diag. auto.
    - apply IH in H as (Hle & Hn). split; [lia|]. replace (i - k) with (S (i - S k)) by lia. exact Hn.
  Qed.

  Lemma add_actions_spec sts : forall b,
    binv b -> (forall i st, In (i, st) sts -> nth_error (m_states m) i = Some st) ->
    match add_actions m f rules b sts with
    | Ok b' => binv b'
    | Err e => genuine e
    | _ => True
    end.
  Proof.
    induction sts as [|[i st] sts IH]; intros b Hb Hall; cbn [add_actions]; [exact Hb|].
    assert (Hi : forall it, In it st -> in_state i it).
    { intros it Hit. exists st. split; [apply Hall; left; reflexivity|exact Hit]. }
    pose proof (add_state_actions_spec i st b Hb Hi) as H.
    destruct (add_state_actions m f rules b i st) as [b'| | |]; cbn [bind]; auto.
    apply IH; [exact H|]. intros i' st' Hin. apply Hall. right. exact Hin.
  Qed.

  Lemma add_gotos_no_err ts : forall b e, add_gotos b ts <> Err e.
  Proof.
    induction ts as [|t ts IH]; intros b e; cbn [add_gotos]; [discriminate|].
    destruct (tr_symbol t); [apply IH|]. destruct (got_get _ _ _); [discriminate|apply IH].
  Qed.

  Lemma table_set_action_no_err t s q a e : table_set_action t s q a <> Err e.
  Proof.
    unfold table_set_action, action_index, state_count.
    destruct q as [name|]; cbn [bind].
    - destruct (position_str name (tb_terminals t)); cbn [unwrap bind]; [|discriminate].
      destruct (Nat.leb _ s); cbn [bind]; [discriminate|]. destruct (Nat.leb _ _); discriminate.
    - destruct (Nat.leb _ s); cbn [bind]; [discriminate|]. destruct (Nat.leb _ _); discriminate.
  Qed.

  Lemma fill_actions_no_err l : forall t e, fill_actions t l <> Err e.
  Proof.
    induction l as [|[[s q] [it a]] l IH]; intros t e; cbn [fill_actions]; [discriminate|].
    pose proof (table_set_action_no_err t s q a) as H.
    destruct (table_set_action t s q a) as [t'| | |]; cbn [bind]; try discriminate; [apply IH|].
    intros E. eapply H. exact E.
  Qed.

  Lemma table_set_goto_no_err t s n g e : table_set_goto t s n g <> Err e.
  Proof.
    unfold table_set_goto, goto_index, state_count.
    destruct (position_str n (tb_nonterminals t)); cbn [unwrap bind]; [|discriminate].
    destruct (Nat.leb _ s); cbn [bind]; [discriminate|]. destruct (Nat.leb _ _); discriminate.
  Qed.

  Lemma fill_gotos_no_err l : forall t e, fill_gotos t l <> Err e.
  Proof.
    induction l as [|[[s n] g] l IH]; intros t e; cbn [fill_gotos]; [discriminate|].
    pose proof (table_set_goto_no_err t s n g) as H.
    destruct (table_set_goto t s n g) as [t'| | |]; cbn [bind]; try discriminate; [apply IH|].
    intros E. eapply H. exact E.
  Qed.

  Theorem conflict_is_genuine ho e : machine_to_table ho m f = Err e -> genuine e.
  Proof.
    unfold machine_to_table. intros H.
    pose proof (add_actions_spec (enumerate (m_states m)) {| tb_act := []; tb_got := [] |}) as Ha.
    destruct (add_actions m f rules {| tb_act := []; tb_got := [] |} (enumerate (m_states m))) as [b| e'| |];
      cbn [bind] in H; try discriminate.
    - exfalso. destruct (add_gotos b (m_transitions m)) as [b'| e'| |] eqn:Eg; cbn [bind] in H; try discriminate.
      + destruct (fill_actions (get_empty_table m f) (ho_actions ho (tb_act b'))) as [t| e'| |] eqn:Ef;
          cbn [bind] in H; try discriminate.
        * eapply fill_gotos_no_err; exact H.
        * eapply fill_actions_no_err; exact Ef.
      + eapply add_gotos_no_err; exact Eg.
    - injection H as <-. apply Ha.
      + intros s q it a [].
      + intros i st Hin. unfold enumerate in Hin. apply nth_error_enumerate_from in Hin as (_ & Hn).
        rewrite Nat.sub_0_r in Hn. exact Hn.
  Qed.
End Conflict.
