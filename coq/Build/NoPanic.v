(* Build/NoPanic.v — the stages after validation never panic: every unwrap, index and
   "impossible" arm of validated_ast_to_machine and machine_to_table is unreachable for
   a well-formed validated file (C07).  Running out of the model's fuel is a separate
   outcome and is not excluded here. *)
From Coq Require Import List Arith Lia Bool Sorting.Sorted Permutation.
From Kiki Require Import Nf Base.Ord Base.OrdProofs Base.Chars Data DataProofs Np Oset.Model Oset.Proofs Ast.ValidateProofs Ast.VWF
  Build.Machine Build.Table Build.TableProofs Build.FillProofs Build.TableSpec Build.ClosureProofs Build.LoopProofs
  Build.LoopInv Build.NormProofs Build.MachineSpec Build.FirstProofs.
Import ListNotations.
Open Scope nat_scope.

(* ---------- FIRST ---------- *)

Section First.
  Variable rules : list rule.

  Lemma key_of_rule m ru : FInv rules m -> In ru rules -> fm_get m (ru_type ru) <> None.
  Proof.
    intros HF Hru. apply fm_get_keys. rewrite (fi_keys rules m HF). apply (ofrom_iter_in str_cmp str_cmp_laws). apply in_map, Hru.
  Qed.

  Lemma np_expand rs : forall m ch, FInv rules m -> incl rs rules -> np (expand m rs ch).
  Proof.
    induction rs as [|r rs IH]; intros m ch HF Hin; cbn [expand]; [apply np_ok|].
    apply np_bind.
    - unfold expand_rule. pose proof (key_of_rule m r HF (Hin r (or_introl eq_refl))) as Hk.
      destruct (fm_get m (ru_type r)); [apply np_ok|contradiction].
    - intros [m1 c1] H1. destruct (expand_rule_spec rules m r m1 c1 HF (Hin r (or_introl eq_refl)) H1) as (HF1 & _).
      apply IH; [exact HF1|intros x Hx; apply Hin; right; exact Hx].
  Qed.

  Lemma np_first_loop fuel : forall m, FInv rules m -> np (first_loop fuel rules m).
  Proof.
    induction fuel as [|f IH]; intros m HF; cbn [first_loop]; [apply np_oof|].
    apply np_bind; [apply np_expand; [exact HF|intros x Hx; exact Hx]|].
    intros [m1 c] H1. destruct (expand_spec rules rules m false m1 c HF (fun x Hx => Hx) H1) as (HF1 & _).
    destruct c; [apply IH, HF1|apply np_ok].
  Qed.

  Lemma np_get_first_sets fuel : np (get_first_sets fuel rules).
  Proof.
    unfold get_first_sets. apply np_first_loop. split.
    - rewrite map_map. cbn [fst]. apply map_id.
    - intros n fs H. apply fm_get_In in H. apply in_map_iff in H as (k & E & _). injection E as _ <-. constructor.
    - intros n fs t H. apply fm_get_In in H. apply in_map_iff in H as (k & E & _). injection E as _ <-. intros [].
  Qed.
End First.

(* ---------- closure ---------- *)

Section Machine.
  Variable cx : context.
  Notation rules := (cx_rules cx).

  Definition rule_ok (it : item) : Prop := rule_syms cx (it_rule it) <> None.

  Lemma item_wf_rule_ok it : item_wf cx it -> rule_ok it.
  Proof. intros (rhs & H & _). unfold rule_ok. congruence. Qed.

  Lemma np_symbol_right_of_dot it : rule_ok it -> np (symbol_right_of_dot cx it).
  Proof.
    unfold rule_ok, rule_syms, symbol_right_of_dot. destruct (it_rule it) as [r|]; [|intros _; apply np_ok].
    destruct (nth_error rules r); cbn; [intros _; apply np_ok|contradiction].
  Qed.

  Lemma np_symbols_after_dot it : rule_ok it -> np (symbols_after_dot cx it).
  Proof.
    unfold rule_ok, rule_syms, symbols_after_dot. destruct (it_rule it) as [r|]; [|intros _; apply np_ok].
    destruct (nth_error rules r); cbn; [intros _; apply np_ok|contradiction].
  Qed.

  Lemma np_closure_implied_items it : rule_ok it -> np (closure_implied_items cx it).
  Proof.
    intros H. unfold closure_implied_items. apply np_bind; [apply np_symbol_right_of_dot, H|].
    intros [[u|n]|] _; try apply np_ok. apply np_bind; [apply np_symbols_after_dot; exact H|]. intros after _. apply np_ok.
  Qed.

  Lemma implied_rule_ok it l x : closure_implied_items cx it = Ok l -> In x l -> rule_ok x.
  Proof.
    intros H Hx. destruct (closure_implied_items_spec cx it l H) as (_ & Hiff). apply Hiff in Hx.
    apply item_wf_rule_ok. apply (implied_by_wf cx it x Hx).
  Qed.

  Lemma np_closure_loop fuel : forall q acc, (forall it, In it q -> rule_ok it) -> np (closure_loop fuel cx q acc).
  Proof.
    induction fuel as [|f IH]; intros q acc Hq; cbn [closure_loop]; [apply np_oof|].
    destruct q as [|next q]; [apply np_ok|].
    destruct (ocontains item_cmp next acc); [apply IH; intros it Hit; apply Hq; right; exact Hit|].
    apply np_bind; [apply np_closure_implied_items, Hq; left; reflexivity|].
    intros implied Himp. apply IH. intros it Hit. apply in_app_or in Hit as [Hit|Hit]; [apply Hq; right; exact Hit|].
    eapply implied_rule_ok; eauto.
  Qed.

  Lemma np_get_closure fuel K : (forall it, In it K -> rule_ok it) -> np (get_closure fuel cx K).
  Proof. apply np_closure_loop. Qed.

  (* ---------- the worklist ---------- *)

  Variable cfuel : nat.
  Hypothesis Hfm : fm_ok cx.

  Lemma state_rule_ok b i st it : BInv cx b -> sts b i = Some st -> In it st -> rule_ok it.
  Proof. intros HB Hs Hit. destruct (bi_states cx b HB i st Hs) as (_ & _ & Hok & _). apply item_wf_rule_ok, (Hok it Hit). Qed.

  Lemma np_enqueue_state b s : np (enqueue_state_if_needed b s).
  Proof.
    unfold enqueue_state_if_needed. destruct (index_of_mergable (b_states b) s 0) as [i|] eqn:E; [|apply np_ok].
    destruct (index_of_mergable_some _ _ _ _ E) as (j & e & -> & Hn & _). cbn [plus]. rewrite Hn. cbn [unwrap bind].
    destruct (add_items e s false). apply np_ok.
  Qed.

  Lemma np_advance x it : rule_ok it -> np (advance cx x it).
  Proof.
    intros H. unfold advance. apply np_bind; [apply np_symbol_right_of_dot, H|]. intros [s|] _; [|apply np_ok].
    destruct (symbol_eqb s x); apply np_ok.
  Qed.

  Lemma np_transition_target b i x : BInv cx b -> i < length (b_states b) -> np (enqueue_transition_target cfuel cx b i x).
  Proof.
    intros HB Hi. unfold enqueue_transition_target.
    destruct (nth_error (b_states b) i) as [st|] eqn:Es; [|apply nth_error_None in Es; lia]. cbn [unwrap bind].
    assert (Hst : forall it, In it st -> item_ok cx it) by (intros it Hit; apply (bi_states cx b HB i st Es), Hit).
    apply np_bind; [apply np_map_res; intros it Hit; apply np_advance, item_wf_rule_ok, (Hst it Hit)|].
    intros advanced Hadv. rewrite (map_advance_spec cx x st advanced Hadv).
    apply np_bind.
    - apply np_get_closure. intros it Hit. apply item_wf_rule_ok. apply (advK_ok cx st x Hst it Hit).
    - intros target _. apply np_bind; [apply np_enqueue_state|]. intros [b' j] _. apply np_ok.
  Qed.

  Lemma np_targets i syms : forall b,
    BInv cx b -> Cov cx b [i] ->
    (forall x, In x syms -> exists sti it, sts b i = Some sti /\ In it sti /\ next_sym cx it = Some x) ->
    np (enqueue_targets cfuel cx b i syms).
  Proof.
    induction syms as [|x syms IH]; intros b HB HC Hsy; cbn [enqueue_targets]; [apply np_ok|].
    destruct (Hsy x (or_introl eq_refl)) as (sti & it & Hs & Hit & Hn).
    apply np_bind; [apply np_transition_target; [exact HB|eapply sts_length; eauto]|].
    intros b1 H1.
    destruct (transition_target_spec cx cfuel Hfm b i x b1 HB HC (Hsy x (or_introl eq_refl)) H1) as (He1 & HB1 & HC1 & _).
    apply IH; [exact HB1|exact HC1|]. intros y Hy. destruct (Hsy y (or_intror Hy)) as (st & it' & Hs' & Hit' & Hn').
    destruct (proj1 He1 i st Hs') as (st1 & Hs1 & Hinc & _). exists st1, it'. auto.
  Qed.

  Lemma np_symbols_right_of_dot st : (forall it, In it st -> rule_ok it) -> np (symbols_right_of_dot cx st).
  Proof.
    intros H. unfold symbols_right_of_dot. apply np_bind; [apply np_map_res; intros it Hit; apply np_symbol_right_of_dot, H, Hit|].
    intros l _. apply np_ok.
  Qed.

  Lemma np_build_loop fuel : forall b, BInv cx b -> Cov cx b [] -> np (build_loop fuel cfuel cx b).
  Proof.
    induction fuel as [|f IH]; intros b HB HC; cbn [build_loop]; [apply np_oof|].
    destruct (b_queue b) as [|i q] eqn:Eq; [apply np_ok|]. cbn [b_states].
    assert (Hi : i < length (b_states b)) by (apply (bi_queue cx b HB); rewrite Eq; left; reflexivity).
    destruct (nth_error (b_states b) i) as [sti|] eqn:Ei; [|apply nth_error_None in Ei; lia]. cbn [unwrap bind].
    apply np_bind; [apply np_symbols_right_of_dot; intros it Hit; eapply state_rule_ok; eauto|].
    intros syms Hsy.
    set (b0 := {| b_states := b_states b; b_transitions := b_transitions b; b_queue := q |}) in *.
    assert (HB0 : BInv cx b0).
    { destruct HB as [A B C D E F G H']. split; auto. intros k Hk. apply B. rewrite Eq. right. exact Hk. }
    assert (HC0 : Cov cx b0 [i]).
    { intros k Hk1 Hk2 Hk3. cbn [b_states b_queue] in *.
      apply HC; [exact Hk1| |intros []]. rewrite Eq. intros [<-|Hin]; [apply Hk3; left; reflexivity|contradiction]. }
    pose proof (symbols_right_of_dot_spec cx sti syms Hsy) as Hsyms.
    assert (Hprem : forall x, In x syms -> exists st it, sts b0 i = Some st /\ In it st /\ next_sym cx it = Some x).
    { intros x Hx. apply Hsyms in Hx as (it & Hit & Hn). exists sti, it. auto. }
    apply np_bind; [apply np_targets; assumption|].
    intros b1 Ht. destruct (targets_spec cx cfuel Hfm i syms b0 b1 HB0 HC0 Hprem Ht) as (He & HB1 & HC1 & Hcov).
    apply (IH b1 HB1).
    intros k Hk1 Hk2 _. destruct (Nat.eq_dec k i) as [->|Hne]; [|apply HC1; [exact Hk1|exact Hk2|intros [E|[]]; congruence]].
    intros st' it x Hs' Hit Hn.
    destruct (proj1 He i sti Ei) as (sti1 & Hs1 & _ & _ & [->|Hin]); [|contradiction].
    rewrite Hs1 in Hs'. injection Hs' as <-.
    apply (Hcov sti it x Ei Hit); [|exact Hn]. apply Hsyms. eauto.
  Qed.

  (* ---------- normalisation ---------- *)

  Lemma np_normalize ho b : BInv cx b -> (forall l, Permutation (ho l) l) -> np (normalize_machine ho (b_states b) (b_transitions b)).
  Proof.
    intros HB Hperm. unfold normalize_machine. fold (sorted (b_states b)). fold (upd (b_states b)).
    apply np_bind.
    - apply np_map_res. intros t Ht. apply (proj1 (ofrom_iter_in transition_cmp transition_cmp_laws _ _)) in Ht.
      apply (Permutation_in _ (Hperm _)) in Ht. destruct (bi_trans cx b HB t Ht) as (sf & st' & Hsf & Hst' & _).
      unfold update_transition, update_index. unfold sts in *.
      destruct (upd_total (b_states b) _ _ Hsf) as (nf & -> & _). destruct (upd_total (b_states b) _ _ Hst') as (nt & -> & _).
      cbn. apply np_ok.
    - intros ts' _. apply np_bind; [|intros; apply np_ok].
      destruct (bi_zero cx b HB) as (st0 & Hs0 & _). unfold update_index, sts in *.
      destruct (upd_total (b_states b) 0 st0 Hs0) as (n0 & -> & _). apply np_ok.
  Qed.
End Machine.

Theorem np_validated_ast_to_machine ho fu v : (forall l, Permutation (ho l) l) -> np (validated_ast_to_machine ho fu v).
Proof.
  intros Hperm. unfold validated_ast_to_machine. apply np_bind.
  - unfold make_context. apply np_bind; [apply np_get_first_sets|]. intros fm _. apply np_ok.
  - intros cx Hcx. unfold make_context in Hcx. apply bind_ok in Hcx as (fm & Hfm & Hcx). injection Hcx as <-.
    destruct (get_first_sets_spec _ _ _ Hfm) as (HFI & _).
    set (cx := {| cx_start := vf_start v; cx_rules := get_rules v; cx_first := fm |}).
    assert (Hfmok : fm_ok cx).
    { intros n fs u Hg Hu. destruct (fi_occurs _ _ HFI n fs u Hg Hu) as (ru & Hru & Hs). exists ru. auto. }
    apply np_bind.
    + apply (np_get_closure cx). intros it [<-|[]]. unfold rule_ok. cbn. discriminate.
    + intros start Hstart. apply np_bind.
      * destruct (get_closure_spec cx _ _ _ Hstart) as (Hsorted & Hreach).
        (* the initial builder satisfies the invariants: replay of build_spec's first half *)
        assert (Hinit : BInv cx {| b_states := [start]; b_transitions := []; b_queue := [0] |} /\
                        Cov cx {| b_states := [start]; b_transitions := []; b_queue := [0] |} []).
        { apply (initial_builder_inv cx (fu_closure fu) Hfmok start Hstart). }
        apply (np_build_loop cx (fu_closure fu) Hfmok); apply Hinit.
      * intros b Hb. destruct (build_spec cx (fu_closure fu) Hfmok (fu_build fu) start b Hstart Hb) as (HB & _ & _).
        apply (np_normalize cx); assumption.
Qed.

(* ---------- machine_to_table ---------- *)

Lemma got_get_some l s n g : got_get l s n = Some g -> In (s, n) (map fst l).
Proof.
  induction l as [|[[s' n'] v] l IH]; cbn; [discriminate|].
  destruct (Nat.eqb s s' && str_eqb n n') eqn:E; [|intros H; right; apply IH, H].
  apply andb_true_iff in E as (E1 & E2). apply Nat.eqb_eq in E1. apply str_eqb_eq in E2. subst. intros _. left. reflexivity.
Qed.

Section TableStage.
  Variable v : vfile.
  Variable cx : context.
  Variable m : machine.
  Hypothesis HV : VWF v.
  Hypothesis Hcx_rules : cx_rules cx = get_rules v.
  Hypothesis Hcx_start : cx_start cx = vf_start v.
  Hypothesis HM : MInv cx m.
  Notation rules := (get_rules v).
  Notation ns := (length (m_states m)).

  Lemma rule_syms_declared o syms x : rule_syms cx o = Some syms -> In x syms -> sym_declared v x.
  Proof.
    unfold rule_syms. destruct o as [r|].
    - rewrite Hcx_rules. destruct (nth_error rules r) as [ru|] eqn:E; [|discriminate]. cbn. intros H; injection H as <-.
      intros Hx. apply (vw_refs v HV ru x (nth_error_In _ _ E) Hx).
    - intros H; injection H as <-. intros [<-|[]]. cbn. rewrite Hcx_start. apply (vw_start v HV).
  Qed.

  Lemma tok_declared u : tok cx u -> In u (v_tnames v).
  Proof. intros (ru & Hru & Hs). rewrite Hcx_rules in Hru. apply (vw_refs v HV ru (SymT u) Hru Hs). Qed.

  Lemma shift_dest_exists s st it u : nth_error (m_states m) s = Some st -> In it st -> next_sym cx it = Some (SymT u) ->
    get_shift_dest m s u <> None.
  Proof.
    intros Hs Hit Hn. destruct (mi_goto cx m HM s st it _ Hs Hit Hn) as (trn & st' & Hin & Hf & Hsy & _).
    unfold get_shift_dest.
    destruct (find (fun x => Nat.eqb (tr_from x) s && symbol_eqb (tr_symbol x) (SymT u)) (m_transitions m)) eqn:E; [discriminate|].
    exfalso. pose proof (find_none _ _ E trn Hin) as Hb. cbn in Hb. rewrite Hf, Nat.eqb_refl, Hsy in Hb. cbn in Hb.
    assert (symbol_eqb (SymT u) (SymT u) = true) by (apply symbol_eqb_eq; reflexivity). congruence.
  Qed.

  Lemma np_set_action b s q it a : np (set_action m v b s q it a).
  Proof. unfold set_action. destruct (act_get (tb_act b) s q) as [[ei ea]|]; [destruct (action_eqb ea a); [apply np_ok|apply np_err]|apply np_ok]. Qed.

  Lemma np_add_item_action b s st it : nth_error (m_states m) s = Some st -> In it st -> np (add_item_action m v rules b s it).
  Proof.
    intros Hs Hit. destruct (mi_states cx m HM s st Hs) as (_ & _ & Hok & _). destruct (Hok it Hit) as ((syms & Hr & Hd) & _).
    unfold add_item_action. destruct (it_rule it) as [r|] eqn:Er.
    - cbn [rule_syms] in Hr. rewrite Hcx_rules in Hr. destruct (nth_error rules r) as [ru|] eqn:Eru; [|discriminate].
      cbn in Hr. injection Hr as <-. cbn [unwrap bind].
      destruct (Nat.eqb_spec (it_dot it) (fieldset_len (ru_fieldset ru))) as [E|Hne]; [apply np_set_action|].
      assert (Hlt : it_dot it < length (field_symbols (ru_fieldset ru))).
      { assert (fieldset_len (ru_fieldset ru) = length (field_symbols (ru_fieldset ru))).
        { destruct (ru_fieldset ru); cbn; [reflexivity|rewrite map_length; reflexivity|rewrite map_length; reflexivity]. }
        lia. }
      destruct (nth_error (field_symbols (ru_fieldset ru)) (it_dot it)) as [sy|] eqn:Esy; [|apply nth_error_None in Esy; lia].
      cbn [unwrap bind]. destruct sy as [u|n]; [|apply np_ok].
      apply np_bind; [|intros; apply np_set_action]. apply np_unwrap. eapply shift_dest_exists; eauto.
      unfold next_sym. rewrite Er. cbn [rule_syms]. rewrite Hcx_rules, Eru. cbn. exact Esy.
    - destruct (Nat.eqb (it_dot it) 0); [apply np_ok|apply np_set_action].
  Qed.

  Lemma np_add_state_actions s st items : nth_error (m_states m) s = Some st -> forall b, incl items st ->
    np (add_state_actions m v rules b s items).
  Proof.
    intros Hs. induction items as [|it items IH]; intros b Hin; cbn [add_state_actions]; [apply np_ok|].
    apply np_bind; [eapply np_add_item_action; [exact Hs|apply Hin; left; reflexivity]|].
    intros b' _. apply IH. intros x Hx. apply Hin. right. exact Hx.
  Qed.

  Lemma np_add_actions sts : forall b, (forall i st, In (i, st) sts -> nth_error (m_states m) i = Some st) ->
    np (add_actions m v rules b sts).
  Proof.
    induction sts as [|[i st] sts IH]; intros b H; cbn [add_actions]; [apply np_ok|].
    apply np_bind; [apply (np_add_state_actions i st st (H i st (or_introl eq_refl))); intros x Hx; exact Hx|].
    intros b' _. apply IH. intros j s Hj. apply H. right. exact Hj.
  Qed.

  Lemma np_add_gotos ts : forall b done, ginv b done -> NoDup (done ++ ts) -> incl (done ++ ts) (m_transitions m) ->
    np (add_gotos b ts).
  Proof.
    induction ts as [|t ts IH]; intros b done Hg Hnd Hinc; cbn [add_gotos]; [apply np_ok|].
    assert (Hre : done ++ t :: ts = (done ++ [t]) ++ ts) by (rewrite <- app_assoc; reflexivity).
    destruct (tr_symbol t) as [tn|n] eqn:Es.
    - apply (IH b (done ++ [t])); [|rewrite <- Hre; exact Hnd|rewrite <- Hre; exact Hinc].
      destruct Hg as (Hk & Hiff). split; [exact Hk|]. intros s n g. rewrite Hiff. split.
      + intros (t0 & Hin & Hr). exists t0. split; [apply in_or_app; left; exact Hin|exact Hr].
      + intros (t0 & Hin & Hf & Hsym & Hgo). apply in_app_or in Hin as [Hin|[<-|[]]]; [eauto 6|congruence].
    - destruct (got_get (tb_got b) (tr_from t) n) as [g|] eqn:E.
      + exfalso. apply got_get_some in E. apply in_map_iff in E as ([[s0 n0] g0] & Ek & Hin). cbn in Ek. injection Ek as -> ->.
        destruct Hg as (_ & Hiff). apply Hiff in Hin as (t0 & Hin0 & Hf0 & Hs0 & _).
        assert (Ht0 : In t0 (m_transitions m)) by (apply Hinc, in_or_app; left; exact Hin0).
        assert (Ht : In t (m_transitions m)) by (apply Hinc, in_or_app; right; left; reflexivity).
        assert (Hto : tr_to t0 = tr_to t) by (apply (mi_det cx m HM t0 t Ht0 Ht Hf0); congruence).
        assert (Heq : t0 = t) by (destruct t0, t; cbn in *; congruence). subst t0.
        apply NoDup_remove_2 in Hnd. apply Hnd. apply in_or_app. left. exact Hin0.
      + apply got_get_none in E. apply (IH _ (done ++ [t])); [|rewrite <- Hre; exact Hnd|rewrite <- Hre; exact Hinc].
        destruct Hg as (Hk & Hiff). cbn [tb_got]. split.
        * cbn [tb_got]. rewrite map_app. cbn [map fst]. apply NoDup_app_single; assumption.
        * intros s n0 g. cbn [tb_got]. rewrite in_app_iff, Hiff. cbn [In]. split.
          -- intros [(t0 & Hin & Hr)|[E0|[]]].
             ++ exists t0. split; [apply in_or_app; left; exact Hin|exact Hr].
             ++ injection E0 as <- <- <-. exists t. split; [apply in_or_app; right; left; reflexivity|auto].
          -- intros (t0 & Hin & Hf & Hsym & Hgo). apply in_app_or in Hin as [Hin|[<-|[]]].
             ++ left. eauto 6.
             ++ right. left. rewrite Es in Hsym. injection Hsym as <-. subst. reflexivity.
  Qed.

  Lemma state_bound s it : in_state m s it -> s < ns.
  Proof. intros (st & Hs & _). apply nth_error_Some. congruence. Qed.

  Lemma demand_cell s it q a : in_state m s it -> demands m v s it q a -> exists c, qcol (v_tnames v) q = Some c.
  Proof.
    intros (st & Hs & Hit) Hd. destruct (mi_states cx m HM s st Hs) as (_ & _ & Hok & _). destruct (Hok it Hit) as (_ & Hla).
    inversion Hd as [Hr Hd0|r ru Hr Hru Hdot|r ru u dest Hr Hru Hdot Hsym Hgd]; subst.
    - exists (length (v_tnames v)). reflexivity.
    - unfold la_ok in Hla. destruct (it_la it) as [u|]; [|exists (length (v_tnames v)); reflexivity].
      destruct Hla as (Ht & _). apply tok_declared in Ht. cbn. apply position_str_In, Ht.
    - cbn. apply position_str_In. apply (vw_refs v HV ru (SymT u) (nth_error_In _ _ Hru)). eapply nth_error_In; eauto.
  Qed.

  Theorem np_machine_to_table ho : perm_ho ho -> np (machine_to_table ho m v).
  Proof.
    intros (Hpa & Hpg). unfold machine_to_table.
    apply np_bind.
    { apply np_add_actions. intros i st Hin. unfold enumerate in Hin. apply nth_error_enumerate_from in Hin as (_ & Hn).
      rewrite Nat.sub_0_r in Hn. exact Hn. }
    intros b1 Hb1. pose proof (binv_of_add_actions m v b1 Hb1) as Hbinv.
    destruct (add_actions_post m v _ {| tb_act := []; tb_got := [] |} b1 (NoDup_nil _) Hb1) as (_ & (_ & Hgot1) & _).
    assert (Hg0 : ginv b1 []).
    { split; [cbn in Hgot1; rewrite Hgot1; constructor|]. intros s n g. cbn in Hgot1. rewrite Hgot1. split; [intros []|intros (t & [] & _)]. }
    apply np_bind.
    { apply (np_add_gotos (m_transitions m) b1 [] Hg0); [apply (mi_nodup cx m HM)|intros x Hx; exact Hx]. }
    intros b2 Hb2. destruct (add_gotos_post _ b1 b2 [] Hg0 Hb2) as ((_ & Hgiff) & Hact). cbn [app] in Hgiff.
    pose proof (empty_table_shape m v) as Hsh0.
    assert (Hfa : exists t1, fill_actions (get_empty_table m v) (ho_actions ho (tb_act b2)) = Ok t1).
    { apply (fill_actions_complete _ _ ns Hsh0). intros [[s q] [it a]] He. cbn [fst snd].
      apply (Permutation_in _ (Hpa _)) in He. rewrite Hact in He. destruct (Hbinv s q it a He) as (His & Hdem).
      split; [apply (state_bound s it His)|]. destruct (demand_cell s it q a His Hdem) as (c & Hc).
      unfold acell. cbn [get_empty_table tb_terminals]. fold (v_tnames v). rewrite Hc. cbn. eauto. }
    destruct Hfa as (t1 & Ht1). rewrite Ht1. cbn [bind].
    destruct (fill_actions_ok _ _ ns t1 Hsh0 Ht1) as (_ & _ & _ & _ & _ & _ & Hnt1 & _ & _ & Hsh1).
    assert (Hfg : exists t2, fill_gotos t1 (ho_gotos ho (tb_got b2)) = Ok t2).
    { apply (fill_gotos_complete _ _ ns Hsh1). intros [[s n] g] He. cbn [fst snd].
      apply (Permutation_in _ (Hpg _)) in He. apply Hgiff in He as (trn & Hin & Hf & Hsy & _).
      split; [rewrite <- Hf; apply (mi_trans_bound cx m HM trn Hin)|].
      destruct (mi_sym cx m HM trn Hin) as (sf & it & Hsf & Hit & Hn).
      destruct (mi_states cx m HM _ sf Hsf) as (_ & _ & Hok & _). destruct (Hok it Hit) as ((syms & Hr & _) & _).
      unfold next_sym in Hn. rewrite Hr in Hn. apply nth_error_In in Hn. pose proof (rule_syms_declared _ _ _ Hr Hn) as Hd.
      rewrite Hsy in Hd. cbn in Hd. apply position_str_In in Hd as (c & Hc).
      unfold gcell. rewrite Hnt1. cbn [get_empty_table tb_nonterminals]. fold (v_nnames v). rewrite Hc. cbn. eauto. }
    destruct Hfg as (t2 & ->). apply np_ok.
  Qed.
End TableStage.

Theorem np_machine_to_table_of_generated hot hoa fu v m :
  VWF v -> (forall l, Permutation (hot l) l) -> perm_ho hoa ->
  validated_ast_to_machine hot fu v = Ok m -> np (machine_to_table hoa m v).
Proof.
  intros HV Hpt Hpa Hm. unfold validated_ast_to_machine in Hm.
  apply bind_ok in Hm as (cx & Hcx & Hm). apply bind_ok in Hm as (start & Hstart & Hm).
  unfold make_context in Hcx. apply bind_ok in Hcx as (fm & Hfm & Hcx). injection Hcx as <-.
  destruct (get_first_sets_spec _ _ _ Hfm) as (HFI & _).
  set (cx := {| cx_start := vf_start v; cx_rules := get_rules v; cx_first := fm |}) in *.
  assert (Hfmok : fm_ok cx).
  { intros n fs u Hg Hu. destruct (fi_occurs _ _ HFI n fs u Hg Hu) as (ru & Hru & Hs). exists ru. auto. }
  pose proof (machine_spec cx Hfmok hot (fu_build fu) (fu_closure fu) m start Hpt Hstart Hm) as HM.
  apply (np_machine_to_table v cx m HV eq_refl eq_refl HM hoa Hpa).
Qed.

(* ---------- C04: a table is produced exactly when no two items conflict ---------- *)

Lemma nf_set_action m f b s q it a : nf (set_action m f b s q it a).
Proof. unfold set_action. destruct (act_get _ _ _) as [[ei ea]|]; [destruct (action_eqb ea a)|]; discriminate 1. Qed.

Lemma nf_add_item_action m f rules b s it : nf (add_item_action m f rules b s it).
Proof.
  unfold add_item_action. destruct (it_rule it) as [r|].
  - apply nf_bind; [apply nf_unwrap|]. intros ru. destruct (Nat.eqb _ _); [apply nf_set_action|].
    apply nf_bind; [apply nf_unwrap|]. intros [u|n]; [|discriminate 1]. apply nf_bind; [apply nf_unwrap|intros; apply nf_set_action].
  - destruct (Nat.eqb _ _); [discriminate 1|apply nf_set_action].
Qed.

Lemma nf_add_state_actions m f rules s items : forall b, nf (add_state_actions m f rules b s items).
Proof. induction items as [|it items IH]; intros b; cbn [add_state_actions]; [discriminate 1|]. apply nf_bind; [apply nf_add_item_action|apply IH]. Qed.

Lemma nf_add_actions m f rules sts : forall b, nf (add_actions m f rules b sts).
Proof. induction sts as [|[i st] sts IH]; intros b; cbn [add_actions]; [discriminate 1|]. apply nf_bind; [apply nf_add_state_actions|apply IH]. Qed.

Lemma nf_add_gotos ts : forall b, nf (add_gotos b ts).
Proof.
  induction ts as [|t ts IH]; intros b; cbn [add_gotos]; [discriminate 1|]. destruct (tr_symbol t); [apply IH|].
  destruct (got_get _ _ _); [discriminate 1|apply IH].
Qed.

Lemma nf_table_set_action t s q a : nf (table_set_action t s q a).
Proof.
  unfold table_set_action, action_index, state_count. apply nf_bind.
  - apply nf_bind; [destruct q; [apply nf_unwrap|discriminate 1]|]. intros qi. cbn [bind]. destruct (Nat.leb _ _); discriminate 1.
  - intros i. destruct (Nat.leb _ _); discriminate 1.
Qed.

Lemma nf_table_set_goto t s n g : nf (table_set_goto t s n g).
Proof.
  unfold table_set_goto, goto_index, state_count. apply nf_bind.
  - apply nf_bind; [apply nf_unwrap|]. intros ni. cbn [bind]. destruct (Nat.leb _ _); discriminate 1.
  - intros i. destruct (Nat.leb _ _); discriminate 1.
Qed.

Lemma nf_fill_actions l : forall t, nf (fill_actions t l).
Proof. induction l as [|[[s q] [it a]] l IH]; intros t; cbn [fill_actions]; [discriminate 1|]. apply nf_bind; [apply nf_table_set_action|apply IH]. Qed.

Lemma nf_fill_gotos l : forall t, nf (fill_gotos t l).
Proof. induction l as [|[[s n] g] l IH]; intros t; cbn [fill_gotos]; [discriminate 1|]. apply nf_bind; [apply nf_table_set_goto|apply IH]. Qed.

Lemma nf_machine_to_table ho m f : nf (machine_to_table ho m f).
Proof.
  unfold machine_to_table. apply nf_bind; [apply nf_add_actions|]. intros b. apply nf_bind; [apply nf_add_gotos|]. intros b'.
  apply nf_bind; [apply nf_fill_actions|]. intros t. apply nf_fill_gotos.
Qed.

(* no two items of a state ask for different actions on the same lookahead *)
Definition conflict_free (m : machine) (f : vfile) : Prop :=
  forall s it1 it2 q a1 a2, in_state m s it1 -> in_state m s it2 ->
                            demands m f s it1 q a1 -> demands m f s it2 q a2 -> a1 = a2.

Theorem table_iff_conflict_free v cx m ho :
  VWF v -> cx_rules cx = get_rules v -> cx_start cx = vf_start v -> MInv cx m -> perm_ho ho ->
  ((exists t, machine_to_table ho m v = Ok t) <-> conflict_free m v).
Proof.
  intros HV Hr Hs HM Hho. split.
  - intros (t & Ht). pose proof (machine_to_table_spec m v ho t Hho Ht) as HT.
    intros s it1 it2 q a1 a2 H1 H2 D1 D2.
    pose proof (ts_demand m v t HT s it1 q a1 H1 D1) as E1. pose proof (ts_demand m v t HT s it2 q a2 H2 D2) as E2. congruence.
  - intros Hcf. destruct (machine_to_table ho m v) as [t|e|site|site] eqn:E; [eauto| | |].
    + exfalso. destruct (conflict_is_genuine m v ho e E) as (c & _ & _ & _ & _ & H1 & H2 & q & a1 & a2 & D1 & D2 & Hne).
      apply Hne. apply (Hcf _ _ _ _ _ _ H1 H2 D1 D2).
    + exfalso. apply (np_machine_to_table v cx m HV Hr Hs HM ho Hho site E).
    + exfalso. apply (nf_machine_to_table ho m v site E).
Qed.
