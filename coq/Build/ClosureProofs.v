(* Build/ClosureProofs.v — the item-set closure of the model (get_closure) computes
   exactly the items reachable from the kernel by the closure rule, as a strictly
   sorted list; the core of a closure depends only on the core of its kernel. *)
From Coq Require Import List Arith Lia Bool Sorting.Sorted.
From Kiki Require Import Base.Ord Base.OrdProofs Base.Chars Data DataProofs Oset.Model Oset.Proofs Ast.ValidateProofs
  Build.Machine Build.Table Build.TableProofs Build.FillProofs Build.TableSpec.
Import ListNotations.
Open Scope nat_scope.

Notation isorted := (SSorted item_cmp).

Lemma isorted_nil : isorted [].
Proof. constructor. Qed.

Lemma ocontains_item x st : isorted st -> ocontains item_cmp x st = true <-> In x st.
Proof. apply (ocontains_spec item_cmp item_cmp_laws). Qed.

Lemma oinsert_item_in x st y : In y (oinsert item_cmp x st) <-> y = x \/ In y st.
Proof. apply (oinsert_in item_cmp item_cmp_laws). Qed.

Lemma oinsert_item_sorted x st : isorted st -> isorted (oinsert item_cmp x st).
Proof. apply (oinsert_sorted item_cmp item_cmp_laws). Qed.

Lemma In_enumerate_iff {A} (l : list A) i x : In (i, x) (enumerate l) <-> nth_error l i = Some x.
Proof.
  unfold enumerate. split.
  - intros H. apply nth_error_enumerate_from in H as (_ & H). rewrite Nat.sub_0_r in H. exact H.
  - intros H. apply (In_enumerate_from' l 0 i x H).
Qed.

Section Closure.
  Variable cx : context.
  Notation rules := (cx_rules cx).

  (* the right-hand side of an item's rule; the augmented rule is S' -> start *)
  Definition rule_syms (r : option nat) : option (list symbol) :=
    match r with
    | None => Some [SymN (cx_start cx)]
    | Some r => option_map (fun ru => field_symbols (ru_fieldset ru)) (nth_error rules r)
    end.

  Definition item_wf (it : item) : Prop :=
    exists rhs, rule_syms (it_rule it) = Some rhs /\ it_dot it <= length rhs.

  Definition next_sym (it : item) : option symbol :=
    match rule_syms (it_rule it) with
    | Some rhs => nth_error rhs (it_dot it)
    | None => None
    end.

  Definition adv (it : item) : item := {| it_rule := it_rule it; it_la := it_la it; it_dot := S (it_dot it) |}.

  Lemma symbol_right_of_dot_spec it o : symbol_right_of_dot cx it = Ok o ->
    exists rhs, rule_syms (it_rule it) = Some rhs /\ o = nth_error rhs (it_dot it).
  Proof.
    unfold symbol_right_of_dot, rule_syms. destruct (it_rule it) as [r|].
    - destruct (nth_error rules r) as [ru|]; cbn [unwrap bind option_map]; [|discriminate].
      intros H; injection H as <-. eauto.
    - intros H; injection H as <-. exists [SymN (cx_start cx)]. split; [reflexivity|].
      destruct (it_dot it) as [|[|d]]; reflexivity.
  Qed.

  Lemma symbol_right_of_dot_next it o : symbol_right_of_dot cx it = Ok o -> o = next_sym it.
  Proof.
    intros H. apply symbol_right_of_dot_spec in H as (rhs & Hr & ->). unfold next_sym. rewrite Hr. reflexivity.
  Qed.

  Lemma symbols_after_dot_spec it l : symbols_after_dot cx it = Ok l ->
    exists rhs, rule_syms (it_rule it) = Some rhs /\ l = skipn (it_dot it) rhs.
  Proof.
    unfold symbols_after_dot, rule_syms. destruct (it_rule it) as [r|].
    - destruct (nth_error rules r) as [ru|]; cbn [unwrap bind option_map]; [|discriminate].
      intros H; injection H as <-. eauto.
    - intros H; injection H as <-. exists [SymN (cx_start cx)]. split; [reflexivity|].
      destruct (it_dot it) as [|[|d]]; reflexivity.
  Qed.

  Lemma In_rule_indices_for name r :
    In r (rule_indices_for cx name) <-> exists ru, nth_error rules r = Some ru /\ ru_type ru = name.
  Proof.
    unfold rule_indices_for. rewrite in_flat_map. split.
    - intros ([i ru] & Hin & Hr). apply In_enumerate_iff in Hin.
      destruct (str_eqb (ru_type ru) name) eqn:E; [|contradiction]. destruct Hr as [<-|[]].
      apply str_eqb_eq in E. eauto.
    - intros (ru & Hn & Ht). exists (r, ru). split; [apply In_enumerate_iff; exact Hn|].
      subst name. rewrite str_eqb_refl. left. reflexivity.
  Qed.

  (* the lookaheads a closure item gets from the item that calls for it *)
  Definition las_of (it : item) (rhs : list symbol) : list (option str) :=
    augmented_first (first_of_sequence (cx_first cx) (skipn (S (it_dot it)) rhs) []) (it_la it).

  Definition implied_by (it x : item) : Prop :=
    exists rhs B r ru la,
      rule_syms (it_rule it) = Some rhs /\ nth_error rhs (it_dot it) = Some (SymN B) /\
      nth_error rules r = Some ru /\ ru_type ru = B /\ In la (las_of it rhs) /\
      x = {| it_rule := Some r; it_la := la; it_dot := 0 |}.

  Lemma closure_implied_items_spec it l : closure_implied_items cx it = Ok l ->
    (exists rhs, rule_syms (it_rule it) = Some rhs) /\ forall x, In x l <-> implied_by it x.
  Proof.
    unfold closure_implied_items. intros H. apply bind_ok in H as (sym & Hs & H).
    apply symbol_right_of_dot_spec in Hs as (rhs & Hr & ->). split; [eauto|].
    destruct (nth_error rhs (it_dot it)) as [[t|B]|] eqn:En.
    - injection H as <-. intros x. split; [intros []|]. intros (rhs' & B & r & ru & la & Hr' & Hn & _).
      rewrite Hr in Hr'. injection Hr' as <-. congruence.
    - apply bind_ok in H as (after & Ha & H). injection H as <-.
      apply symbols_after_dot_spec in Ha as (rhs' & Hr' & ->). cbn [it_rule it_dot] in Hr'.
      rewrite Hr in Hr'. injection Hr' as <-. intros x. rewrite in_flat_map. split.
      + intros (la & Hla & Hx). apply in_map_iff in Hx as (r & <- & Hri). apply In_rule_indices_for in Hri as (ru & Hru & Ht).
        exists rhs, B, r, ru, la. split; [exact Hr|]. split; [exact En|]. split; [exact Hru|]. split; [exact Ht|]. split; [exact Hla|reflexivity].
      + intros (rhs' & B' & r & ru & la & Hr' & Hn & Hru & Ht & Hla & ->).
        rewrite Hr in Hr'. injection Hr' as <-. rewrite En in Hn. injection Hn as <-.
        exists la. split; [exact Hla|]. apply (in_map (fun r => {| it_rule := Some r; it_la := la; it_dot := 0 |})).
        apply In_rule_indices_for. eauto.
    - injection H as <-. intros x. split; [intros []|]. intros (rhs' & B & r & ru & la & Hr' & Hn & _).
      rewrite Hr in Hr'. injection Hr' as <-. congruence.
  Qed.

  (* items reachable from a kernel by the closure rule *)
  Inductive reach (K : list item) : item -> Prop :=
  | reach_in it : In it K -> reach K it
  | reach_step jt it : reach K jt -> implied_by jt it -> reach K it.

  Lemma closure_loop_spec K : forall fuel q acc st,
      closure_loop fuel cx q acc = Ok st ->
      isorted acc ->
      (forall it, In it (acc ++ q) -> reach K it) ->
      (forall jt x, In jt acc -> implied_by jt x -> In x (acc ++ q)) ->
      incl K (acc ++ q) ->
      isorted st /\ (forall it, In it st -> reach K it) /\ incl K st /\
      (forall jt x, In jt st -> implied_by jt x -> In x st).
  Proof.
    induction fuel as [|f IH]; intros q acc st H Hs Hr Hc Hk; cbn [closure_loop] in H; [discriminate|].
    destruct q as [|next q].
    - injection H as <-. rewrite app_nil_r in *. auto.
    - destruct (ocontains item_cmp next acc) eqn:E.
      + apply (ocontains_item next acc Hs) in E.
        apply (IH q acc st H Hs).
        * intros it Hin. apply Hr. apply in_app_or in Hin as [Hin|Hin]; apply in_or_app; [left|right; right]; assumption.
        * intros jt x Hj Hi. specialize (Hc jt x Hj Hi). apply in_app_or in Hc as [Hc|[<-|Hc]]; apply in_or_app; auto.
        * intros x Hx. specialize (Hk x Hx). apply in_app_or in Hk as [Hk|[<-|Hk]]; apply in_or_app; auto.
      + apply bind_ok in H as (l & Hl & H). destruct (closure_implied_items_spec next l Hl) as (_ & Himp).
        apply (IH (q ++ l) (oinsert item_cmp next acc) st H (oinsert_item_sorted next acc Hs)).
        * intros it Hin. apply in_app_or in Hin as [Hin|Hin].
          -- apply oinsert_item_in in Hin as [->|Hin]; apply Hr; apply in_or_app; [right; left; reflexivity|left; exact Hin].
          -- apply in_app_or in Hin as [Hin|Hin]; [apply Hr; apply in_or_app; right; right; exact Hin|].
             apply (reach_step K next it); [apply Hr; apply in_or_app; right; left; reflexivity|apply Himp, Hin].
        * intros jt x Hj Hi. apply oinsert_item_in in Hj as [->|Hj].
          -- apply in_or_app. right. apply in_or_app. right. apply Himp, Hi.
          -- specialize (Hc jt x Hj Hi). apply in_app_or in Hc as [Hc|[<-|Hc]]; apply in_or_app.
             ++ left. apply oinsert_item_in. right. exact Hc.
             ++ left. apply oinsert_item_in. left. reflexivity.
             ++ right. apply in_or_app. left. exact Hc.
        * intros x Hx. specialize (Hk x Hx). apply in_app_or in Hk as [Hk|[<-|Hk]]; apply in_or_app.
          -- left. apply oinsert_item_in. right. exact Hk.
          -- left. apply oinsert_item_in. left. reflexivity.
          -- right. apply in_or_app. left. exact Hk.
  Qed.

  Theorem get_closure_spec fuel K st : get_closure fuel cx K = Ok st ->
    isorted st /\ forall it, In it st <-> reach K it.
  Proof.
    unfold get_closure. intros H.
    destruct (closure_loop_spec K fuel K [] st H isorted_nil) as (Hs & Hr & Hk & Hc).
    - intros it Hin. cbn [app] in Hin. apply reach_in, Hin.
    - intros jt x [].
    - intros x Hx. exact Hx.
    - split; [exact Hs|]. intros it. split; [apply Hr|]. induction 1 as [it Hin|jt it _ IHj Himp]; [apply Hk, Hin|].
      eapply Hc; eauto.
  Qed.

  (* ---------- cores ---------- *)

  Definition core_of (it : item) : option nat * nat := (it_rule it, it_dot it).
  Definition same_cores (a b : list item) : Prop :=
    forall c, In c (map core_of a) <-> In c (map core_of b).

  Lemma implied_by_core jt jt' x : core_of jt = core_of jt' -> implied_by jt x ->
    exists x', implied_by jt' x' /\ core_of x' = core_of x.
  Proof.
    unfold core_of. intros Hc (rhs & B & r & ru & la & Hr & Hn & Hru & Ht & Hla & ->).
    injection Hc as Hrule Hdot.
    (* the lookahead set of jt' is non-empty whenever that of jt is *)
    assert (Hne : exists la', In la' (las_of jt' rhs)).
    { unfold las_of in *. rewrite <- Hdot. unfold augmented_first in *.
      destruct (fs_eps (first_of_sequence (cx_first cx) (skipn (S (it_dot jt)) rhs) [])).
      - exists (it_la jt'). apply (ofrom_iter_in lookahead_cmp lookahead_cmp_laws). apply in_or_app. right. left. reflexivity.
      - exists la. exact Hla. }
    destruct Hne as (la' & Hla').
    exists {| it_rule := Some r; it_la := la'; it_dot := 0 |}. split; [|reflexivity].
    exists rhs, B, r, ru, la'. rewrite <- Hrule, <- Hdot. repeat split; auto.
  Qed.

  Lemma reach_core K K' : (forall it, In it K -> exists it', In it' K' /\ core_of it' = core_of it) ->
    forall it, reach K it -> exists it', reach K' it' /\ core_of it' = core_of it.
  Proof.
    intros HK it H. induction H as [it Hin|jt it _ (jt' & Hj' & Hc) Himp].
    - destruct (HK it Hin) as (it' & Hin' & Hc). exists it'. split; [apply reach_in, Hin'|exact Hc].
    - destruct (implied_by_core jt jt' it (eq_sym Hc) Himp) as (x' & Hi' & Hc').
      exists x'. split; [eapply reach_step; eauto|exact Hc'].
  Qed.
End Closure.
