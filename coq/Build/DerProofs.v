(* Build/DerProofs.v — leastness of the item sets: every item of every state of the automaton
   is DERIVABLE — obtained from the start item by finitely many applications of the closure
   rule (inside a state) and of a recorded transition (to its target, same lookahead).
   Together with closedness (Build/LoopInv.v, Build/MachineSpec.v) this says the lookahead
   sets are exactly the least solution of the LALR(1) propagation rules over the automaton. *)
From Coq Require Import List Arith Lia Bool Sorting.Sorted Permutation.
From Kiki Require Import Base.Ord Base.OrdProofs Base.Chars Data DataProofs Oset.Model Oset.Proofs Ast.ValidateProofs
  Build.Machine Build.Table Build.TableProofs Build.FillProofs Build.TableSpec Build.ClosureProofs Build.LoopProofs
  Build.LoopInv Build.NormProofs Build.MachineSpec.
Import ListNotations.
Open Scope nat_scope.

Section Der.
  Variable cx : context.
  Variable cfuel : nat.
  Hypothesis Hfm : fm_ok cx.
  Notation next_sym := (next_sym cx).
  Notation implied_by := (implied_by cx).
  Notation reach := (reach cx).
  Notation advK := (advK cx).

  (* derivable items, over a set of transitions and a start index *)
  Inductive Der (ts : list transition) (start : nat) : nat -> item -> Prop :=
  | der_start : Der ts start start start_item
  | der_closure j jt it : Der ts start j jt -> implied_by jt it -> Der ts start j it
  | der_goto t it : In t ts -> Der ts start (tr_from t) it -> next_sym it = Some (tr_symbol t) ->
                    Der ts start (tr_to t) (adv it).

  Lemma Der_mono ts ts' start j it : incl ts ts' -> Der ts start j it -> Der ts' start j it.
  Proof.
    intros Hi H. induction H as [|j jt it _ IH Himp|t it Ht _ IH Hn]; [apply der_start|eapply der_closure; eauto|apply der_goto; auto].
  Qed.

  Lemma Der_reach ts start j K it : (forall k, In k K -> Der ts start j k) -> reach K it -> Der ts start j it.
  Proof. intros HK H. induction H as [it Hin|jt it _ IH Himp]; [apply HK, Hin|eapply der_closure; eauto]. Qed.

  Definition DInv (b : builder) : Prop :=
    forall j st it, sts b j = Some st -> In it st -> Der (b_transitions b) 0 j it.

  (* where the items of the states come from after enqueue_state_if_needed *)
  Lemma enqueue_items b target b' j : BInv cx b -> enqueue_state_if_needed b target = Ok (b', j) ->
    b_transitions b' = b_transitions b /\
    forall k st' it, sts b' k = Some st' -> In it st' ->
                     (exists st, sts b k = Some st /\ In it st) \/ (k = j /\ In it target).
  Proof.
    intros HB H. unfold enqueue_state_if_needed in H.
    destruct (index_of_mergable (b_states b) target 0) as [i|] eqn:Em.
    - destruct (index_of_mergable_some _ _ _ _ Em) as (j0 & e & -> & Hn & _ & _). cbn [plus] in *.
      rewrite Hn in H. cbn [unwrap bind] in H. destruct (add_items e target false) as [st' added] eqn:Ea. injection H as <- <-.
      destruct (bi_states cx b HB j0 e Hn) as (Hes & _).
      destruct (add_items_spec _ _ _ _ _ Ea Hes) as (_ & Hin' & _).
      split; [reflexivity|]. intros k s it Hs Hit. unfold sts in *. cbn [b_states] in Hs. rewrite nth_error_list_set in Hs.
      destruct (Nat.eqb_spec j0 k) as [<-|Hne].
      + assert (Hlt : j0 < length (b_states b)) by (apply nth_error_Some; congruence).
        replace (Nat.ltb j0 (length (b_states b))) with true in Hs by (symmetry; apply Nat.ltb_lt; exact Hlt). injection Hs as <-.
        apply Hin' in Hit as [Hit|Hit]; [left; eauto|right; auto].
      + left. eauto.
    - injection H as <- <-. split; [reflexivity|]. intros k s it Hs Hit. unfold sts in *. cbn [b_states] in Hs.
      rewrite nth_error_snoc in Hs. destruct (Nat.eqb_spec k (length (b_states b))) as [->|Hne].
      + injection Hs as <-. right. auto.
      + left. eauto.
  Qed.

  Lemma transition_target_der b i x b' :
    BInv cx b -> DInv b -> enqueue_transition_target cfuel cx b i x = Ok b' -> DInv b'.
  Proof.
    intros HB HD H. unfold enqueue_transition_target in H.
    destruct (nth_error (b_states b) i) as [sti|] eqn:Hsi; cbn [unwrap bind] in H; [|discriminate].
    apply bind_ok in H as (advanced & Hadv & H). apply bind_ok in H as (target & Hcl & H).
    apply bind_ok in H as ([b1 j] & Henq & H). injection H as <-.
    rewrite (map_advance_spec cx x sti advanced Hadv) in Hcl.
    destruct (get_closure_spec cx cfuel _ _ Hcl) as (_ & Htreach).
    destruct (enqueue_items b target b1 j HB Henq) as (Htr1 & Hsrc).
    set (t0 := {| tr_from := i; tr_to := j; tr_symbol := x |}).
    intros k st' it Hs Hit. unfold sts in Hs. cbn [b_states b_transitions] in *.
    destruct (Hsrc k st' it Hs Hit) as [(st & Hst & Hin)|(-> & Hin)].
    - apply (Der_mono (b_transitions b)); [rewrite Htr1; intros y Hy; right; exact Hy|]. apply (HD k st it Hst Hin).
    - apply Htreach in Hin. apply (Der_reach _ _ _ (advK sti x)); [|exact Hin].
      intros kk Hk. apply In_advK in Hk as (it0 & Hit0 & Hn0 & ->).
      apply (der_goto _ _ t0 it0); [left; reflexivity| |exact Hn0].
      cbn [t0 tr_from]. apply (Der_mono (b_transitions b)); [rewrite Htr1; intros y Hy; right; exact Hy|]. apply (HD i sti it0 Hsi Hit0).
  Qed.

  Lemma targets_der i syms : forall b b',
    BInv cx b -> Cov cx b [i] -> DInv b ->
    (forall x, In x syms -> exists sti it, sts b i = Some sti /\ In it sti /\ next_sym it = Some x) ->
    enqueue_targets cfuel cx b i syms = Ok b' -> DInv b'.
  Proof.
    induction syms as [|x syms IH]; intros b b' HB HC HD Hsy H; cbn [enqueue_targets] in H; [injection H as <-; exact HD|].
    apply bind_ok in H as (b1 & H1 & H).
    destruct (transition_target_spec cx cfuel Hfm b i x b1 HB HC (Hsy x (or_introl eq_refl)) H1) as (He1 & HB1 & HC1 & _).
    apply (IH b1 b' HB1 HC1 (transition_target_der b i x b1 HB HD H1)); [|exact H].
    intros y Hy. destruct (Hsy y (or_intror Hy)) as (st & it' & Hs' & Hit' & Hn').
    destruct (proj1 He1 i st Hs') as (st1 & Hs1 & Hinc & _). exists st1, it'. auto.
  Qed.

  Lemma build_loop_der fuel : forall b b',
    BInv cx b -> Cov cx b [] -> DInv b -> build_loop fuel cfuel cx b = Ok b' -> DInv b'.
  Proof.
    induction fuel as [|f IH]; intros b b' HB HC HD H; cbn [build_loop] in H; [discriminate|].
    destruct (b_queue b) as [|i q] eqn:Eq; [injection H as <-; exact HD|]. cbn [b_states] in H.
    destruct (nth_error (b_states b) i) as [sti|] eqn:Ei; [|discriminate]. cbn [unwrap bind] in H.
    apply bind_ok in H as (syms & Hsy & H). apply bind_ok in H as (b1 & Ht & H).
    set (b0 := {| b_states := b_states b; b_transitions := b_transitions b; b_queue := q |}) in *.
    assert (HB0 : BInv cx b0).
    { destruct HB as [A B C D E F G H']. split; auto. intros k Hk. apply B. rewrite Eq. right. exact Hk. }
    assert (HC0 : Cov cx b0 [i]).
    { intros k Hk1 Hk2 Hk3. cbn [b_states b_queue] in *.
      apply HC; [exact Hk1| |intros []]. rewrite Eq. intros [<-|Hin]; [apply Hk3; left; reflexivity|contradiction]. }
    assert (HD0 : DInv b0) by exact HD.
    pose proof (symbols_right_of_dot_spec cx sti syms Hsy) as Hsyms.
    assert (Hprem : forall x, In x syms -> exists st it, sts b0 i = Some st /\ In it st /\ next_sym it = Some x).
    { intros x Hx. apply Hsyms in Hx as (it & Hit & Hn). exists sti, it. auto. }
    destruct (targets_spec cx cfuel Hfm i syms b0 b1 HB0 HC0 Hprem Ht) as (He & HB1 & HC1 & Hcov).
    apply (IH b1 b' HB1); [|apply (targets_der i syms b0 b1 HB0 HC0 HD0 Hprem Ht)|exact H].
    intros k Hk1 Hk2 _. destruct (Nat.eq_dec k i) as [->|Hne]; [|apply HC1; [exact Hk1|exact Hk2|intros [E|[]]; congruence]].
    intros st' it x Hs' Hit Hn.
    destruct (proj1 He i sti Ei) as (sti1 & Hs1 & _ & _ & [->|Hin]); [|contradiction].
    rewrite Hs1 in Hs'. injection Hs' as <-.
    apply (Hcov sti it x Ei Hit); [|exact Hn]. apply Hsyms. eauto.
  Qed.

  Theorem build_der fuel start b :
    get_closure cfuel cx [start_item] = Ok start ->
    build_loop fuel cfuel cx {| b_states := [start]; b_transitions := []; b_queue := [0] |} = Ok b ->
    DInv b.
  Proof.
    intros Hs H. destruct (initial_builder_inv cx cfuel Hfm start Hs) as (HB & HC).
    apply (build_loop_der fuel _ b HB HC); [|exact H].
    destruct (get_closure_spec cx cfuel _ _ Hs) as (_ & Hreach).
    intros j st it Hst Hit. unfold sts in Hst. cbn [b_states] in Hst. destruct j as [|[|j]]; try discriminate. injection Hst as <-.
    apply (Der_reach _ _ _ [start_item]); [|apply Hreach, Hit]. intros k [<-|[]]. apply der_start.
  Qed.
End Der.

(* ---------- through the normalisation: the same for the machine ---------- *)

Section MachineDer.
  Variable cx : context.

  Theorem normalize_der ho b m :
    BInv cx b -> DInv cx b -> (forall l, Permutation (ho l) l) ->
    normalize_machine ho (b_states b) (b_transitions b) = Ok m ->
    forall k st it, nth_error (m_states m) k = Some st -> In it st -> Der cx (m_transitions m) (m_start m) k it.
  Proof.
    intros HB HD Hperm H.
    assert (Hnd : NoDup (b_states b)).
    { apply NoDup_nth_error. intros i j Hi Hij. destruct (nth_error (b_states b) i) as [si|] eqn:Ei; [|apply nth_error_None in Ei; lia].
      symmetry in Hij. apply (bi_uniq cx b HB i j si si Ei Hij). apply same_cores_refl. }
    unfold normalize_machine in H. fold (sorted (b_states b)) in H. fold (upd (b_states b)) in H.
    set (states := b_states b) in *.
    apply bind_ok in H as (ts' & Hts & H). apply bind_ok in H as (start & Hstart & H). injection H as <-.
    cbn [m_start m_states m_transitions]. rewrite (new_states states Hnd).
    unfold update_index in Hstart. destruct (nth_error (upd states) 0) as [s0|] eqn:Eu0; [|discriminate]. injection Hstart as <-.
    (* the renamed index of every old state *)
    assert (Hpi : forall old st, nth_error states old = Some st -> exists new, nth_error (upd states) old = Some new) by
      (intros old st Ho; destruct (upd_total states old st Ho) as (new & Hu & _); eauto).
    (* derivability transported along the renaming *)
    assert (Htr : forall j it, Der cx (b_transitions b) 0 j it ->
                               forall new, nth_error (upd states) j = Some new ->
                                           Der cx (ofrom_iter transition_cmp ts') s0 new it).
    { intros j it Hd. induction Hd as [|j jt it _ IH Himp|t it Ht _ IH Hn]; intros new Hnew.
      - rewrite Eu0 in Hnew. injection Hnew as <-. apply der_start.
      - eapply der_closure; [apply IH, Hnew|exact Himp].
      - destruct (bi_trans cx b HB t Ht) as (sf & st' & Hsf & Hst' & _). unfold sts in Hsf, Hst'. fold states in Hsf, Hst'.
        destruct (Hpi _ _ Hsf) as (nf & Hnf).
        set (t' := {| tr_from := nf; tr_to := new; tr_symbol := tr_symbol t |}).
        assert (Hin' : In t' (ofrom_iter transition_cmp ts')).
        { apply (ofrom_iter_in transition_cmp transition_cmp_laws). apply (map_res_In _ _ _ Hts). exists t. split.
          - apply (ofrom_iter_in transition_cmp transition_cmp_laws). eapply Permutation_in; [apply Permutation_sym, Hperm|exact Ht].
          - unfold update_transition, update_index. rewrite Hnf, Hnew. reflexivity. }
        change new with (tr_to t'). apply (der_goto cx _ _ t' it Hin'); [apply (IH nf Hnf)|exact Hn]. }
    intros k st it Hk Hit. destruct (new_state_old states k st Hk) as (old & Ho & Hu).
    apply (Htr old it); [|exact Hu]. apply (HD old st it Ho Hit).
  Qed.

  (* distinct states have distinct LR(0) cores *)
  Theorem normalize_uniq ho b m :
    BInv cx b -> normalize_machine ho (b_states b) (b_transitions b) = Ok m ->
    forall i j si sj, nth_error (m_states m) i = Some si -> nth_error (m_states m) j = Some sj -> same_cores si sj -> i = j.
  Proof.
    intros HB H.
    assert (Hnd : NoDup (b_states b)).
    { apply NoDup_nth_error. intros i j Hi Hij. destruct (nth_error (b_states b) i) as [si|] eqn:Ei; [|apply nth_error_None in Ei; lia].
      symmetry in Hij. apply (bi_uniq cx b HB i j si si Ei Hij). apply same_cores_refl. }
    unfold normalize_machine in H. fold (sorted (b_states b)) in H. fold (upd (b_states b)) in H.
    apply bind_ok in H as (ts' & _ & H). apply bind_ok in H as (start & _ & H). injection H as <-.
    cbn [m_states]. rewrite (new_states (b_states b) Hnd).
    intros i j si sj Hi Hj Hc. destruct (new_state_old _ i si Hi) as (oi & Hoi & Hui). destruct (new_state_old _ j sj Hj) as (oj & Hoj & Huj).
    assert (oi = oj) by (apply (bi_uniq cx b HB oi oj si sj Hoi Hoj Hc)). subst oj. congruence.
  Qed.

  Theorem machine_uniq (Hfm : fm_ok cx) ho fuel cfuel m start :
    get_closure cfuel cx [start_item] = Ok start ->
    (do b <- build_loop fuel cfuel cx {| b_states := [start]; b_transitions := []; b_queue := [0] |};
     normalize_machine ho (b_states b) (b_transitions b)) = Ok m ->
    forall i j si sj, nth_error (m_states m) i = Some si -> nth_error (m_states m) j = Some sj -> same_cores si sj -> i = j.
  Proof.
    intros Hs H. apply bind_ok in H as (b & Hb & H).
    destruct (build_spec cx cfuel Hfm fuel start b Hs Hb) as (HB & _ & _). apply (normalize_uniq ho b m HB H).
  Qed.

  Theorem machine_der (Hfm : fm_ok cx) ho fuel cfuel m start :
    (forall l, Permutation (ho l) l) ->
    get_closure cfuel cx [start_item] = Ok start ->
    (do b <- build_loop fuel cfuel cx {| b_states := [start]; b_transitions := []; b_queue := [0] |};
     normalize_machine ho (b_states b) (b_transitions b)) = Ok m ->
    forall k st it, nth_error (m_states m) k = Some st -> In it st -> Der cx (m_transitions m) (m_start m) k it.
  Proof.
    intros Hperm Hs H. apply bind_ok in H as (b & Hb & H).
    destruct (build_spec cx cfuel Hfm fuel start b Hs Hb) as (HB & _ & _).
    apply (normalize_der ho b m HB (build_der cx cfuel Hfm fuel start b Hs Hb) Hperm H).
  Qed.
End MachineDer.
