(* Build/TableSpec.v — what machine_to_table returns on success: the ACTION cells are
   exactly the demands of the items of the machine (Err everywhere else), the GOTO cells
   exactly its nonterminal transitions; and the result does not depend on the order in
   which the two hash maps are iterated (C14, second site). *)
From Coq Require Import List Arith Lia Bool Permutation.
From Kiki Require Import Base.Ord Base.OrdProofs Base.Chars Data DataProofs Oset.Model Ast.ValidateProofs
  Build.Machine Build.Table Build.TableProofs Build.FillProofs.
Import ListNotations.
Open Scope nat_scope.

Lemma all_some_In {A B} (f : A -> option B) l ops : all_some (map f l) = Some ops ->
  forall o, In o ops <-> exists e, In e l /\ f e = Some o.
Proof.
  revert ops; induction l as [|x l IH]; intros ops H o; cbn in H.
  - injection H as <-. split; [intros []|intros (e & [] & _)].
  - destruct (f x) as [y|] eqn:E; [|discriminate]. destruct (all_some (map f l)) as [ops'|] eqn:E'; [|discriminate].
    injection H as <-. specialize (IH ops' eq_refl o). split.
    + intros [<-|Ho]; [exists x; split; [left; reflexivity|exact E]|]. apply IH in Ho as (e & He & Hf). exists e. split; [right; exact He|exact Hf].
    + intros (e & [<-|He] & Hf); [left; congruence|]. right. apply IH. exists e. split; assumption.
Qed.

Lemma all_some_none {A B} (f : A -> option B) l e : In e l -> f e = None -> all_some (map f l) = None.
Proof.
  induction l as [|x l IH]; [intros []|]. intros [->|Hin] He; cbn [map all_some].
  - rewrite He. reflexivity.
  - destruct (f x); [|reflexivity]. rewrite (IH Hin He). reflexivity.
Qed.

Lemma all_some_perm {A B} (f : A -> option B) l1 l2 ops1 : Permutation l1 l2 ->
  all_some (map f l1) = Some ops1 -> exists ops2, all_some (map f l2) = Some ops2 /\ Permutation ops1 ops2.
Proof.
  intros HP. revert ops1. induction HP as [|x l1 l2 HP IH|x y l|l1 l2 l3 HP1 IH1 HP2 IH2]; intros ops1 H; cbn in *.
  - injection H as <-. exists []. auto.
  - destruct (f x) as [a|]; [|discriminate]. destruct (all_some (map f l1)) as [o1|] eqn:E; [|discriminate].
    injection H as <-. destruct (IH o1 eq_refl) as (o2 & E2 & P2). exists (a :: o2). rewrite E2. auto.
  - destruct (f y) as [b|]; [|discriminate]. destruct (f x) as [a|]; [|discriminate].
    destruct (all_some (map f l)) as [o|]; [|discriminate]. injection H as <-. exists (a :: b :: o). split; [reflexivity|constructor].
  - destruct (IH1 _ H) as (o2 & E2 & P2). destruct (IH2 _ E2) as (o3 & E3 & P3). exists o3. split; [exact E3|].
    eapply Permutation_trans; eauto.
Qed.

Lemma all_some_NoDup_fst {A B K} (key : A -> K) (f : A -> option (nat * B)) l ops :
  all_some (map f l) = Some ops -> NoDup (map key l) ->
  (forall e e' i b b', In e l -> In e' l -> f e = Some (i, b) -> f e' = Some (i, b') -> key e = key e') ->
  NoDup (map fst ops).
Proof.
  revert ops; induction l as [|x l IH]; intros ops H Hnd Hinj; cbn in H.
  - injection H as <-. constructor.
  - destruct (f x) as [[i b]|] eqn:E; [|discriminate]. destruct (all_some (map f l)) as [ops'|] eqn:E'; [|discriminate].
    injection H as <-. cbn [map fst]. inversion Hnd as [|? ? Hnot Hnd']; subst. constructor.
    + intros Hin. apply in_map_iff in Hin as ([i' b'] & Ei & Hin). cbn in Ei. subst i'.
      apply (all_some_In f l ops' E') in Hin as (e & He & Hf).
      apply Hnot. rewrite (Hinj x e i b b' (or_introl eq_refl) (or_intror He) E Hf). apply in_map, He.
    + apply (IH ops' eq_refl Hnd'). intros e e' i0 b0 b0' He He'. apply Hinj; right; assumption.
Qed.

Lemma NoDup_app_single {A} (l : list A) x : NoDup l -> ~ In x l -> NoDup (l ++ [x]).
Proof.
  intros Hnd Hn. induction Hnd as [|y l Hy Hnd IH]; cbn; [constructor; [intros []|constructor]|].
  constructor.
  - intros Hin. apply in_app_or in Hin as [Hin|[<-|[]]]; [contradiction|]. apply Hn. left. reflexivity.
  - apply IH. intros Hin. apply Hn. right. exact Hin.
Qed.

Section Spec.
  Variable m : machine.
  Variable f : vfile.
  Notation rules := (get_rules f).
  Notation demands := (demands m f).
  Notation in_state := (in_state m).
  Notation binv := (binv m f).

  (* ---------- demands are functional ---------- *)

  Definition demand_of (s : nat) (it : item) : option (qt * action) :=
    match it_rule it with
    | None => if Nat.eqb (it_dot it) 0 then None else Some (None, AAccept)
    | Some r =>
        match nth_error rules r with
        | None => None
        | Some ru =>
            if Nat.eqb (it_dot it) (fieldset_len (ru_fieldset ru)) then Some (it_la it, AReduce r)
            else match nth_error (field_symbols (ru_fieldset ru)) (it_dot it) with
                 | Some (SymT t) => match get_shift_dest m s t with
                                    | Some dest => Some (Some t, AShift dest)
                                    | None => None
                                    end
                 | _ => None
                 end
        end
    end.

  Lemma demands_iff s it q a : demands s it q a <-> demand_of s it = Some (q, a).
  Proof.
    unfold demand_of. split.
    - intros H. inversion H as [Hr Hd|r ru Hr Hru Hd|r ru t dest Hr Hru Hd Hs Hg]; subst.
      + rewrite Hr. apply Nat.eqb_neq in Hd. rewrite Hd. reflexivity.
      + rewrite Hr, Hru, Hd, Nat.eqb_refl. reflexivity.
      + rewrite Hr, Hru. apply Nat.eqb_neq in Hd. rewrite Hd, Hs, Hg. reflexivity.
    - destruct (it_rule it) as [r|] eqn:Er.
      + destruct (nth_error rules r) as [ru|] eqn:Eru; [|discriminate].
        destruct (Nat.eqb (it_dot it) (fieldset_len (ru_fieldset ru))) eqn:Ed.
        * intros H; injection H as <- <-. apply Nat.eqb_eq in Ed. eapply dm_reduce; eauto.
        * apply Nat.eqb_neq in Ed.
          destruct (nth_error (field_symbols (ru_fieldset ru)) (it_dot it)) as [[t|n]|] eqn:Es; try discriminate.
          destruct (get_shift_dest m s t) as [dest|] eqn:Eg; [|discriminate].
          intros H; injection H as <- <-. eapply dm_shift; eauto.
      + destruct (Nat.eqb (it_dot it) 0) eqn:Ed; [discriminate|]. apply Nat.eqb_neq in Ed.
        intros H; injection H as <- <-. apply dm_accept; assumption.
  Qed.

  Lemma demands_functional s it q a q' a' : demands s it q a -> demands s it q' a' -> q = q' /\ a = a'.
  Proof. rewrite !demands_iff. intros H1 H2. rewrite H1 in H2. injection H2 as <- <-. auto. Qed.

  (* ---------- keys, monotonicity, coverage ---------- *)

  Definition bkeys (b : tbuilder) : Prop := NoDup (map fst (tb_act b)).
  Definition bsub (b b' : tbuilder) : Prop :=
    (forall e, In e (tb_act b) -> In e (tb_act b')) /\ tb_got b' = tb_got b.
  Definition covered (b : tbuilder) (s : nat) (it : item) : Prop :=
    forall q a, demands s it q a -> exists it', In ((s, q), (it', a)) (tb_act b).

  Lemma act_get_none l s q : act_get l s q = None -> ~ In (s, q) (map fst l).
  Proof.
    induction l as [|[[s' q'] v] l IH]; cbn; [tauto|].
    destruct (Nat.eqb s s' && qt_eqb q q') eqn:E; [discriminate|]. intros H [Heq|Hin]; [|apply (IH H Hin)].
    injection Heq as -> ->. rewrite Nat.eqb_refl in E. cbn in E.
    unfold qt_eqb in E. rewrite (ol_refl _ lookahead_cmp_laws) in E. discriminate.
  Qed.

  Lemma action_eqb_true a b : action_eqb a b = true -> a = b.
  Proof.
    destruct a, b; cbn; try discriminate; intros H; try reflexivity; apply Nat.eqb_eq in H; congruence.
  Qed.

  Lemma set_action_post b s q it a b' : bkeys b -> set_action m f b s q it a = Ok b' ->
    bkeys b' /\ bsub b b' /\ exists it', In ((s, q), (it', a)) (tb_act b').
  Proof.
    intros Hk. unfold set_action. destruct (act_get (tb_act b) s q) as [[eit ea]|] eqn:E.
    - destruct (action_eqb ea a) eqn:Ea; [|discriminate]. intros H; injection H as <-.
      apply action_eqb_true in Ea. subst ea. apply act_get_In in E.
      split; [exact Hk|]. split; [split; [auto|reflexivity]|eauto].
    - intros H; injection H as <-. apply act_get_none in E. cbn [tb_act tb_got]. split.
      + unfold bkeys. cbn [tb_act]. rewrite map_app. cbn [map fst]. apply NoDup_app_single; assumption.
      + split; [split; [intros e He; apply in_or_app; left; exact He|reflexivity]|].
        exists it. apply in_or_app. right. left. reflexivity.
  Qed.

  Lemma bsub_refl b : bsub b b.
  Proof. split; auto. Qed.

  Lemma bsub_trans b1 b2 b3 : bsub b1 b2 -> bsub b2 b3 -> bsub b1 b3.
  Proof. intros (H1 & E1) (H2 & E2). split; [auto|congruence]. Qed.

  Lemma covered_mono b b' s it : bsub b b' -> covered b s it -> covered b' s it.
  Proof. intros (Hs & _) Hc q a Hd. destruct (Hc q a Hd) as (it' & Hin). eauto. Qed.

  Lemma add_item_action_post b s it b' : bkeys b -> add_item_action m f rules b s it = Ok b' ->
    bkeys b' /\ bsub b b' /\ covered b' s it.
  Proof.
    intros Hk. unfold add_item_action. destruct (it_rule it) as [r|] eqn:Er.
    - destruct (nth_error rules r) as [ru|] eqn:Eru; cbn [unwrap bind]; [|discriminate].
      destruct (Nat.eqb (it_dot it) (fieldset_len (ru_fieldset ru))) eqn:Ed.
      + apply Nat.eqb_eq in Ed. intros H. destruct (set_action_post _ _ _ _ _ _ Hk H) as (Hk' & Hsub & it' & Hin).
        split; [exact Hk'|]. split; [exact Hsub|]. intros q a Hd.
        destruct (demands_functional _ _ _ _ _ _ Hd (dm_reduce m f s it r ru Er Eru Ed)) as (-> & ->). eauto.
      + apply Nat.eqb_neq in Ed.
        destruct (nth_error (field_symbols (ru_fieldset ru)) (it_dot it)) as [[t|n]|] eqn:Es; cbn [unwrap bind]; try discriminate.
        * destruct (get_shift_dest m s t) as [dest|] eqn:Eg; cbn [unwrap bind]; [|discriminate].
          intros H. destruct (set_action_post _ _ _ _ _ _ Hk H) as (Hk' & Hsub & it' & Hin).
          split; [exact Hk'|]. split; [exact Hsub|]. intros q a Hd.
          destruct (demands_functional _ _ _ _ _ _ Hd (dm_shift m f s it r ru t dest Er Eru Ed Es Eg)) as (-> & ->). eauto.
        * intros H; injection H as <-. split; [exact Hk|]. split; [apply bsub_refl|].
          intros q a Hd. exfalso. apply demands_iff in Hd. unfold demand_of in Hd. rewrite Er, Eru in Hd.
          apply Nat.eqb_neq in Ed. rewrite Ed, Es in Hd. discriminate.
    - destruct (Nat.eqb (it_dot it) 0) eqn:Ed.
      + apply Nat.eqb_eq in Ed. intros H; injection H as <-. split; [exact Hk|]. split; [apply bsub_refl|].
        intros q a Hd. exfalso. apply demands_iff in Hd. unfold demand_of in Hd. rewrite Er in Hd.
        apply Nat.eqb_eq in Ed. rewrite Ed in Hd. cbn in Hd. discriminate.
      + apply Nat.eqb_neq in Ed. intros H. destruct (set_action_post _ _ _ _ _ _ Hk H) as (Hk' & Hsub & it' & Hin).
        split; [exact Hk'|]. split; [exact Hsub|]. intros q a Hd.
        destruct (demands_functional _ _ _ _ _ _ Hd (dm_accept m f s it Er Ed)) as (-> & ->). eauto.
  Qed.

  Lemma add_state_actions_post s items : forall b b', bkeys b -> add_state_actions m f rules b s items = Ok b' ->
    bkeys b' /\ bsub b b' /\ forall it, In it items -> covered b' s it.
  Proof.
    induction items as [|it items IH]; intros b b' Hk H; cbn [add_state_actions] in H.
    - injection H as <-. split; [exact Hk|]. split; [apply bsub_refl|intros ? []].
    - apply bind_ok in H as (b1 & H1 & H). destruct (add_item_action_post _ _ _ _ Hk H1) as (Hk1 & Hs1 & Hc1).
      destruct (IH b1 b' Hk1 H) as (Hk' & Hs' & Hc'). split; [exact Hk'|]. split; [eapply bsub_trans; eauto|].
      intros it' [<-|Hin]; [eapply covered_mono; eauto|apply Hc', Hin].
  Qed.

  Lemma add_actions_post sts : forall b b', bkeys b -> add_actions m f rules b sts = Ok b' ->
    bkeys b' /\ bsub b b' /\ forall i st it, In (i, st) sts -> In it st -> covered b' i it.
  Proof.
    induction sts as [|[i st] sts IH]; intros b b' Hk H; cbn [add_actions] in H.
    - injection H as <-. split; [exact Hk|]. split; [apply bsub_refl|intros ? ? ? []].
    - apply bind_ok in H as (b1 & H1 & H). destruct (add_state_actions_post _ _ _ _ Hk H1) as (Hk1 & Hs1 & Hc1).
      destruct (IH b1 b' Hk1 H) as (Hk' & Hs' & Hc'). split; [exact Hk'|]. split; [eapply bsub_trans; eauto|].
      intros i' st' it [E|Hin] Hit; [injection E as <- <-; eapply covered_mono; eauto|eapply Hc'; eauto].
  Qed.

  (* ---------- gotos ---------- *)

  Definition ginv (b : tbuilder) (ts : list transition) : Prop :=
    NoDup (map fst (tb_got b)) /\
    forall s n g, In ((s, n), g) (tb_got b) <-> exists t, In t ts /\ tr_from t = s /\ tr_symbol t = SymN n /\ g = GState (tr_to t).

  Lemma got_get_none l s n : got_get l s n = None -> ~ In (s, n) (map fst l).
  Proof.
    induction l as [|[[s' n'] v] l IH]; cbn; [tauto|].
    destruct (Nat.eqb s s' && str_eqb n n') eqn:E; [discriminate|]. intros H [Heq|Hin]; [|apply (IH H Hin)].
    injection Heq as -> ->. rewrite Nat.eqb_refl, str_eqb_refl in E. discriminate.
  Qed.

  Lemma add_gotos_post ts : forall b b' done, ginv b done -> add_gotos b ts = Ok b' ->
    ginv b' (done ++ ts) /\ tb_act b' = tb_act b.
  Proof.
    induction ts as [|t ts IH]; intros b b' done Hg H; cbn [add_gotos] in H.
    - injection H as <-. rewrite app_nil_r. auto.
    - destruct (tr_symbol t) as [tn|n] eqn:Es.
      + replace (done ++ t :: ts) with ((done ++ [t]) ++ ts) by (rewrite <- app_assoc; reflexivity).
        apply (IH b b' (done ++ [t])); [|exact H]. destruct Hg as (Hnd & Hiff). split; [exact Hnd|].
        intros s n g. rewrite Hiff. split.
        * intros (t0 & Hin & Hr). exists t0. split; [apply in_or_app; left; exact Hin|exact Hr].
        * intros (t0 & Hin & Hf & Hsym & Hgo). apply in_app_or in Hin as [Hin|[<-|[]]]; [eauto 6|congruence].
      + destruct (got_get (tb_got b) (tr_from t) n) eqn:E; [discriminate|]. apply got_get_none in E.
        replace (done ++ t :: ts) with ((done ++ [t]) ++ ts) by (rewrite <- app_assoc; reflexivity).
        assert (Hg1 : ginv {| tb_act := tb_act b; tb_got := tb_got b ++ [((tr_from t, n), GState (tr_to t))] |} (done ++ [t])).
        { destruct Hg as (Hnd & Hiff). cbn [tb_got]. split.
          - unfold ginv. cbn [tb_got]. rewrite map_app. cbn [map fst]. apply NoDup_app_single; assumption.
          - intros s n0 g. cbn [tb_got]. rewrite in_app_iff, Hiff. cbn [In]. split.
            + intros [(t0 & Hin & Hr)|[E0|[]]].
              * exists t0. split; [apply in_or_app; left; exact Hin|exact Hr].
              * injection E0 as <- <- <-. exists t. split; [apply in_or_app; right; left; reflexivity|auto].
            + intros (t0 & Hin & Hf & Hsym & Hgo). apply in_app_or in Hin as [Hin|[<-|[]]].
              * left. eauto 6.
              * right. left. rewrite Es in Hsym. injection Hsym as <-. subst. reflexivity. }
        destruct (IH _ b' (done ++ [t]) Hg1 H) as (Hg' & Ha). split; [exact Hg'|exact Ha].
  Qed.
End Spec.

(* ---------- the result of machine_to_table ---------- *)

Lemma nth_error_repeat {A} (x : A) n i : i < n -> nth_error (repeat x n) i = Some x.
Proof. revert i; induction n as [|n IH]; intros [|i] H; cbn; try lia; auto. apply IH. lia. Qed.

Lemma In_enumerate_from' {A} (l : list A) : forall k i x, nth_error l i = Some x -> In (k + i, x) (enumerate_from k l).
Proof.
  induction l as [|y l IH]; intros k [|i] x H; cbn in *; try discriminate.
  - injection H as ->. left. f_equal. lia.
  - right. replace (k + S i) with (S k + i) by lia. apply IH, H.
Qed.

Definition res_sim {A} (r1 r2 : res A) : Prop :=
  match r1, r2 with
  | Ok a, Ok b => a = b
  | Err e1, Err e2 => e1 = e2
  | Panic _, Panic _ => True
  | OutOfFuel _, OutOfFuel _ => True
  | _, _ => False
  end.

Section Main.
  Variable m : machine.
  Variable f : vfile.
  Notation rules := (get_rules f).
  Notation ns := (length (m_states m)).

  Definition perm_ho (ho : table_ho) : Prop :=
    (forall l, Permutation (ho_actions ho l) l) /\ (forall l, Permutation (ho_gotos ho l) l).

  Record table_spec (t : table) : Prop := {
    ts_start : tb_start t = m_start m;
    ts_terminals : tb_terminals t = map tvr_name (vt_variants (vf_tenum f));
    ts_nonterminals : tb_nonterminals t = map nt_name (vf_nts f);
    ts_shape : tshape t ns;
    (* every demand of every item is in the table *)
    ts_demand : forall s it q a, in_state m s it -> demands m f s it q a -> table_action t s q = Ok a;
    (* every non-error cell is demanded by an item of that state *)
    ts_cell : forall s q a, table_action t s q = Ok a -> a <> AErr -> exists it, in_state m s it /\ demands m f s it q a;
    (* GOTO cells are exactly the nonterminal transitions *)
    ts_goto : forall tr n, In tr (m_transitions m) -> tr_symbol tr = SymN n ->
                           table_goto t (tr_from tr) n = Ok (GState (tr_to tr));
    ts_goto_cell : forall s n j, table_goto t s n = Ok (GState j) ->
                                 exists tr, In tr (m_transitions m) /\ tr_from tr = s /\ tr_symbol tr = SymN n /\ tr_to tr = j
  }.

  Lemma binv_of_add_actions b : add_actions m f rules {| tb_act := []; tb_got := [] |} (enumerate (m_states m)) = Ok b ->
    binv m f b.
  Proof.
    intros H. pose proof (add_actions_spec m f (enumerate (m_states m)) {| tb_act := []; tb_got := [] |}) as Ha.
    rewrite H in Ha. apply Ha.
    - intros s q it a [].
    - intros i st Hin. unfold enumerate in Hin. apply nth_error_enumerate_from in Hin as (_ & Hn).
      rewrite Nat.sub_0_r in Hn. exact Hn.
  Qed.

  Theorem machine_to_table_spec ho t : perm_ho ho -> machine_to_table ho m f = Ok t -> table_spec t.
  Proof.
    intros (Hpa & Hpg) H. unfold machine_to_table in H.
    apply bind_ok in H as (b1 & Hb1 & H). apply bind_ok in H as (b2 & Hb2 & H). apply bind_ok in H as (t1 & Ht1 & H).
    pose proof (binv_of_add_actions b1 Hb1) as Hbinv.
    destruct (add_actions_post m f _ {| tb_act := []; tb_got := [] |} b1 (NoDup_nil _) Hb1) as (Hkeys & _ & Hcov).
    assert (Hg0 : ginv b1 []).
    { destruct (add_actions_post m f _ {| tb_act := []; tb_got := [] |} b1 (NoDup_nil _) Hb1) as (_ & (_ & Hgot) & _).
      unfold ginv. rewrite Hgot. cbn. split; [constructor|]. intros s n g. split; [intros []|intros (? & [] & _)]. }
    destruct (add_gotos_post (m_transitions m) b1 b2 [] Hg0 Hb2) as ((Hgnd & Hgiff) & Hact2).
    cbn [app] in Hgiff. rewrite Hact2 in Ht1.
    destruct (fill_actions_ok _ _ ns t1 (empty_table_shape m f) Ht1)
      as (aops & Haops & Hacts & Habound & Hass & Hterm1 & Hnt1 & Hgot1 & Hst1 & Hshape1).
    destruct (fill_gotos_ok _ _ ns t Hshape1 H)
      as (gops & Hgops & Hgots & Hgbound & Hgss & Hterm & Hnt & Hacts' & Hst & Hshape).
    cbn [get_empty_table tb_terminals tb_nonterminals tb_actions tb_gotos tb_start] in *.
    set (terms := map tvr_name (vt_variants (vf_tenum f))) in *.
    set (nts := map nt_name (vf_nts f)) in *.
    (* distinct cells *)
    assert (Hand : NoDup (map fst aops)).
    { eapply (all_some_NoDup_fst (fun e => fst e) (aop terms)); [exact Haops| |].
      - eapply Permutation_NoDup; [apply Permutation_sym, Permutation_map, Hpa|exact Hkeys].
      - intros [[s q] [it a]] [[s' q'] [it' a']] i b b' _ _ E1 E2. rewrite aop_eq in E1, E2.
        destruct (acell terms s q) as [i1|] eqn:C1; [|discriminate]. destruct (acell terms s' q') as [i2|] eqn:C2; [|discriminate].
        cbn in E1, E2. injection E1 as <- _. injection E2 as <- _.
        destruct (acell_inj terms _ _ _ _ _ C1 C2) as (-> & ->). reflexivity. }
    assert (Hgnd' : NoDup (map fst gops)).
    { rewrite Hnt1 in Hgops. eapply (all_some_NoDup_fst (fun e => fst e) (gop nts)); [exact Hgops| |].
      - eapply Permutation_NoDup; [apply Permutation_sym, Permutation_map, Hpg|exact Hgnd].
      - intros [[s n] g] [[s' n'] g'] i b b' _ _ E1 E2. rewrite gop_eq in E1, E2.
        destruct (gcell nts s n) as [i1|] eqn:C1; [|discriminate]. destruct (gcell nts s' n') as [i2|] eqn:C2; [|discriminate].
        cbn in E1, E2. injection E1 as <- _. injection E2 as <- _.
        destruct (gcell_inj nts _ _ _ _ _ C1 C2) as (-> & ->). reflexivity. }
    assert (Htt : tb_terminals t = terms) by congruence.
    assert (Hnn : tb_nonterminals t = nts) by congruence.
    split.
    - congruence.
    - exact Htt.
    - exact Hnn.
    - exact Hshape.
    - (* ts_demand *)
      intros s it q a (st & Hst' & Hit) Hd.
      assert (Hin : In (s, st) (enumerate (m_states m))) by (apply (In_enumerate_from' (m_states m) 0 s st Hst')).
      destruct (Hcov s st it Hin Hit q a Hd) as (it' & He).
      assert (He' : In ((s, q), (it', a)) (ho_actions ho (tb_act b1))) by (eapply Permutation_in; [apply Permutation_sym, Hpa|exact He]).
      pose proof (proj2 (all_some_In (aop terms) _ aops Haops (match acell terms s q with Some i => (i, a) | None => (0, a) end))) as Hops.
      assert (Hlt : s < ns) by (apply (Hass _ He')).
      destruct (acell terms s q) as [i|] eqn:C.
      2:{ exfalso. rewrite (all_some_none (aop terms) _ _ He') in Haops; [discriminate|]. rewrite aop_eq, C. reflexivity. }
      assert (Hio : In (i, a) aops) by (apply Hops; exists ((s, q), (it', a)); split; [exact He'|rewrite aop_eq, C; reflexivity]).
      unfold table_action. rewrite (action_index_spec t ns s q Hshape), Htt, C.
      replace (Nat.leb ns s) with false by (symmetry; apply Nat.leb_gt; exact Hlt). cbn [bind].
      rewrite Hacts', Hacts. rewrite (writes_nth_in aops _ i a Hand Hio (Habound _ Hio)). reflexivity.
    - (* ts_cell *)
      intros s q a Hta Hne. unfold table_action in Hta. rewrite (action_index_spec t ns s q Hshape), Htt in Hta.
      destruct (acell terms s q) as [i|] eqn:C; [|discriminate].
      destruct (Nat.leb ns s) eqn:El; [discriminate|]. cbn [bind] in Hta. apply Nat.leb_gt in El.
      rewrite Hacts', Hacts in Hta.
      destruct (in_dec Nat.eq_dec i (map fst aops)) as [Hin|Hnot].
      + apply in_map_iff in Hin as ([i' a'] & Ei & Hin). cbn in Ei. subst i'.
        rewrite (writes_nth_in aops _ i a' Hand Hin (Habound _ Hin)) in Hta. cbn in Hta. injection Hta as <-.
        apply (all_some_In (aop terms) _ aops Haops) in Hin as ([[s' q'] [it a'']] & He & Hf).
        rewrite aop_eq in Hf. destruct (acell terms s' q') as [i2|] eqn:C2; [|discriminate]. cbn in Hf. injection Hf as -> ->.
        destruct (acell_inj terms s q s' q' i C C2) as (<- & <-).
        assert (He' : In ((s, q), (it, a')) (tb_act b1)) by (eapply Permutation_in; [apply Hpa|exact He]).
        exists it. apply (Hbinv _ _ _ _ He').
      + rewrite (writes_nth_other aops _ i Hnot) in Hta.
        assert (Hi : i < ns * S (length terms)).
        { unfold acell in C. destruct (qcol terms q) as [c|] eqn:Q; [|discriminate]. cbn in C. injection C as <-.
          pose proof (qcol_lt terms q c Q). nia. }
        rewrite (nth_error_repeat AErr _ i Hi) in Hta. cbn in Hta. injection Hta as <-. contradiction.
    - (* ts_goto *)
      intros tr n Htr Hsym.
      assert (He : In ((tr_from tr, n), GState (tr_to tr)) (tb_got b2)) by (apply Hgiff; exists tr; auto).
      assert (He' : In ((tr_from tr, n), GState (tr_to tr)) (ho_gotos ho (tb_got b2)))
        by (eapply Permutation_in; [apply Permutation_sym, Hpg|exact He]).
      assert (Hlt : tr_from tr < ns) by (apply (Hgss _ He')).
      rewrite Hnt1 in Hgops.
      destruct (gcell nts (tr_from tr) n) as [i|] eqn:C.
      2:{ exfalso. rewrite (all_some_none (gop nts) _ _ He') in Hgops; [discriminate|]. rewrite gop_eq, C. reflexivity. }
      assert (Hio : In (i, GState (tr_to tr)) gops).
      { apply (all_some_In (gop nts) _ gops Hgops). exists ((tr_from tr, n), GState (tr_to tr)). split; [exact He'|].
        rewrite gop_eq, C. reflexivity. }
      unfold table_goto. rewrite (goto_index_spec t ns _ n Hshape), Hnn, C.
      replace (Nat.leb ns (tr_from tr)) with false by (symmetry; apply Nat.leb_gt; exact Hlt). cbn [bind].
      rewrite Hgots. rewrite (writes_nth_in gops _ i _ Hgnd' Hio (Hgbound _ Hio)). reflexivity.
    - (* ts_goto_cell *)
      intros s n j Htg. unfold table_goto in Htg. rewrite (goto_index_spec t ns s n Hshape), Hnn in Htg.
      destruct (gcell nts s n) as [i|] eqn:C; [|discriminate].
      destruct (Nat.leb ns s) eqn:El; [discriminate|]. cbn [bind] in Htg. apply Nat.leb_gt in El.
      rewrite Hgots in Htg. rewrite Hnt1 in Hgops.
      destruct (in_dec Nat.eq_dec i (map fst gops)) as [Hin|Hnot].
      + apply in_map_iff in Hin as ([i' g'] & Ei & Hin). cbn in Ei. subst i'.
        rewrite (writes_nth_in gops _ i g' Hgnd' Hin (Hgbound _ Hin)) in Htg. cbn in Htg. injection Htg as ->.
        apply (all_some_In (gop nts) _ gops Hgops) in Hin as ([[s' n'] g''] & He & Hf).
        rewrite gop_eq in Hf. destruct (gcell nts s' n') as [i2|] eqn:C2; [|discriminate]. cbn in Hf. injection Hf as -> ->.
        destruct (gcell_inj nts s n s' n' i C C2) as (<- & <-).
        assert (He' : In ((s, n), GState j) (tb_got b2)) by (eapply Permutation_in; [apply Hpg|exact He]).
        apply Hgiff in He' as (tr & Htr & Hf & Hs & Hg). injection Hg as ->. exists tr. auto.
      + rewrite (writes_nth_other gops _ i Hnot) in Htg.
        assert (Hi : i < ns * length nts).
        { unfold gcell in C. destruct (position_str n nts) as [c|] eqn:Q; [|discriminate]. cbn in C. injection C as <-.
          pose proof (position_str_lt _ _ _ Q). nia. }
        rewrite Hgot1 in Htg. rewrite (nth_error_repeat GErr _ i Hi) in Htg. cbn in Htg. discriminate.
  Qed.
End Main.

(* ---------- C14: the order in which the two maps are iterated does not matter ---------- *)

Lemma acell_bound terms ns s q i : acell terms s q = Some i -> s < ns -> i < ns * S (length terms).
Proof.
  unfold acell. destruct (qcol terms q) as [c|] eqn:Q; [|discriminate]. cbn. intros H Hs. injection H as <-.
  pose proof (qcol_lt terms q c Q). nia.
Qed.

Lemma gcell_bound nts ns s n i : gcell nts s n = Some i -> s < ns -> i < ns * length nts.
Proof.
  unfold gcell. destruct (position_str n nts) as [c|] eqn:Q; [|discriminate]. cbn. intros H Hs. injection H as <-.
  pose proof (position_str_lt _ _ _ Q). nia.
Qed.

Lemma fill_actions_complete l : forall t ns, tshape t ns ->
  (forall e, In e l -> fst (fst e) < ns /\ exists i, acell (tb_terminals t) (fst (fst e)) (snd (fst e)) = Some i) ->
  exists t', fill_actions t l = Ok t'.
Proof.
  induction l as [|[[s q] [it a]] l IH]; intros t ns Hs Hall; cbn [fill_actions]; [eauto|].
  destruct (Hall _ (or_introl eq_refl)) as (Hlt & i & Hi). cbn [fst snd] in *.
  assert (Hset : exists t1, table_set_action t s q a = Ok t1).
  { unfold table_set_action. rewrite (action_index_spec t ns s q Hs), Hi.
    replace (Nat.leb ns s) with false by (symmetry; apply Nat.leb_gt; exact Hlt). cbn [bind].
    replace (Nat.leb (length (tb_actions t)) i) with false; [eauto|].
    symmetry. apply Nat.leb_gt. destruct Hs as (Hs1 & _). rewrite Hs1. eapply acell_bound; eauto. }
  destruct Hset as (t1 & Ht1). rewrite Ht1. cbn [bind].
  destruct (table_set_action_ok t ns s q a t1 Hs Ht1) as (_ & _ & _ & _ & _ & Hterm & _ & _ & _ & Hs1).
  apply (IH t1 ns Hs1). intros e He. rewrite Hterm. apply Hall. right. exact He.
Qed.

Lemma fill_gotos_complete l : forall t ns, tshape t ns ->
  (forall e, In e l -> fst (fst e) < ns /\ exists i, gcell (tb_nonterminals t) (fst (fst e)) (snd (fst e)) = Some i) ->
  exists t', fill_gotos t l = Ok t'.
Proof.
  induction l as [|[[s n] g] l IH]; intros t ns Hs Hall; cbn [fill_gotos]; [eauto|].
  destruct (Hall _ (or_introl eq_refl)) as (Hlt & i & Hi). cbn [fst snd] in *.
  assert (Hset : exists t1, table_set_goto t s n g = Ok t1).
  { unfold table_set_goto. rewrite (goto_index_spec t ns s n Hs), Hi.
    replace (Nat.leb ns s) with false by (symmetry; apply Nat.leb_gt; exact Hlt). cbn [bind].
    replace (Nat.leb (length (tb_gotos t)) i) with false; [eauto|].
    symmetry. apply Nat.leb_gt. destruct Hs as (_ & Hs2). rewrite Hs2. eapply gcell_bound; eauto. }
  destruct Hset as (t1 & Ht1). rewrite Ht1. cbn [bind].
  destruct (table_set_goto_ok t ns s n g t1 Hs Ht1) as (_ & _ & _ & _ & _ & _ & Hnt & _ & _ & Hs1).
  apply (IH t1 ns Hs1). intros e He. rewrite Hnt. apply Hall. right. exact He.
Qed.

Lemma table_eq (t1 t2 : table) :
  tb_start t1 = tb_start t2 -> tb_terminals t1 = tb_terminals t2 -> tb_nonterminals t1 = tb_nonterminals t2 ->
  tb_actions t1 = tb_actions t2 -> tb_gotos t1 = tb_gotos t2 -> t1 = t2.
Proof. destruct t1, t2; cbn. intros -> -> -> -> ->. reflexivity. Qed.

Lemma aop_some_inv terms e o : aop terms e = Some o ->
  exists i, acell terms (fst (fst e)) (snd (fst e)) = Some i /\ o = (i, snd (snd e)).
Proof.
  destruct e as [[s q] [it a]]. rewrite aop_eq. cbn [fst snd]. destruct (acell terms s q) as [i|]; [|discriminate].
  cbn. intros H; injection H as <-. eauto.
Qed.

Lemma gop_some_inv nts e o : gop nts e = Some o ->
  exists i, gcell nts (fst (fst e)) (snd (fst e)) = Some i /\ o = (i, snd e).
Proof.
  destruct e as [[s n] g]. rewrite gop_eq. cbn [fst snd]. destruct (gcell nts s n) as [i|]; [|discriminate].
  cbn. intros H; injection H as <-. eauto.
Qed.

Theorem table_order_independent_ok m f ho1 ho2 t :
  perm_ho ho1 -> perm_ho ho2 -> machine_to_table ho1 m f = Ok t -> machine_to_table ho2 m f = Ok t.
Proof.
  intros (Hpa1 & Hpg1) (Hpa2 & Hpg2) H. unfold machine_to_table in *.
  apply bind_ok in H as (b1 & Hb1 & H). apply bind_ok in H as (b2 & Hb2 & H). apply bind_ok in H as (t1 & Ht1 & H).
  rewrite Hb1. cbn [bind]. rewrite Hb2. cbn [bind].
  set (ns := length (m_states m)) in *.
  destruct (add_actions_post m f _ {| tb_act := []; tb_got := [] |} b1 (NoDup_nil _) Hb1) as (Hkeys & (_ & Hgot0) & _).
  assert (Hg0 : ginv b1 []).
  { unfold ginv. rewrite Hgot0. cbn. split; [constructor|]. intros s n g. split; [intros []|intros (? & [] & _)]. }
  destruct (add_gotos_post (m_transitions m) b1 b2 [] Hg0 Hb2) as ((Hgnd & _) & Hact2).
  pose proof (empty_table_shape m f) as Hs0. fold ns in Hs0.
  destruct (fill_actions_ok _ _ ns t1 Hs0 Ht1) as (aops & Haops & Hacts & Hab & Hass & Hterm1 & Hnt1 & Hgot1 & Hst1 & Hshape1).
  destruct (fill_gotos_ok _ _ ns t Hshape1 H) as (gops & Hgops & Hgots & Hgb & Hgss & Hterm & Hnt & Hacts' & Hst & Hshape).
  (* the other order succeeds as well *)
  assert (HP1 : Permutation (ho_actions ho1 (tb_act b2)) (ho_actions ho2 (tb_act b2)))
    by (eapply Permutation_trans; [apply Hpa1|apply Permutation_sym, Hpa2]).
  assert (HP2 : Permutation (ho_gotos ho1 (tb_got b2)) (ho_gotos ho2 (tb_got b2)))
    by (eapply Permutation_trans; [apply Hpg1|apply Permutation_sym, Hpg2]).
  destruct (fill_actions_complete (ho_actions ho2 (tb_act b2)) (get_empty_table m f) ns Hs0) as (t1' & Ht1').
  { intros e He. apply (Permutation_in _ (Permutation_sym HP1)) in He. split; [apply Hass, He|].
    destruct (aop (tb_terminals (get_empty_table m f)) e) as [o|] eqn:Eo.
    - destruct (aop_some_inv _ _ _ Eo) as (i & Hi & _). eauto.
    - rewrite (all_some_none _ _ _ He Eo) in Haops. discriminate. }
  rewrite Ht1'. cbn [bind].
  destruct (fill_actions_ok _ _ ns t1' Hs0 Ht1') as (aops' & Haops' & Hacts2 & Hab' & _ & Hterm1' & Hnt1' & Hgot1' & Hst1' & Hshape1').
  destruct (fill_gotos_complete (ho_gotos ho2 (tb_got b2)) t1' ns Hshape1') as (t' & Ht').
  { intros e He. apply (Permutation_in _ (Permutation_sym HP2)) in He. split; [apply Hgss, He|].
    rewrite Hnt1'. rewrite Hnt1 in Hgops.
    destruct (gop (tb_nonterminals (get_empty_table m f)) e) as [o|] eqn:Eo.
    - destruct (gop_some_inv _ _ _ Eo) as (i & Hi & _). eauto.
    - rewrite (all_some_none _ _ _ He Eo) in Hgops. discriminate. }
  rewrite Ht'. f_equal.
  destruct (fill_gotos_ok _ _ ns t' Hshape1' Ht') as (gops' & Hgops' & Hgots2 & Hgb' & _ & Hterm' & Hnt' & Hacts2' & Hst' & _).
  (* same cells written, in another order *)
  destruct (all_some_perm _ _ _ _ HP1 Haops) as (aops2 & E2 & PA). rewrite E2 in Haops'. injection Haops' as <-.
  rewrite Hnt1 in Hgops. rewrite Hnt1' in Hgops'.
  destruct (all_some_perm _ _ _ _ HP2 Hgops) as (gops2 & E3 & PG). rewrite E3 in Hgops'. injection Hgops' as <-.
  assert (Hand : NoDup (map fst aops)).
  { eapply (all_some_NoDup_fst (fun e => fst e)); [exact Haops| |].
    - rewrite Hact2. eapply Permutation_NoDup; [apply Permutation_sym, Permutation_map, Hpa1|exact Hkeys].
    - intros e e' i b b' _ _ E1 E1'. destruct (aop_some_inv _ _ _ E1) as (i1 & C1 & Eq1). destruct (aop_some_inv _ _ _ E1') as (i2 & C2 & Eq2).
      injection Eq1 as <- _. injection Eq2 as <- _. destruct (acell_inj _ _ _ _ _ _ C1 C2) as (Hs & Hq).
      destruct e as [[? ?] ?], e' as [[? ?] ?]. cbn in *. congruence. }
  assert (Hgnd' : NoDup (map fst gops)).
  { eapply (all_some_NoDup_fst (fun e => fst e)); [exact Hgops| |].
    - eapply Permutation_NoDup; [apply Permutation_sym, Permutation_map, Hpg1|exact Hgnd].
    - intros e e' i b b' _ _ E1 E1'. destruct (gop_some_inv _ _ _ E1) as (i1 & C1 & Eq1). destruct (gop_some_inv _ _ _ E1') as (i2 & C2 & Eq2).
      injection Eq1 as <- _. injection Eq2 as <- _. destruct (gcell_inj _ _ _ _ _ _ C1 C2) as (Hs & Hq).
      destruct e as [[? ?] ?], e' as [[? ?] ?]. cbn in *. congruence. }
  symmetry. apply table_eq; try congruence.
  - rewrite Hacts', Hacts, Hacts2', Hacts2. apply writes_perm; [exact PA|exact Hand|exact Hab].
  - rewrite Hgots, Hgots2, Hgot1, Hgot1'. apply writes_perm; [exact PG|exact Hgnd'|].
    intros o Ho. specialize (Hgb o Ho). rewrite Hgot1 in Hgb. exact Hgb.
Qed.

Theorem table_error_order_independent m f ho1 ho2 e :
  machine_to_table ho1 m f = Err e -> machine_to_table ho2 m f = Err e.
Proof.
  unfold machine_to_table. intros E1.
  destruct (add_actions m f (get_rules f) {| tb_act := []; tb_got := [] |} (enumerate (m_states m))) as [b|e'|s|s];
    cbn [bind] in *; try discriminate; [|exact E1].
  exfalso. destruct (add_gotos b (m_transitions m)) as [b'|e'|s|s] eqn:Eg; cbn [bind] in E1; try discriminate.
  - destruct (fill_actions (get_empty_table m f) (ho_actions ho1 (tb_act b'))) as [t|e'|s|s] eqn:Ef; cbn [bind] in E1; try discriminate.
    + eapply fill_gotos_no_err; exact E1.
    + eapply fill_actions_no_err; exact Ef.
  - eapply add_gotos_no_err; exact Eg.
Qed.
