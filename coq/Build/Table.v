(* Build/Table.v — executable model of kiki/src/pipeline/machine_to_table.rs and
   of the index arithmetic of kiki/src/data/table.rs.  The two HashMaps of
   TableBuilder are association lists in insertion order; `build_as_is`
   iterates them through `ho`, an arbitrary reordering (C14).  No proofs. *)
From Kiki Require Import Base.Ord Base.Chars Data Oset.Model Build.Machine.
Open Scope nat_scope.

(* Quasiterminal: Some t = Terminal(t), None = Eof *)
Definition qt := option str.

Definition qt_eqb (a b : qt) : bool := is_eq (lookahead_cmp a b).

Record tbuilder := {
  tb_act : list ((nat * qt) * (item * action));
  tb_got : list ((nat * str) * goto)
}.

Fixpoint act_get (l : list ((nat * qt) * (item * action))) (s : nat) (q : qt) : option (item * action) :=
  match l with
  | [] => None
  | ((s', q'), v) :: r => if Nat.eqb s s' && qt_eqb q q' then Some v else act_get r s q
  end.

Fixpoint got_get (l : list ((nat * str) * goto)) (s : nat) (n : str) : option goto :=
  match l with
  | [] => None
  | ((s', n'), v) :: r => if Nat.eqb s s' && str_eqb n n' then Some v else got_get r s n
  end.

Definition set_action (m : machine) (f : vfile) (b : tbuilder) (s : nat) (q : qt) (it : item) (a : action)
  : res tbuilder :=
  match act_get (tb_act b) s q with
  | Some (existing_item, existing_action) =>
      if action_eqb existing_action a then Ok b
      else Err (ETableConflict {| cf_state := s; cf_item1 := existing_item; cf_item2 := it;
                                  cf_file := f; cf_machine := m |})
  | None => Ok {| tb_act := tb_act b ++ [((s, q), (it, a))]; tb_got := tb_got b |}
  end.

(* Machine::get_shift_dest *)
Definition get_shift_dest (m : machine) (s : nat) (t : str) : option nat :=
  option_map tr_to
    (find (fun tr => Nat.eqb (tr_from tr) s && symbol_eqb (tr_symbol tr) (SymT t)) (m_transitions m)).

Definition add_item_action (m : machine) (f : vfile) (rules : list rule) (b : tbuilder) (s : nat) (it : item)
  : res tbuilder :=
  match it_rule it with
  | None =>
      if Nat.eqb (it_dot it) 0 then Ok b
      else set_action m f b s None it AAccept
  | Some r =>
      do ru <- unwrap "rules[rule_index]" (nth_error rules r);
      if Nat.eqb (it_dot it) (fieldset_len (ru_fieldset ru)) then
        set_action m f b s (it_la it) it (AReduce r)
      else
        (* Fieldset::get_symbol_ident(dot): panics on Empty or an index out of range *)
        do sym <- unwrap "Fieldset::get_symbol_ident" (nth_error (field_symbols (ru_fieldset ru)) (it_dot it));
        match sym with
        | SymT t =>
            do dest <- unwrap "get_shift_dest(..).unwrap()" (get_shift_dest m s t);
            set_action m f b s (Some t) it (AShift dest)
        | SymN _ => Ok b
        end
  end.

Fixpoint add_state_actions (m : machine) (f : vfile) (rules : list rule) (b : tbuilder) (s : nat) (items : list item)
  : res tbuilder :=
  match items with
  | [] => Ok b
  | it :: r => do b' <- add_item_action m f rules b s it; add_state_actions m f rules b' s r
  end.

Fixpoint add_actions (m : machine) (f : vfile) (rules : list rule) (b : tbuilder) (sts : list (nat * state))
  : res tbuilder :=
  match sts with
  | [] => Ok b
  | (i, st) :: r => do b' <- add_state_actions m f rules b i st; add_actions m f rules b' r
  end.

Fixpoint add_gotos (b : tbuilder) (ts : list transition) : res tbuilder :=
  match ts with
  | [] => Ok b
  | t :: r =>
      match tr_symbol t with
      | SymN n =>
          match got_get (tb_got b) (tr_from t) n with
          | Some _ => Panic "Impossible: goto conflict"
          | None => add_gotos {| tb_act := tb_act b;
                                 tb_got := tb_got b ++ [((tr_from t, n), GState (tr_to t))] |} r
          end
      | SymT _ => add_gotos b r
      end
  end.

(* ---------- data/table.rs ---------- *)

Definition state_count (t : table) : res nat :=
  let w := S (length (tb_terminals t)) in
  Ok (Nat.div (length (tb_actions t)) w).

Definition action_index (t : table) (s : nat) (q : qt) : res nat :=
  do qi <- match q with
           | Some name => unwrap "Terminal not found in table" (position_str name (tb_terminals t))
           | None => Ok (length (tb_terminals t))
           end;
  do n <- state_count t;
  if Nat.leb n s then Panic "State index is too large"
  else Ok (s * S (length (tb_terminals t)) + qi).

Definition goto_index (t : table) (s : nat) (nt : str) : res nat :=
  do ni <- unwrap "Nonterminal not found in table" (position_str nt (tb_nonterminals t));
  do n <- state_count t;
  if Nat.leb n s then Panic "State index is too large"
  else Ok (s * length (tb_nonterminals t) + ni).

Definition table_action (t : table) (s : nat) (q : qt) : res action :=
  do i <- action_index t s q;
  unwrap "self.actions[i]" (nth_error (tb_actions t) i).

Definition table_goto (t : table) (s : nat) (nt : str) : res goto :=
  do i <- goto_index t s nt;
  unwrap "self.gotos[i]" (nth_error (tb_gotos t) i).

Definition table_set_action (t : table) (s : nat) (q : qt) (a : action) : res table :=
  do i <- action_index t s q;
  if Nat.leb (length (tb_actions t)) i then Panic "self.actions[i] = val"
  else Ok {| tb_start := tb_start t; tb_terminals := tb_terminals t; tb_nonterminals := tb_nonterminals t;
             tb_actions := list_set (tb_actions t) i a; tb_gotos := tb_gotos t |}.

Definition table_set_goto (t : table) (s : nat) (nt : str) (g : goto) : res table :=
  do i <- goto_index t s nt;
  if Nat.leb (length (tb_gotos t)) i then Panic "self.gotos[i] = val"
  else Ok {| tb_start := tb_start t; tb_terminals := tb_terminals t; tb_nonterminals := tb_nonterminals t;
             tb_actions := tb_actions t; tb_gotos := list_set (tb_gotos t) i g |}.

Definition get_empty_table (m : machine) (f : vfile) : table :=
  let terminals := map tvr_name (vt_variants (vf_tenum f)) in
  let nonterminals := map nt_name (vf_nts f) in
  {| tb_start := m_start m;
     tb_terminals := terminals;
     tb_nonterminals := nonterminals;
     tb_actions := repeat AErr (length (m_states m) * S (length terminals));
     tb_gotos := repeat GErr (length (m_states m) * length nonterminals) |}.

Fixpoint fill_actions (t : table) (l : list ((nat * qt) * (item * action))) : res table :=
  match l with
  | [] => Ok t
  | ((s, q), (_, a)) :: r => do t' <- table_set_action t s q a; fill_actions t' r
  end.

Fixpoint fill_gotos (t : table) (l : list ((nat * str) * goto)) : res table :=
  match l with
  | [] => Ok t
  | ((s, n), g) :: r => do t' <- table_set_goto t s n g; fill_gotos t' r
  end.

Record table_ho := {
  ho_actions : list ((nat * qt) * (item * action)) -> list ((nat * qt) * (item * action));
  ho_gotos : list ((nat * str) * goto) -> list ((nat * str) * goto)
}.

Definition machine_to_table (ho : table_ho) (m : machine) (f : vfile) : res table :=
  let rules := get_rules f in
  do b <- add_actions m f rules {| tb_act := []; tb_got := [] |} (enumerate (m_states m));
  do b' <- add_gotos b (m_transitions m);
  do t <- fill_actions (get_empty_table m f) (ho_actions ho (tb_act b'));
  fill_gotos t (ho_gotos ho (tb_got b')).
