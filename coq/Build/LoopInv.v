(* Build/LoopInv.v — invariants of the worklist construction of the automaton and what
   they give when the queue is empty: every state is closed, every item's successor is
   reached by a recorded transition, transitions are deterministic, targets have the
   cores of the closed kernels, distinct states have distinct cores. *)
From Coq Require Import List Arith Lia Bool Sorting.Sorted.
From Kiki Require Import Base.Ord Base.OrdProofs Base.Chars Data DataProofs Oset.Model Oset.Proofs Ast.ValidateProofs
  Build.Machine Build.Table Build.TableProofs Build.FillProofs Build.TableSpec Build.ClosureProofs Build.LoopProofs.
Import ListNotations.
Open Scope nat_scope.

Section Inv.
  Variable cx : context.
  Variable cfuel : nat.
  Notation next_sym := (next_sym cx).
  Notation item_wf := (item_ok cx).
  Hypothesis Hfm : fm_ok cx.
  Notation implied_by := (implied_by cx).
  Notation reach := (reach cx).
  Notation advK := (advK cx).
  Notation tcore := (tcore cx).

  Definition start_item : item := {| it_rule := None; it_la := None; it_dot := 0 |}.

  Definition closed (st : state) : Prop := forall jt x, In jt st -> implied_by jt x -> In x st.

  Definition justified (i : nat) (st : state) : Prop :=
    forall it, In it st -> it_dot it = 0 ->
               (it_rule it = None /\ i = 0) \/ exists jt, In jt st /\ implied_by jt it.

  Definition state_ok (i : nat) (st : state) : Prop :=
    isorted st /\ closed st /\ (forall it, In it st -> item_wf it) /\ justified i st.

  Definition sts (b : builder) (i : nat) : option state := nth_error (b_states b) i.

  Definition trans_ok (b : builder) (t : transition) : Prop :=
    exists sf st', sts b (tr_from t) = Some sf /\ sts b (tr_to t) = Some st' /\ tr_to t <> 0 /\
                   forall c, In c (map core_of st') <-> tcore sf (tr_symbol t) c.

  (* the kernel of a state: the items a transition brought, or the start item *)
  Definition is_kernel (it : item) : bool :=
    negb (Nat.eqb (it_dot it) 0) || match it_rule it with None => true | Some _ => false end.
  Definition kernel (st : state) : list item := filter is_kernel st.

  Lemma reach_mono K K' it : incl K K' -> reach K it -> reach K' it.
  Proof. intros Hi H. induction H as [it Hin|jt it _ IH Himp]; [apply reach_in, Hi, Hin|eapply reach_step; eauto]. Qed.

  Lemma kernel_incl st st' : incl st st' -> incl (kernel st) (kernel st').
  Proof. intros Hi x Hx. apply filter_In in Hx as (Hx & Hk). apply filter_In. split; [apply Hi, Hx|exact Hk]. Qed.

  Lemma advK_kernel st x target : (forall y, In y (advK st x) -> In y target) -> incl (advK st x) (kernel target).
  Proof.
    intros Hin y Hy. apply filter_In. split; [apply Hin, Hy|]. apply advK_dot in Hy. unfold is_kernel.
    destruct (Nat.eqb_spec (it_dot y) 0) as [E|_]; [lia|reflexivity].
  Qed.

  (* the symbol of a transition is what follows the dot of an item of its source *)
  Definition sym_ok (b : builder) (t : transition) : Prop :=
    exists sf it, sts b (tr_from t) = Some sf /\ In it sf /\ next_sym it = Some (tr_symbol t).

  Definition cov_item (b : builder) (i : nat) (it : item) (x : symbol) : Prop :=
    exists t st', In t (b_transitions b) /\ tr_from t = i /\ tr_symbol t = x /\
                  sts b (tr_to t) = Some st' /\ In (adv it) st'.

  Definition cov_at (b : builder) (i : nat) : Prop :=
    forall st it x, sts b i = Some st -> In it st -> next_sym it = Some x -> cov_item b i it x.

  Record BInv (b : builder) : Prop := {
    bi_states : forall i st, sts b i = Some st -> state_ok i st;
    bi_queue : forall i, In i (b_queue b) -> i < length (b_states b);
    bi_trans : forall t, In t (b_transitions b) -> trans_ok b t;
    bi_det : forall t1 t2, In t1 (b_transitions b) -> In t2 (b_transitions b) ->
                           tr_from t1 = tr_from t2 -> tr_symbol t1 = tr_symbol t2 -> tr_to t1 = tr_to t2;
    bi_uniq : forall i j si sj, sts b i = Some si -> sts b j = Some sj -> same_cores si sj -> i = j;
    bi_zero : exists st0, sts b 0 = Some st0 /\ In start_item st0 /\ forall it, In it st0 -> it_dot it = 0;
    bi_sym : forall t, In t (b_transitions b) -> sym_ok b t;
    bi_reach : forall i st it, sts b i = Some st -> In it st -> reach (kernel st) it
  }.

  Definition Cov (b : builder) (ex : list nat) : Prop :=
    forall i, i < length (b_states b) -> ~ In i (b_queue b) -> ~ In i ex -> cov_at b i.

  (* monotone extension of a builder *)
  Definition ext (b b' : builder) : Prop :=
    (forall i st, sts b i = Some st ->
                  exists st', sts b' i = Some st' /\ incl st st' /\ same_cores st st' /\
                              (st' = st \/ In i (b_queue b'))) /\
    incl (b_transitions b) (b_transitions b') /\ incl (b_queue b) (b_queue b').

  Lemma ext_refl b : ext b b.
  Proof.
    split; [|split; intros x H; exact H]. intros i st H. exists st. split; [exact H|]. split; [intros x Hx; exact Hx|].
    split; [apply same_cores_refl|left; reflexivity].
  Qed.

  Lemma ext_trans b1 b2 b3 : ext b1 b2 -> ext b2 b3 -> ext b1 b3.
  Proof.
    intros (H1 & T1 & Q1) (H2 & T2 & Q2). split; [|split; intros x H; auto].
    intros i st Hs. destruct (H1 i st Hs) as (st' & Hs' & Hi & Hc & Hq).
    destruct (H2 i st' Hs') as (st'' & Hs'' & Hi' & Hc' & Hq'). exists st''. split; [exact Hs''|].
    split; [intros x Hx; auto|]. split; [eapply same_cores_trans; eauto|].
    destruct Hq' as [->|Hq']; [|right; exact Hq']. destruct Hq as [->|Hq]; [left; reflexivity|right; apply Q2, Hq].
  Qed.

  Lemma trans_ok_ext b b' t : ext b b' -> trans_ok b t -> trans_ok b' t.
  Proof.
    intros (He & _) (sf & st' & Hf & Ht & Hz & Hc).
    destruct (He _ _ Hf) as (sf2 & Hf2 & _ & Hcf & _). destruct (He _ _ Ht) as (st2 & Ht2 & _ & Hct & _).
    exists sf2, st2. split; [exact Hf2|]. split; [exact Ht2|]. split; [exact Hz|].
    intros c. rewrite <- (tcore_stable cx sf sf2 (tr_symbol t) c Hcf). rewrite <- Hc. symmetry. apply Hct.
  Qed.

  Lemma sym_ok_ext b b' t : ext b b' -> sym_ok b t -> sym_ok b' t.
  Proof.
    intros (He & _) (sf & it & Hs & Hit & Hn). destruct (He _ _ Hs) as (sf' & Hs' & Hinc & _). exists sf', it. auto.
  Qed.

  Lemma cov_item_ext b b' i it x : ext b b' -> cov_item b i it x -> cov_item b' i it x.
  Proof.
    intros (He & Ht & _) (t & st' & Hin & Hf & Hs & Hst & Ha).
    destruct (He _ _ Hst) as (st2 & Hst2 & Hi & _). exists t, st2. repeat split; auto.
  Qed.

  Lemma cov_at_ext b b' i : ext b b' -> (forall st, sts b' i = Some st -> sts b i = Some st) ->
    cov_at b i -> cov_at b' i.
  Proof.
    intros He Hsame Hc st it x Hs Hin Hn. eapply cov_item_ext; [exact He|]. eapply Hc; eauto.
  Qed.

  (* ---------- targets: closures of kernels ---------- *)

  Record target_ok (st : state) (x : symbol) (target : state) : Prop := {
    tg_sorted : isorted target;
    tg_reach : forall it, In it target <-> reach (advK st x) it
  }.

  Lemma target_closed st x target : target_ok st x target -> closed target.
  Proof. intros H jt y Hj Hi. apply (tg_reach _ _ _ H). eapply reach_step; [apply (tg_reach _ _ _ H), Hj|exact Hi]. Qed.

  Lemma target_wf st x target : (forall it, In it st -> item_wf it) -> target_ok st x target ->
    forall it, In it target -> item_wf it.
  Proof. intros Hw H it Hin. apply (reach_ok cx (advK st x) it Hfm); [apply (advK_ok cx st x Hw)|apply (tg_reach _ _ _ H), Hin]. Qed.

  Lemma target_just st x target : target_ok st x target ->
    forall it, In it target -> it_dot it = 0 -> exists jt, In jt target /\ implied_by jt it.
  Proof.
    intros H it Hin Hd. apply (tg_reach _ _ _ H) in Hin. destruct Hin as [it Hk|jt it Hj Hi].
    - apply advK_dot in Hk. lia.
    - exists jt. split; [apply (tg_reach _ _ _ H), Hj|exact Hi].
  Qed.

  Lemma target_cores st x target : target_ok st x target -> forall c, In c (map core_of target) <-> tcore st x c.
  Proof.
    intros H c. unfold LoopProofs.tcore. split.
    - intros Hin. apply in_map_iff in Hin as (it & <- & Hin). exists it. split; [apply (tg_reach _ _ _ H), Hin|reflexivity].
    - intros (it & Hr & <-). apply in_map. apply (tg_reach _ _ _ H), Hr.
  Qed.

  (* ---------- enqueue_state_if_needed ---------- *)

  Lemma sts_length b i st : sts b i = Some st -> i < length (b_states b).
  Proof. intros H. apply nth_error_Some. unfold sts in H. congruence. Qed.

  Lemma enqueue_spec b st x target b' j :
    BInv b -> target_ok st x target -> (forall it, In it st -> item_wf it) ->
    (exists k, In k target /\ it_dot k > 0) ->
    enqueue_state_if_needed b target = Ok (b', j) ->
    ext b b' /\ b_transitions b' = b_transitions b /\ BInv b' /\ j <> 0 /\
    (exists stj, sts b' j = Some stj /\ incl target stj /\ same_cores target stj) /\
    (forall i, In i (b_queue b') -> In i (b_queue b) \/ i = j) /\
    length (b_states b) <= length (b_states b') /\
    (forall k, length (b_states b) <= k -> k < length (b_states b') -> In k (b_queue b')).
  Proof.
    intros HB HT Hwf (k & Hk & Hkd) H. unfold enqueue_state_if_needed in H.
    destruct HB as [Hst Hq Htr Hdet Huniq (st0 & Hs0 & Hstart & Hdot0) Hsym Hrch].
    assert (Hnot0 : forall s0, sts b 0 = Some s0 -> ~ same_cores target s0).
    { intros s0 Hs Hsc. unfold sts in *. rewrite Hs0 in Hs. injection Hs as <-.
      assert (Hin : In (core_of k) (map core_of st0)) by (apply Hsc, in_map, Hk).
      apply in_map_iff in Hin as (it0 & Hc & Hin0). specialize (Hdot0 it0 Hin0).
      unfold core_of in Hc. injection Hc as _ Hd. lia. }
    destruct (index_of_mergable (b_states b) target 0) as [i|] eqn:Em.
    - (* merge into state i *)
      destruct (index_of_mergable_some _ _ _ _ Em) as (j0 & e & -> & Hn & Hsc & _). cbn [plus] in *.
      unfold sts in *. rewrite Hn in H. cbn [unwrap bind] in H.
      destruct (add_items e target false) as [st' added] eqn:Ea. injection H as <- <-.
      destruct (Hst j0 e Hn) as (Hes & Hec & Hew & Hej).
      destruct (add_items_spec _ _ _ _ _ Ea Hes) as (Hs' & Hin' & Hfalse & _).
      assert (Hj0 : j0 <> 0) by (intros ->; apply (Hnot0 e Hn Hsc)).
      assert (Hlt : j0 < length (b_states b)) by (apply nth_error_Some; congruence).
      assert (Hcores : same_cores e st').
      { intros c. split; intros Hc; apply in_map_iff in Hc as (it & <- & Hit).
        - apply in_map. apply Hin'. left. exact Hit.
        - apply Hin' in Hit as [Hit|Hit]; [apply in_map, Hit|]. apply Hsc. apply in_map, Hit. }
      assert (Hnth : forall i, nth_error (list_set (b_states b) j0 st') i = if Nat.eqb j0 i then Some st' else nth_error (b_states b) i).
      { intros i. rewrite nth_error_list_set. destruct (Nat.eqb j0 i); [|reflexivity].
        replace (Nat.ltb j0 (length (b_states b))) with true by (symmetry; apply Nat.ltb_lt; exact Hlt). reflexivity. }
      assert (Hext : ext b {| b_states := list_set (b_states b) j0 st'; b_transitions := b_transitions b;
                              b_queue := if added then b_queue b ++ [j0] else b_queue b |}).
      { split; [|split; [intros y Hy; exact Hy|intros y Hy; destruct added; [apply in_or_app; left|]; exact Hy]].
        intros i s Hs. unfold sts in *. cbn [b_states b_queue]. rewrite Hnth. destruct (Nat.eqb_spec j0 i) as [<-|Hne].
        - rewrite Hn in Hs. injection Hs as <-. exists st'. split; [reflexivity|]. split; [intros y Hy; apply Hin'; left; exact Hy|].
          split; [exact Hcores|]. destruct added; [right; apply in_or_app; right; left; reflexivity|left; apply (Hfalse eq_refl)].
        - exists s. split; [exact Hs|]. split; [intros y Hy; exact Hy|]. split; [apply same_cores_refl|left; reflexivity]. }
      split; [exact Hext|]. split; [reflexivity|]. split; [|split; [exact Hj0|split; [|split]]].
      + (* BInv *)
        split; unfold sts in *; cbn [b_states b_transitions b_queue].
        * intros i s Hs. rewrite Hnth in Hs. destruct (Nat.eqb_spec j0 i) as [<-|Hne]; [|apply Hst, Hs].
          injection Hs as <-. split; [exact Hs'|]. split; [|split].
          -- intros jt y Hj Hi. apply Hin'. apply Hin' in Hj as [Hj|Hj]; [left; exact (Hec jt y Hj Hi)|right; exact (target_closed _ _ _ HT jt y Hj Hi)].
          -- intros it Hit. apply Hin' in Hit as [Hit|Hit]; [apply Hew, Hit|exact (target_wf _ _ _ Hwf HT it Hit)].
          -- intros it Hit Hd. apply Hin' in Hit as [Hit|Hit].
             ++ destruct (Hej it Hit Hd) as [Hl|(jt & Hj & Hi)]; [left; exact Hl|right; exists jt; split; [apply Hin'; left; exact Hj|exact Hi]].
             ++ destruct (target_just _ _ _ HT it Hit Hd) as (jt & Hj & Hi). right. exists jt. split; [apply Hin'; right; exact Hj|exact Hi].
        * intros i Hi. rewrite list_set_length. destruct added; [apply in_app_or in Hi as [Hi|[<-|[]]]; [apply Hq, Hi|exact Hlt]|apply Hq, Hi].
        * intros t Ht. eapply trans_ok_ext; [exact Hext|apply Htr, Ht].
        * exact Hdet.
        * intros i1 i2 s1 s2 H1 H2 Hc12. rewrite Hnth in H1, H2.
          destruct (Nat.eqb_spec j0 i1) as [<-|Hn1]; destruct (Nat.eqb_spec j0 i2) as [<-|Hn2]; try reflexivity.
          -- injection H1 as <-. apply (Huniq j0 i2 e s2 Hn H2). eapply same_cores_trans; eauto.
          -- injection H2 as <-. apply (Huniq i1 j0 s1 e H1 Hn). eapply same_cores_trans; [exact Hc12|apply same_cores_sym, Hcores].
          -- apply (Huniq i1 i2 s1 s2 H1 H2 Hc12).
        * exists st0. rewrite Hnth. destruct (Nat.eqb_spec j0 0) as [E|_]; [contradiction|]. auto.
        * intros t Ht. eapply sym_ok_ext; [exact Hext|apply Hsym, Ht].
        * intros i s it Hs Hit. rewrite Hnth in Hs. destruct (Nat.eqb_spec j0 i) as [<-|Hne]; [|apply (Hrch i s it Hs Hit)].
          injection Hs as <-. apply Hin' in Hit as [Hit|Hit].
          -- apply (reach_mono (kernel e)); [apply kernel_incl; intros y Hy; apply Hin'; left; exact Hy|apply (Hrch j0 e it Hn Hit)].
          -- apply (reach_mono (advK st x)); [|apply (tg_reach _ _ _ HT), Hit].
             apply advK_kernel. intros y Hy. apply Hin'. right. apply (tg_reach _ _ _ HT), reach_in, Hy.
      + exists st'. unfold sts; cbn [b_states]. rewrite Hnth, Nat.eqb_refl. split; [reflexivity|].
        split; [intros y Hy; apply Hin'; right; exact Hy|]. eapply same_cores_trans; eauto.
      + cbn [b_queue]. intros i Hi. destruct added; [apply in_app_or in Hi as [Hi|[<-|[]]]; auto|auto].
      + cbn [b_states]. rewrite list_set_length. split; [lia|]. intros k0 H1 H2. lia.
    - (* a new state *)
      injection H as <- <-. pose proof (index_of_mergable_none _ _ _ Em) as Hnone.
      set (n := length (b_states b)).
      assert (Hn0 : n <> 0).
      { unfold n. unfold sts in Hs0. destruct (b_states b); [discriminate|cbn; lia]. }
      assert (Hnth : forall i, nth_error (b_states b ++ [target]) i = if Nat.eqb i n then Some target else nth_error (b_states b) i)
        by (intros i; apply nth_error_snoc).
      assert (Hext : ext b {| b_states := b_states b ++ [target]; b_transitions := b_transitions b; b_queue := b_queue b ++ [n] |}).
      { split; [|split; [intros y Hy; exact Hy|intros y Hy; apply in_or_app; left; exact Hy]].
        intros i s Hs. unfold sts in *. cbn [b_states]. rewrite Hnth.
        destruct (Nat.eqb_spec i n) as [->|Hne].
        { exfalso. assert (Hlt : n < length (b_states b)) by (apply nth_error_Some; congruence). unfold n in Hlt. lia. }
        exists s. split; [exact Hs|]. split; [intros y Hy; exact Hy|]. split; [apply same_cores_refl|left; reflexivity]. }
      split; [exact Hext|]. split; [reflexivity|]. split; [|split; [exact Hn0|split; [|split]]].
      + split; unfold sts in *; cbn [b_states b_transitions b_queue].
        * intros i s Hs. rewrite Hnth in Hs. destruct (Nat.eqb_spec i n) as [->|Hne]; [|apply Hst, Hs].
          injection Hs as <-. split; [apply (tg_sorted _ _ _ HT)|]. split; [eapply target_closed; eauto|]. split; [eapply target_wf; eauto|].
          intros it Hit Hd. right. eapply target_just; eauto.
        * intros i Hi. rewrite app_length. cbn [length]. apply in_app_or in Hi as [Hi|[<-|[]]]; [specialize (Hq i Hi); lia|unfold n; lia].
        * intros t Ht. eapply trans_ok_ext; [exact Hext|apply Htr, Ht].
        * exact Hdet.
        * intros i1 i2 s1 s2 H1 H2 Hc12. rewrite Hnth in H1, H2.
          destruct (Nat.eqb_spec i1 n) as [->|Hn1]; destruct (Nat.eqb_spec i2 n) as [->|Hn2]; try reflexivity.
          -- injection H1 as <-. exfalso. apply (Hnone i2 s2 H2 Hc12).
          -- injection H2 as <-. exfalso. apply (Hnone i1 s1 H1). apply same_cores_sym, Hc12.
          -- apply (Huniq i1 i2 s1 s2 H1 H2 Hc12).
        * exists st0. rewrite Hnth. destruct (Nat.eqb_spec 0 n) as [E|_]; [congruence|]. auto.
        * intros t Ht. eapply sym_ok_ext; [exact Hext|apply Hsym, Ht].
        * intros i s it Hs Hit. rewrite Hnth in Hs. destruct (Nat.eqb_spec i n) as [->|Hne]; [|apply (Hrch i s it Hs Hit)].
          injection Hs as <-. apply (reach_mono (advK st x)); [|apply (tg_reach _ _ _ HT), Hit].
          apply advK_kernel. intros y Hy. apply (tg_reach _ _ _ HT), reach_in, Hy.
      + exists target. unfold sts; cbn [b_states]. rewrite Hnth, Nat.eqb_refl. split; [reflexivity|]. split; [intros y Hy; exact Hy|apply same_cores_refl].
      + cbn [b_queue]. intros i Hi. apply in_app_or in Hi as [Hi|[<-|[]]]; auto.
      + cbn [b_states b_queue]. rewrite app_length. cbn [length]. split; [lia|]. intros k0 H1 H2.
        apply in_or_app. right. left. unfold n. lia.
  Qed.

  (* ---------- one transition target ---------- *)

  Lemma transition_target_spec b i x b' :
    BInv b -> Cov b [i] ->
    (exists sti it, sts b i = Some sti /\ In it sti /\ next_sym it = Some x) ->
    enqueue_transition_target cfuel cx b i x = Ok b' ->
    ext b b' /\ BInv b' /\ Cov b' [i] /\
    (forall sti it, sts b i = Some sti -> In it sti -> next_sym it = Some x -> cov_item b' i it x).
  Proof.
    intros HB HC (sti & it0 & Hsi & Hit0 & Hn0) H. unfold enqueue_transition_target in H.
    unfold sts in Hsi. rewrite Hsi in H. cbn [unwrap bind] in H.
    apply bind_ok in H as (advanced & Hadv & H). apply bind_ok in H as (target & Hcl & H).
    apply bind_ok in H as ([b1 j] & Henq & H). injection H as <-.
    rewrite (map_advance_spec cx x sti advanced Hadv) in Hcl.
    destruct (get_closure_spec cx cfuel _ _ Hcl) as (Htsorted & Htreach).
    assert (HT : target_ok sti x target) by (split; assumption).
    assert (Hwf : forall it, In it sti -> item_wf it) by (intros it Hit; apply (bi_states b HB i sti Hsi), Hit).
    assert (Hk : exists k, In k target /\ it_dot k > 0).
    { exists (adv it0). split; [|cbn; lia]. apply Htreach, reach_in, In_advK. eauto. }
    destruct (enqueue_spec b sti x target b1 j HB HT Hwf Hk Henq)
      as (Hext1 & Htr1 & HB1 & Hj0 & (stj & Hsj & Hincl & Hcj) & Hq1 & Hlen & Hnewq).
    set (t0 := {| tr_from := i; tr_to := j; tr_symbol := x |}).
    set (b2 := {| b_states := b_states b1; b_transitions := t0 :: b_transitions b1; b_queue := b_queue b1 |}).
    assert (Hext12 : ext b1 b2).
    { split; [|split; [intros y Hy; right; exact Hy|intros y Hy; exact Hy]].
      intros k s Hs. exists s. split; [exact Hs|]. split; [intros y Hy; exact Hy|]. split; [apply same_cores_refl|left; reflexivity]. }
    assert (Hext : ext b b2) by (eapply ext_trans; eauto).
    destruct (proj1 Hext1 i sti Hsi) as (sti1 & Hsi1 & Hinci & Hci & _).
    assert (Ht0 : trans_ok b2 t0).
    { exists sti1, stj. unfold t0. cbn [tr_from tr_to tr_symbol]. split; [exact Hsi1|]. split; [exact Hsj|]. split; [exact Hj0|].
      intros c. rewrite <- (tcore_stable cx sti sti1 x c Hci). rewrite <- (target_cores sti x target HT c).
      symmetry. apply Hcj. }
    split; [exact Hext|]. split; [|split].
    - (* BInv b2 *)
      destruct HB1 as [Hst1 Hqq1 Htrr1 Hdet1 Huniq1 Hz1 Hsym1 Hrch1]. split.
      + exact Hst1.
      + exact Hqq1.
      + intros t [<-|Ht]; [exact Ht0|]. destruct (Htrr1 t Ht) as (sf & st' & A & B & C & D). exists sf, st'. auto.
      + assert (Hnew : forall t2, In t2 (b_transitions b1) -> tr_from t2 = i -> tr_symbol t2 = x -> tr_to t2 = j).
        { intros t2 Ht2 Hf2 Hs2. rewrite Htr1 in Ht2.
          destruct (bi_trans b HB t2 Ht2) as (sf & st2 & Hsf & Hst2 & _ & Hc2).
          rewrite Hf2 in Hsf. unfold sts in Hsf. rewrite Hsi in Hsf. injection Hsf as <-. rewrite Hs2 in Hc2.
          destruct (proj1 Hext1 _ _ Hst2) as (st2' & Hst2' & _ & Hc2' & _).
          symmetry. apply (Huniq1 j (tr_to t2) stj st2' Hsj Hst2').
          eapply same_cores_trans; [apply same_cores_sym, Hcj|]. eapply same_cores_trans; [|exact Hc2'].
          intros c. rewrite (target_cores sti x target HT c). symmetry. apply Hc2. }
        intros t1 t2 [<-|H1] [<-|H2] Hf Hs; cbn [tr_from tr_to tr_symbol] in *.
        * reflexivity.
        * symmetry. apply Hnew; auto.
        * apply Hnew; auto.
        * apply Hdet1; auto.
      + exact Huniq1.
      + exact Hz1.
      + intros t [<-|Ht]; [|destruct (Hsym1 t Ht) as (sf & it & A & B & C); exists sf, it; auto].
        exists sti1, it0. unfold t0. cbn [tr_from tr_symbol]. split; [exact Hsi1|]. split; [apply Hinci, Hit0|exact Hn0].
      + exact Hrch1.
    - (* Cov b2 [i] *)
      intros k Hk1 Hk2 Hk3. cbn [b_states b_queue] in Hk1, Hk2.
      destruct (Nat.lt_ge_cases k (length (b_states b))) as [Hlt|Hge].
      + assert (Hkq : ~ In k (b_queue b)) by (intros Hin; apply Hk2; apply (proj2 (proj2 Hext1)), Hin).
        apply (cov_at_ext b b2 k Hext); [|apply (HC k Hlt Hkq Hk3)].
        intros s Hs. destruct (nth_error (b_states b) k) as [s0|] eqn:E; [|apply nth_error_None in E; lia].
        destruct (proj1 Hext1 k s0 E) as (s1 & Hs1 & _ & _ & [->|Hin]); [|contradiction].
        unfold sts, b2 in *. cbn [b_states] in Hs. rewrite Hs1 in Hs. injection Hs as <-. exact E.
      + exfalso. apply Hk2. apply Hnewq; assumption.
    - (* the items of state i with x after the dot are covered *)
      intros sti' it Hs' Hit Hn. unfold sts in Hs'. rewrite Hsi in Hs'. injection Hs' as <-.
      exists t0, stj. split; [left; reflexivity|]. cbn [tr_from tr_to tr_symbol]. split; [reflexivity|]. split; [reflexivity|].
      split; [exact Hsj|]. apply Hincl. apply Htreach, reach_in, In_advK. eauto.
  Qed.

  Lemma targets_spec i syms : forall b b',
    BInv b -> Cov b [i] ->
    (forall x, In x syms -> exists sti it, sts b i = Some sti /\ In it sti /\ next_sym it = Some x) ->
    enqueue_targets cfuel cx b i syms = Ok b' ->
    ext b b' /\ BInv b' /\ Cov b' [i] /\
    (forall sti it x, sts b i = Some sti -> In it sti -> In x syms -> next_sym it = Some x -> cov_item b' i it x).
  Proof.
    induction syms as [|x syms IH]; intros b b' HB HC Hsy H; cbn [enqueue_targets] in H.
    - injection H as <-. split; [apply ext_refl|]. split; [exact HB|]. split; [exact HC|]. intros ? ? ? ? ? [].
    - apply bind_ok in H as (b1 & H1 & H).
      destruct (transition_target_spec b i x b1 HB HC (Hsy x (or_introl eq_refl)) H1) as (He1 & HB1 & HC1 & Hcov1).
      assert (Hsy1 : forall y, In y syms -> exists sti it, sts b1 i = Some sti /\ In it sti /\ next_sym it = Some y).
      { intros y Hy. destruct (Hsy y (or_intror Hy)) as (sti & it & Hs & Hit & Hn).
        destruct (proj1 He1 i sti Hs) as (sti1 & Hs1 & Hinc & _). exists sti1, it. auto. }
      destruct (IH b1 b' HB1 HC1 Hsy1 H) as (He2 & HB2 & HC2 & Hcov2).
      split; [eapply ext_trans; eauto|]. split; [exact HB2|]. split; [exact HC2|].
      intros sti it y Hs Hit [<-|Hy] Hn.
      + eapply cov_item_ext; [exact He2|]. eapply Hcov1; eauto.
      + destruct (proj1 He1 i sti Hs) as (sti1 & Hs1 & Hinc & _). eapply Hcov2; eauto.
  Qed.

  Lemma build_loop_spec fuel : forall b b',
    BInv b -> Cov b [] -> build_loop fuel cfuel cx b = Ok b' ->
    BInv b' /\ Cov b' [] /\ b_queue b' = [].
  Proof.
    induction fuel as [|f IH]; intros b b' HB HC H; cbn [build_loop] in H; [discriminate|].
    destruct (b_queue b) as [|i q] eqn:Eq.
    - injection H as <-. auto.
    - cbn [b_states] in H. destruct (nth_error (b_states b) i) as [sti|] eqn:Ei; [|discriminate]. cbn [unwrap bind] in H.
      apply bind_ok in H as (syms & Hsy & H). apply bind_ok in H as (b1 & Ht & H).
      set (b0 := {| b_states := b_states b; b_transitions := b_transitions b; b_queue := q |}) in *.
      assert (HB0 : BInv b0).
      { destruct HB as [A B C D E F G H']. split; auto. intros k Hk. apply B. rewrite Eq. right. exact Hk. }
      assert (HC0 : Cov b0 [i]).
      { intros k Hk1 Hk2 Hk3. cbn [b_states b_queue] in *.
        assert (Hc : cov_at b k). { apply HC; [exact Hk1| |intros []]. rewrite Eq. intros [<-|Hin]; [apply Hk3; left; reflexivity|contradiction]. }
        exact Hc. }
      pose proof (symbols_right_of_dot_spec cx sti syms Hsy) as Hsyms.
      destruct (targets_spec i syms b0 b1 HB0 HC0) as (He & HB1 & HC1 & Hcov); [|exact Ht|].
      { intros x Hx. apply Hsyms in Hx as (it & Hit & Hn). exists sti, it. auto. }
      apply (IH b1 b' HB1); [|exact H].
      intros k Hk1 Hk2 _. destruct (Nat.eq_dec k i) as [->|Hne]; [|apply HC1; [exact Hk1|exact Hk2|intros [E|[]]; congruence]].
      intros st' it x Hs' Hit Hn.
      destruct (proj1 He i sti Ei) as (sti1 & Hs1 & _ & _ & [->|Hin]); [|contradiction].
      rewrite Hs1 in Hs'. injection Hs' as <-.
      apply (Hcov sti it x Ei Hit); [|exact Hn]. apply Hsyms. eauto.
  Qed.

  (* ---------- the whole construction ---------- *)

  Lemma initial_builder_inv start :
    get_closure cfuel cx [start_item] = Ok start ->
    BInv {| b_states := [start]; b_transitions := []; b_queue := [0] |} /\
    Cov {| b_states := [start]; b_transitions := []; b_queue := [0] |} [].
  Proof.
    intros Hs. destruct (get_closure_spec cx cfuel _ _ Hs) as (Hsorted & Hreach).
    assert (Hwf0 : item_wf start_item).
    { split; [|exact I]. exists [SymN (cx_start cx)]. split; [reflexivity|cbn; lia]. }
    assert (Hdot : forall it, In it start -> it_dot it = 0).
    { intros it Hit. apply Hreach in Hit. destruct Hit as [it [<-|[]]|jt it _ Hi]; [reflexivity|apply (implied_by_wf cx jt it Hi)]. }
    split; [|intros k Hk1 Hk2; exfalso; cbn in Hk1, Hk2; apply Hk2; left; lia].
    split; unfold sts; cbn [b_states b_transitions b_queue].
    - intros i st Hst. destruct i as [|i]; [|destruct i; discriminate]. injection Hst as <-.
      split; [exact Hsorted|]. split; [|split].
      + intros jt y Hj Hi. apply Hreach. eapply reach_step; [apply Hreach, Hj|exact Hi].
      + intros it Hit. apply (reach_ok cx [start_item] it Hfm); [intros k0 [<-|[]]; exact Hwf0|apply Hreach, Hit].
      + intros it Hit _. apply Hreach in Hit. destruct Hit as [it [<-|[]]|jt it Hj Hi]; [left; auto|].
        right. exists jt. split; [apply Hreach, Hj|exact Hi].
    - intros i [<-|[]]. cbn. lia.
    - intros t [].
    - intros t1 t2 [].
    - intros i j si sj Hi Hj _. destruct i as [|[|i]]; try discriminate. destruct j as [|[|j]]; try discriminate. reflexivity.
    - exists start. split; [reflexivity|]. split; [apply Hreach, reach_in; left; reflexivity|exact Hdot].
    - intros t [].
    - intros i st it Hst Hit. destruct i as [|[|i]]; try discriminate. injection Hst as <-.
      apply (reach_mono [start_item]); [|apply Hreach, Hit]. intros y [<-|[]]. apply filter_In. split; [apply Hreach, reach_in; left; reflexivity|reflexivity].
  Qed.

  Theorem build_spec fuel start b :
    get_closure cfuel cx [start_item] = Ok start ->
    build_loop fuel cfuel cx {| b_states := [start]; b_transitions := []; b_queue := [0] |} = Ok b ->
    BInv b /\ Cov b [] /\ b_queue b = [].
  Proof.
    intros Hs H. destruct (initial_builder_inv start Hs) as (HB & HC).
    apply (build_loop_spec fuel _ b HB HC H).
  Qed.
End Inv.
